// C19 harness main: stubs for what the included xz sources reference, line protocol, and `gen` mode (stage G).
//
//   c19 gen <scratch-dir>                         -> prints lean/XzVerif/Gen/C19.lean
//   c19                                           -> line protocol on stdin/stdout:
//     name <c|d> <fmt> <sfx|none> <name>          -> "ok <hex>" | "skip already" | "skip unknown" | "fatal"
//     rt <fmt> <dfmt> <sfx|none> <name>           -> "<compress result> | <decompress result of that name>"
//     sfx <suffix>                                -> "ok" | "fatal"            (real suffix_set + suffix_is_set)
//     ts <suffix> <name>                          -> decimal                   (real test_suffix)
//     mode <m> <0 same gid|1 group set|2 group fails>  -> decimal mode handed to fchmod by io_copy_attrs
//     exit <w|e>...                               -> decimal exit_status after these message_warning/message_error calls
//     args <prog> <env> <o1> <o2>                 -> decimal, real args_parse() (indices: see c19_args.c)
//     cd <dir>                                    -> "ok"
//     open <c> <f> <k> <path>                     -> decimal code (see c19.h)  (real io_open_src on a real object)
//     cycle <c|d> <fmt> <sfx|none> <c> <f> <k> <groupfail> <ownerfail> <path>
//                                                 -> "<stage> <code> <dest hex|-> <exit_status>"
//   Byte strings are hex, "-" is the empty string; fmt is auto|xz|lzma|lzip|raw.
#include "private.h"
#include <stdarg.h>
#include <setjmp.h>
#include "hproto.h"
#include "c19.h"

// ---- globals normally defined in args.c / coder.c / signals.c -------------------------------------------------------
// opt_stdout, opt_force, opt_keep_original, opt_synchronous, opt_robot, opt_ignore_check, stdin_filename: the real args.c
// (c19_args.c). The rest of what args.c / file_io.c reference from coder.c, hardware.c, options.c, util.c, message.c:
enum operation_mode opt_mode = MODE_COMPRESS;
enum format_type opt_format = FORMAT_XZ;
bool opt_auto_adjust = true;
bool opt_single_stream = false;
uint64_t opt_block_size = 0;
block_list_entry *opt_block_list = NULL;
uint64_t block_list_largest;
uint32_t block_list_chain_mask;
uint64_t opt_flush_timeout = 0;
volatile sig_atomic_t user_abort = 0;

void coder_set_check(lzma_check check) { (void)check; }
void coder_set_preset(uint32_t new_preset) { (void)new_preset; }
void coder_set_extreme(void) {}
void coder_add_filter(lzma_vli id, void *options) { (void)id; (void)options; }
void coder_set_compression_settings(void) {}
void coder_add_filters_from_str(const char *filter_str) { (void)filter_str; }
void coder_add_block_filters(const char *str, size_t slot) { (void)str; (void)slot; }
void hardware_threads_set(uint32_t threadlimit) { (void)threadlimit; }
void hardware_memlimit_set(uint64_t new_memlimit, bool set_compress, bool set_decompress, bool set_mtdec, bool is_percentage)
{ (void)new_memlimit; (void)set_compress; (void)set_decompress; (void)set_mtdec; (void)is_percentage; }
void hardware_memlimit_show(void) {}
lzma_options_delta *options_delta(const char *str) { (void)str; return NULL; }
lzma_options_bcj *options_bcj(const char *str) { (void)str; return NULL; }
lzma_options_lzma *options_lzma(const char *str) { (void)str; return NULL; }
uint64_t str_to_uint64(const char *name, const char *value, uint64_t min, uint64_t max) { (void)name; (void)value; (void)max; return min; }
lzma_bool lzma_check_is_supported(lzma_check check) { (void)check; return true; }
void message_help(bool long_help) { (void)long_help; }
void message_version(void) {}
void message_filters_help(void) {}
void message_verbosity_increase(void) {}
void message_verbosity_decrease(void) {}

jmp_buf c19_fatal_jmp;
bool c19_fatal_armed;
int c19_n_warn, c19_n_err, c19_last_code, c19_first_code, c19_last_errno;

void
c19_msg_reset(void)
{
	c19_n_warn = c19_n_err = 0;
	c19_last_code = c19_first_code = C19_OK;
	c19_last_errno = 0;
}

static void
note(int code, int err)
{
	if (c19_n_warn + c19_n_err == 0) {
		c19_first_code = code;
		c19_last_errno = err;
	}
	c19_last_code = code;
}

static bool has(const char *fmt, const char *needle) { return strstr(fmt, needle) != NULL; }

void
message_warning(const char *fmt, ...)
{
	const int e = errno;
	int code = C19_W_OTHER;
	if (has(fmt, "symbolic link")) code = C19_W_SYMLINK;
	else if (has(fmt, "Is a directory")) code = C19_W_DIR;
	else if (has(fmt, "Not a regular file")) code = C19_W_NOTREG;
	else if (has(fmt, "setuid")) code = C19_W_SETUID;
	else if (has(fmt, "sticky")) code = C19_W_STICKY;
	else if (has(fmt, "hard link")) code = C19_W_NLINK;
	else if (has(fmt, "already has")) code = C19_W_ALREADY;
	else if (has(fmt, "unknown suffix")) code = C19_W_UNKNOWN;
	else if (has(fmt, "file owner")) code = C19_W_OWNER;
	else if (has(fmt, "file group")) code = C19_W_GROUP;
	else if (has(fmt, "file permissions")) code = C19_W_PERM;
	note(code, e);
	++c19_n_warn;
	c19_exit_set(E_WARNING);
}

void
message_error(const char *fmt, ...)
{
	const int e = errno;
	int code = C19_E_OTHER;
	if (has(fmt, "Cannot read data from standard input")) c19_plan_add("\001R");
	if (has(fmt, "Unexpected end of input") || has(fmt, "Null character found")) c19_plan_add("\001E");
	if (strcmp(fmt, "%s: %s") == 0) code = C19_E_ERRNO;
	else if (has(fmt, "Cannot remove")) code = C19_E_REMOVE;
	else if (has(fmt, "Empty filename")) code = C19_E_EMPTY;
	note(code, e);
	++c19_n_err;
	c19_exit_set(E_ERROR);
}

void
message_fatal(const char *fmt, ...)
{
	if (c19_fatal_armed)
		longjmp(c19_fatal_jmp, 1);
	fprintf(stderr, "c19 harness: unexpected message_fatal: %s\n", fmt);
	abort();
}

void message(enum message_verbosity v, const char *fmt, ...) { (void)v; (void)fmt; }
void message_bug(void) { fprintf(stderr, "c19 harness: message_bug\n"); abort(); }
void message_init(void) {}
void message_set_files(unsigned int files) { (void)files; }
void message_try_help(void) {}
void message_filename(const char *src_name) { (void)src_name; }
enum message_verbosity message_verbosity_get(void) { return V_WARNING; }
void message_progress_update(void) {}

const char *tuklib_mask_nonprint(const char *str) { return str; }
const char *tuklib_mask_nonprint_r(const char *str, char **mem) { (void)mem; return str; }
void tuklib_open_stdxxx(int status) { (void)status; }
jmp_buf c19_exit_jmp;
bool c19_exit_armed;
int c19_exit_code;
void
tuklib_exit(int status, int err_status, int show_error)
{
	(void)err_status; (void)show_error;
	if (c19_exit_armed) {
		c19_exit_code = status;
		longjmp(c19_exit_jmp, 1);
	}
	exit(status);
}

int c19_plan_n;
char *c19_plan[C19_PLAN_MAX];
void
c19_plan_reset(void)
{
	for (int i = 0; i < c19_plan_n; ++i)
		free(c19_plan[i]);
	c19_plan_n = 0;
}
void
c19_plan_add(const char *s)
{
	if (c19_plan_n < C19_PLAN_MAX)
		c19_plan[c19_plan_n++] = xstrdup(s);
}
void tuklib_progname_init(char **argv) { (void)argv; }

void *
xrealloc(void *ptr, size_t size)
{
	void *p = realloc(ptr, size ? size : 1);
	if (p == NULL)
		abort();
	return p;
}

char *
xstrdup(const char *src)
{
	const size_t n = strlen(src) + 1;
	return memcpy(xrealloc(NULL, n), src, n);
}

void signals_block(void) {}
void signals_unblock(void) {}
void signals_init(void) {}
void signals_exit(void) {}
void hardware_init(void) {}
// the real main() calls this for every input; the special pointer stdin_filename means "standard input"
void coder_run(const char *filename) { c19_plan_add(filename == stdin_filename ? "\001S" : filename); }
void coder_free(void) {}
void list_file(const char *filename) { (void)filename; abort(); }
void list_totals(void) {}
bool is_tty_stdin(void) { return false; }
bool is_tty_stdout(void) { return false; }
bool is_tty(int fd) { (void)fd; return false; }
int mytime_get_flush_timeout(void) { return 0; }
void mytime_set_flush_time(void) {}


// ---- protocol -----------------------------------------------------------------------------------------------------

static int
fmt_of(const char *s)
{
	if (!strcmp(s, "auto")) return FORMAT_AUTO;
	if (!strcmp(s, "xz")) return FORMAT_XZ;
	if (!strcmp(s, "lzma")) return FORMAT_LZMA;
#ifdef HAVE_LZIP_DECODER
	if (!strcmp(s, "lzip")) return FORMAT_LZIP;
#endif
	if (!strcmp(s, "raw")) return FORMAT_RAW;
	fprintf(stderr, "bad format %s\n", s);
	exit(3);
}

// hex -> exactly sized NUL-terminated heap string
static char *
cstr(const char *hex)
{
	size_t n;
	uint8_t *p = hp_hex(hex, &n);
	char *s = malloc(n + 1);
	if (s == NULL) abort();
	memcpy(s, p, n);
	s[n] = '\0';
	free(p);
	return s;
}

// installs the custom suffix ("none" = unset); false if suffix_set() refused it
static bool
install_suffix(const char *tok)
{
	if (!strcmp(tok, "none"))
		return c19_set_suffix(NULL);
	char *s = cstr(tok);
	const bool ok = c19_set_suffix(s);
	free(s);
	return ok;
}

// prints "ok <hex>" / "skip already" / "skip unknown"; returns the name (malloc'ed) or NULL
static char *
do_name(int mode, int format, const char *name)
{
	c19_msg_reset();
	char *r = c19_dest_name(mode, format, name);
	if (r != NULL) {
		printf("ok ");
		hp_put_hex((const uint8_t *)r, strlen(r));
		if (c19_n_warn + c19_n_err != 0)
			printf(" unexpected-message");
	} else if (c19_n_warn == 1 && c19_last_code == C19_W_ALREADY)
		printf("skip already");
	else if (c19_n_warn == 1 && c19_last_code == C19_W_UNKNOWN)
		printf("skip unknown");
	else
		printf("skip other-%d-%d", c19_n_warn, c19_last_code);
	return r;
}

int
main(int argc, char **argv)
{
	c19_io_init();
	c19_exit_reset();
	if (argc >= 3 && !strcmp(argv[1], "gen")) {
		printf("-- GENERATED by harness/c19_*.c (`c19 gen`) by running the real functions of /repo/src/xz/{suffix,file_io,main}.c;\n"
			"-- do not edit. Regenerated on every run of ./check C19.\n");
		printf("namespace XzVerif.Gen.C19\n\n");
		c19_probe_tables(stdout);
		c19_probe_exit(stdout);
		c19_probe_args(stdout);
		fflush(stdout);
		c19_probe_main(stdout, argv[2]);
		printf("/-- `IO_BUFFER_SIZE` (src/xz/file_io.h): the unit in which io_write() looks for all-zero buffers -/\n"
			"def ioBufferSize : Nat := %u\n\n", (unsigned)IO_BUFFER_SIZE);
		fflush(stdout);
		c19_probe_files(stdout, argv[2]);
		printf("end XzVerif.Gen.C19\n");
		return 0;
	}

	hp_line l = {0};
	while (hp_next(&l)) {
		const char *op = l.tok[0];
		if (!strcmp(op, "name") && l.ntok == 5) {
			if (!install_suffix(l.tok[3])) {
				printf("fatal\n");
				continue;
			}
			char *nm = cstr(l.tok[4]);
			char *r = do_name(l.tok[1][0] == 'c' ? MODE_COMPRESS : MODE_DECOMPRESS, fmt_of(l.tok[2]), nm);
			printf("\n");
			free(r);
			free(nm);
		} else if (!strcmp(op, "rt") && l.ntok == 5) {
			if (!install_suffix(l.tok[3])) {
				printf("fatal\n");
				continue;
			}
			char *nm = cstr(l.tok[4]);
			char *t = do_name(MODE_COMPRESS, fmt_of(l.tok[1]), nm);
			printf(" | ");
			if (t != NULL) {
				// hand the decompressor an exactly sized copy as well
				char *t2 = malloc(strlen(t) + 1);
				if (t2 == NULL) abort();
				strcpy(t2, t);
				char *r = do_name(MODE_DECOMPRESS, fmt_of(l.tok[2]), t2);
				free(r);
				free(t2);
			} else
				printf("-");
			printf("\n");
			free(t);
			free(nm);
		} else if (!strcmp(op, "sfx") && l.ntok == 2) {
			char *s = cstr(l.tok[1]);
			printf("%s\n", c19_set_suffix(s) ? "ok" : "fatal");
			free(s);
			c19_set_suffix(NULL);
		} else if (!strcmp(op, "ts") && l.ntok == 3) {
			char *s = cstr(l.tok[1]), *n = cstr(l.tok[2]);
			printf("%zu\n", c19_test_suffix(s, n));
			free(s);
			free(n);
		} else if (!strcmp(op, "mode") && l.ntok == 3) {
			const unsigned sc = (unsigned)hp_u64(l.tok[2]);
			printf("%u\n", c19_copy_attrs_mode((unsigned)hp_u64(l.tok[1]), sc == 0, sc == 2, false, true));
		} else if (!strcmp(op, "exit")) {
			c19_exit_reset();
			for (int i = 1; i < l.ntok; ++i) {
				if (l.tok[i][0] == 'w')
					message_warning("w");
				else
					message_error("e");
			}
			printf("%d\n", c19_exit_get());
			c19_exit_reset();
		} else if (!strcmp(op, "args") && l.ntok == 5) {
			printf("%d\n", c19_args_code((int)hp_u64(l.tok[1]), (int)hp_u64(l.tok[2]), (int)hp_u64(l.tok[3]), (int)hp_u64(l.tok[4])));
		} else if (!strcmp(op, "cd") && l.ntok == 2) {
			char *d = cstr(l.tok[1]);
			printf("%s\n", chdir(d) == 0 ? "ok" : "fail");
			free(d);
		} else if (!strcmp(op, "open") && l.ntok == 5) {
			char *p = cstr(l.tok[4]);
			c19_exit_reset();
			int code = c19_open_src(p, l.tok[1][0] == '1', l.tok[2][0] == '1', l.tok[3][0] == '1');
			if (code == C19_E_ERRNO)
				printf("%d errno=%d %d\n", code, c19_last_errno, c19_exit_get());
			else
				printf("%d %d\n", code, c19_exit_get());
			free(p);
		} else if (!strcmp(op, "cycle") && l.ntok == 10) {
			if (!install_suffix(l.tok[3])) {
				printf("fatal\n");
				continue;
			}
			char *p = cstr(l.tok[9]);
			int stage = -1;
			char *dn = NULL;
			c19_exit_reset();
			int code = c19_cycle(l.tok[1][0] == 'c' ? MODE_COMPRESS : MODE_DECOMPRESS, fmt_of(l.tok[2]), p,
					l.tok[4][0] == '1', l.tok[5][0] == '1', l.tok[6][0] == '1',
					l.tok[7][0] == '1', l.tok[8][0] == '1', "C19-payload", 11, &stage, &dn);
			printf("%d %d ", stage, code);
			if (dn != NULL)
				hp_put_hex((const uint8_t *)dn, strlen(dn));
			else
				putchar('-');
			if (code == C19_E_ERRNO)
				printf(" errno=%d", c19_last_errno);
			printf(" %d\n", c19_exit_get());
			free(dn);
			free(p);
		} else {
			printf("bad-op\n");
		}
		fflush(stdout);
	}
	c19_set_suffix(NULL);
	hp_done(&l);
	return 0;
}
