// C19 harness, translation unit 1: the REAL src/xz/suffix.c, included textually so that the static functions
// (test_suffix, uncompressed_name, compressed_name) and the static custom_suffix are reachable.
//
// Build notes:
//  * POSIX build: TUKLIB_DOSLIKE, __DJGPP__, __VMS and _MSC_VER are not defined, so the DOS/VMS branches of suffix.c
//    (case-insensitive compare, '\\' and ':' as separators, 8.3 names, ".lzm", "-" suffix) are compiled out.
//  * strlen/strcmp are routed through recording wrappers. When recording is off they are plain pass-throughs.
//    With recording on, the sequence of `suffix` arguments that the real code hands to strlen() reveals the
//    built-in suffix tables *in the order the code tests them* (see c19_probe_tables()), which is what
//    Gen/C19.lean is generated from.
#include "sysdefs.h"
#include <string.h>
#include <setjmp.h>

#include "c19.h"

#define C19_REC_MAX 64
static bool c19_rec_on;
static int c19_rec_n;
static const char *c19_rec[C19_REC_MAX];

static size_t
c19_strlen(const char *s)
{
	if (c19_rec_on && c19_rec_n < C19_REC_MAX)
		c19_rec[c19_rec_n++] = s;
	// compressed_name() with --format=raw and no custom suffix would do strlen(NULL); args.c makes that
	// unreachable. The table probe never does it either, but stay defined.
	if (s == NULL)
		return 0;
	return (strlen)(s);
}

// memcpy(dst, NULL, 0) happens only on the args.c-unreachable path above; keep UBSan's nonnull check quiet there
// without weakening it anywhere else (n > 0 still goes to the real, intercepted memcpy).
static void *
c19_memcpy(void *d, const void *s, size_t n)
{
	return n == 0 ? d : (memcpy)(d, s, n);
}

#define strlen c19_strlen
#define memcpy c19_memcpy
#include "suffix.c"
#undef strlen
#undef memcpy


// ---- direct calls -------------------------------------------------------------------------------------------

// Sets custom_suffix through the real suffix_set() (or clears it). Returns false if suffix_set() was fatal.
bool
c19_set_suffix(const char *sfx)
{
	free(custom_suffix);
	custom_suffix = NULL;
	if (sfx == NULL)
		return true;
	c19_fatal_armed = true;
	if (setjmp(c19_fatal_jmp) != 0) {
		c19_fatal_armed = false;
		return false;
	}
	suffix_set(sfx);
	c19_fatal_armed = false;
	return suffix_is_set();
}

bool
c19_suffix_is_set(void)
{
	return suffix_is_set();
}

// Calls the real suffix_get_dest_name(). `name` must be an exactly sized heap copy (ASan sees over/under-reads).
char *
c19_dest_name(int mode, int format, const char *name)
{
	opt_mode = (enum operation_mode)mode;
	opt_format = (enum format_type)format;
	return suffix_get_dest_name(name);
}

// Calls the real static test_suffix().
size_t
c19_test_suffix(const char *suffix, const char *name)
{
	return test_suffix(suffix, name, (strlen)(name));
}


// ---- table probe (stage G) ----------------------------------------------------------------------------------

static void
put_lean_bytes(FILE *f, const char *s)
{
	fputc('[', f);
	for (size_t i = 0; s != NULL && s[i] != '\0'; ++i)
		fprintf(f, "%s0x%02x", i ? ", " : "", (unsigned char)s[i]);
	fputc(']', f);
}

// A name that carries no suffix at all (only 'q' bytes, longer than any suffix).
static const char c19_plain[] = "qqqqqqqqqqqqqqqqqqqqqqqqqqqqqqqqqqqqqqqqqqqqqqqqqqqqqqqqqqqqqqqq";
static const char c19_marker[] = "\001MARK\002";

void
c19_probe_tables(FILE *f)
{
	fprintf(f, "-- enum values (src/xz/coder.h, src/xz/main.h)\n");
	fprintf(f, "def modeCompress : Nat := %d\ndef modeDecompress : Nat := %d\ndef modeTest : Nat := %d\ndef modeList : Nat := %d\n",
			(int)MODE_COMPRESS, (int)MODE_DECOMPRESS, (int)MODE_TEST, (int)MODE_LIST);
	fprintf(f, "def formatAuto : Nat := %d\ndef formatXz : Nat := %d\ndef formatLzma : Nat := %d\ndef formatLzip : Nat := %d\ndef formatRaw : Nat := %d\n",
			(int)FORMAT_AUTO, (int)FORMAT_XZ, (int)FORMAT_LZMA,
#ifdef HAVE_LZIP_DECODER
			(int)FORMAT_LZIP,
#else
			-1,
#endif
			(int)FORMAT_RAW);
	fprintf(f, "def eSuccess : Nat := %d\ndef eError : Nat := %d\ndef eWarning : Nat := %d\n\n",
			(int)E_SUCCESS, (int)E_ERROR, (int)E_WARNING);

	// (1) uncompressed_name(): a name without any suffix walks the whole table, in order; the `compressed`
	//     column is what is handed to strlen() at the top of each test_suffix().
	const char *comp[C19_REC_MAX];
	c19_set_suffix(NULL);
	opt_mode = MODE_DECOMPRESS;
	opt_format = FORMAT_AUTO;
	c19_rec_n = 0;
	c19_rec_on = true;
	char *r = uncompressed_name(c19_plain, sizeof(c19_plain) - 1);
	c19_rec_on = false;
	free(r);
	int ncomp = c19_rec_n;
	for (int i = 0; i < ncomp; ++i)
		comp[i] = c19_rec[i];

	// (2) for each entry, "<plain><entry>" matches at that entry (or an earlier one); the last recorded strlen
	//     argument is then the `uncompressed` replacement.
	fprintf(f, "/-- `suffixes[]` of uncompressed_name(): (compressed, uncompressed) in the order tested. -/\n");
	fprintf(f, "def uncompTable : List (List UInt8 × List UInt8) := [");
	for (int i = 0; i < ncomp; ++i) {
		char buf[256];
		snprintf(buf, sizeof(buf), "%s%s", c19_plain, comp[i]);
		c19_rec_n = 0;
		c19_rec_on = true;
		r = uncompressed_name(buf, (strlen)(buf));
		c19_rec_on = false;
		// entries 0..j tested (j+1 calls) + strlen(new_suffix): the matching entry must be entry i itself
		const char *repl = (r != NULL && c19_rec_n == i + 2) ? c19_rec[c19_rec_n - 1] : "\377shadowed-or-unmatched";
		fprintf(f, "%s\n  (", i ? "," : "");
		put_lean_bytes(f, comp[i]);
		fprintf(f, ", ");
		put_lean_bytes(f, repl);
		fprintf(f, ")");
		free(r);
	}
	fprintf(f, "]\n\n");

	// (3) with --format=raw the built-in table is not consulted at all
	opt_format = FORMAT_RAW;
	c19_rec_n = 0;
	c19_rec_on = true;
	r = uncompressed_name(c19_plain, sizeof(c19_plain) - 1);
	c19_rec_on = false;
	free(r);
	fprintf(f, "/-- number of built-in suffixes uncompressed_name() tests under --format=raw -/\ndef uncompRawTested : Nat := %d\n\n", c19_rec_n);

	// (4) compressed_name(): per format, the suffixes refused (in order) and the default suffix appended.
	//     With a marker as custom suffix, everything recorded before the marker is the built-in list.
	static const struct { const char *nm; int fmt; } fm[] = {
		{ "Xz", FORMAT_XZ }, { "Lzma", FORMAT_LZMA }, { "Raw", FORMAT_RAW } };
	opt_mode = MODE_COMPRESS;
	for (size_t k = 0; k < 3; ++k) {
		opt_format = (enum format_type)fm[k].fmt;
		c19_set_suffix(c19_marker);
		c19_rec_n = 0;
		c19_rec_on = true;
		r = compressed_name(c19_plain, sizeof(c19_plain) - 1);
		c19_rec_on = false;
		free(r);
		fprintf(f, "/-- `all_suffixes[FORMAT - 1]` of compressed_name(): names ending in one of these are refused. -/\n");
		fprintf(f, "def compSuffixes%s : List (List UInt8) := [", fm[k].nm);
		int n = 0;
		for (int i = 0; i < c19_rec_n && strcmp(c19_rec[i], c19_marker) != 0; ++i) {
			fprintf(f, "%s", n++ ? ", " : "");
			put_lean_bytes(f, c19_rec[i]);
		}
		fprintf(f, "]\n");
		c19_set_suffix(NULL);
		fprintf(f, "def compDefault%s : Option (List UInt8) := ", fm[k].nm);
		if (fm[k].fmt == FORMAT_RAW) {
			// suffixes[0] is NULL for raw: observed through the recorded NULL argument
			c19_rec_n = 0;
			c19_rec_on = true;
			r = compressed_name(c19_plain, sizeof(c19_plain) - 1);
			c19_rec_on = false;
			free(r);
			if (c19_rec_n > 0 && c19_rec[c19_rec_n - 1] == NULL)
				fprintf(f, "none\n\n");
			else {
				fprintf(f, "some ");
				put_lean_bytes(f, c19_rec_n > 0 ? c19_rec[c19_rec_n - 1] : "");
				fprintf(f, "\n\n");
			}
		} else {
			c19_rec_n = 0;
			c19_rec_on = true;
			r = compressed_name(c19_plain, sizeof(c19_plain) - 1);
			c19_rec_on = false;
			fprintf(f, "some ");
			put_lean_bytes(f, c19_rec_n > 0 ? c19_rec[c19_rec_n - 1] : "");
			fprintf(f, "\n\n");
			free(r);
		}
	}
}
