// C04 observation engine: shared declarations (see c04_main.c for the line protocol).
#ifndef VERIF_C04_H
#define VERIF_C04_H
#include "hproto.h"
#include <lzma.h>
#include <stdarg.h>

// lzma_ret values as bits of a mask (documented-return-code sets)
#define RB(r) (1u << (unsigned)(r))
#define R_OK RB(LZMA_OK)
#define R_END RB(LZMA_STREAM_END)
#define R_NOCHK RB(LZMA_NO_CHECK)
#define R_UNSUP RB(LZMA_UNSUPPORTED_CHECK)
#define R_GETCHK RB(LZMA_GET_CHECK)
#define R_MEM RB(LZMA_MEM_ERROR)
#define R_MEMLIMIT RB(LZMA_MEMLIMIT_ERROR)
#define R_FORMAT RB(LZMA_FORMAT_ERROR)
#define R_OPTIONS RB(LZMA_OPTIONS_ERROR)
#define R_DATA RB(LZMA_DATA_ERROR)
#define R_BUF RB(LZMA_BUF_ERROR)
#define R_PROG RB(LZMA_PROG_ERROR)
#define R_SEEK RB(LZMA_SEEK_NEEDED)

// Result of one execution of one entry point.
typedef struct {
	int init_ret;          // return value of the init function (-1 = n/a)
	int ret;               // final lzma_ret of the coding calls / of the one-shot function (-1 = n/a)
	uint64_t calls;        // lzma_code calls (or parser calls)
	uint64_t in_total;     // bytes consumed
	uint64_t out_total;    // bytes produced
	uint32_t crc;          // CRC32 of everything produced (forces the output to be defined)
	unsigned max_noprog;   // longest run of LZMA_OK without progress
	uint64_t seeks;
	uint64_t aux;          // entry-point specific (e.g. decoded value)
	bool capped;           // stopped by the harness output/step cap, not by the decoder
	bool timing;           // result depends on thread timing (MT decoder): excluded from the determinism compare
	char bad[400];         // first violation, empty = none
} c04_res;

void c04_bad(c04_res *r, const char *fmt, ...);
// ret must be in the documented mask `doc`; LZMA_MEM_ERROR additionally requires a refused allocation.
void c04_check_ret(c04_res *r, const char *fn, int ret, unsigned doc);

// deterministic PRNG (splitmix64)
typedef struct { uint64_t s; } c04_rng;
uint64_t c04_next(c04_rng *g);
uint64_t c04_below(c04_rng *g, uint64_t n);   // uniform in [0,n), n > 0

// counting allocator (c04_main.c)
extern lzma_allocator c04_alloc;
extern size_t c04_live_bytes, c04_live_blocks, c04_peak_bytes, c04_n_allocs, c04_n_refused, c04_alloc_cap;
extern uint8_t c04_junk;                       // fill byte for fresh allocations and output buffers
void *c04_xmalloc(size_t n);                   // harness-side malloc (exactly sized, junk filled), aborts on failure
uint8_t *c04_dup(const uint8_t *p, size_t n);  // exactly sized heap copy

// watchdog (c04_main.c): wall-clock seconds + CPU seconds for the current op
void c04_watch(const char *what);

// one execution = one of these
typedef struct {
	const char *ep;
	uint64_t seed;
	uint64_t p[4];
	const uint8_t *in;
	size_t in_len;
} c04_op;

// c04_stream.c: `reuse` != NULL = initialise the coder on that (already used, never ended) handle and do not call
// lzma_end; `abandon_after` != 0 = stop after that many lzma_code calls
bool c04_is_stream_ep(const char *ep);
bool c04_run_stream_ep(const c04_op *op, c04_res *r, lzma_stream *reuse, unsigned abandon_after);
// c04_parse.c: `reuse` = long-lived helper objects (lzma_index_hash) are re-initialised from a used one
bool c04_run_parse_ep(const c04_op *op, c04_res *r, bool reuse);
// c04_gen.c: "gen <format> <variant> <hex>" -> prints hex of a valid file
bool c04_gen(int ntok, char **tok);
// c04_idx.c: "idx ..." grid of the real index macros
bool c04_idx(int ntok, char **tok);

// raw filter chains by variant number (c04_stream.c); returns false if the variant does not exist.
// `store` provides the option structs the chain points to.
typedef struct {
	lzma_options_lzma lzma;
	lzma_options_delta delta;
	lzma_options_bcj bcj;
	uint8_t preset[64];
	uint8_t *heap_preset;   // exactly sized preset dictionary set up by c04_chain_mods (freed by c04_chain_done)
} c04_chain_store;
#define C04_N_CHAINS 24
bool c04_chain(unsigned variant, lzma_filter *f, c04_chain_store *st);
// Decoder-side option modifiers for the LZMA filter of a valid chain (variant < 24), packed in one word:
//   byte 0 % 6: preset dictionary: 0 as the chain says, 1: 1 byte, 2: 100 bytes, 3: dict_size bytes, 4: dict_size + 1000, 5: 64
//   byte 1 % 76: 0 as the chain says, else lc/lp/pb = the (n-1)-th of the 75 valid combinations (LZMA1 / LZMA1EXT only matter)
//   byte 2 % 9: dictionary size: 0 as the chain says, else 0, 1, 4095, 4096, 4097, 65536, 1 MiB, 1 MiB + 1
//   byte 3 % 4: LZMA1EXT ext_flags: 0 as the chain says, 1: none, 2: ALLOW_EOPM, 3: an unsupported bit (-> LZMA_OPTIONS_ERROR)
// `encoder`: keep the options acceptable to the encoders (dictionary >= 4096, valid ext_flags).
void c04_chain_mods(c04_chain_store *st, uint64_t mods, bool encoder);
void c04_chain_done(c04_chain_store *st);

#endif
