// Second translation unit of the C18 stage-G probe: the real src/xz/main.c (its main() renamed and left
// unreferenced; the linker drops it with --gc-sections) so that the static `exit_status` is reachable.
#define main xz_main_unused
#include "main.c"
#undef main

int gen_c18_set_exit(int old_status, int new_status)
{
	exit_status = (enum exit_status_type)old_status;
	if (new_status != E_SUCCESS)
		set_exit_status((enum exit_status_type)new_status);
	return (int)exit_status;
}

int gen_c18_get_exit(void)
{
	return (int)exit_status;
}
