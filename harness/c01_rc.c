// C01 harness, range coder only: the REAL rc_reset / rc_bit / rc_direct / rc_flush / rc_encode / rc_shift_low of
// src/liblzma/rangecoder/range_encoder.h applied to an operation string, and the REAL rc_encode_dummy.
//   ops: '0'/'1' = direct bit; 'a'..'p' = bit 0 with probability variable (c - 'a'); 'A'..'P' = bit 1 with (c - 'A').
//   16 probability variables starting at RC_BIT_MODEL_TOTAL / 2.
// The queue is handed to rc_encode in pieces of random-looking sizes (1..40 symbols) and with a small output buffer that
// is refilled, so that the resumable paths (rc_encode returning true in the middle of the queue and inside the flush) run.
#include "range_encoder.h"
#include <stdio.h>

void c01_rc_op(const char *ops);
void c01_rcdummy_op(const char *ops, unsigned long long limit);

static void put_hex(const uint8_t *p, size_t n)
{
	static const char d[] = "0123456789abcdef";
	if (n == 0) { putchar('-'); return; }
	for (size_t i = 0; i < n; ++i) { putchar(d[p[i] >> 4]); putchar(d[p[i] & 15]); }
}

static bool queue_op(lzma_range_encoder *rc, probability *probs, char c)
{
	if (c == '0' || c == '1') rc_direct(rc, (uint32_t)(c - '0'), 1);
	else if (c >= 'a' && c <= 'p') rc_bit(rc, &probs[c - 'a'], 0);
	else if (c >= 'A' && c <= 'P') rc_bit(rc, &probs[c - 'A'], 1);
	else return false;
	return true;
}

void c01_rc_op(const char *ops)
{
	const size_t n = strcmp(ops, "-") == 0 ? 0 : strlen(ops);
	probability probs[16];
	for (int i = 0; i < 16; ++i) bit_reset(probs[i]);
	lzma_range_encoder rc;
	rc_reset(&rc);
	const size_t cap = n + 16;
	uint8_t *out = malloc(cap);
	if (out == NULL) abort();
	size_t out_pos = 0;
	size_t i = 0;
	unsigned k = 7;
	while (i < n) {
		// queue a piece
		k = (k * 13 + 5) % 40;
		size_t piece = 1 + k;
		for (size_t j = 0; j < piece && i < n; ++j, ++i)
			if (!queue_op(&rc, probs, ops[i])) { printf("bad-op\n"); free(out); return; }
		// drain it through a tiny window of the output buffer
		for (;;) {
			size_t lim = out_pos + (k % 3);           // 0, 1 or 2 bytes of space
			if (lim > cap) lim = cap;
			if (!rc_encode(&rc, out, &out_pos, lim)) break;
			if (out_pos == cap) { printf("FAIL rc overflow\n"); free(out); return; }
			k = (k * 13 + 5) % 40;
		}
	}
	rc_flush(&rc);
	for (;;) {
		size_t lim = out_pos + 1 + (k % 2);
		if (lim > cap) lim = cap;
		if (!rc_encode(&rc, out, &out_pos, lim)) break;
		if (out_pos == cap) { printf("FAIL rc overflow\n"); free(out); return; }
		k = (k * 13 + 5) % 40;
	}
	put_hex(out, out_pos);
	putchar('\n');
	free(out);
}

// "rcdummy <prefix ops> <pending ops> <limit>": encode the prefix for real, queue the pending ops, ask rc_encode_dummy
void c01_rcdummy2_op(const char *pre, const char *pend, unsigned long long limit);
void c01_rcdummy2_op(const char *pre, const char *pend, unsigned long long limit)
{
	const size_t n = strcmp(pre, "-") == 0 ? 0 : strlen(pre);
	const size_t m = strcmp(pend, "-") == 0 ? 0 : strlen(pend);
	if (m > RC_SYMBOLS_MAX - 5) { printf("bad-op\n"); return; }
	probability probs[16];
	for (int i = 0; i < 16; ++i) bit_reset(probs[i]);
	lzma_range_encoder rc;
	rc_reset(&rc);
	uint8_t *out = malloc(n + 16);
	if (out == NULL) abort();
	size_t out_pos = 0;
	for (size_t i = 0; i < n; ) {
		for (size_t j = 0; j < 30 && i < n; ++j, ++i)
			if (!queue_op(&rc, probs, pre[i])) { printf("bad-op\n"); free(out); return; }
		if (rc_encode(&rc, out, &out_pos, n + 16)) { printf("FAIL rc overflow\n"); free(out); return; }
	}
	for (size_t i = 0; i < m; ++i)
		if (!queue_op(&rc, probs, pend[i])) { printf("bad-op\n"); free(out); return; }
	printf("%d %llu\n", rc_encode_dummy(&rc, limit) ? 1 : 0, (unsigned long long)rc.out_total);
	free(out);
}
