// C11: a stub inner coder installed through the REAL lzma_next_strm_init / lzma_next_coder_init path.
// It replays a scripted (consumed, produced, ret) triple per call (clamped to the space it is given, so it
// always obeys the coder law) and records how it was called. Shared by harness/c11_main.c and harness/gen_c11.c.
#ifndef VERIF_C11_STUB_H
#define VERIF_C11_STUB_H
#include "common.h"

// Largest lzma_action value, from the PUBLIC enum (the private macro of common.h may be renamed or replaced).
#define C11_ACTION_MAX ((unsigned)LZMA_FULL_BARRIER)

typedef struct {
	// script for the next call
	size_t want_c, want_p;
	lzma_ret want_ret;
	// record of the last call
	unsigned calls;
	const uint8_t *in;
	uint8_t *out;
	size_t in_pos0, in_size, out_pos0, out_size;
	size_t did_c, did_p;
	lzma_action action;
	uint32_t in_sum;     // sum of the bytes it read (forces the reads so ASan sees them)
	uint8_t fill;        // next byte value to write
} c11_stub;

static unsigned c11_stub_ends = 0;

static lzma_ret
c11_stub_code(void *coder_ptr, const lzma_allocator *allocator,
		const uint8_t *restrict in, size_t *restrict in_pos, size_t in_size,
		uint8_t *restrict out, size_t *restrict out_pos, size_t out_size, lzma_action action)
{
	(void)allocator;
	c11_stub *s = coder_ptr;
	++s->calls;
	s->in = in; s->out = out;
	s->in_pos0 = *in_pos; s->in_size = in_size;
	s->out_pos0 = *out_pos; s->out_size = out_size;
	s->action = action;
	size_t c = s->want_c, p = s->want_p;
	if (c > in_size - *in_pos) c = in_size - *in_pos;
	if (p > out_size - *out_pos) p = out_size - *out_pos;
	// read what it "consumes" (so that ASan sees the reads); a multi-gigabyte slice is only sampled at both ends
	if (c <= ((size_t)1 << 16)) {
		for (size_t i = 0; i < c; ++i)
			s->in_sum += in[*in_pos + i];
	} else {
		for (size_t i = 0; i < 4096; ++i)
			s->in_sum += in[*in_pos + i] + in[*in_pos + c - 1 - i];
	}
	for (size_t i = 0; i < p; ++i)
		out[*out_pos + i] = s->fill++;
	*in_pos += c;
	*out_pos += p;
	s->did_c = c; s->did_p = p;
	return s->want_ret;
}

static void
c11_stub_end(void *coder_ptr, const lzma_allocator *allocator)
{
	++c11_stub_ends;
	lzma_free(coder_ptr, allocator);
}

// Same shape as the init functions of the real coders (cf. lzma_alone_encoder_init).
static lzma_ret
c11_stub_coder_init(lzma_next_coder *next, const lzma_allocator *allocator, c11_stub **handle)
{
	lzma_next_coder_init(&c11_stub_coder_init, next, allocator);
	c11_stub *s = next->coder;
	if (s == NULL) {
		s = lzma_alloc(sizeof(c11_stub), allocator);
		if (s == NULL)
			return LZMA_MEM_ERROR;
		next->coder = s;
		next->code = &c11_stub_code;
		next->end = &c11_stub_end;
	}
	memset(s, 0, sizeof(*s));
	s->fill = 0xA5;
	*handle = s;
	return LZMA_OK;
}

// Same shape as a public init function (cf. lzma_alone_encoder): lzma_next_strm_init + supported_actions.
static lzma_ret
c11_stub_init(lzma_stream *strm, c11_stub **handle, unsigned mask)
{
	lzma_next_strm_init(c11_stub_coder_init, strm, handle);
	// like the real init functions: only ENABLE the supported actions; clearing is lzma_strm_init()'s job
	for (unsigned a = 0; a <= C11_ACTION_MAX; ++a)
		if ((mask >> a) & 1)
			strm->internal->supported_actions[a] = true;
	return LZMA_OK;
}

// The private sequence enum is reported SYMBOLICALLY through the tree's own constants, in the model's order
// (run, sync, fullflush, finish, barrier, end, error): renumbering the enum or reordering lzma_internal changes nothing.
#define C11_NSEQ 7
static const char *const c11_seq_names[C11_NSEQ] = { "run", "sync", "fullflush", "finish", "barrier", "end", "error" };

static int c11_seq_value(unsigned k)
{
	switch (k) {
	case 0: return ISEQ_RUN;
	case 1: return ISEQ_SYNC_FLUSH;
	case 2: return ISEQ_FULL_FLUSH;
	case 3: return ISEQ_FINISH;
	case 4: return ISEQ_FULL_BARRIER;
	case 5: return ISEQ_END;
	default: return ISEQ_ERROR;
	}
}

// Model index (0..6) of the current sequence state, or 7 if it is none of the known constants.
static unsigned c11_seq_index(const lzma_stream *strm)
{
	for (unsigned k = 0; k < C11_NSEQ; ++k)
		if ((int)strm->internal->sequence == c11_seq_value(k))
			return k;
	return 7;
}

#endif
