// C04: the REAL index macros/inline functions of the LZMA decoder evaluated on given parameters, so that the Lean
// formulas the theorems are about (Driver/C04.lean) can be compared with them on a grid.
//   idx lit <lc> <lp> <pos> <prev>     -> offset (in probabilities) of literal_subcoder(...) from the array base
//   idx dget <pos> <size> <distance>   -> index read by dict_get (pos >= 1, size < 65536)
//   idx dstate <len>                   -> get_dist_state(len)
#include "c04.h"
#include "lz_decoder.h"
#include "lzma_common.h"

bool c04_idx(int ntok, char **tok)
{
	if (ntok < 3)
		return false;
	if (!strcmp(tok[1], "lit") && ntok == 6) {
		static probability base[LITERAL_CODERS_MAX * LITERAL_CODER_SIZE];
		const uint32_t lc = (uint32_t)hp_u64(tok[2]), lp = (uint32_t)hp_u64(tok[3]);
		const uint32_t pos = (uint32_t)hp_u64(tok[4]), prev = (uint32_t)hp_u64(tok[5]);
		const uint32_t literal_mask = literal_mask_calc(lc, lp);
		const uintptr_t p = (uintptr_t)literal_subcoder(base, lc, literal_mask, pos, prev);
		printf("%" PRIu64 "\n", (uint64_t)((p - (uintptr_t)base) / sizeof(probability)));
		return true;
	}
	if (!strcmp(tok[1], "dget") && ntok == 5) {
		const size_t pos = (size_t)hp_u64(tok[2]), size = (size_t)hp_u64(tok[3]);
		const uint32_t distance = (uint32_t)hp_u64(tok[4]);
		if (size == 0 || size >= 65536 || pos == 0 || pos > size)
			return false;
		uint8_t *lo = malloc(size), *hi = malloc(size);
		for (size_t i = 0; i < size; ++i) {
			lo[i] = (uint8_t)i;
			hi[i] = (uint8_t)(i >> 8);
		}
		lzma_dict d;
		memset(&d, 0, sizeof(d));
		d.pos = pos;
		d.size = size;
		d.buf = lo;
		unsigned v = dict_get(&d, distance);
		d.buf = hi;
		v |= (unsigned)dict_get(&d, distance) << 8;
		free(lo);
		free(hi);
		printf("%u\n", v);
		return true;
	}
	if (!strcmp(tok[1], "dstate") && ntok == 3) {
		const uint32_t len = (uint32_t)hp_u64(tok[2]);
		printf("%u\n", (unsigned)get_dist_state(len));
		return true;
	}
	return false;
}
