// C09: counting lzma_allocator.
//  * every request is recorded (size, in order) and counted (live bytes, peak live bytes);
//  * requests below C09_BIG are served by malloc (so ASan still sees overruns);
//  * requests of C09_BIG bytes or more are served *lazily*: a virtual range of the requested size is reserved and
//    every C09_CHUNK-sized piece of it is a MAP_SHARED mapping of one small memfd that belongs to this allocation
//    alone, so a declared 1.5 GiB dictionary (or a 12 GiB match-finder tree) costs at most C09_CHUNK bytes of RAM even
//    when liblzma memzero()s it. Only the first C09_CHUNK bytes of such a buffer hold independent data: harness runs
//    that really code data keep every buffer they use below C09_BIG or touch only its first few KiB. Different
//    allocations never share memory (worker threads of the threaded decoder own one dictionary each).
//  * optional refusal: requests larger than `refuse_above` are recorded and answered with NULL.
#ifndef VERIF_C09_ALLOC_H
#define VERIF_C09_ALLOC_H
#define _GNU_SOURCE
#include <stdint.h>
#include <inttypes.h>
#include <stdlib.h>
#include <string.h>
#include <stdio.h>
#include <stdbool.h>
#include <pthread.h>
#include <sys/mman.h>
#include <unistd.h>
#include "lzma.h"

#define C09_BIG   ((size_t)16 << 20)
#define C09_CHUNK ((size_t)16 << 20)
#define C09_HDR   64
#define C09_MAGIC_MALLOC UINT64_C(0xC09A110C00000001)
#define C09_MAGIC_MAPPED UINT64_C(0xC09A110C00000002)
#define C09_MAXREC 20000

typedef struct {
	pthread_mutex_t mu;
	uint64_t live;          // bytes currently allocated (sum of requested sizes)
	uint64_t peak;          // maximum of live
	uint64_t nalloc;        // number of successful allocations
	uint64_t nfree;
	uint64_t refuse_above;  // 0 = never refuse
	uint64_t nrefused;
	uint64_t sizes[C09_MAXREC];   // requested sizes in request order (refused ones too)
	uint32_t nsizes;
	bool overflow;          // more than C09_MAXREC requests
	bool bad_free;          // free of a pointer that is not ours
	// optional slow allocator: the first `delay_count` requests of exactly `delay_size` bytes sleep `delay_ms` first
	// (an application's allocator may take any time; used to reproduce schedule-dependent behaviour reliably)
	uint64_t delay_size;
	uint32_t delay_ms;
	uint32_t delay_count;
} c09_counter;

static int c09_new_memfd(void)
{
	int fd = memfd_create("c09-alias", 0);
	if (fd < 0 || ftruncate(fd, (off_t)C09_CHUNK) != 0) {
		perror("memfd");
		exit(3);
	}
	return fd;
}

static void *c09_map_big(size_t size)
{
	const size_t page = 4096;
	size_t body = (size + page - 1) & ~(page - 1);
	size_t total = page + body;
	uint8_t *base = mmap(NULL, total, PROT_NONE, MAP_PRIVATE | MAP_ANONYMOUS | MAP_NORESERVE, -1, 0);
	if (base == MAP_FAILED)
		return NULL;
	// header page: private anonymous memory
	if (mmap(base, page, PROT_READ | PROT_WRITE, MAP_PRIVATE | MAP_ANONYMOUS | MAP_FIXED, -1, 0) == MAP_FAILED) {
		munmap(base, total);
		return NULL;
	}
	int fd = c09_new_memfd();
	for (size_t off = 0; off < body; off += C09_CHUNK) {
		size_t n = body - off < C09_CHUNK ? body - off : C09_CHUNK;
		if (mmap(base + page + off, n, PROT_READ | PROT_WRITE, MAP_SHARED | MAP_FIXED, fd, 0) == MAP_FAILED) {
			close(fd);
			munmap(base, total);
			return NULL;
		}
	}
	close(fd);      // the mappings keep the memory alive until munmap()
	uint64_t *h = (uint64_t *)(base + page - C09_HDR);
	h[0] = C09_MAGIC_MAPPED;
	h[1] = size;
	h[2] = total;
	return base + page;
}

static void *c09_alloc(void *opaque, size_t nmemb, size_t size)
{
	c09_counter *c = opaque;
	(void)nmemb;
	pthread_mutex_lock(&c->mu);
	if (c->nsizes < C09_MAXREC)
		c->sizes[c->nsizes++] = size;
	else
		c->overflow = true;
	if (c->refuse_above != 0 && size > c->refuse_above) {
		++c->nrefused;
		pthread_mutex_unlock(&c->mu);
		return NULL;
	}
	uint32_t delay = 0;
	if (c->delay_count > 0 && size == c->delay_size) {
		--c->delay_count;
		delay = c->delay_ms;
	}
	pthread_mutex_unlock(&c->mu);
	if (delay > 0)
		usleep((useconds_t)delay * 1000);

	void *ret;
	if (size >= C09_BIG) {
		ret = c09_map_big(size);
	} else {
		uint8_t *p = malloc(size + C09_HDR);
		if (p == NULL)
			return NULL;
		uint64_t *h = (uint64_t *)p;
		h[0] = C09_MAGIC_MALLOC;
		h[1] = size;
		ret = p + C09_HDR;
	}
	if (ret == NULL)
		return NULL;
	pthread_mutex_lock(&c->mu);
	++c->nalloc;
	c->live += size;
	if (c->live > c->peak)
		c->peak = c->live;
	pthread_mutex_unlock(&c->mu);
	return ret;
}

static void c09_free(void *opaque, void *ptr)
{
	c09_counter *c = opaque;
	if (ptr == NULL)
		return;
	uint64_t *h = (uint64_t *)((uint8_t *)ptr - C09_HDR);
	uint64_t size = h[1];
	if (h[0] == C09_MAGIC_MALLOC) {
		h[0] = 0;
		free(h);
	} else if (h[0] == C09_MAGIC_MAPPED) {
		size_t total = h[2];
		munmap((uint8_t *)ptr - 4096, total);
	} else {
		c->bad_free = true;
		return;
	}
	pthread_mutex_lock(&c->mu);
	++c->nfree;
	c->live -= size;
	pthread_mutex_unlock(&c->mu);
}

static void c09_counter_init(c09_counter *c, lzma_allocator *a)
{
	memset(c, 0, sizeof(*c));
	pthread_mutex_init(&c->mu, NULL);
	a->alloc = &c09_alloc;
	a->free = &c09_free;
	a->opaque = c;
}

static void c09_print_sizes(const c09_counter *c, uint32_t from)
{
	if (from >= c->nsizes) { putchar('-'); return; }
	for (uint32_t i = from; i < c->nsizes; ++i)
		printf("%s%" PRIu64, i > from ? "," : "", c->sizes[i]);
	if (c->overflow)
		printf(",...");
}

#endif
