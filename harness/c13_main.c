// C13 harness: line protocol over the REAL lzma_index_* / lzma_index_hash_* / lzma_file_info_decoder API.
// One result line per op. Index slots 0..7, iterator slots 0..3, one index_hash.
//
//   reset | init k | end k | sum k | reuse <0|1>  (1: encodes/decodes/finfo run on one long-lived lzma_stream)
//   appendn k <count> <unpadded> <uncompressed>  -> "<ret> <done> S ..."   (stops at the first failure)
//   append k <unpadded> <uncompressed>          -> "<ret> S ..."
//   flags k <version> <backward_size> <check>   -> "<ret> S ..."
//   padding k <n>                               -> "<ret> S ..."
//   cat d s                                     -> "<ret> S(d)"          (s becomes null on success)
//   dup d s                                     -> "ok S(d)"
//   encode k <delta>      (single call, out_size = lzma_index_size + delta)   -> "<ret> <out_pos> <hex>"
//   encodes k <chunk>     (lzma_index_encoder + lzma_code, out chunks)        -> "<ret> <total_out> <hex>"
//   decode k <memlimit> <hex>            (lzma_index_buffer_decode)           -> "<ret> <in_pos> <memlimit> S(k)"
//   decodes k <memlimit> <chunk> <hex>   (lzma_index_decoder + lzma_code)     -> "<ret> <total_in> <memusage if MEMLIMIT_ERROR else -> S(k)"
//   memusage <streams> <blocks>
//   iter k <mode>         full iteration with a fresh iterator, items separated by " | "
//   locate k <target>     fresh iterator                                       -> "miss" | item
//   iinit t k | irewind t | inext t <mode> | ilocate t <target>   persistent iterators ("stale" once their index is gone)
//   finfo k <memlimit> <chunk> <seed> <hex>   file-info decoder on a whole file, honouring LZMA_SEEK_NEEDED
//                                              -> "<ret> <seek_beyond_file> S(k) # seeks=<n> calls=<m>"
//   hinit | happend <unpadded> <uncompressed> | hsize | hdecode <chunk> <hex>
//
// S = "S <stream_count> <block_count> <index_size> <stream_size> <total_size> <file_size> <uncompressed_size> <checks> <memused> <index_padding>"
// item = "s:<number>,<block_count>,<compressed_offset>,<uncompressed_offset>,<compressed_size>,<uncompressed_size>,<padding>,<flags>"
//        [";b:<number_in_file>,<compressed_file_offset>,<uncompressed_file_offset>,<number_in_stream>,<compressed_stream_offset>,
//             <uncompressed_stream_offset>,<uncompressed_size>,<unpadded_size>,<total_size>"]      (b part iff stream.block_count > 0)
//        flags = "-" (unknown) | "<version>/<backward_size>/<check>"
#include "hproto.h"
#include <assert.h>
#include "lzma.h"
// internal (non-API) helper of index.c, declared in common/index.h
extern uint32_t lzma_index_padding_size(const lzma_index *i);

#define NSLOT 8
#define NITER 4
#define ALLOC_MAX (UINT64_C(1) << 28)

// Deterministic allocator: every request above ALLOC_MAX fails (the model has the same rule), so that
// huge prealloc values coming from a hostile Index give LZMA_MEM_ERROR on every machine.
static void *h_alloc(void *opaque, size_t nmemb, size_t size)
{
	(void)opaque;
	if (size != 0 && nmemb > ALLOC_MAX / size)
		return NULL;
	return malloc(nmemb * size ? nmemb * size : 1);
}
static void h_free(void *opaque, void *ptr) { (void)opaque; free(ptr); }
static lzma_allocator h_allocator = { &h_alloc, &h_free, NULL };

// Handle reuse: with `reuse 1` the encoder/decoder/file-info ops run on ONE long-lived lzma_stream that is
// re-initialised for every op without lzma_end() in between (whatever state the previous op left it in);
// the answers must be those of a fresh handle.
static lzma_stream g_strm = LZMA_STREAM_INIT;
static bool g_reuse = false;

static lzma_index *idx[NSLOT];
static unsigned gen[NSLOT];
static struct { lzma_index_iter it; int slot; unsigned gen; bool inited; } iters[NITER];
static lzma_index_hash *hash;

static void drop(int k)
{
	if (idx[k] != NULL) {
		lzma_index_end(idx[k], &h_allocator);
		idx[k] = NULL;
	}
	++gen[k];
}

static void put_sum(const lzma_index *i)
{
	if (i == NULL) { printf("null"); return; }
	printf("S %" PRIu64 " %" PRIu64 " %" PRIu64 " %" PRIu64 " %" PRIu64 " %" PRIu64 " %" PRIu64 " %" PRIu32 " %" PRIu64 " %" PRIu32,
		lzma_index_stream_count(i), lzma_index_block_count(i), lzma_index_size(i), lzma_index_stream_size(i),
		lzma_index_total_size(i), lzma_index_file_size(i), lzma_index_uncompressed_size(i), lzma_index_checks(i),
		lzma_index_memused(i), lzma_index_padding_size(i));
}

static void put_item(const lzma_index_iter *it)
{
	printf("s:%" PRIu64 ",%" PRIu64 ",%" PRIu64 ",%" PRIu64 ",%" PRIu64 ",%" PRIu64 ",%" PRIu64 ",",
		it->stream.number, it->stream.block_count, it->stream.compressed_offset, it->stream.uncompressed_offset,
		it->stream.compressed_size, it->stream.uncompressed_size, it->stream.padding);
	if (it->stream.flags == NULL)
		printf("-");
	else
		printf("%" PRIu32 "/%" PRIu64 "/%u", it->stream.flags->version, it->stream.flags->backward_size,
			(unsigned)it->stream.flags->check);
	if (it->stream.block_count > 0)
		printf(";b:%" PRIu64 ",%" PRIu64 ",%" PRIu64 ",%" PRIu64 ",%" PRIu64 ",%" PRIu64 ",%" PRIu64 ",%" PRIu64 ",%" PRIu64,
			it->block.number_in_file, it->block.compressed_file_offset, it->block.uncompressed_file_offset,
			it->block.number_in_stream, it->block.compressed_stream_offset, it->block.uncompressed_stream_offset,
			it->block.uncompressed_size, it->block.unpadded_size, it->block.total_size);
}

static int slot_of(const char *s) { int k = atoi(s); return (k >= 0 && k < NSLOT) ? k : -1; }
static int iter_of(const char *s) { int k = atoi(s); return (k >= 0 && k < NITER) ? k : -1; }

// chunk size of the next read: fixed if seed == 0, else pseudo-random in 1..chunk
static size_t next_chunk(size_t chunk, uint64_t *state)
{
	if (*state == 0)
		return chunk;
	*state = *state * UINT64_C(6364136223846793005) + UINT64_C(1442695040888963407);
	return 1 + (size_t)((*state >> 33) % chunk);
}

int main(void)
{
	hp_line l = {0};
	while (hp_next(&l)) {
		const char *op = l.tok[0];
		const int n = l.ntok;
		if (!strcmp(op, "init") && n == 2 && slot_of(l.tok[1]) >= 0) {
			int k = slot_of(l.tok[1]);
			drop(k);
			idx[k] = lzma_index_init(&h_allocator);
			printf("ok "); put_sum(idx[k]); printf("\n");
		} else if (!strcmp(op, "reset") && n == 1) {
			for (int k = 0; k < NSLOT; ++k) drop(k);
			for (int t = 0; t < NITER; ++t) iters[t].inited = false;
			lzma_index_hash_end(hash, &h_allocator);
			hash = NULL;
			lzma_end(&g_strm);       // every history starts with a fresh handle, so that a replay needs no earlier history
			g_reuse = false;
			printf("ok\n");
		} else if (!strcmp(op, "reuse") && n == 2) {
			g_reuse = hp_u64(l.tok[1]) != 0;
			if (!g_reuse) { lzma_end(&g_strm); }
			printf("ok\n");
		} else if (!strcmp(op, "appendn") && n == 5 && slot_of(l.tok[1]) >= 0) {
			// <count> identical appends, stops at the first failure: "<ret> <done> S"
			int k = slot_of(l.tok[1]);
			if (idx[k] == NULL) { printf("null\n"); continue; }
			uint64_t cnt = hp_u64(l.tok[2]), done = 0;
			lzma_ret r = LZMA_OK;
			while (done < cnt) {
				r = lzma_index_append(idx[k], &h_allocator, hp_u64(l.tok[3]), hp_u64(l.tok[4]));
				if (r != LZMA_OK) break;
				++done;
			}
			printf("%d %" PRIu64 " ", (int)r, done); put_sum(idx[k]); printf("\n");
		} else if (!strcmp(op, "end") && n == 2 && slot_of(l.tok[1]) >= 0) {
			drop(slot_of(l.tok[1]));
			printf("ok\n");
		} else if (!strcmp(op, "sum") && n == 2 && slot_of(l.tok[1]) >= 0) {
			put_sum(idx[slot_of(l.tok[1])]); printf("\n");
		} else if (!strcmp(op, "append") && n == 4 && slot_of(l.tok[1]) >= 0) {
			int k = slot_of(l.tok[1]);
			if (idx[k] == NULL) { printf("null\n"); continue; }
			lzma_ret r = lzma_index_append(idx[k], &h_allocator, hp_u64(l.tok[2]), hp_u64(l.tok[3]));
			printf("%d ", (int)r); put_sum(idx[k]); printf("\n");
		} else if (!strcmp(op, "flags") && n == 5 && slot_of(l.tok[1]) >= 0) {
			int k = slot_of(l.tok[1]);
			if (idx[k] == NULL) { printf("null\n"); continue; }
			lzma_stream_flags f;
			memset(&f, 0, sizeof(f));
			f.version = (uint32_t)hp_u64(l.tok[2]);
			f.backward_size = hp_u64(l.tok[3]);
			f.check = (lzma_check)hp_u64(l.tok[4]);
			lzma_ret r = lzma_index_stream_flags(idx[k], &f);
			printf("%d ", (int)r); put_sum(idx[k]); printf("\n");
		} else if (!strcmp(op, "padding") && n == 3 && slot_of(l.tok[1]) >= 0) {
			int k = slot_of(l.tok[1]);
			if (idx[k] == NULL) { printf("null\n"); continue; }
			lzma_ret r = lzma_index_stream_padding(idx[k], hp_u64(l.tok[2]));
			printf("%d ", (int)r); put_sum(idx[k]); printf("\n");
		} else if (!strcmp(op, "cat") && n == 3 && slot_of(l.tok[1]) >= 0 && slot_of(l.tok[2]) >= 0) {
			int d = slot_of(l.tok[1]), s = slot_of(l.tok[2]);
			if (d == s || idx[d] == NULL || idx[s] == NULL) { printf("null\n"); continue; }
			lzma_ret r = lzma_index_cat(idx[d], idx[s], &h_allocator);
			if (r == LZMA_OK) { idx[s] = NULL; ++gen[s]; }
			printf("%d ", (int)r); put_sum(idx[d]); printf("\n");
		} else if (!strcmp(op, "dup") && n == 3 && slot_of(l.tok[1]) >= 0 && slot_of(l.tok[2]) >= 0) {
			int d = slot_of(l.tok[1]), s = slot_of(l.tok[2]);
			if (idx[s] == NULL) { printf("null\n"); continue; }
			lzma_index *c = lzma_index_dup(idx[s], &h_allocator);
			drop(d);
			idx[d] = c;
			printf("ok "); put_sum(idx[d]); printf("\n");
		} else if (!strcmp(op, "encode") && n == 3 && slot_of(l.tok[1]) >= 0) {
			int k = slot_of(l.tok[1]);
			if (idx[k] == NULL) { printf("null\n"); continue; }
			int64_t want = (int64_t)lzma_index_size(idx[k]) + strtoll(l.tok[2], NULL, 10);
			size_t out_size = want < 0 ? 0 : (size_t)want;
			uint8_t *out = malloc(out_size ? out_size : 1);
			size_t out_pos = 0;
			lzma_ret r = lzma_index_buffer_encode(idx[k], out, &out_pos, out_size);
			printf("%d %zu ", (int)r, out_pos); hp_put_hex(out, out_pos); printf("\n");
			free(out);
		} else if (!strcmp(op, "encodes") && n == 3 && slot_of(l.tok[1]) >= 0) {
			int k = slot_of(l.tok[1]);
			if (idx[k] == NULL) { printf("null\n"); continue; }
			size_t chunk = (size_t)hp_u64(l.tok[2]);
			if (chunk == 0) chunk = 1;
			lzma_stream fresh = LZMA_STREAM_INIT;
			lzma_stream *sp = g_reuse ? &g_strm : &fresh;
#define strm (*sp)
			strm.allocator = &h_allocator;
			lzma_ret r = lzma_index_encoder(&strm, idx[k]);
			size_t cap = (size_t)lzma_index_size(idx[k]) + 64, len = 0;
			uint8_t *out = malloc(cap);
			uint8_t *tmp = malloc(chunk);
			while (r == LZMA_OK) {
				strm.next_out = tmp; strm.avail_out = chunk;
				r = lzma_code(&strm, LZMA_RUN);
				size_t got = chunk - strm.avail_out;
				if (len + got > cap) { r = LZMA_PROG_ERROR; break; }   // encoder produced more than lzma_index_size
				memcpy(out + len, tmp, got); len += got;
			}
			printf("%d %" PRIu64 " ", (int)r, strm.total_out); hp_put_hex(out, len); printf("\n");
			if (!g_reuse) lzma_end(&strm);
#undef strm
			free(out); free(tmp);
		} else if (!strcmp(op, "decode") && n == 4 && slot_of(l.tok[1]) >= 0) {
			int k = slot_of(l.tok[1]);
			uint64_t memlimit = hp_u64(l.tok[2]);
			size_t len; uint8_t *in = hp_hex(l.tok[3], &len);
			size_t in_pos = 0;
			lzma_index *ni = NULL;
			lzma_ret r = lzma_index_buffer_decode(&ni, &memlimit, &h_allocator, in, &in_pos, len);
			drop(k);
			idx[k] = ni;
			printf("%d %zu %" PRIu64 " ", (int)r, in_pos, memlimit); put_sum(idx[k]); printf("\n");
			free(in);
		} else if (!strcmp(op, "decodes") && n == 5 && slot_of(l.tok[1]) >= 0) {
			int k = slot_of(l.tok[1]);
			uint64_t memlimit = hp_u64(l.tok[2]);
			size_t chunk = (size_t)hp_u64(l.tok[3]);
			if (chunk == 0) chunk = 1;
			size_t len; uint8_t *in = hp_hex(l.tok[4], &len);
			lzma_index *ni = NULL;
			lzma_stream fresh = LZMA_STREAM_INIT;
			lzma_stream *sp = g_reuse ? &g_strm : &fresh;
#define strm (*sp)
			strm.allocator = &h_allocator;
			lzma_ret r = lzma_index_decoder(&strm, &ni, memlimit);
			size_t pos = 0;
			while (r == LZMA_OK && pos < len) {
				size_t a = len - pos < chunk ? len - pos : chunk;
				// an exactly sized copy so that ASan sees any overread of the chunk
				uint8_t *piece = malloc(a);
				memcpy(piece, in + pos, a);
				strm.next_in = piece; strm.avail_in = a;
				r = lzma_code(&strm, LZMA_RUN);
				pos += a - strm.avail_in;
				free(piece);
			}
			uint64_t mu = lzma_memusage(&strm);
			uint64_t tin = strm.total_in;
			// reuse: the handle stays alive in whatever state it is (finished, abandoned mid-stream, failed);
			// the next op re-initialises it, which must not touch &ni of this op any more
			if (!g_reuse) lzma_end(&strm);
#undef strm
			drop(k);
			idx[k] = ni;
			printf("%d %" PRIu64 " ", (int)r, tin);
			if (r == LZMA_MEMLIMIT_ERROR) printf("%" PRIu64 " ", mu); else printf("- ");
			put_sum(idx[k]); printf("\n");
			free(in);
		} else if (!strcmp(op, "memusage") && n == 3) {
			printf("%" PRIu64 "\n", lzma_index_memusage(hp_u64(l.tok[1]), hp_u64(l.tok[2])));
		} else if (!strcmp(op, "iter") && n == 3 && slot_of(l.tok[1]) >= 0) {
			int k = slot_of(l.tok[1]);
			if (idx[k] == NULL) { printf("null\n"); continue; }
			lzma_index_iter it;
			memset(&it, 0xA5, sizeof(it));
			lzma_index_iter_init(&it, idx[k]);
			lzma_index_iter_mode mode = (lzma_index_iter_mode)hp_u64(l.tok[2]);
			// a correct iteration returns at most one item per Stream and Block: stop a runaway iteration
			// (e.g. a cycle in a damaged tree) instead of printing without end
			const uint64_t limit = lzma_index_stream_count(idx[k]) + lzma_index_block_count(idx[k]) + 8;
			uint64_t cnt = 0;
			while (!lzma_index_iter_next(&it, mode)) {
				if (cnt++) printf(" | ");
				if (cnt > limit) { printf("OVERRUN"); break; }
				put_item(&it);
			}
			if (cnt == 0) printf("empty");
			printf("\n");
		} else if (!strcmp(op, "locate") && n == 3 && slot_of(l.tok[1]) >= 0) {
			int k = slot_of(l.tok[1]);
			if (idx[k] == NULL) { printf("null\n"); continue; }
			lzma_index_iter it;
			memset(&it, 0xA5, sizeof(it));
			lzma_index_iter_init(&it, idx[k]);
			if (lzma_index_iter_locate(&it, hp_u64(l.tok[2])))
				printf("miss\n");
			else { put_item(&it); printf("\n"); }
		} else if (!strcmp(op, "iinit") && n == 3 && iter_of(l.tok[1]) >= 0 && slot_of(l.tok[2]) >= 0) {
			int t = iter_of(l.tok[1]), k = slot_of(l.tok[2]);
			if (idx[k] == NULL) { iters[t].inited = false; printf("null\n"); continue; }
			memset(&iters[t].it, 0xA5, sizeof(iters[t].it));
			lzma_index_iter_init(&iters[t].it, idx[k]);
			iters[t].slot = k; iters[t].gen = gen[k]; iters[t].inited = true;
			printf("ok\n");
		} else if ((!strcmp(op, "irewind") && n == 2 || (!strcmp(op, "inext") || !strcmp(op, "ilocate")) && n == 3) && iter_of(l.tok[1]) >= 0) {
			int t = iter_of(l.tok[1]);
			if (!iters[t].inited || idx[iters[t].slot] == NULL || gen[iters[t].slot] != iters[t].gen) {
				iters[t].inited = false;
				printf("stale\n");
				continue;
			}
			if (op[1] == 'r') {
				lzma_index_iter_rewind(&iters[t].it);
				printf("ok\n");
			} else if (op[1] == 'n') {
				if (lzma_index_iter_next(&iters[t].it, (lzma_index_iter_mode)hp_u64(l.tok[2])))
					printf("end\n");
				else { put_item(&iters[t].it); printf("\n"); }
			} else {
				if (lzma_index_iter_locate(&iters[t].it, hp_u64(l.tok[2])))
					printf("miss\n");
				else { put_item(&iters[t].it); printf("\n"); }
			}
		} else if ((!strcmp(op, "finfo") || !strcmp(op, "finfof") || !strcmp(op, "finfog") || !strcmp(op, "finfoa"))
				&& n == 6 && slot_of(l.tok[1]) >= 0) {
			// finfo : every lzma_code call with LZMA_RUN
			// finfof: "action = eof ? LZMA_FINISH : LZMA_RUN" where eof = this read reaches the end of the file
			// finfog: the same, but the application learns about eof only from a short read (possibly an empty one)
			// finfoa: abandon the decoding at the SECOND seek request (or finish if there is none); answers "ok";
			//         with `reuse 1` the handle is left in that state for the next op
			const int style = op[5] == 'f' ? 1 : op[5] == 'g' ? 2 : op[5] == 'a' ? 3 : 0;
			int k = slot_of(l.tok[1]);
			uint64_t memlimit = hp_u64(l.tok[2]);
			size_t chunk = (size_t)hp_u64(l.tok[3]);
			if (chunk == 0) chunk = 1;
			uint64_t state = hp_u64(l.tok[4]);
			size_t len; uint8_t *file = hp_hex(l.tok[5], &len);
			lzma_index *ni = NULL;
			lzma_stream fresh = LZMA_STREAM_INIT;
			lzma_stream *sp = g_reuse ? &g_strm : &fresh;
#define strm (*sp)
			strm.allocator = &h_allocator;
			lzma_ret r = lzma_file_info_decoder(&strm, &ni, memlimit, len);
			uint64_t pos = 0;
			unsigned long seeks = 0, calls = 0, idle = 0;
			int oob = 0;
			while (r == LZMA_OK && calls < 50000000UL) {
				size_t want = next_chunk(chunk, &state);
				size_t a = len - pos < want ? (size_t)(len - pos) : want;
				uint8_t *piece = malloc(a ? a : 1);
				memcpy(piece, file + pos, a);
				strm.next_in = piece; strm.avail_in = a;
				const bool eof = style == 1 ? pos + a == len : style == 2 ? a < want : false;
				r = lzma_code(&strm, eof ? LZMA_FINISH : LZMA_RUN);
				++calls;
				pos += a - strm.avail_in;
				free(piece);
				if (r == LZMA_SEEK_NEEDED) {
					++seeks;
					if (style == 3 && seeks == 2) break;
					if (strm.seek_pos > len) { oob = 1; break; }
					pos = strm.seek_pos;
					r = LZMA_OK;
				} else if (r == LZMA_OK && a == 0 && ++idle > 3) {
					break;
				}
			}
			if (!g_reuse) lzma_end(&strm);
#undef strm
			drop(k);
			if (style == 3) {
				if (ni != NULL) lzma_index_end(ni, &h_allocator);
				printf("ok # seeks=%lu calls=%lu ret=%d\n", seeks, calls, (int)r);
				free(file);
				continue;
			}
			idx[k] = ni;
			printf("%d %d ", (int)r, oob); put_sum(idx[k]); printf(" # seeks=%lu calls=%lu\n", seeks, calls);
			free(file);
		} else if (!strcmp(op, "hinit") && n == 1) {
			hash = lzma_index_hash_init(hash, &h_allocator);
			printf("ok %" PRIu64 "\n", lzma_index_hash_size(hash));
		} else if (!strcmp(op, "happend") && n == 3) {
			if (hash == NULL) { printf("null\n"); continue; }
			lzma_ret r = lzma_index_hash_append(hash, hp_u64(l.tok[1]), hp_u64(l.tok[2]));
			printf("%d %" PRIu64 "\n", (int)r, lzma_index_hash_size(hash));
		} else if (!strcmp(op, "hsize") && n == 1) {
			if (hash == NULL) { printf("null\n"); continue; }
			printf("%" PRIu64 "\n", lzma_index_hash_size(hash));
		} else if (!strcmp(op, "hdecode") && n == 3) {
			if (hash == NULL) { printf("null\n"); continue; }
			size_t chunk = (size_t)hp_u64(l.tok[1]);
			if (chunk == 0) chunk = 1;
			size_t len; uint8_t *in = hp_hex(l.tok[2], &len);
			size_t pos = 0;
			lzma_ret r = LZMA_OK;
			while (r == LZMA_OK && pos < len) {
				size_t a = len - pos < chunk ? len - pos : chunk;
				uint8_t *piece = malloc(a);
				memcpy(piece, in + pos, a);
				size_t p = 0;
				r = lzma_index_hash_decode(hash, piece, &p, a);
				pos += p;
				free(piece);
			}
			printf("%d %zu\n", (int)r, pos);
			free(in);
		} else {
			printf("bad-op\n");
		}
	}
	for (int k = 0; k < NSLOT; ++k)
		drop(k);
	lzma_end(&g_strm);
	lzma_index_hash_end(hash, &h_allocator);
	hp_done(&l);
	return 0;
}
