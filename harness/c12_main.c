// C12 harness: flush actions and mid-stream option changes on the REAL encoders, with a direct oracle
// (fresh liblzma decoders + an independent framing walker) that does not depend on the Lean model.
//
// One case per line:
//   case <enc> <chain> <check> <out> <in> <seed> <op> <op> ...
//     enc    stream | easy | mt:<threads>:<block_size> | raw | block
//     chain  see chain_parse() in c12_walk.c (for `easy`: P:<preset>)
//     check  lzma_check ID (0, 1, 4, 10)
//     out    output slicing: big | <n> (every call gets n bytes) | r<n> (random 1..n)
//     in     input slicing of RUN ops: big | <n> | r<n>
//     seed   seed of the slicing PRNG
//   ops
//     r:<data>             lzma_code(LZMA_RUN) until all of <data> has been consumed
//     p<N>:<data>          ONE lzma_code(LZMA_RUN) call with <data> and N bytes of output space; what it does not consume
//                          is taken back by the application
//     s | s:<data>         LZMA_SYNC_FLUSH, optionally with new input handed in together with the action
//     f | f:<data>         LZMA_FULL_FLUSH
//     b | b:<data>         LZMA_FULL_BARRIER
//     F | F:<data>         LZMA_FINISH
//     u:<chain>            lzma_filters_update(strm, chain)
//   data = hex | @<kind>.<seed>.<len>[.<off>] (generated: 0 random, 1 constant, 2 text, 3 periodic, 4 x86-like, 5 mixed,
//          6 pseudo text with about 4:1 LZMA ratio; <off> = skip that many bytes of the generated stream)
//
// Output line:
//   rc=<r,..> in=<total_in,..> out=<total_out,..> st=<structure of all output> or=<ok|FAIL:...> dead=<0|1>
// `rc` has one entry per op ("-" for ops skipped after a fatal error), `in`/`out` are the totals after each op.
//
// Direct oracle (or=...):
//   * at every flush completion (STREAM_END for s/f/b) the output so far goes to a FRESH decoder of the matching
//     kind (LZMA_RUN only) which must reproduce exactly all input supplied so far (MT + FULL_BARRIER: a prefix);
//   * after SYNC_FLUSH the output ends exactly at an LZMA2 chunk boundary without end marker;
//   * after FULL_FLUSH/FULL_BARRIER the output is Stream Header + whole Blocks, one per run of new input
//     (no empty Block, none missing), MT additionally cut every block_size bytes;
//   * a chain containing LZMA1 or a BCJ filter answers SYNC_FLUSH with LZMA_OPTIONS_ERROR, and what was emitted
//     before decodes without error to a prefix of the input;
//   * after FINISH the whole output decodes (LZMA_FINISH -> LZMA_STREAM_END) to the whole input, Blocks, Index
//     Records, Stream Footer agree with each other and with the history;
//   * no other fatal error is ever returned by lzma_code, except when a Block cannot be started with a chain that an
//     accepted mid-Block lzma_filters_update left behind (a scratch Block encoder refuses that chain with the same code).
#include "c12.h"
#include <unistd.h>
#include "common.h"   // liblzma internal: strm->internal->sequence (ISEQ_ERROR) to tell fatal errors apart

typedef enum { K_STREAM, K_EASY, K_MT, K_RAW, K_BLOCK } kind_t;

typedef struct {
	kind_t kind;
	uint32_t threads;
	uint64_t block_size;
	chain_t chain;      // initial chain
	chain_t cur;        // chain the next Block will use
	chain_t blk;        // chain of the open Block (stream kinds) / the fixed chain (raw, block)
	chain_t curfull;    // `cur` parsed in place (its option pointers are valid)
	bool block_open;    // stream kinds: input arrived since the last Block end
	bool hdr_started;   // single-threaded stream kinds: a `p` call has started (and at least partly written) the header of
	                    // the next Block although it has not taken input yet; the chain of that Block is fixed from then on
	lzma_ret cur_init;  // what initialising a Block with `cur` answers (probed on a scratch coder when an update was accepted):
	                    // a mid-Block update validates only what it uses, so an unusable chain (e.g. misaligned BCJ
	                    // start_offset) is found out when the next Block is started
	unsigned check;
	uint32_t easy_preset;
	// slicing
	int out_mode, in_mode;   // 0 big, 1 fixed, 2 random
	size_t out_n, in_n;
	uint64_t rng;
	// history
	bytes_t input;      // all input consumed so far (what the decoders must reproduce)
	bytes_t output;
	uint64_t since;     // bytes since the last expected Block boundary
	uint64_t *exp; size_t nexp, capexp;   // expected Block uncompressed sizes
	char (*expf)[160];                    // expected Block Header filter lists ("" = not judged)
	char blkf[160];                       // filter list of the chain in force when the open Block took its first byte
	// block kind
	lzma_block block;
	uint8_t block_hdr[LZMA_BLOCK_HEADER_SIZE_MAX];
	// verdict
	char fail[256];
} ctx_t;

static uint64_t rnd(ctx_t *c)
{
	c->rng ^= c->rng << 13; c->rng ^= c->rng >> 7; c->rng ^= c->rng << 17;
	return c->rng;
}

static size_t slice(ctx_t *c, int mode, size_t n)
{
	if (mode == 0) return (size_t)1 << 22;
	if (mode == 1) return n;
	return 1 + (size_t)(rnd(c) % n);
}

static void fail(ctx_t *c, const char *tag, int op)
{
	if (c->fail[0] == 0)
		snprintf(c->fail, sizeof(c->fail), "FAIL:%s@op%d", tag, op);
}

static void expect_block(ctx_t *c, uint64_t usize)
{
	if (c->nexp == c->capexp) {
		c->capexp = c->capexp ? c->capexp * 2 : 16;
		c->exp = realloc(c->exp, c->capexp * sizeof(uint64_t));
		c->expf = realloc(c->expf, c->capexp * sizeof(c->expf[0]));
		if (c->exp == NULL || c->expf == NULL) abort();
	}
	memcpy(c->expf[c->nexp], c->blkf, sizeof(c->blkf));
	c->exp[c->nexp++] = usize;
}

// ---- data ---------------------------------------------------------------------------------------------------
static uint8_t *gen_data(const char *spec, size_t *len)
{
	if (spec[0] != '@')
		return hp_hex(spec, len);
	unsigned kind = 0; unsigned long long seed = 0; unsigned long long n = 0, off = 0;
	const int nfld = sscanf(spec + 1, "%u.%llu.%llu.%llu", &kind, &seed, &n, &off);
	if (nfld < 3) { fprintf(stderr, "bad data spec\n"); exit(3); }
	// @kind.seed.len.off = bytes [off, off+len) of the stream the generator makes (kinds 0, 2, 4, 6 make the same
	// stream whatever the length asked for)
	const unsigned long long want = n;
	n += off;
	uint8_t *p = malloc(n ? n : 1);
	if (p == NULL) abort();
	uint64_t x = seed * 0x9E3779B97F4A7C15ull + 0x1234567ull;
	if (x == 0) x = 1;
#define NEXT (x ^= x << 13, x ^= x >> 7, x ^= x << 17, x)
	static const char *words[] = {"the ", "flush ", "block ", "encoder ", "stream ", "lzma ", "and ", "of ", "chunk ", "\n", "0123", "xz "};
	size_t i = 0;
	switch (kind) {
	case 0: for (; i < n; ++i) p[i] = (uint8_t)(NEXT >> 24); break;
	case 1: memset(p, (int)(seed & 0xFF), n); break;
	case 2:
		while (i < n) {
			const char *w = words[NEXT % (sizeof(words) / sizeof(words[0]))];
			for (; *w && i < n; ++w) p[i++] = (uint8_t)*w;
		}
		break;
	case 3: {
		const size_t per = 1 + seed % 37;
		for (; i < n; ++i) p[i] = (uint8_t)((i % per) * 7 + seed);
		for (size_t k = 0; k < n / 97; ++k) p[NEXT % n] ^= 0x55;
		break;
	}
	case 4:
		while (i < n) {
			if (NEXT % 5 == 0 && n - i >= 5) {
				p[i++] = (NEXT & 1) ? 0xE8 : 0xE9;
				p[i++] = (uint8_t)(NEXT >> 8); p[i++] = (uint8_t)(NEXT >> 8);
				p[i++] = (NEXT & 1) ? 0x00 : 0xFF; p[i++] = p[i - 1];
			} else {
				p[i++] = (uint8_t)(NEXT % 23 + 0x40);
			}
		}
		break;
	case 6: {
		// pseudo text: 300 random words of 2..9 letters, skewed word frequencies (LZMA gets about 4:1 out of it, so
		// that an LZMA2 chunk is closed by the 64 KiB compressed-size limit after 200-odd KiB)
		char w[300][10];
		for (unsigned k = 0; k < 300; ++k) {
			const unsigned l = 2 + (unsigned)(NEXT >> 16) % 8;
			for (unsigned j = 0; j < l; ++j) w[k][j] = (char)('a' + (NEXT >> 16) % 26);
			w[k][l] = 0;
		}
		while (i < n) {
			unsigned k = (unsigned)(NEXT >> 16) % 300;
			if ((NEXT >> 16) % 3 != 0) k %= 40;
			for (const char *q = w[k]; *q && i < n; ++q) p[i++] = (uint8_t)*q;
			if (i < n) { const unsigned r = (unsigned)(NEXT >> 16) % 16; p[i++] = r == 0 ? '\n' : r == 1 ? ',' : ' '; }
		}
		break;
	}
	default:
		for (; i < n; ++i) p[i] = (i / 512) % 2 ? (uint8_t)(NEXT >> 24) : (uint8_t)(i / 7);
		break;
	}
#undef NEXT
	if (off) memmove(p, p + off, (size_t)want);
	*len = (size_t)want;
	return p;
}

// ---- fresh decoders -------------------------------------------------------------------------------------------
// Decodes c->output[0..n) with a fresh decoder of the matching kind. With finish=false only LZMA_RUN is used.
// Returns the decoder's last return code; *dec receives the decoded bytes.
static lzma_ret decode_fresh(ctx_t *c, size_t n, bool finish, bytes_t *dec)
{
	lzma_stream d = LZMA_STREAM_INIT;
	lzma_ret r;
	lzma_block dblk;
	lzma_filter dfilters[LZMA_FILTERS_MAX + 1];
	bool free_filters = false;
	switch (c->kind) {
	case K_RAW:
		r = lzma_raw_decoder(&d, c->chain.f);
		break;
	case K_BLOCK:
		memset(&dblk, 0, sizeof(dblk));
		dblk.version = 1;
		dblk.check = c->check;
		dblk.filters = dfilters;
		dblk.header_size = lzma_block_header_size_decode(c->block_hdr[0]);
		r = lzma_block_header_decode(&dblk, NULL, c->block_hdr);
		if (r == LZMA_OK) {
			free_filters = true;
			r = lzma_block_decoder(&d, &dblk);
		}
		break;
	default:
		r = lzma_stream_decoder(&d, UINT64_MAX, 0);
		break;
	}
	if (r != LZMA_OK) {
		if (free_filters) lzma_filters_free(dfilters, NULL);
		return r;
	}
	dec->n = 0;
	by_reserve(dec, c->input.n + 4096);
	d.next_in = c->output.p;
	d.avail_in = n;
	// feed in two pieces so that the decoder is also suspended once in the middle
	const size_t first = n / 2;
	for (int piece = 0; piece < 2; ++piece) {
		d.avail_in = piece == 0 ? first : n - first;
		const bool fin = finish && piece == 1;
		unsigned guard = 0;
		for (;;) {
			by_reserve(dec, 65536);
			d.next_out = dec->p + dec->n;
			d.avail_out = dec->cap - dec->n;
			r = lzma_code(&d, fin ? LZMA_FINISH : LZMA_RUN);
			dec->n = (size_t)(d.next_out - dec->p);
			if (r != LZMA_OK)
				break;
			// output space left and all input taken: the decoder waits for more input
			if (!fin && d.avail_in == 0 && d.avail_out > 0)
				break;
			if (++guard > 1000000u) { r = LZMA_PROG_ERROR; break; }
		}
		if (r != LZMA_OK && !(r == LZMA_BUF_ERROR && !fin))
			break;
	}
	lzma_end(&d);
	if (free_filters) lzma_filters_free(dfilters, NULL);
	return r;
}

static bool same_bytes(const bytes_t *a, const uint8_t *p, size_t n)
{
	return a->n == n && (n == 0 || memcmp(a->p, p, n) == 0);
}

// ---- structure checks -------------------------------------------------------------------------------------------
static bool is_stream_kind(const ctx_t *c) { return c->kind == K_STREAM || c->kind == K_EASY || c->kind == K_MT; }

static void check_blocks_against_history(ctx_t *c, const xz_walk_t *x, int op, bool allow_fewer)
{
	if (x->bad) { fail(c, x->why ? x->why : "framing", op); return; }
	if (!allow_fewer && x->nblocks != c->nexp) { fail(c, x->nblocks < c->nexp ? "block-missing" : "extra-block", op); return; }
	if (x->nblocks > c->nexp) { fail(c, "extra-block", op); return; }
	for (unsigned i = 0; i < x->nblocks; ++i) {
		if (x->blocks[i].usize == 0) { fail(c, "empty-block", op); return; }
		if (x->blocks[i].usize != c->exp[i]) { fail(c, "block-boundary", op); return; }
		// the Block carries the chain that was in force when its first byte was consumed ("an update takes effect from
		// that point"). A threaded encoder may store an incompressible Block as LZMA2 uncompressed chunks (33:00).
		if (c->expf[i][0] != 0 && strcmp(x->blocks[i].filters, c->expf[i]) != 0
				&& !(c->kind == K_MT && !strcmp(x->blocks[i].filters, "33:00"))) {
			fail(c, "block-made-with-another-chain-than-the-one-in-force", op);
			return;
		}
	}
}

// after SYNC_FLUSH completed
static void check_sync(ctx_t *c, int op)
{
	const size_t n = c->output.n;
	if (is_stream_kind(c)) {
		xz_walk_t x;
		xz_walk(c->output.p, n, &x, NULL);
		check_blocks_against_history(c, &x, op, false);
		if (!x.header_ok) fail(c, "no-stream-header", op);
		if (c->since > 0) {
			if (!x.has_partial || !x.partial_header_complete || x.blocks == NULL) fail(c, "sync-no-open-block", op);
			else {
				const xz_block_t *b = &x.blocks[x.nblocks];
				if (b->w.end_marker) fail(c, "sync-ended-block", op);
				else if (!b->w.at_boundary) fail(c, "sync-not-at-chunk-boundary", op);
				else if (b->w.usize != c->since) fail(c, "sync-chunks-do-not-cover-input", op);
			}
		} else if (x.has_partial || x.index_seen || x.end_of_blocks != n) {
			fail(c, "sync-unexpected-tail", op);
		}
		xz_walk_free(&x);
	} else if (c->blk.last_is_lzma2) {
		lzma2_walk_t w;
		lzma2_walk(c->output.p, n, &w, NULL);
		if (w.bad) fail(c, "lzma2-control", op);
		else if (w.end_marker) fail(c, "sync-end-marker", op);
		else if (!w.at_boundary) fail(c, "sync-not-at-chunk-boundary", op);
		else if (w.usize != c->input.n) fail(c, "sync-chunks-do-not-cover-input", op);
	}
}

// after FULL_FLUSH (and single-threaded FULL_BARRIER) completed
static void check_full(ctx_t *c, int op)
{
	xz_walk_t x;
	xz_walk(c->output.p, c->output.n, &x, NULL);
	check_blocks_against_history(c, &x, op, false);
	if (!x.header_ok) fail(c, "no-stream-header", op);
	if (x.has_partial) fail(c, "full-flush-left-block-open", op);
	if (x.index_seen) fail(c, "full-flush-wrote-index", op);
	if (!x.bad && x.end_of_blocks != c->output.n) fail(c, "full-flush-tail", op);
	xz_walk_free(&x);
}

// Final structure (after FINISH) and the canonical structure string (always).
static void structure(ctx_t *c, str_t *s, bool finished, int op)
{
	const uint8_t *p = c->output.p;
	const size_t n = c->output.n;
	if (!is_stream_kind(c)) {
		st_printf(s, "R;k=");
		if (!c->chain.last_is_lzma2) {
			st_printf(s, "lzma1:%zu", n);
			return;
		}
		lzma2_walk_t w;
		lzma2_walk(p, n, &w, s);
		st_printf(s, ";e=%d;u=%" PRIu64 ";c=%zu", (int)w.end_marker, w.usize, w.pos);
		if (w.bad) { st_printf(s, ";BAD"); fail(c, "lzma2-control", op); return; }
		if (!w.end_marker) {
			st_printf(s, ";T:%s%zu", w.at_boundary ? "boundary" : "midchunk", n - w.pos);
			if (finished) fail(c, "finish-no-end-marker", op);
			return;
		}
		size_t tail = n - w.pos;
		st_printf(s, ";tail=%zu", tail);
		if (finished) {
			if (w.usize != c->input.n) fail(c, "finish-chunks-do-not-cover-input", op);
			if (c->kind == K_RAW && tail != 0) fail(c, "raw-tail", op);
			if (c->kind == K_BLOCK) {
				const size_t pad = (4 - (w.pos & 3)) & 3;
				if (tail != pad + c12_check_size(c->check)) fail(c, "block-tail", op);
				for (size_t k = 0; k < pad && w.pos + k < n; ++k) if (p[w.pos + k]) fail(c, "block-padding", op);
				if (c->block.compressed_size != w.pos || c->block.uncompressed_size != w.usize)
					fail(c, "block-sizes-not-reported", op);
				if (lzma_block_total_size(&c->block) != c->block.header_size + n) fail(c, "block-total-size", op);
			}
		}
		return;
	}
	xz_walk_t x;
	xz_walk(p, n, &x, s);
	if (finished) {
		check_blocks_against_history(c, &x, op, false);
		if (!x.header_ok) fail(c, "no-stream-header", op);
		if (x.has_partial) fail(c, "finish-left-block-open", op);
	} else {
		check_blocks_against_history(c, &x, op, true);
	}
	if (!x.bad && x.header_ok && (x.index_seen || finished)) {
		// Index + Stream Footer
		lzma_index *idx = NULL;
		uint64_t memlimit = UINT64_MAX;
		size_t pos = x.end_of_blocks;
		const size_t istart = pos;
		lzma_ret r = x.index_seen ? lzma_index_buffer_decode(&idx, &memlimit, NULL, p, &pos, n) : LZMA_DATA_ERROR;
		if (r != LZMA_OK) {
			st_printf(s, "|T:index%zu", n - istart);
			if (finished) fail(c, "index-undecodable", op);
		} else {
			st_printf(s, "|I;n=%" PRIu64 ";r=", lzma_index_block_count(idx));
			lzma_index_iter it;
			lzma_index_iter_init(&it, idx);
			unsigned k = 0;
			bool bad = lzma_index_block_count(idx) != x.nblocks;
			while (!lzma_index_iter_next(&it, LZMA_INDEX_ITER_BLOCK)) {
				st_printf(s, "%s%" PRIu64 ".%" PRIu64, k ? "," : "", it.block.unpadded_size, it.block.uncompressed_size);
				if (k < x.nblocks) {
					const xz_block_t *b = &x.blocks[k];
					if (it.block.unpadded_size != b->hsize + b->csize + c12_check_size(x.check)
							|| it.block.uncompressed_size != b->usize)
						bad = true;
				}
				++k;
			}
			if (bad) fail(c, "index-records-differ-from-blocks", op);
			const uint64_t isize = lzma_index_size(idx);
			if (pos - istart != isize) fail(c, "index-size", op);
			lzma_index_end(idx, NULL);
			if (n - pos >= 12) {
				lzma_stream_flags ff, hf;
				if (lzma_stream_footer_decode(&ff, p + pos) != LZMA_OK || lzma_stream_header_decode(&hf, p) != LZMA_OK
						|| lzma_stream_flags_compare(&hf, &ff) != LZMA_OK || ff.backward_size != isize) {
					st_printf(s, "|BADFOOTER");
					fail(c, "stream-footer", op);
				} else {
					st_printf(s, "|F");
				}
				pos += 12;
				if (pos != n) { st_printf(s, "|EXTRA%zu", n - pos); fail(c, "bytes-after-footer", op); }
			} else {
				st_printf(s, "|T:footer%zu", n - pos);
				if (finished) fail(c, "footer-missing", op);
			}
		}
	}
	xz_walk_free(&x);
}

// ---- running one case ---------------------------------------------------------------------------------------------
static bool parse_slice(const char *s, int *mode, size_t *n)
{
	if (!strcmp(s, "big")) { *mode = 0; *n = 0; return true; }
	if (s[0] == 'r') { *mode = 2; *n = (size_t)strtoull(s + 1, NULL, 10); return *n > 0; }
	*mode = 1; *n = (size_t)strtoull(s, NULL, 10);
	return *n > 0;
}

static lzma_ret encoder_init(ctx_t *c, lzma_stream *strm)
{
	switch (c->kind) {
	case K_STREAM: return lzma_stream_encoder(strm, c->chain.f, c->check);
	case K_EASY: return lzma_easy_encoder(strm, c->easy_preset, c->check);
	case K_MT: {
		lzma_mt mt = { .flags = 0, .threads = c->threads, .block_size = c->block_size, .timeout = 0,
			.preset = 0, .filters = c->chain.f, .check = c->check,
			.memlimit_threading = UINT64_MAX, .memlimit_stop = UINT64_MAX };
		return lzma_stream_encoder_mt(strm, &mt);
	}
	case K_RAW: return lzma_raw_encoder(strm, c->chain.f);
	case K_BLOCK: {
		memset(&c->block, 0, sizeof(c->block));
		c->block.version = 0;
		c->block.check = c->check;
		c->block.filters = c->chain.f;
		c->block.compressed_size = LZMA_VLI_UNKNOWN;
		c->block.uncompressed_size = LZMA_VLI_UNKNOWN;
		lzma_ret r = lzma_block_header_size(&c->block);
		if (r != LZMA_OK) return r;
		r = lzma_block_header_encode(&c->block, c->block_hdr);
		if (r != LZMA_OK) return r;
		return lzma_block_encoder(strm, &c->block);
	}
	}
	return LZMA_PROG_ERROR;
}

// One lzma_code call with the next output slice; collects the output.
static lzma_ret code_once(ctx_t *c, lzma_stream *strm, lzma_action a)
{
	const size_t sl = slice(c, c->out_mode, c->out_n);
	by_reserve(&c->output, sl + 1);
	strm->next_out = c->output.p + c->output.n;
	strm->avail_out = sl;
	const lzma_ret r = lzma_code(strm, a);
	c->output.n = (size_t)(strm->next_out - c->output.p);
	return r;
}

static void run_case(char **tok, int ntok)
{
	ctx_t c;
	memset(&c, 0, sizeof(c));
	if (ntok < 7) { printf("bad-op\n"); return; }
	const char *enc = tok[1];
	if (!strcmp(enc, "stream")) c.kind = K_STREAM;
	else if (!strcmp(enc, "easy")) c.kind = K_EASY;
	else if (!strncmp(enc, "mt:", 3)) {
		c.kind = K_MT;
		unsigned long long bs = 0; unsigned th = 0;
		if (sscanf(enc + 3, "%u:%llu", &th, &bs) != 2) { printf("bad-op\n"); return; }
		c.threads = th; c.block_size = bs;
	}
	else if (!strcmp(enc, "raw")) c.kind = K_RAW;
	else if (!strcmp(enc, "block")) c.kind = K_BLOCK;
	else { printf("bad-op\n"); return; }
	if (!chain_parse(&c.chain, tok[2])) { printf("bad-op\n"); return; }
	if (c.kind == K_EASY) {
		if (strncmp(tok[2], "P:", 2)) { printf("bad-op\n"); return; }
		c.easy_preset = (uint32_t)strtoul(tok[2] + 2, NULL, 10);
	}
	// only the has_lzma1/has_bcj/last_is_lzma2 flags of `cur` and `blk` are ever read (the option pointers of the
	// copies are stale and never dereferenced)
	c.cur = c.chain; c.blk = c.chain;
	chain_parse(&c.curfull, tok[2]);
	c.check = (unsigned)strtoul(tok[3], NULL, 10);
	if (!parse_slice(tok[4], &c.out_mode, &c.out_n) || !parse_slice(tok[5], &c.in_mode, &c.in_n)) { printf("bad-op\n"); return; }
	c.rng = strtoull(tok[6], NULL, 10) * 0x9E3779B97F4A7C15ull + 88172645463325252ull;
	if (c.rng == 0) c.rng = 1;
	if (c.kind == K_MT && c.block_size == 0) {
		c.block_size = lzma_mt_block_size(c.chain.f);
	}

	lzma_stream strm = LZMA_STREAM_INIT;
	str_t rcs = {0}, ins = {0}, outs = {0}, st = {0};
	const lzma_ret ir = encoder_init(&c, &strm);
	bool dead = false, finished = false;
	int last_op = 0;
	if (ir != LZMA_OK) {
		printf("init=%d\n", (int)ir);
		goto done;
	}
	for (int i = 7; i < ntok; ++i) {
		const int op = i - 7;
		last_op = op;
		const char *t = tok[i];
		const char kindc = t[0];
		const char *arg = (t[1] == ':') ? t + 2 : NULL;
		size_t single_out = 0;
		if (kindc == 'p') {
			single_out = (size_t)strtoull(t + 1, NULL, 10);
			arg = strchr(t, ':');
			if (arg == NULL) { printf("bad-op\n"); goto done; }
			++arg;
		}
		if (dead || finished) {
			st_printf(&rcs, "%s-", op ? "," : "");
			st_printf(&ins, "%s%zu", op ? "," : "", c.input.n);
			st_printf(&outs, "%s%zu", op ? "," : "", c.output.n);
			continue;
		}
		lzma_ret r = LZMA_OK;
		if (kindc == 'u') {
			chain_t nc;
			if (arg == NULL || !chain_parse(&nc, arg)) { printf("bad-op\n"); goto done; }
			r = lzma_filters_update(&strm, nc.f);
			if (r == LZMA_OK && is_stream_kind(&c)) {
				c.cur = nc;
				chain_parse(&c.curfull, arg);
				// independent probe: would a Block encoder accept this chain?
				lzma_stream probe = LZMA_STREAM_INIT;
				lzma_block pb;
				memset(&pb, 0, sizeof(pb));
				pb.check = c.check;
				pb.filters = nc.f;
				pb.compressed_size = LZMA_VLI_UNKNOWN;
				pb.uncompressed_size = LZMA_VLI_UNKNOWN;
				c.cur_init = lzma_block_header_size(&pb);
				if (c.cur_init == LZMA_OK)
					c.cur_init = lzma_block_encoder(&probe, &pb);
				lzma_end(&probe);
			}
		} else {
			lzma_action a;
			switch (kindc) {
			case 'r': a = LZMA_RUN; break;
			case 'p': a = LZMA_RUN; break;   // p<N>:<data> = ONE lzma_code(LZMA_RUN) call with avail_out = N
			case 's': a = LZMA_SYNC_FLUSH; break;
			case 'f': a = LZMA_FULL_FLUSH; break;
			case 'b': a = LZMA_FULL_BARRIER; break;
			case 'F': a = LZMA_FINISH; break;
			default: printf("bad-op\n"); goto done;
			}
			size_t dn = 0;
			uint8_t *data = arg ? gen_data(arg, &dn) : NULL;
			const uint64_t in_before = strm.total_in;
			const bool block_open_before = c.block_open;
			if (kindc == 'p') {
				// what remains unconsumed is taken back by the application (it may hand it in again later)
				strm.next_in = data;
				strm.avail_in = dn;
				by_reserve(&c.output, single_out + 1);
				strm.next_out = c.output.p + c.output.n;
				strm.avail_out = single_out;
				r = lzma_code(&strm, LZMA_RUN);
				c.output.n = (size_t)(strm.next_out - c.output.p);
			} else if (a == LZMA_RUN) {
				size_t off = 0;
				while (off < dn && r == LZMA_OK) {
					size_t piece = slice(&c, c.in_mode, c.in_n);
					if (piece > dn - off) piece = dn - off;
					strm.next_in = data + off;
					strm.avail_in = piece;
					unsigned guard = 0;
					while (strm.avail_in > 0) {
						r = code_once(&c, &strm, LZMA_RUN);
						if (r != LZMA_OK) break;
						if (++guard > 50000000u) { fail(&c, "no-progress", op); r = LZMA_PROG_ERROR; break; }
					}
					off += piece - strm.avail_in;
					if (strm.avail_in > 0) break;
				}
			} else {
				strm.next_in = data;
				strm.avail_in = dn;
				unsigned guard = 0;
				do {
					r = code_once(&c, &strm, a);
					if (++guard > 50000000u) { fail(&c, "no-progress", op); dead = true; break; }
					// no encoder expands its input by more than a few percent plus per-Block overhead
					if (c.output.n > 2 * (c.input.n + dn) + 16384 + 1024 * (size_t)(op + 1)) { fail(&c, "runaway-output", op); dead = true; break; }
				} while (r == LZMA_OK);
			}
			const uint64_t used = strm.total_in - in_before;
			by_append(&c.input, data, (size_t)used);
			free(data);
			strm.next_in = NULL;
			strm.avail_in = 0;
			dead = dead || strm.internal->sequence == ISEQ_ERROR;

			// ---- direct oracle ----
			// history of expected Block boundaries
			if (is_stream_kind(&c) && used > 0) {
				if (!c.block_open) {
					c.block_open = true;
					if (!c.hdr_started) {
						c.blk = c.cur;
						if (!chain_header_string(&c.curfull, c.blkf, sizeof(c.blkf))) c.blkf[0] = 0;
					}
				}
				c.since += used;
				if (c.kind == K_MT) {
					while (c.since >= c.block_size) { expect_block(&c, c.block_size); c.since -= c.block_size; }
					// input that ends exactly at a block_size multiple leaves no Block open (coder->thr == NULL): the
					// next Block takes the chain in force when ITS first byte arrives
					if (c.since == 0)
						c.block_open = false;
				}
			}
			const chain_t *eff = (!is_stream_kind(&c) || c.block_open) ? &c.blk : &c.cur;
			// a single call with input and a tiny output window on an encoder that is between Blocks starts the next Block:
			// its header is made (and partly written) with the chain in force NOW
			if (kindc == 'p' && (c.kind == K_STREAM || c.kind == K_EASY) && r == LZMA_OK && dn > 0 && used == 0
					&& !c.block_open && !c.hdr_started && c.output.n > 12) {
				c.hdr_started = true;
				c.blk = c.cur;
				if (!chain_header_string(&c.curfull, c.blkf, sizeof(c.blkf))) c.blkf[0] = 0;
			}
			const chain_t *eff0 = eff;
			if (c.hdr_started) eff = &c.blk;
			(void)eff0;
			const bool nonflushable = eff->has_lzma1 || eff->has_bcj;
			if (r == LZMA_STREAM_END && a != LZMA_RUN) {
				if (a == LZMA_SYNC_FLUSH) {
					if (nonflushable && (!is_stream_kind(&c) || c.since > 0))
						fail(&c, "sync-flush-accepted-by-chain-that-cannot-honour-it", op);
					bytes_t dec = {0};
					const lzma_ret dr = decode_fresh(&c, c.output.n, false, &dec);
					if (dr != LZMA_OK && dr != LZMA_BUF_ERROR) fail(&c, "sync-flush-output-undecodable", op);
					else if (!same_bytes(&dec, c.input.p, c.input.n)) fail(&c, "sync-flush-input-not-recovered", op);
					by_free(&dec);
					check_sync(&c, op);
				} else {
					// a Block boundary
					if (is_stream_kind(&c) && c.since > 0) { expect_block(&c, c.since); c.since = 0; }
					c.block_open = false;
					c.hdr_started = false;
					if (a == LZMA_FINISH) {
						finished = true;
					} else {
						bytes_t dec = {0};
						const lzma_ret dr = decode_fresh(&c, c.output.n, false, &dec);
						const bool barrier_mt = c.kind == K_MT && a == LZMA_FULL_BARRIER;
						if (dr != LZMA_OK && dr != LZMA_BUF_ERROR) fail(&c, "full-flush-output-undecodable", op);
						else if (!barrier_mt && !same_bytes(&dec, c.input.p, c.input.n)) fail(&c, "full-flush-input-not-recovered", op);
						else if (barrier_mt && (dec.n > c.input.n || memcmp(dec.p, c.input.p, dec.n))) fail(&c, "barrier-output-not-a-prefix", op);
						by_free(&dec);
						if (!barrier_mt) check_full(&c, op);
					}
				}
			} else if (dead) {
				// expected fatal errors: a refused SYNC_FLUSH; a Block that cannot be started with the chain an
				// accepted mid-Block update left behind (delayed validation of options the update did not look at)
				const bool delayed = is_stream_kind(&c) && !block_open_before && c.cur_init != LZMA_OK && r == c.cur_init;
				if (!(a == LZMA_SYNC_FLUSH && nonflushable && r == LZMA_OPTIONS_ERROR) && !delayed)
					fail(&c, "unexpected-fatal-error", op);
				bytes_t dec = {0};
				const lzma_ret dr = decode_fresh(&c, c.output.n, false, &dec);
				if (dr != LZMA_OK && dr != LZMA_BUF_ERROR) fail(&c, "output-before-refusal-undecodable", op);
				else if (dec.n > c.input.n || (dec.n && memcmp(dec.p, c.input.p, dec.n))) fail(&c, "output-before-refusal-not-a-prefix", op);
				by_free(&dec);
			} else if (r != LZMA_OK && r != LZMA_PROG_ERROR) {
				fail(&c, "unexpected-return-code", op);
			}
		}
		st_printf(&rcs, "%s%d", op ? "," : "", (int)r);
		st_printf(&ins, "%s%zu", op ? "," : "", c.input.n);
		st_printf(&outs, "%s%zu", op ? "," : "", c.output.n);
	}
	if (finished) {
		bytes_t dec = {0};
		const lzma_ret dr = decode_fresh(&c, c.output.n, true, &dec);
		if (dr != LZMA_STREAM_END) fail(&c, "final-output-undecodable", last_op);
		else if (!same_bytes(&dec, c.input.p, c.input.n)) fail(&c, "final-input-not-recovered", last_op);
		by_free(&dec);
	}
	structure(&c, &st, finished, last_op);
	printf("rc=%s in=%s out=%s st=%s or=%s dead=%d\n", rcs.p ? rcs.p : "-", ins.p ? ins.p : "-", outs.p ? outs.p : "-",
			st.p ? st.p : "-", c.fail[0] ? c.fail : "ok", (int)dead);
done:
	lzma_end(&strm);
	st_free(&rcs); st_free(&ins); st_free(&outs); st_free(&st);
	by_free(&c.input); by_free(&c.output);
	free(c.exp);
	free(c.expf);
}

int main(void)
{
	char *line = NULL;
	size_t cap = 0;
	ssize_t n;
	while ((n = getline(&line, &cap, stdin)) >= 0) {
		size_t ntok = 0, tcap = 64;
		char **tok = malloc(tcap * sizeof(char *));
		char *save = NULL;
		for (char *t = strtok_r(line, " \t\r\n", &save); t != NULL; t = strtok_r(NULL, " \t\r\n", &save)) {
			if (ntok == tcap) { tcap *= 2; tok = realloc(tok, tcap * sizeof(char *)); }
			tok[ntok++] = t;
		}
		if (ntok > 0) {
			// watchdog: a case that takes longer than this hangs (the harness is killed by SIGALRM; the Python side
			// then replays the lines one by one and reports the one that hangs)
			alarm(120);
			if (!strcmp(tok[0], "case")) run_case(tok, (int)ntok);
			else printf("bad-op\n");
			fflush(stdout);
		}
		free(tok);
	}
	free(line);
	return 0;
}
