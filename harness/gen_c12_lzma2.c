// Stage G probe for C12 (part 2): runs the real lzma2_encode() (SEQ_INIT decision), lzma2_header_lzma(),
// lzma2_header_uncompressed() and lzma2_encoder_options_update() of /repo on hand-made coder states.
#include "lzma2_encoder.c"
#include <stdio.h>

static lzma_lzma2_coder c;

void gen_lzma2(void)
{
	printf("def LZMA2_CHUNK_MAX : Nat := %u\ndef LZMA2_UNCOMPRESSED_MAX : Nat := %u\ndef LZMA2_HEADER_MAX : Nat := %u\n"
	       "def LZMA2_HEADER_UNCOMPRESSED : Nat := %u\n\n", (unsigned)LZMA2_CHUNK_MAX, (unsigned)LZMA2_UNCOMPRESSED_MAX,
			(unsigned)LZMA2_HEADER_MAX, (unsigned)LZMA2_HEADER_UNCOMPRESSED);

	printf("/-- lzma2_encode() at SEQ_INIT with nothing unencoded: (mf->action, return value, bytes written, first byte written or 999). -/\n");
	printf("def lzma2SeqInitNoInput : List (Nat × Nat × Nat × Nat) := [");
	for (unsigned a = 0; a <= LZMA_ACTION_MAX; ++a) {
		memset(&c, 0, sizeof(c));
		c.sequence = SEQ_INIT;
		lzma_mf mf;
		memset(&mf, 0, sizeof(mf));
		mf.action = (lzma_action)a;
		uint8_t out[16] = {0xAA};
		size_t out_pos = 0;
		const lzma_ret r = lzma2_encode(&c, &mf, out, &out_pos, sizeof(out));
		printf("%s\n  (%u, %u, %zu, %u)", a ? "," : "", a, (unsigned)r, out_pos, out_pos ? (unsigned)out[0] : 999u);
	}
	printf("]\n\n");

	printf("/-- lzma2_header_lzma() with uncompressed_size = compressed_size = 1, lc/lp/pb = 1/2/3:\n"
	       "    (need_properties, need_state_reset, need_dictionary_reset, control byte, header length,\n"
	       "     properties byte or 999, the three flags afterwards as bits 4/2/1). -/\n");
	printf("def lzma2HeaderLzma : List (Nat × Nat × Nat × Nat × Nat × Nat × Nat) := [");
	for (unsigned m = 0; m < 8; ++m) {
		memset(&c, 0, sizeof(c));
		c.need_properties = (m & 4) != 0;
		c.need_state_reset = (m & 2) != 0;
		c.need_dictionary_reset = (m & 1) != 0;
		c.uncompressed_size = 1;
		c.compressed_size = 1;
		c.opt_cur.lc = 1; c.opt_cur.lp = 2; c.opt_cur.pb = 3;
		lzma2_header_lzma(&c);
		const size_t len = LZMA2_HEADER_MAX - c.buf_pos;
		printf("%s\n  (%u, %u, %u, %u, %zu, %u, %u)", m ? "," : "", (m >> 2) & 1, (m >> 1) & 1, m & 1, (unsigned)c.buf[c.buf_pos], len,
				len == 6 ? (unsigned)c.buf[5] : 999u,
				(unsigned)(c.need_properties * 4 + c.need_state_reset * 2 + c.need_dictionary_reset));
	}
	printf("]\n\n");

	printf("/-- lzma2_header_uncompressed() with uncompressed_size = 1: (need_dictionary_reset, control byte, need_dictionary_reset afterwards). -/\n");
	printf("def lzma2HeaderStored : List (Nat × Nat × Nat) := [");
	for (unsigned m = 0; m < 2; ++m) {
		memset(&c, 0, sizeof(c));
		c.need_dictionary_reset = m != 0;
		c.uncompressed_size = 1;
		lzma2_header_uncompressed(&c);
		printf("%s(%u, %u, %u)", m ? ", " : "", m, (unsigned)c.buf[0], (unsigned)c.need_dictionary_reset);
	}
	printf("]\n\n");

	printf("/-- lzma2_encoder_options_update() on a coder with lc/lp/pb = 3/0/2 and all need_* flags false:\n"
	       "    (coder->sequence, new lc, new lp, new pb, return value, need_properties, need_state_reset, lc afterwards). -/\n");
	printf("def lzma2OptionsUpdate : List (Nat × Nat × Nat × Nat × Nat × Nat × Nat × Nat) := [");
	static const uint32_t opts[][3] = { {3, 0, 2}, {0, 2, 1}, {4, 0, 4}, {5, 0, 2}, {3, 2, 2}, {0, 0, 5}, {0, 5, 0} };
	int first = 1;
	for (unsigned s = SEQ_INIT; s <= SEQ_UNCOMPRESSED_COPY; ++s)
	for (unsigned k = 0; k < sizeof(opts) / sizeof(opts[0]); ++k) {
		memset(&c, 0, sizeof(c));
		c.sequence = s;
		c.opt_cur.lc = 3; c.opt_cur.lp = 0; c.opt_cur.pb = 2;
		lzma_options_lzma o;
		memset(&o, 0, sizeof(o));
		o.lc = opts[k][0]; o.lp = opts[k][1]; o.pb = opts[k][2];
		const lzma_filter f = { .id = LZMA_FILTER_LZMA2, .options = &o };
		const lzma_ret r = lzma2_encoder_options_update(&c, &f);
		printf("%s\n  (%u, %u, %u, %u, %u, %u, %u, %u)", first ? "" : ",", s, (unsigned)o.lc, (unsigned)o.lp, (unsigned)o.pb, (unsigned)r,
				(unsigned)c.need_properties, (unsigned)c.need_state_reset, (unsigned)c.opt_cur.lc);
		first = 0;
	}
	printf("]\n\n");
	printf("def lzma2SeqValues : List Nat := [%u, %u, %u, %u, %u]\n\n", (unsigned)SEQ_INIT, (unsigned)SEQ_LZMA_ENCODE,
			(unsigned)SEQ_LZMA_COPY, (unsigned)SEQ_UNCOMPRESSED_HEADER, (unsigned)SEQ_UNCOMPRESSED_COPY);
}
