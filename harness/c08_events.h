// C08: recording of protocol events (hook H3, hooks/h3-mtenc.patch) + harness-level events, for trace inclusion in the Lean model.
// Only meaningful under the controlled scheduler (threads are serialised, so the global order of events is the real order).
#ifndef VERIF_C08_EVENTS_H
#define VERIF_C08_EVENTS_H
#include <stdint.h>
// harness-level event codes (the 11x..16x codes come from the hook inside stream_encoder_mt.c)
enum { C08_EV_CALL = 100, C08_EV_RET = 101, C08_EV_INIT = 102, C08_EV_END = 103, C08_EV_INIT_DONE = 104, C08_EV_END_DONE = 105,
       C08_EV_UPDATE = 106, C08_EV_PROGRESS = 107 };
extern int c08_ev_enabled;                 // set by the op line (ev=1)
void c08_ev_begin(void);                   // install the hook callback, reset the buffer
void c08_ev_end(void);                     // uninstall
void c08_ev_add(unsigned ev, uint64_t t, uint64_t a, uint64_t b, uint64_t c);
void c08_ev_print(void);                   // prints " trace=<ev.t.a.b.c,...>" if enabled
#endif
