// Line-protocol helpers shared by the C harnesses: one op per input line, one result line per op.
// Bytes travel as lowercase hex ("-" = empty), numbers as decimals.
#ifndef VERIF_HPROTO_H
#define VERIF_HPROTO_H
#include <stdint.h>
#include <stdio.h>
#include <stdlib.h>
#include <string.h>
#include <inttypes.h>
#include <stdbool.h>

#define HP_MAXTOK 64

typedef struct {
	char *line;      // owned buffer (getline)
	size_t cap;
	char *tok[HP_MAXTOK];
	int ntok;
} hp_line;

// Reads the next non-empty line and splits it on blanks. Returns false at EOF.
static bool hp_next(hp_line *l)
{
	for (;;) {
		ssize_t n = getline(&l->line, &l->cap, stdin);
		if (n < 0)
			return false;
		l->ntok = 0;
		char *save = NULL;
		for (char *t = strtok_r(l->line, " \t\r\n", &save); t != NULL && l->ntok < HP_MAXTOK;
				t = strtok_r(NULL, " \t\r\n", &save))
			l->tok[l->ntok++] = t;
		if (l->ntok > 0)
			return true;
	}
}

static void hp_done(hp_line *l) { free(l->line); l->line = NULL; fflush(stdout); }

static int hp_hexval(char c)
{
	if (c >= '0' && c <= '9') return c - '0';
	if (c >= 'a' && c <= 'f') return c - 'a' + 10;
	if (c >= 'A' && c <= 'F') return c - 'A' + 10;
	return -1;
}

// Decodes hex into a malloc'ed buffer of exactly *len bytes placed at offset `align` (0..63) from a
// 64-byte aligned base, so that (uintptr_t)result % 64 == align. *base receives the pointer to free.
static uint8_t *hp_hex_aligned(const char *s, size_t *len, size_t align, void **base)
{
	size_t n = (strcmp(s, "-") == 0) ? 0 : strlen(s) / 2;
	uint8_t *b = NULL;
	if (posix_memalign((void **)&b, 64, n + 64 + 1) != 0)
		abort();
	*base = b;
	uint8_t *p = b + (align % 64);
	for (size_t i = 0; i < n; ++i) {
		int hi = hp_hexval(s[2 * i]), lo = hp_hexval(s[2 * i + 1]);
		if (hi < 0 || lo < 0) { fprintf(stderr, "bad hex\n"); exit(3); }
		p[i] = (uint8_t)(hi * 16 + lo);
	}
	*len = n;
	return p;
}

// Decodes hex into an exactly sized malloc'ed buffer (so ASan sees overreads); *len receives the size.
static uint8_t *hp_hex(const char *s, size_t *len)
{
	size_t n = (strcmp(s, "-") == 0) ? 0 : strlen(s) / 2;
	uint8_t *p = malloc(n ? n : 1);
	if (p == NULL) abort();
	for (size_t i = 0; i < n; ++i) {
		int hi = hp_hexval(s[2 * i]), lo = hp_hexval(s[2 * i + 1]);
		if (hi < 0 || lo < 0) { fprintf(stderr, "bad hex\n"); exit(3); }
		p[i] = (uint8_t)(hi * 16 + lo);
	}
	*len = n;
	return p;
}

static void hp_put_hex(const uint8_t *p, size_t n)
{
	static const char d[] = "0123456789abcdef";
	if (n == 0) { putchar('-'); return; }
	for (size_t i = 0; i < n; ++i) { putchar(d[p[i] >> 4]); putchar(d[p[i] & 15]); }
}

static uint64_t hp_u64(const char *s) { return strtoull(s, NULL, 10); }

#endif
