// C03 harness, container level: the REAL .xz decoders of liblzma on hand-built files (public API only).
//
//   xz <api> <flags> <reuse> <inslices> <outslices> <orighex> <filehex>
//     api  sd   lzma_stream_decoder(no memory limit, flags) + lzma_code loop
//          sbd  lzma_stream_buffer_decode(flags)
//          alone lzma_alone_decoder (.lzma files; flags ignored)
//          blk  lzma_block_header_decode + lzma_block_decoder + lzma_code loop; <flags> is the Check ID of the Stream
//     reuse 1: run on the ONE persistent lzma_stream of this process, which is re-initialised by this case's init function
//              without lzma_end (the previous case ended in success, an error, or was abandoned); 0: fresh handle
//     slices: comma separated sizes, cycled; "0" = everything at once (whole input + LZMA_FINISH, whole output buffer).
//             Sliced: LZMA_RUN until all input has been handed over, then LZMA_FINISH.
//   answer: "<ret> <consumed> <notices> <outlen> <lcp> <crc64 of the output>"   (the format of harness/c05_main.c)
//     ret = final lzma_ret (notices LZMA_NO_CHECK/UNSUPPORTED_CHECK/GET_CHECK are collected and decoding goes on);
//     100 = output buffer full, 102 = no end after 1e6 lzma_code calls
//     blk: consumed counts the Block Header too (0 if the header itself is rejected)
#include "hproto.h"
#include <lzma.h>
#include "c03_alloc.h"

#define OUTCAP ((size_t)8 << 20)
#define MEMLIMIT UINT64_MAX     // memory limits are C09's subject; here even a 4 GiB dictionary must be allowed
static uint8_t *g_out;
static lzma_stream g_strm = LZMA_STREAM_INIT;   // .allocator is set in main()

static uint64_t g_tab[256];
static uint64_t crc64_of(const uint8_t *p, size_t n)
{
	if (g_tab[1] == 0)
		for (unsigned b = 0; b < 256; ++b) {
			uint64_t c = b;
			for (int k = 0; k < 8; ++k)
				c = (c & 1) ? (c >> 1) ^ UINT64_C(0xC96C5795D7870F42) : c >> 1;
			g_tab[b] = c;
		}
	uint64_t c = ~UINT64_C(0);
	for (size_t i = 0; i < n; ++i)
		c = g_tab[(uint8_t)c ^ p[i]] ^ (c >> 8);
	return ~c;
}

static size_t next_slice(const char *list, const char **state)
{
	if (**state == '\0')
		*state = list;
	char *end;
	unsigned long long v = strtoull(*state, &end, 10);
	*state = (*end == ',') ? end + 1 : end;
	return v == 0 ? 1 : (size_t)v;
}

typedef struct { int ret; size_t consumed, outlen; char notices[128]; } result;

static void note(result *r, int code)
{
	size_t l = strlen(r->notices);
	if (l + 8 < sizeof(r->notices))
		snprintf(r->notices + l, sizeof(r->notices) - l, l ? ",%d" : "%d", code);
}

// feeds `in` to an initialised stream in the given slicing
static void drive(lzma_stream *strm, const uint8_t *in, size_t n, const char *insl, const char *outsl, result *r)
{
	static const uint8_t empty[1] = {0};
	const bool whole_in = !strcmp(insl, "0"), whole_out = !strcmp(outsl, "0");
	const char *ic = "", *oc = "";
	size_t in_given = 0, out_given = 0;
	strm->next_in = n ? in : empty;
	strm->avail_in = 0;
	strm->next_out = g_out;
	strm->avail_out = 0;
	int fin = 102;
	for (long it = 0; it < 1000000; ++it) {
		if (strm->avail_in == 0 && in_given < n) {
			size_t k = whole_in ? n : next_slice(insl, &ic);
			if (k > n - in_given) k = n - in_given;
			strm->avail_in = k; in_given += k;
		}
		if (strm->avail_out == 0 && out_given < OUTCAP) {
			size_t k = whole_out ? OUTCAP : next_slice(outsl, &oc);
			if (k > OUTCAP - out_given) k = OUTCAP - out_given;
			strm->avail_out = k; out_given += k;
		}
		lzma_ret ret = lzma_code(strm, in_given == n ? LZMA_FINISH : LZMA_RUN);
		if (ret == LZMA_OK) {
			if (strm->avail_out == 0 && out_given == OUTCAP) { fin = 100; break; }
			continue;
		}
		if (ret == LZMA_NO_CHECK || ret == LZMA_UNSUPPORTED_CHECK || ret == LZMA_GET_CHECK) {
			note(r, (int)ret);
			continue;
		}
		fin = (int)ret;
		break;
	}
	r->ret = fin;
	r->consumed = (size_t)strm->total_in;
	r->outlen = (size_t)strm->total_out;
}

int main(void)
{
	g_out = malloc(OUTCAP);
	if (g_out == NULL) return 3;
	hp_line l = {0};
	g_strm.allocator = &c03_allocator;
	while (hp_next(&l)) {
		if (strcmp(l.tok[0], "xz") != 0 || l.ntok != 8) { printf("bad-op\n"); continue; }
		const char *api = l.tok[1];
		uint32_t flags = (uint32_t)hp_u64(l.tok[2]);
		const bool reuse = hp_u64(l.tok[3]) != 0;
		size_t on; uint8_t *orig = hp_hex(l.tok[6], &on);
		size_t n; uint8_t *in = hp_hex(l.tok[7], &n);
		result r; memset(&r, 0, sizeof(r));
		lzma_stream fresh = LZMA_STREAM_INIT;
		fresh.allocator = &c03_allocator;
		lzma_stream strm = reuse ? g_strm : fresh;
		bool used_stream = false;
		if (!strcmp(api, "sd")) {
			used_stream = true;
			lzma_ret ret = lzma_stream_decoder(&strm, MEMLIMIT, flags);
			if (ret != LZMA_OK) r.ret = (int)ret;
			else drive(&strm, in, n, l.tok[4], l.tok[5], &r);
		} else if (!strcmp(api, "alone")) {
			used_stream = true;
			lzma_ret ret = lzma_alone_decoder(&strm, MEMLIMIT);
			if (ret != LZMA_OK) r.ret = (int)ret;
			else drive(&strm, in, n, l.tok[4], l.tok[5], &r);
		} else if (!strcmp(api, "sbd")) {
			static const uint8_t empty[1] = {0};
			uint64_t memlimit = MEMLIMIT;
			size_t ip = 0, op = 0;
			r.ret = (int)lzma_stream_buffer_decode(&memlimit, flags, &c03_allocator, n ? in : empty, &ip, n, g_out, &op, OUTCAP);
			r.consumed = ip; r.outlen = op;
		} else if (!strcmp(api, "blk") && n >= 1 && in[0] != 0 && n >= lzma_block_header_size_decode(in[0])) {
			used_stream = true;
			lzma_block block; memset(&block, 0, sizeof(block));
			lzma_filter filters[LZMA_FILTERS_MAX + 1];
			block.version = 1;
			block.check = (lzma_check)flags;
			block.header_size = lzma_block_header_size_decode(in[0]);
			block.filters = filters;
			lzma_ret ret = lzma_block_header_decode(&block, &c03_allocator, in);
			if (ret != LZMA_OK) {
				r.ret = (int)ret;
			} else {
				ret = lzma_block_decoder(&strm, &block);
				if (ret != LZMA_OK) { r.ret = (int)ret; r.consumed = block.header_size; }
				else {
					drive(&strm, in + block.header_size, n - block.header_size, l.tok[4], l.tok[5], &r);
					r.consumed += block.header_size;
				}
				lzma_filters_free(filters, &c03_allocator);
			}
		} else {
			printf("bad-op\n"); free(orig); free(in); continue;
		}
		size_t lcp = 0, m = r.outlen < on ? r.outlen : on;
		while (lcp < m && g_out[lcp] == orig[lcp]) ++lcp;
		printf("%d %zu %s %zu %zu %016" PRIx64 "\n", r.ret, r.consumed, r.notices[0] ? r.notices : "-", r.outlen, lcp,
				crc64_of(g_out, r.outlen));
		if (used_stream) {
			if (reuse) {
				strm.next_in = NULL; strm.avail_in = 0; strm.next_out = NULL; strm.avail_out = 0;
				g_strm = strm;
			} else {
				lzma_end(&strm);
			}
		}
		free(orig); free(in);
	}
	lzma_end(&g_strm);
	hp_done(&l);
	free(g_out);
	return 0;
}
