// C03 harness: the REAL raw decoders of liblzma (public API only), line protocol (see lean/Driver/C03.lean).
//
//   raw      <kind> <lc> <lp> <pb> <dict> <extflags> <extsize> <preset> <outcap> <input>
//            lzma_raw_decoder() + ONE lzma_code(LZMA_FINISH) with all input and outcap bytes of output
//   rawbuf   <same>   lzma_raw_buffer_decode()
//   rawmulti <kind> <lc> <lp> <pb> <dict> <extflags> <extsize> <preset> <outcap> <inslices> <outslices> <input>
//            lzma_raw_decoder() + lzma_code() fed in the given input/output slices (comma separated sizes, cycled),
//            LZMA_RUN until all input is handed over, then LZMA_FINISH, until something else than LZMA_OK comes back.
//   answer:  "<lzma_ret> <in_pos> <out_pos> <out hex>"
//            rawmulti: LZMA_BUF_ERROR (no progress possible) is printed as 0; LZMA_DATA_ERROR is printed as "9" alone.
//   kind: 1 = LZMA_FILTER_LZMA1, 2 = LZMA_FILTER_LZMA1EXT, 3 = LZMA_FILTER_LZMA2
//   rawr / rawmultir: the same on ONE PERSISTENT lzma_stream that is re-initialised with lzma_raw_decoder() for every
//            such op and never lzma_end()ed in between (handle reuse after success / error / abandoned decoding, with the
//            same or another filter): the answer must be the fresh-handle answer.
//
//   dict …   see c03_dict.c (real static inline dictionary functions of lz_decoder.h)
#include "hproto.h"
#include <lzma.h>
#include "c03_alloc.h"

int h_dict_op(hp_line *l);

typedef struct {
	lzma_filter filters[2];
	lzma_options_lzma opt;
	uint8_t *preset;
	size_t outcap;
} setup;

static bool parse_common(hp_line *l, setup *s)
{
	memset(s, 0, sizeof(*s));
	uint64_t kind = hp_u64(l->tok[1]);
	s->opt.lc = (uint32_t)hp_u64(l->tok[2]);
	s->opt.lp = (uint32_t)hp_u64(l->tok[3]);
	s->opt.pb = (uint32_t)hp_u64(l->tok[4]);
	s->opt.dict_size = (uint32_t)hp_u64(l->tok[5]);
	s->opt.ext_flags = (uint32_t)hp_u64(l->tok[6]);
	uint64_t ext = hp_u64(l->tok[7]);
	s->opt.ext_size_low = (uint32_t)ext;
	s->opt.ext_size_high = (uint32_t)(ext >> 32);
	size_t pn;
	s->preset = hp_hex(l->tok[8], &pn);
	s->opt.preset_dict = pn ? s->preset : NULL;
	s->opt.preset_dict_size = (uint32_t)pn;
	s->outcap = (size_t)hp_u64(l->tok[9]);
	s->filters[0].id = kind == 1 ? LZMA_FILTER_LZMA1 : kind == 2 ? LZMA_FILTER_LZMA1EXT : LZMA_FILTER_LZMA2;
	s->filters[0].options = &s->opt;
	s->filters[1].id = LZMA_VLI_UNKNOWN;
	s->filters[1].options = NULL;
	return kind >= 1 && kind <= 3;
}

static void answer(unsigned ret, uint64_t in_pos, uint64_t out_pos, const uint8_t *out)
{
	printf("%u %" PRIu64 " %" PRIu64 " ", ret, in_pos, out_pos);
	hp_put_hex(out, (size_t)out_pos);
	putchar('\n');
}

// next slice size from a comma separated list, cycled; *state is the cursor
static size_t next_slice(const char *list, const char **state)
{
	if (**state == '\0')
		*state = list;
	char *end;
	unsigned long long v = strtoull(*state, &end, 10);
	*state = (*end == ',') ? end + 1 : end;
	return v == 0 ? 1 : (size_t)v;
}

int main(void)
{
	hp_line l = {0};
	lzma_stream pstrm = LZMA_STREAM_INIT;   // the persistent handle of rawr / rawmultir
	pstrm.allocator = &c03_allocator;
	while (hp_next(&l)) {
		const char *op = l.tok[0];
		setup s;
		const bool reuse = !strcmp(op, "rawr") || !strcmp(op, "rawmultir");
		if ((!strcmp(op, "raw") || !strcmp(op, "rawr")) && l.ntok == 11 && parse_common(&l, &s)) {
			size_t n; uint8_t *in = hp_hex(l.tok[10], &n);
			uint8_t *out = malloc(s.outcap ? s.outcap : 1);
			lzma_stream fresh = LZMA_STREAM_INIT;
			fresh.allocator = &c03_allocator;
			lzma_stream strm = reuse ? pstrm : fresh;
			lzma_ret ret = lzma_raw_decoder(&strm, s.filters);
			if (ret != LZMA_OK) {
				answer(ret, 0, 0, out);
			} else {
				strm.next_in = in; strm.avail_in = n;
				strm.next_out = out; strm.avail_out = s.outcap;
				ret = lzma_code(&strm, LZMA_FINISH);
				answer(ret, strm.total_in, strm.total_out, out);
			}
			if (reuse) {
				strm.next_in = NULL; strm.avail_in = 0; strm.next_out = NULL; strm.avail_out = 0;
				pstrm = strm;
			} else {
				lzma_end(&strm);
			}
			free(in); free(out); free(s.preset);
		} else if (!strcmp(op, "rawbuf") && l.ntok == 11 && parse_common(&l, &s)) {
			size_t n; uint8_t *in = hp_hex(l.tok[10], &n);
			uint8_t *out = malloc(s.outcap ? s.outcap : 1);
			size_t in_pos = 0, out_pos = 0;
			lzma_ret ret = lzma_raw_buffer_decode(s.filters, &c03_allocator, in, &in_pos, n, out, &out_pos, s.outcap);
			answer(ret, in_pos, out_pos, out);
			free(in); free(out); free(s.preset);
		} else if ((!strcmp(op, "rawmulti") || !strcmp(op, "rawmultir")) && l.ntok == 13 && parse_common(&l, &s)) {
			size_t n; uint8_t *in = hp_hex(l.tok[12], &n);
			uint8_t *out = malloc(s.outcap ? s.outcap : 1);
			const char *ic = "", *oc = "";
			lzma_stream fresh = LZMA_STREAM_INIT;
			fresh.allocator = &c03_allocator;
			lzma_stream strm = reuse ? pstrm : fresh;
			strm.avail_in = 0; strm.avail_out = 0;
			lzma_ret ret = lzma_raw_decoder(&strm, s.filters);
			if (ret != LZMA_OK) {
				answer(ret, 0, 0, out);
			} else {
				size_t in_given = 0, out_given = 0;
				strm.next_in = in; strm.next_out = out;
				unsigned long guard = 0;
				for (;;) {
					if (strm.avail_in == 0 && in_given < n) {
						size_t k = next_slice(l.tok[10], &ic);
						if (k > n - in_given) k = n - in_given;
						strm.avail_in = k; in_given += k;
					}
					if (strm.avail_out == 0 && out_given < s.outcap) {
						size_t k = next_slice(l.tok[11], &oc);
						if (k > s.outcap - out_given) k = s.outcap - out_given;
						strm.avail_out = k; out_given += k;
					}
					ret = lzma_code(&strm, in_given == n ? LZMA_FINISH : LZMA_RUN);
					if (ret != LZMA_OK || ++guard > 100000000ul)
						break;
				}
				if (ret == LZMA_DATA_ERROR)
					printf("9\n");
				else
					answer(ret == LZMA_BUF_ERROR ? 0 : ret, strm.total_in, strm.total_out, out);
			}
			if (reuse) {
				strm.next_in = NULL; strm.avail_in = 0; strm.next_out = NULL; strm.avail_out = 0;
				pstrm = strm;
			} else {
				lzma_end(&strm);
			}
			free(in); free(out); free(s.preset);
		} else if (!strcmp(op, "dict")) {
			if (!h_dict_op(&l))
				printf("bad-op\n");
		} else {
			printf("bad-op\n");
		}
	}
	lzma_end(&pstrm);
	hp_done(&l);
	return 0;
}
