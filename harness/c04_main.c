// C04 observation engine (direct oracle on the real code; independent of the Lean model).
//
// Line protocol (one result line per op line, flushed immediately so that a sanitizer abort identifies its op):
//   run  <ep> <seed> <p0> <p1> <p2> <p3> <hex>   one execution of entry point <ep>
//   run2 <ep> <seed> <p0> <p1> <p2> <p3> <hex>   the same three times: fresh handle with junk 0xA5 in fresh heap memory and output
//                                                buffers, fresh handle with junk 0x00, and on a REUSED handle (a lzma_stream
//                                                that first ran 1-2 seeded other/same coders on the same bytes, ended in
//                                                success / error / abandoned mid-stream, and is re-initialised without
//                                                lzma_end), with different junk in fresh heap memory and output buffers;
//                                                the observable result must be identical
//   gen  <format> <variant> <hex>                valid file produced by the real encoders (c04_gen.c)
//   idx  ...                                     real index macros on a grid (c04_idx.c)
// Result line of run/run2:
//   ok|BAD ep=<ep> init=<n> ret=<n> calls=<n> in=<n> out=<n> crc=<n> noprog=<n> seeks=<n> aux=<n> cap=<0|1>
//          allocs=<n> refused=<n> peak=<n> [why=<text>]
// A violation is: BAD line, a sanitizer/assert abort (process dies), the watchdog (exit code 97, line "BAD ... why=watchdog").
#include "c04.h"
#include <pthread.h>
#include <signal.h>
#include <sys/time.h>
#include <unistd.h>

// ---------------------------------------------------------------------------------------------------------------
// violations
// ---------------------------------------------------------------------------------------------------------------
void c04_bad(c04_res *r, const char *fmt, ...)
{
	if (r->bad[0] != '\0')
		return;
	va_list ap;
	va_start(ap, fmt);
	vsnprintf(r->bad, sizeof(r->bad), fmt, ap);
	va_end(ap);
	for (char *c = r->bad; *c; ++c)
		if (*c == ' ' || *c == '\n')
			*c = '_';
}

void c04_check_ret(c04_res *r, const char *fn, int ret, unsigned doc)
{
	if (ret < 0 || ret > 31 || !(RB(ret) & doc)) {
		c04_bad(r, "undocumented-return:%s:%d", fn, ret);
		return;
	}
	if (ret == LZMA_MEM_ERROR && c04_n_refused == 0)
		c04_bad(r, "LZMA_MEM_ERROR-without-allocation-failure:%s", fn);
}

// ---------------------------------------------------------------------------------------------------------------
// PRNG
// ---------------------------------------------------------------------------------------------------------------
uint64_t c04_next(c04_rng *g)
{
	uint64_t z = (g->s += 0x9E3779B97F4A7C15ull);
	z = (z ^ (z >> 30)) * 0xBF58476D1CE4E5B9ull;
	z = (z ^ (z >> 27)) * 0x94D049BB133111EBull;
	return z ^ (z >> 31);
}

uint64_t c04_below(c04_rng *g, uint64_t n)
{
	return c04_next(g) % n;
}

// ---------------------------------------------------------------------------------------------------------------
// counting allocator: exactly sized malloc blocks (so ASan traps both ends), side table for the sizes
// ---------------------------------------------------------------------------------------------------------------
#define NSLOT 16384
static struct { void *p; size_t n; } slots[NSLOT];
static pthread_mutex_t amu = PTHREAD_MUTEX_INITIALIZER;
size_t c04_live_bytes, c04_live_blocks, c04_peak_bytes, c04_n_allocs, c04_n_refused;
size_t c04_alloc_cap = (size_t)48 << 20;
uint8_t c04_junk = 0xA5;
static bool c04_fill = true;      // false under valgrind (keep fresh memory undefined for memcheck)
static volatile int alloc_broken; // table overflow / foreign pointer

// Fault injection for the handle-reuse priming steps (never active during the execution whose result is reported):
//   fail_countdown = N > 0: the N-th allocation from now fails (and, if fail_sticky, every later one too);
//   fail_min_size  = T > 0: every allocation of at least T bytes fails (T = dictionary-sized: the LZ dictionary fails,
//                           the small bookkeeping structs succeed).
// A failed allocation counts as refused, so LZMA_MEM_ERROR is then a documented answer.
static size_t fail_countdown, fail_min_size;
static bool fail_sticky;

static bool inject_failure(size_t n)
{
	bool fail = false;
	pthread_mutex_lock(&amu);
	if (fail_min_size != 0 && n >= fail_min_size)
		fail = true;
	if (fail_countdown != 0) {
		if (fail_countdown == 1) {
			fail = true;
			if (!fail_sticky)
				fail_countdown = 0;
		} else {
			--fail_countdown;
		}
	}
	if (fail)
		++c04_n_refused;
	pthread_mutex_unlock(&amu);
	return fail;
}

static void *h_alloc(void *opaque, size_t nmemb, size_t size)
{
	(void)opaque;
	size_t n;
	if (!__builtin_mul_overflow(nmemb, size, &n) && (fail_countdown != 0 || fail_min_size != 0) && inject_failure(n))
		return NULL;
	if (__builtin_mul_overflow(nmemb, size, &n) || n > c04_alloc_cap) {
		pthread_mutex_lock(&amu);
		++c04_n_refused;
		pthread_mutex_unlock(&amu);
		return NULL;
	}
	void *p = malloc(n ? n : 1);
	if (p == NULL) {
		pthread_mutex_lock(&amu);
		++c04_n_refused;
		pthread_mutex_unlock(&amu);
		return NULL;
	}
	if (c04_fill)
		memset(p, c04_junk, n);
	pthread_mutex_lock(&amu);
	size_t h = ((uintptr_t)p >> 4) % NSLOT, k = 0;
	while (slots[h].p != NULL && k < NSLOT) {
		h = (h + 1) % NSLOT;
		++k;
	}
	if (k == NSLOT) {
		alloc_broken = 1;
	} else {
		slots[h].p = p;
		slots[h].n = n;
		c04_live_bytes += n;
		++c04_live_blocks;
		++c04_n_allocs;
		if (c04_live_bytes > c04_peak_bytes)
			c04_peak_bytes = c04_live_bytes;
	}
	pthread_mutex_unlock(&amu);
	return p;
}

static void h_free(void *opaque, void *p)
{
	(void)opaque;
	if (p == NULL)
		return;
	pthread_mutex_lock(&amu);
	size_t h = ((uintptr_t)p >> 4) % NSLOT, k = 0;
	while (slots[h].p != p && k < NSLOT) {
		h = (h + 1) % NSLOT;
		++k;
	}
	if (k == NSLOT) {
		alloc_broken = 2;   // free of a pointer that did not come from this allocator
	} else {
		// linear probing with deletion: re-insert the cluster that follows
		c04_live_bytes -= slots[h].n;
		--c04_live_blocks;
		slots[h].p = NULL;
		size_t j = (h + 1) % NSLOT;
		while (slots[j].p != NULL) {
			void *q = slots[j].p;
			size_t qn = slots[j].n;
			slots[j].p = NULL;
			size_t t = ((uintptr_t)q >> 4) % NSLOT;
			while (slots[t].p != NULL)
				t = (t + 1) % NSLOT;
			slots[t].p = q;
			slots[t].n = qn;
			j = (j + 1) % NSLOT;
		}
	}
	pthread_mutex_unlock(&amu);
	free(p);
}

lzma_allocator c04_alloc = { h_alloc, h_free, NULL };

void *c04_xmalloc(size_t n)
{
	void *p = malloc(n);   // malloc(0) is a valid zero-sized block under ASan: any access traps
	if (p == NULL) {
		fprintf(stderr, "harness out of memory (%zu)\n", n);
		exit(3);
	}
	if (c04_fill)
		memset(p, c04_junk, n);
	return p;
}

uint8_t *c04_dup(const uint8_t *p, size_t n)
{
	uint8_t *q = malloc(n);
	if (q == NULL)
		exit(3);
	if (n)
		memcpy(q, p, n);
	return q;
}

// ---------------------------------------------------------------------------------------------------------------
// watchdog
// ---------------------------------------------------------------------------------------------------------------
static char wd_msg[600];
static unsigned wd_wall = 300, wd_cpu = 20;

static void on_alarm(int sig)
{
	const char *k = sig == SIGALRM ? " kind=wall\n" : " kind=cpu\n";
	ssize_t w = write(1, wd_msg, strlen(wd_msg));
	w = write(1, k, strlen(k));
	(void)w;
	_exit(97);
}

void c04_watch(const char *what)
{
	snprintf(wd_msg, sizeof(wd_msg), "BAD %s why=watchdog", what);
	alarm(wd_wall);
	struct itimerval it = { {0, 0}, {wd_cpu, 0} };
	setitimer(ITIMER_PROF, &it, NULL);
}

static void unwatch(void)
{
	alarm(0);
	struct itimerval it = { {0, 0}, {0, 0} };
	setitimer(ITIMER_PROF, &it, NULL);
}

// ---------------------------------------------------------------------------------------------------------------
// one execution
// ---------------------------------------------------------------------------------------------------------------
static void exec_once(const c04_op *op, c04_res *r)
{
	memset(r, 0, sizeof(*r));
	r->init_ret = -1;
	r->ret = -1;
	c04_live_bytes = c04_live_blocks = c04_peak_bytes = c04_n_allocs = c04_n_refused = 0;
	alloc_broken = 0;
	if (!c04_run_stream_ep(op, r, NULL, 0) && !c04_run_parse_ep(op, r, false))
		c04_bad(r, "harness:unknown-entry-point");
	if (c04_live_bytes != 0 || c04_live_blocks != 0)
		c04_bad(r, "leak:%zu-bytes-in-%zu-blocks-live-after-end", c04_live_bytes, c04_live_blocks);
	if (alloc_broken)
		c04_bad(r, "allocator:%s", alloc_broken == 2 ? "free-of-foreign-pointer" : "table-overflow");
	if (c04_live_blocks != 0) {
		// forget the leaked blocks so that the next op starts clean (they stay allocated: LSan reports them too)
		memset(slots, 0, sizeof(slots));
		c04_live_bytes = c04_live_blocks = 0;
	}
}

static const char *canned_for(const char *ep)
{
	// small valid inputs (tests/files/good-1-check-crc32.xz and its Block / LZMA2 payload / Index, good-known_size-with_eopm.lzma,
	// good-1-v1.lz) so that a priming run can also END IN SUCCESS whatever the op's own bytes are
	if (!strcmp(ep, "stream") || !strcmp(ep, "mt") || !strcmp(ep, "auto") || !strcmp(ep, "fileinfo"))
		return "fd377a585a0000016922de360200210108000000d80f231301000548656c6c6f0a020006576f726c64210a0043a3a2150001240d3028dfaf9042990d010000000001595a";
	if (!strcmp(ep, "alone"))
		return "5d001000000d0000000000000000241949986f051527270d7678d02a681715ffff75f80000";
	if (!strcmp(ep, "lzip"))
		return "4c5a4950010c00241949986f051527270d7678d02a681715ffff75f8000043a3a2150d000000000000003200000000000000";
	if (!strcmp(ep, "raw"))
		return "01000548656c6c6f0a020006576f726c64210a00";
	if (!strcmp(ep, "block"))
		return "0200210108000000d80f231301000548656c6c6f0a020006576f726c64210a0043a3a215";
	if (!strcmp(ep, "index"))
		return "0001240d3028dfaf";
	return NULL;
}

// An input for `ep` whose header asks for a DIFFERENT LZ dictionary size than usual (selected by `sel`), so that a decoder
// that keeps its LZ coder across re-initialisations has to reallocate the dictionary. Returns a malloc'ed buffer or NULL.
static uint8_t *other_dict_input(const char *ep, unsigned sel, size_t *len, c04_op *pop)
{
	static const uint32_t sizes[] = { 1u << 20, 1u << 16, 3u << 19, 8192, 1u << 22, 4096 };
	const uint32_t ds = sizes[sel % 6];
	if (!strcmp(ep, "alone") || (!strcmp(ep, "auto") && (sel & 8))) {
		uint8_t *b = hp_hex(canned_for("alone"), len);
		for (int i = 0; i < 4; ++i)
			b[1 + i] = (uint8_t)(ds >> (8 * i));
		return b;
	}
	if (!strcmp(ep, "lzip")) {
		static const uint8_t codes[] = { 0x14, 0x10, 0x15, 0x0D, 0x16, 0x0C };
		uint8_t *b = hp_hex(canned_for("lzip"), len);
		b[5] = codes[sel % 6];
		return b;
	}
	if (!strcmp(ep, "micro")) {
		pop->p[3] = ds;
		return NULL;     // same bytes, the dictionary size is an argument
	}
	if (!strcmp(ep, "raw")) {
		static const unsigned chains[] = { 2, 1, 0, 5, 3, 10 };
		pop->p[0] = chains[sel % 6];
		return NULL;
	}
	if (!strcmp(ep, "stream") || !strcmp(ep, "mt") || !strcmp(ep, "auto") || !strcmp(ep, "fileinfo") || !strcmp(ep, "block")) {
		// the canned .xz (or its Block) with another LZMA2 dictionary byte, Block Header CRC32 recomputed
		static const uint8_t dbytes[] = { 0x10, 0x08, 0x0F, 0x02, 0x14, 0x00 };
		uint8_t *b = hp_hex(canned_for(ep), len);
		const size_t off = !strcmp(ep, "block") ? 0 : 12;
		b[off + 4] = dbytes[sel % 6];
		const uint32_t c = lzma_crc32(b + off, 8, 0);
		for (int i = 0; i < 4; ++i)
			b[off + 8 + i] = (uint8_t)(c >> (8 * i));
		if (!strcmp(ep, "block"))
			pop->p[0] = 1;
		return b;
	}
	return NULL;
}

// The same execution on a REUSED handle: a lzma_stream that already ran other (or the same) coders and was left in
// whatever state those runs ended in — success, error, abandoned in the middle, or an initialisation / decode that FAILED
// because the allocator refused a request — re-initialised without lzma_end. Everything is derived from the op's seed,
// so the op line alone replays it. Allocator balance is checked after the single final lzma_end.
//
// Two kinds of history:
//   random:     1-2 steps, each a seeded coder on the op's bytes or a canned valid input, each possibly with a failing
//               allocator (N-th allocation, sticky or not, or every dictionary-sized request);
//   three-step: (1) the op itself (allocates this decoder's dictionary, size X), (2) the SAME decoder kind on an input
//               whose header asks for another dictionary size Y while the allocator refuses dictionary-sized requests or
//               fails at a seeded N, (3) the op again = the execution whose result is reported and compared.
static void exec_reused(const c04_op *op, c04_res *r)
{
	memset(r, 0, sizeof(*r));
	r->init_ret = -1;
	r->ret = -1;
	c04_live_bytes = c04_live_blocks = c04_peak_bytes = c04_n_allocs = c04_n_refused = 0;
	alloc_broken = 0;
	if (c04_is_stream_ep(op->ep)) {
		static const char *const eps[] = { "stream", "mt", "auto", "alone", "lzip", "micro", "raw", "block", "index", "fileinfo" };
		c04_rng g = { op->seed * 0x9E3779B97F4A7C15ull + 0x5EED };
		lzma_stream h = LZMA_STREAM_INIT;
		h.allocator = &c04_alloc;
		const bool three_step = c04_below(&g, 3) == 0;
		const unsigned rounds = three_step ? 2 : 1 + (unsigned)c04_below(&g, 2);
		for (unsigned k = 0; k < rounds && r->bad[0] == '\0'; ++k) {
			c04_op pop = *op;
			c04_res pr;
			memset(&pr, 0, sizeof(pr));
			pr.init_ret = pr.ret = -1;
			pop.seed = c04_next(&g);
			unsigned abandon = 0;
			uint8_t *canned = NULL;
			bool inject = false;
			if (three_step) {
				if (k == 0) {
					// the op itself, run to its end or far enough to have set up its dictionary
					abandon = c04_below(&g, 2) == 0 ? 0 : 30 + (unsigned)c04_below(&g, 200);
				} else {
					size_t cn = 0;
					canned = other_dict_input(op->ep, (unsigned)c04_below(&g, 48), &cn, &pop);
					if (canned != NULL) {
						pop.in = canned;
						pop.in_len = cn;
					}
					if (!strcmp(op->ep, "stream") || !strcmp(op->ep, "auto") || !strcmp(op->ep, "mt") || !strcmp(op->ep, "fileinfo")) {
						pop.p[0] = 0;
						pop.p[1] = UINT64_MAX;
					}
					inject = true;
				}
			} else {
				if (c04_below(&g, 2) == 0) {
					pop.ep = eps[c04_below(&g, sizeof(eps) / sizeof(eps[0]))];
					pop.p[0] = !strcmp(pop.ep, "block") ? 1 : 0;
					pop.p[1] = !strcmp(pop.ep, "micro") ? 100 : UINT64_MAX;
					pop.p[2] = !strcmp(pop.ep, "mt") ? 2 : 0;
					pop.p[3] = !strcmp(pop.ep, "micro") ? 4096 : UINT64_MAX;
				}
				abandon = c04_below(&g, 2) == 0 ? 1 + (unsigned)c04_below(&g, 40) : 0;
				if (c04_below(&g, 2) == 0 && canned_for(pop.ep) != NULL) {
					size_t cn;
					canned = hp_hex(canned_for(pop.ep), &cn);
					pop.in = canned;
					pop.in_len = cn;
					if (pop.ep != op->ep) {
						pop.p[0] = !strcmp(pop.ep, "block") ? 1 : 0;
						pop.p[1] = UINT64_MAX;
					} else if (!strcmp(pop.ep, "raw")) {
						pop.p[0] = 0;
					} else if (!strcmp(pop.ep, "block")) {
						pop.p[0] = 1;
					}
				}
				inject = c04_below(&g, 3) == 0;
			}
			c04_n_refused = 0;
			if (inject) {
				const unsigned mode = (unsigned)c04_below(&g, 4);
				if (mode <= 1) {
					fail_min_size = 4096;              // every dictionary-sized request (the coder structs of a reused
					                                   // handle already exist; on a first use they fail too)
				} else {
					fail_countdown = 1 + (size_t)c04_below(&g, 10);
					fail_sticky = mode == 3;
				}
			}
			c04_run_stream_ep(&pop, &pr, &h, abandon);
			fail_countdown = 0;
			fail_min_size = 0;
			fail_sticky = false;
			free(canned);
			if (pr.bad[0] != '\0')
				c04_bad(r, "priming(%s%s):%s", pop.ep, inject ? ",failing-allocator" : "", pr.bad);
		}
		if (r->bad[0] == '\0') {
			c04_n_refused = 0;
			c04_run_stream_ep(op, r, &h, 0);
		}
		lzma_end(&h);
		if (h.internal != NULL)
			c04_bad(r, "lzma_end-left-internal");
	} else if (!c04_run_parse_ep(op, r, true)) {
		c04_bad(r, "harness:unknown-entry-point");
	}
	if (c04_live_bytes != 0 || c04_live_blocks != 0)
		c04_bad(r, "leak(reused-handle):%zu-bytes-in-%zu-blocks-live-after-end", c04_live_bytes, c04_live_blocks);
	if (alloc_broken)
		c04_bad(r, "allocator:%s", alloc_broken == 2 ? "free-of-foreign-pointer" : "table-overflow");
	if (c04_live_blocks != 0) {
		memset(slots, 0, sizeof(slots));
		c04_live_bytes = c04_live_blocks = 0;
	}
}

static void print_res(const c04_op *op, const c04_res *r)
{
	printf("%s ep=%s init=%d ret=%d calls=%" PRIu64 " in=%" PRIu64 " out=%" PRIu64 " crc=%" PRIu32
			" noprog=%u seeks=%" PRIu64 " aux=%" PRIu64 " cap=%d allocs=%zu refused=%zu peak=%zu",
			r->bad[0] ? "BAD" : "ok", op->ep, r->init_ret, r->ret, r->calls, r->in_total, r->out_total, r->crc,
			r->max_noprog, r->seeks, r->aux, (int)r->capped, c04_n_allocs, c04_n_refused, c04_peak_bytes);
	if (r->bad[0])
		printf(" why=%s", r->bad);
	putchar('\n');
	fflush(stdout);
}

int main(void)
{
	setvbuf(stdout, NULL, _IOLBF, 0);
	if (getenv("C04_WALL")) wd_wall = (unsigned)atoi(getenv("C04_WALL"));
	if (getenv("C04_CPU")) wd_cpu = (unsigned)atoi(getenv("C04_CPU"));
	if (getenv("C04_ALLOC_CAP")) c04_alloc_cap = (size_t)strtoull(getenv("C04_ALLOC_CAP"), NULL, 10);
	if (getenv("C04_NOFILL")) c04_fill = false;
	signal(SIGALRM, on_alarm);
	signal(SIGPROF, on_alarm);

	hp_line l = {0};
	while (hp_next(&l)) {
		const char *cmd = l.tok[0];
		if ((!strcmp(cmd, "run") || !strcmp(cmd, "run2")) && l.ntok == 8) {
			c04_op op;
			op.ep = l.tok[1];
			op.seed = hp_u64(l.tok[2]);
			for (int i = 0; i < 4; ++i)
				op.p[i] = hp_u64(l.tok[3 + i]);
			size_t n;
			uint8_t *in = hp_hex(l.tok[7], &n);
			op.in = in;
			op.in_len = n;
			char what[200];
			snprintf(what, sizeof(what), "ep=%s", op.ep);
			c04_watch(what);
			c04_res r1, r2;
			c04_junk = 0xA5;
			exec_once(&op, &r1);
			if (!strcmp(cmd, "run2")) {
				// (a) same op, fresh handle, the other junk fill: nothing observable may depend on never-written memory;
				// (b) same op on a reused handle.
				for (int pass = 0; pass < 2 && r1.bad[0] == '\0'; ++pass) {
					const char *const what2 = pass == 0 ? "result-depends-on-junk-fill(uninitialised-memory)"
							: "fresh-vs-reused-handle-results-differ";
					c04_junk = 0x00;
					if (pass == 0)
						exec_once(&op, &r2);
					else
						exec_reused(&op, &r2);
					if (r2.bad[0] != '\0') {
						r1 = r2;
					} else if (r1.timing) {
						// threaded decoder: the number of calls and the moment an error surfaces depend on thread timing;
						// only a successful decode must give the same bytes
						if (r1.ret == LZMA_STREAM_END && r2.ret == LZMA_STREAM_END && !r1.capped && !r2.capped
								&& (r1.out_total != r2.out_total || r1.crc != r2.crc))
							c04_bad(&r1, "%s(mt):out=%" PRIu64 "/%" PRIu64 ",crc=%" PRIu32 "/%" PRIu32, what2,
									r1.out_total, r2.out_total, r1.crc, r2.crc);
					} else if (r1.init_ret != r2.init_ret || r1.ret != r2.ret || r1.in_total != r2.in_total
							|| r1.out_total != r2.out_total || r1.crc != r2.crc || r1.calls != r2.calls
							|| r1.aux != r2.aux) {
						c04_bad(&r1, "%s:ret=%d/%d,in=%" PRIu64 "/%" PRIu64 ",out=%" PRIu64
								"/%" PRIu64 ",crc=%" PRIu32 "/%" PRIu32 ",calls=%" PRIu64 "/%" PRIu64, what2,
								r1.ret, r2.ret, r1.in_total, r2.in_total, r1.out_total, r2.out_total, r1.crc, r2.crc,
								r1.calls, r2.calls);
					}
				}
			}
			unwatch();
			print_res(&op, &r1);
			free(in);
		} else if (!strcmp(cmd, "gen")) {
			c04_watch("gen");
			if (!c04_gen(l.ntok, l.tok))
				printf("bad-op\n");
			unwatch();
			fflush(stdout);
		} else if (!strcmp(cmd, "idx")) {
			if (!c04_idx(l.ntok, l.tok))
				printf("bad-op\n");
			fflush(stdout);
		} else {
			printf("bad-op\n");
			fflush(stdout);
		}
	}
	hp_done(&l);
	return 0;
}
