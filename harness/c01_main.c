// C01 harness: the REAL liblzma encoders, driven in-process, then the matching REAL decoder; byte comparison.
//
// Line protocol (one op per line, one result line per op):
//   rt <api> key=value ...      round trip through <api>; result  "ok in=<N> out=<M>[ consumed=<K>]"
//                               or "FAIL stage=<...> ret=<lzma_ret> ..." or "rejected ret=<n>" (encoder init refused the config)
//   trace <lzma1|lzma2|micro> key=value ... dump=<prefix>
//                               (needs hook H2) raw encoder with the symbol-trace callback; writes <prefix>.in/.out/.trace[/.pd]
//                               and also round-trips through the C decoder; result "ok in=<N> out=<M> nsym=<S>[ consumed=<K>]"
//   reuse <api1> <api2> key=value ...   ENCODER (and decoder) handle reuse: stream 1 is encoded through <api1> with its
//                               output handed out in pieces of oslice= bytes (0 = huge), then the SAME lzma_stream is
//                               re-initialised (no lzma_end) for <api2> and stream 2 (gen2=, keys prefixed "2." override the
//                               options, oslice2=) is encoded; both outputs are decoded (one decoder handle, re-initialised
//                               as well) and compared: "ok in=<N1>+<N2> out=<M1>+<M2>". apis: alone raw stream easy mt
//   rt blockbuf|blockuncomp ...  lzma_block_buffer_encode / lzma_block_uncomp_encode: the Block Header's Compressed Size and
//                               lzma_block_unpadded_size() must equal the bytes really written; decoded by
//                               lzma_block_header_decode + lzma_block_buffer_decode
//   caps                        "caps h1=<0|1> h2=<0|1>"
//   rc <ops>                    the real range encoder on an operation string (see c01_rc.c) -> hex bytes
//   rcdummy <ops> <pending> <limit>   real rc_encode_dummy after encoding <ops> with <pending> queued -> "<0|1> <out_total>"
//
// apis: easy sbuf stream alone raw rawbuf micro mt
// keys: gen=<kind>,<seed>,<size>  pd=<kind>,<seed>,<size>  preset=<0-9>[e]  dict= lc= lp= pb= mode= nice= mf= depth=
//       check=<0|1|4|10>  chain=f1+f2+..+lzma1|lzma2  slice=<seed>  flush=<seed>  bias=<k>  limit=<n>
//       threads= block= timeout=  dump=<prefix>  eopm=<0|1> (lzma1 in raw chains: LZMA1EXT without/with end marker)
// Input data is generated here from the compact spec (deterministic PRNG), so no large hex strings travel.
// Everything is malloc'ed with exact sizes (ASan sees overruns) and freed (LeakSanitizer is on).
#include "hproto.h"
#include <lzma.h>

void c01_rc_op(const char *ops);
void c01_rcdummy2_op(const char *pre, const char *pend, unsigned long long limit);

#ifdef C01_HAVE_H1
extern uint32_t lzma_verif_mf_offset_init;
#endif
#ifdef C01_HAVE_H2
extern void (*lzma_verif_sym_cb)(uint32_t kind, uint32_t back, uint32_t len, uint32_t position, uint32_t read_ahead);
#endif

// ---------------------------------------------------------------------------------------------------------------
// PRNG and input generators
// ---------------------------------------------------------------------------------------------------------------

typedef struct { uint64_t s; } rng_t;

static uint64_t rng_next(rng_t *r)
{
	uint64_t z = (r->s += 0x9E3779B97F4A7C15ull);
	z = (z ^ (z >> 30)) * 0xBF58476D1CE4E5B9ull;
	z = (z ^ (z >> 27)) * 0x94D049BB133111EBull;
	return z ^ (z >> 31);
}

static uint64_t rng_below(rng_t *r, uint64_t n) { return n == 0 ? 0 : rng_next(r) % n; }

static const char *const words[] = {
	"the", "of", "and", "compression", "stream", "block", "index", "filter", "lzma", "range", "coder", "match",
	"literal", "distance", "length", "dictionary", "window", "buffer", "input", "output", "encoder", "decoder",
	"a", "to", "in", "is", "that", "it", "for", "as", "with", "was", "on", "be", "by", "at", "this", "have", "from",
	"or", "one", "had", "not", "but", "what", "all", "were", "when", "we", "there", "can", "an", "your", "which",
	"their", "said", "if", "do", "will", "each", "about", "how", "up", "out", "them", "then", "she", "many", "some",
};
#define NWORDS (sizeof(words) / sizeof(words[0]))

static void gen_fill(uint8_t *p, size_t n, const char *kind, rng_t *r);

static void gen_rnd(uint8_t *p, size_t n, rng_t *r)
{
	size_t i = 0;
	while (i + 8 <= n) { uint64_t v = rng_next(r); memcpy(p + i, &v, 8); i += 8; }
	while (i < n) p[i++] = (uint8_t)rng_next(r);
}

static void gen_run(uint8_t *p, size_t n, rng_t *r)
{
	size_t i = 0;
	while (i < n) {
		size_t len = 1 + (size_t)rng_below(r, rng_below(r, 4) == 0 ? 600 : 12);
		uint8_t b = (uint8_t)rng_next(r);
		for (size_t k = 0; k < len && i < n; ++k) p[i++] = b;
	}
}

static void gen_text(uint8_t *p, size_t n, rng_t *r)
{
	size_t i = 0;
	while (i < n) {
		const char *w = words[rng_below(r, NWORDS)];
		for (const char *c = w; *c != '\0' && i < n; ++c) p[i++] = (uint8_t)*c;
		if (i < n) {
			uint64_t k = rng_below(r, 20);
			p[i++] = k == 0 ? '\n' : k == 1 ? ',' : k == 2 ? '.' : ' ';
		}
	}
}

static void gen_per(uint8_t *p, size_t n, rng_t *r)
{
	size_t period = 1 + (size_t)rng_below(r, 300);
	uint8_t blk[300];
	for (size_t i = 0; i < period; ++i) blk[i] = (uint8_t)rng_next(r);
	for (size_t i = 0; i < n; ++i) p[i] = blk[i % period];
}

static void gen_bin(uint8_t *p, size_t n, rng_t *r)
{
	// x86-like: opcode bytes, frequent E8/E9 + rel32 pointing to a few common absolute targets; some aligned 4-byte
	// branch-like words for the RISC filters (ARM BL 0xEB, PowerPC 0x48..01, SPARC 0x40/0x7F, ARM64 0x94).
	uint32_t targets[8];
	for (int i = 0; i < 8; ++i) targets[i] = (uint32_t)rng_below(r, n + 1000);
	size_t i = 0;
	while (i < n) {
		uint64_t k = rng_below(r, 10);
		if (k < 3 && i + 5 <= n) {
			p[i] = (rng_below(r, 2) != 0) ? 0xE8 : 0xE9;
			uint32_t rel = targets[rng_below(r, 8)] - (uint32_t)(i + 5);
			if (rng_below(r, 8) == 0) rel = (uint32_t)rng_next(r);
			p[i + 1] = (uint8_t)rel; p[i + 2] = (uint8_t)(rel >> 8); p[i + 3] = (uint8_t)(rel >> 16); p[i + 4] = (uint8_t)(rel >> 24);
			i += 5;
		} else if (k < 5 && (i & 3) == 0 && i + 4 <= n) {
			uint32_t t = targets[rng_below(r, 8)] >> 2;
			switch (rng_below(r, 4)) {
			case 0: p[i] = (uint8_t)t; p[i + 1] = (uint8_t)(t >> 8); p[i + 2] = (uint8_t)(t >> 16); p[i + 3] = 0xEB; break;       // ARM BL
			case 1: p[i] = 0x48 | ((t >> 22) & 3); p[i + 1] = (uint8_t)(t >> 14); p[i + 2] = (uint8_t)(t >> 6); p[i + 3] = (uint8_t)((t << 2) | 1); break; // PPC bl
			case 2: p[i] = 0x40 | ((t >> 24) & 0x3F); p[i + 1] = (uint8_t)(t >> 16); p[i + 2] = (uint8_t)(t >> 8); p[i + 3] = (uint8_t)t; break;          // SPARC call
			default: p[i] = (uint8_t)t; p[i + 1] = (uint8_t)(t >> 8); p[i + 2] = (uint8_t)(t >> 16); p[i + 3] = 0x94 | ((t >> 24) & 3); break;             // ARM64 BL
			}
			i += 4;
		} else {
			static const uint8_t common[] = { 0x8B, 0x89, 0x55, 0x48, 0x0F, 0x00, 0xFF, 0x83, 0xC3, 0x90, 0x74, 0x75, 0x01, 0x10 };
			p[i++] = rng_below(r, 3) == 0 ? (uint8_t)rng_next(r) : common[rng_below(r, sizeof(common))];
		}
	}
}

static void gen_far(uint8_t *p, size_t n, rng_t *r)
{
	// text in which blocks repeat at (possibly large) distances
	size_t i = 0;
	while (i < n) {
		size_t len = 1 + (size_t)rng_below(r, 400);
		if (len > n - i) len = n - i;
		if (i > 0 && rng_below(r, 3) != 0) {
			size_t dist = 1 + (size_t)rng_below(r, rng_below(r, 2) != 0 ? i : (i < 5000 ? i : 5000));
			for (size_t k = 0; k < len; ++k) p[i + k] = p[i + k - dist];
		} else {
			gen_text(p + i, len, r);
		}
		i += len;
	}
}

static void gen_mix(uint8_t *p, size_t n, rng_t *r)
{
	static const char *const kinds[] = { "zero", "rnd", "run", "text", "per", "bin", "far" };
	size_t i = 0;
	while (i < n) {
		size_t len = 1 + (size_t)rng_below(r, rng_below(r, 3) == 0 ? 20000 : 700);
		if (len > n - i) len = n - i;
		gen_fill(p + i, len, kinds[rng_below(r, 7)], r);
		i += len;
	}
}

static void gen_inc(uint8_t *p, size_t n, rng_t *r)
{
	// incompressible / compressible / incompressible thirds with ragged borders (forces uncompressed LZMA2 chunks
	// followed by LZMA chunks)
	size_t a = n / 3 + (size_t)rng_below(r, n / 7 + 1), b = a + n / 4 + (size_t)rng_below(r, n / 7 + 1);
	if (a > n) a = n;
	if (b > n) b = n;
	gen_rnd(p, a, r);
	gen_text(p + a, b - a, r);
	gen_rnd(p + b, n - b, r);
}

static void gen_fill(uint8_t *p, size_t n, const char *kind, rng_t *r)
{
	if (strcmp(kind, "zero") == 0) memset(p, 0, n);
	else if (strcmp(kind, "rnd") == 0) gen_rnd(p, n, r);
	else if (strcmp(kind, "run") == 0) gen_run(p, n, r);
	else if (strcmp(kind, "text") == 0) gen_text(p, n, r);
	else if (strcmp(kind, "per") == 0) gen_per(p, n, r);
	else if (strcmp(kind, "bin") == 0) gen_bin(p, n, r);
	else if (strcmp(kind, "far") == 0) gen_far(p, n, r);
	else if (strcmp(kind, "mix") == 0) gen_mix(p, n, r);
	else if (strcmp(kind, "inc") == 0) gen_inc(p, n, r);
	else memset(p, 0x55, n);
}

static bool gen_kind_ok(const char *k)
{
	static const char *const ks[] = { "zero", "rnd", "run", "text", "per", "bin", "far", "mix", "inc" };
	for (size_t i = 0; i < sizeof(ks) / sizeof(ks[0]); ++i)
		if (strcmp(k, ks[i]) == 0) return true;
	return false;
}

// "<kind>,<seed>,<size>" -> malloc'ed exact buffer
static uint8_t *gen_spec(const char *spec, size_t *size)
{
	char kind[16];
	unsigned long long seed, n;
	if (sscanf(spec, "%15[a-z],%llu,%llu", kind, &seed, &n) != 3 || !gen_kind_ok(kind))
		return NULL;
	uint8_t *p = malloc(n ? n : 1);
	if (p == NULL) abort();
	rng_t r = { seed * 0x2545F4914F6CDD1Dull + 12345 };
	gen_fill(p, n, kind, &r);
	*size = n;
	return p;
}

// ---------------------------------------------------------------------------------------------------------------
// configuration
// ---------------------------------------------------------------------------------------------------------------

typedef struct {
	const char *api;
	const char *gen, *pd, *chain, *dump;
	bool has_preset; uint32_t preset;
	bool has[8]; uint32_t val[8];          // dict lc lp pb mode nice mf depth
	lzma_check check;
	uint64_t slice, flush, bias, oslice;
	uint64_t limit;
	uint32_t threads, timeout; uint64_t block;
	int eopm;                               // -1 = plain LZMA_FILTER_LZMA1, 0/1 = LZMA1EXT without/with end marker
	// derived
	uint8_t *in; size_t in_size;
	uint8_t *pdbuf; size_t pd_size;
	lzma_options_lzma lz;
	lzma_options_delta delta[3];
	lzma_options_bcj bcj[3];
	lzma_filter filters[LZMA_FILTERS_MAX + 1];
	int nfilters;
} cfg_t;

static const char *const optkeys[8] = { "dict", "lc", "lp", "pb", "mode", "nice", "mf", "depth" };

static bool parse_mf(const char *v, uint32_t *out)
{
	if (strcmp(v, "hc3") == 0) *out = LZMA_MF_HC3;
	else if (strcmp(v, "hc4") == 0) *out = LZMA_MF_HC4;
	else if (strcmp(v, "bt2") == 0) *out = LZMA_MF_BT2;
	else if (strcmp(v, "bt3") == 0) *out = LZMA_MF_BT3;
	else if (strcmp(v, "bt4") == 0) *out = LZMA_MF_BT4;
	else return false;
	return true;
}

static bool cfg_parse(cfg_t *c, hp_line *l)
{
	memset(c, 0, sizeof(*c));
	c->check = LZMA_CHECK_CRC32;
	c->eopm = -1;
	c->threads = 2;
	if (l->ntok < 2) return false;
	c->api = l->tok[1];
	for (int i = 2; i < l->ntok; ++i) {
		char *k = l->tok[i], *v = strchr(k, '=');
		if (v == NULL) return false;
		*v++ = '\0';
		bool done = false;
		for (int j = 0; j < 8; ++j)
			if (strcmp(k, optkeys[j]) == 0) {
				c->has[j] = true;
				if (j == 6) { if (!parse_mf(v, &c->val[j])) return false; }
				else c->val[j] = (uint32_t)hp_u64(v);
				done = true;
			}
		if (done) continue;
		if (strcmp(k, "gen") == 0) c->gen = v;
		else if (strcmp(k, "pd") == 0) c->pd = v;
		else if (strcmp(k, "chain") == 0) c->chain = v;
		else if (strcmp(k, "dump") == 0) c->dump = v;
		else if (strcmp(k, "preset") == 0) {
			c->has_preset = true;
			c->preset = (uint32_t)(v[0] - '0');
			if (v[0] < '0' || v[0] > '9') return false;
			if (v[1] == 'e') c->preset |= LZMA_PRESET_EXTREME;
		}
		else if (strcmp(k, "check") == 0) c->check = (lzma_check)hp_u64(v);
		else if (strcmp(k, "slice") == 0) c->slice = hp_u64(v);
		else if (strcmp(k, "flush") == 0) c->flush = hp_u64(v);
		else if (strcmp(k, "bias") == 0) c->bias = hp_u64(v);
		else if (strcmp(k, "oslice") == 0) c->oslice = hp_u64(v);
		else if (strcmp(k, "limit") == 0) c->limit = hp_u64(v);
		else if (strcmp(k, "threads") == 0) c->threads = (uint32_t)hp_u64(v);
		else if (strcmp(k, "timeout") == 0) c->timeout = (uint32_t)hp_u64(v);
		else if (strcmp(k, "block") == 0) c->block = hp_u64(v);
		else if (strcmp(k, "eopm") == 0) c->eopm = (int)hp_u64(v);
		else return false;
	}
	if (c->gen == NULL) return false;
	c->in = gen_spec(c->gen, &c->in_size);
	if (c->in == NULL) return false;
	if (c->pd != NULL) {
		c->pdbuf = gen_spec(c->pd, &c->pd_size);
		if (c->pdbuf == NULL) return false;
	}
	// LZMA options
	if (lzma_lzma_preset(&c->lz, c->has_preset ? c->preset : 6)) return false;
	if (c->has[0]) c->lz.dict_size = c->val[0];
	if (c->has[1]) c->lz.lc = c->val[1];
	if (c->has[2]) c->lz.lp = c->val[2];
	if (c->has[3]) c->lz.pb = c->val[3];
	if (c->has[4]) c->lz.mode = (lzma_mode)c->val[4];
	if (c->has[5]) c->lz.nice_len = c->val[5];
	if (c->has[6]) c->lz.mf = (lzma_match_finder)c->val[6];
	if (c->has[7]) c->lz.depth = c->val[7];
	if (c->pdbuf != NULL && c->pd_size > 0) {
		c->lz.preset_dict = c->pdbuf;
		c->lz.preset_dict_size = (uint32_t)c->pd_size;
	}
	if (c->eopm >= 0)
		c->lz.ext_flags = c->eopm ? LZMA_LZMA1EXT_ALLOW_EOPM : 0;
	return true;
}

static void cfg_free(cfg_t *c)
{
	free(c->in);
	free(c->pdbuf);
}

// chain=f1+f2+...+last ; fills c->filters. Default chain = lzma2.
static bool cfg_chain(cfg_t *c)
{
	char buf[160];
	snprintf(buf, sizeof(buf), "%s", c->chain != NULL ? c->chain : "lzma2");
	int n = 0, nd = 0, nb = 0;
	char *save = NULL;
	for (char *t = strtok_r(buf, "+", &save); t != NULL; t = strtok_r(NULL, "+", &save)) {
		if (n >= LZMA_FILTERS_MAX) return false;
		char *arg = strchr(t, ':');
		uint32_t a = 0;
		if (arg != NULL) { *arg++ = '\0'; a = (uint32_t)hp_u64(arg); }
		lzma_filter *f = &c->filters[n];
		if (strcmp(t, "lzma2") == 0) { f->id = LZMA_FILTER_LZMA2; f->options = &c->lz; }
		else if (strcmp(t, "lzma1") == 0) {
			f->id = c->eopm >= 0 ? LZMA_FILTER_LZMA1EXT : LZMA_FILTER_LZMA1; f->options = &c->lz;
			if (c->eopm >= 0) {
				// the encoder ignores ext_size; the decoder needs the size when there is no end marker
				c->lz.ext_size_low = (uint32_t)c->in_size;
				c->lz.ext_size_high = (uint32_t)((uint64_t)c->in_size >> 32);
			}
		}
		else if (strcmp(t, "delta") == 0) {
			if (nd >= 3) return false;
			c->delta[nd].type = LZMA_DELTA_TYPE_BYTE; c->delta[nd].dist = a ? a : 1;
			f->id = LZMA_FILTER_DELTA; f->options = &c->delta[nd++];
		} else {
			if (strcmp(t, "x86") == 0) f->id = LZMA_FILTER_X86;
			else if (strcmp(t, "powerpc") == 0) f->id = LZMA_FILTER_POWERPC;
			else if (strcmp(t, "ia64") == 0) f->id = LZMA_FILTER_IA64;
			else if (strcmp(t, "arm") == 0) f->id = LZMA_FILTER_ARM;
			else if (strcmp(t, "armthumb") == 0) f->id = LZMA_FILTER_ARMTHUMB;
			else if (strcmp(t, "arm64") == 0) f->id = LZMA_FILTER_ARM64;
			else if (strcmp(t, "sparc") == 0) f->id = LZMA_FILTER_SPARC;
			else if (strcmp(t, "riscv") == 0) f->id = LZMA_FILTER_RISCV;
			else return false;
			if (arg != NULL) {
				if (nb >= 3) return false;
				c->bcj[nb].start_offset = a;
				f->options = &c->bcj[nb++];
			} else f->options = NULL;
		}
		++n;
	}
	c->filters[n].id = LZMA_VLI_UNKNOWN;
	c->filters[n].options = NULL;
	c->nfilters = n;
	return n > 0;
}

// ---------------------------------------------------------------------------------------------------------------
// growable output + generic lzma_code driver with random slicing
// ---------------------------------------------------------------------------------------------------------------

typedef struct { uint8_t *p; size_t n, cap; } buf_t;

static void buf_add(buf_t *b, const uint8_t *p, size_t n)
{
	if (b->n + n > b->cap) {
		size_t nc = b->cap ? b->cap : 4096;
		while (nc < b->n + n) nc *= 2;
		b->p = realloc(b->p, nc);
		if (b->p == NULL) abort();
		b->cap = nc;
	}
	if (n) memcpy(b->p + b->n, p, n);
	b->n += n;
}

static size_t pick_chunk(rng_t *r, size_t total)
{
	switch (rng_below(r, 10)) {
	case 0: return (size_t)rng_below(r, 4);                    // 0..3
	case 1: return 1 + (size_t)rng_below(r, 16);
	case 2: return 4096;
	case 3: return 65536;
	default: return 1 + (size_t)rng_below(r, total / 6 + 300);
	}
}

// One segment: feed in[0..in_size) with LZMA_RUN chunks and finish the segment with `last` (LZMA_FINISH, LZMA_SYNC_FLUSH,
// LZMA_FULL_FLUSH, LZMA_FULL_BARRIER) until LZMA_STREAM_END. With r == NULL: one call per 1 MiB of output space.
// Returns LZMA_STREAM_END on success, the failing code otherwise. *consumed receives the input bytes taken.
static lzma_ret drive(lzma_stream *strm, const uint8_t *in, size_t in_size, buf_t *out, rng_t *r, lzma_action last,
		size_t *consumed)
{
	size_t fed = 0;          // bytes handed to liblzma so far (next_in + avail_in covers [.., fed))
	strm->next_in = in;
	strm->avail_in = 0;
	bool stalled = false;
	unsigned guard = 0;
	for (;;) {
		size_t add = 0, ocap;
		if (r == NULL) {
			add = in_size - fed;
			ocap = 1u << 20;
		} else {
			if (fed < in_size) {
				add = pick_chunk(r, in_size);
				if (add > in_size - fed) add = in_size - fed;
			}
			ocap = pick_chunk(r, in_size);
			if (stalled) {
				// the previous call made no progress (legitimate once): now give both sides something
				if (add == 0 && fed < in_size) add = 1;
				if (ocap == 0) ocap = 64;
			}
		}
		fed += add;
		strm->avail_in += add;
		lzma_action action = fed == in_size ? last : LZMA_RUN;
		uint8_t *tmp = malloc(ocap ? ocap : 1);
		if (tmp == NULL) abort();
		strm->next_out = tmp;
		strm->avail_out = ocap;
		const size_t in_before = strm->avail_in;
		lzma_ret ret = lzma_code(strm, action);
		buf_add(out, tmp, ocap - strm->avail_out);
		stalled = (strm->avail_in == in_before && strm->avail_out == ocap);
		free(tmp);
		if (ret == LZMA_STREAM_END) {
			if (consumed) *consumed = fed - strm->avail_in;
			return strm->avail_in == 0 || last == LZMA_FINISH ? LZMA_STREAM_END : LZMA_PROG_ERROR;
		}
		if (ret != LZMA_OK) {
			if (consumed) *consumed = fed - strm->avail_in;
			return ret;
		}
		if (++guard > 50000000u) return LZMA_PROG_ERROR;
	}
}

// encoder input split into segments by optional flush points
static lzma_ret drive_encoder(lzma_stream *strm, const cfg_t *c, buf_t *out, bool sync_ok, bool full_ok)
{
	rng_t sr = { c->slice * 77 + 1 }, fr = { c->flush * 991 + 7 };
	rng_t *r = c->slice ? &sr : NULL;
	size_t pos = 0;
	if (c->flush && (sync_ok || full_ok) && c->in_size > 0) {
		unsigned nf = 1 + (unsigned)rng_below(&fr, 4);
		for (unsigned i = 0; i < nf && pos < c->in_size; ++i) {
			size_t seg = (size_t)rng_below(&fr, c->in_size - pos + 1);
			lzma_action a;
			if (sync_ok && (!full_ok || rng_below(&fr, 2) == 0)) a = LZMA_SYNC_FLUSH;
			else a = rng_below(&fr, 3) == 0 ? LZMA_FULL_BARRIER : LZMA_FULL_FLUSH;
			lzma_ret ret = drive(strm, c->in + pos, seg, out, r, a, NULL);
			if (ret != LZMA_STREAM_END) return ret;
			pos += seg;
		}
	}
	return drive(strm, c->in + pos, c->in_size - pos, out, r, LZMA_FINISH, NULL);
}

static void set_bias(const cfg_t *c)
{
#ifdef C01_HAVE_H1
	lzma_verif_mf_offset_init = c->bias >= 1 && c->bias < UINT32_MAX ? (uint32_t)(UINT32_MAX - c->bias) : 0;
#else
	(void)c;
#endif
}

static void clear_bias(void)
{
#ifdef C01_HAVE_H1
	lzma_verif_mf_offset_init = 0;
#endif
}

static void dump_file(const char *prefix, const char *ext, const uint8_t *p, size_t n)
{
	char path[600];
	snprintf(path, sizeof(path), "%s.%s", prefix, ext);
	FILE *f = fopen(path, "wb");
	if (f == NULL) { fprintf(stderr, "cannot write %s\n", path); exit(3); }
	if (n) fwrite(p, 1, n, f);
	fclose(f);
}

static void dump_all(const cfg_t *c, const buf_t *enc)
{
	if (c->dump == NULL) return;
	dump_file(c->dump, "in", c->in, c->in_size);
	dump_file(c->dump, "out", enc->p, enc->n);
	if (c->pdbuf != NULL) dump_file(c->dump, "pd", c->pdbuf, c->pd_size);
}

// compares decoded output with the expected bytes and prints the verdict
static bool verdict(const cfg_t *c, const buf_t *enc, const buf_t *dec, const uint8_t *exp, size_t exp_size, const char *extra)
{
	if (dec->n != exp_size) {
		printf("FAIL stage=compare ret=0 decoded_len=%zu expected_len=%zu out=%zu\n", dec->n, exp_size, enc->n);
		return false;
	}
	for (size_t i = 0; i < exp_size; ++i)
		if (dec->p[i] != exp[i]) {
			printf("FAIL stage=compare ret=0 pos=%zu got=%u expected=%u out=%zu\n", i, dec->p[i], exp[i], enc->n);
			return false;
		}
	printf("ok in=%zu out=%zu%s\n", c->in_size, enc->n, extra);
	return true;
}

// decode `enc` completely with an initialised decoder stream; requires LZMA_STREAM_END and full consumption
static bool decode_all(lzma_stream *strm, const cfg_t *c, const buf_t *enc, buf_t *dec, uint64_t slice_salt)
{
	rng_t sr = { c->slice * 131 + slice_salt };
	size_t consumed = 0;
	lzma_ret ret = drive(strm, enc->p, enc->n, dec, c->slice ? &sr : NULL, LZMA_FINISH, &consumed);
	if (ret != LZMA_STREAM_END) {
		printf("FAIL stage=decode ret=%d decoded_len=%zu out=%zu\n", (int)ret, dec->n, enc->n);
		return false;
	}
	if (consumed != enc->n) {
		printf("FAIL stage=decode-consumed ret=1 consumed=%zu out=%zu\n", consumed, enc->n);
		return false;
	}
	return true;
}

// ---------------------------------------------------------------------------------------------------------------
// the apis
// ---------------------------------------------------------------------------------------------------------------

static void rt_stream_like(cfg_t *c)
{
	// easy (with slicing) / stream / mt: multi-call encoders producing a .xz stream
	lzma_stream strm = LZMA_STREAM_INIT;
	lzma_ret ret;
	bool is_mt = strcmp(c->api, "mt") == 0, is_easy = strcmp(c->api, "easy") == 0;
	bool sync_ok = true;
	if (!is_easy) {
		if (!cfg_chain(c)) { printf("bad-op\n"); return; }
		for (int i = 0; i < c->nfilters; ++i)
			if (c->filters[i].id != LZMA_FILTER_LZMA2 && c->filters[i].id != LZMA_FILTER_DELTA) sync_ok = false;
	}
	set_bias(c);
	if (is_mt) {
		lzma_mt mt;
		memset(&mt, 0, sizeof(mt));
		mt.threads = c->threads ? c->threads : 1;
		mt.block_size = c->block;
		mt.timeout = c->timeout;
		mt.check = c->check;
		if (c->chain != NULL) mt.filters = c->filters;
		else mt.preset = c->has_preset ? c->preset : 6;
		ret = lzma_stream_encoder_mt(&strm, &mt);
		sync_ok = false;
	} else if (is_easy) {
		ret = lzma_easy_encoder(&strm, c->has_preset ? c->preset : 6, c->check);
	} else {
		ret = lzma_stream_encoder(&strm, c->filters, c->check);
	}
	clear_bias();
	if (ret != LZMA_OK) { printf("rejected ret=%d\n", (int)ret); lzma_end(&strm); return; }
	buf_t enc = { 0 }, dec = { 0 };
	ret = drive_encoder(&strm, c, &enc, sync_ok, true);
	lzma_end(&strm);
	if (ret != LZMA_STREAM_END) {
		printf("FAIL stage=encode ret=%d out=%zu\n", (int)ret, enc.n);
		free(enc.p);
		return;
	}
	dump_all(c, &enc);
	lzma_stream d = LZMA_STREAM_INIT;
	ret = lzma_stream_decoder(&d, UINT64_MAX, 0);
	if (ret != LZMA_OK) { printf("FAIL stage=decoder-init ret=%d\n", (int)ret); free(enc.p); return; }
	bool ok = decode_all(&d, c, &enc, &dec, 3);
	lzma_end(&d);
	if (ok && is_mt) {
		// the threaded decoder must give the same bytes
		buf_t dec2 = { 0 };
		lzma_stream d2 = LZMA_STREAM_INIT;
		lzma_mt mt;
		memset(&mt, 0, sizeof(mt));
		mt.threads = 2;
		mt.memlimit_threading = UINT64_MAX;
		mt.memlimit_stop = UINT64_MAX;
		ret = lzma_stream_decoder_mt(&d2, &mt);
		if (ret != LZMA_OK) { printf("FAIL stage=decoder-mt-init ret=%d\n", (int)ret); ok = false; }
		else {
			ok = decode_all(&d2, c, &enc, &dec2, 5);
			if (ok && (dec2.n != dec.n || (dec.n && memcmp(dec2.p, dec.p, dec.n) != 0))) {
				printf("FAIL stage=compare-mt-decoder ret=0 len1=%zu len2=%zu\n", dec.n, dec2.n);
				ok = false;
			}
		}
		lzma_end(&d2);
		free(dec2.p);
	}
	if (ok) verdict(c, &enc, &dec, c->in, c->in_size, "");
	free(enc.p);
	free(dec.p);
}

static void rt_easy_buffer(cfg_t *c)
{
	if (c->slice) { rt_stream_like(c); return; }
	size_t cap = lzma_stream_buffer_bound(c->in_size);
	uint8_t *out = malloc(cap ? cap : 1);
	size_t out_pos = 0;
	lzma_ret ret = lzma_easy_buffer_encode(c->has_preset ? c->preset : 6, c->check, NULL, c->in, c->in_size, out, &out_pos, cap);
	if (ret != LZMA_OK) { printf("FAIL stage=encode ret=%d\n", (int)ret); free(out); return; }
	buf_t enc = { out, out_pos, cap }, dec = { 0 };
	dump_all(c, &enc);
	dec.p = malloc(c->in_size + 1); dec.cap = c->in_size + 1;
	uint64_t memlimit = UINT64_MAX;
	size_t in_pos = 0;
	ret = lzma_stream_buffer_decode(&memlimit, 0, NULL, out, &in_pos, out_pos, dec.p, &dec.n, dec.cap);
	if (ret != LZMA_OK || in_pos != out_pos) printf("FAIL stage=decode ret=%d in_pos=%zu out=%zu\n", (int)ret, in_pos, out_pos);
	else verdict(c, &enc, &dec, c->in, c->in_size, "");
	free(out);
	free(dec.p);
}

static void rt_sbuf(cfg_t *c)
{
	if (!cfg_chain(c)) { printf("bad-op\n"); return; }
	size_t cap = lzma_stream_buffer_bound(c->in_size);
	uint8_t *out = malloc(cap ? cap : 1);
	size_t out_pos = 0;
	set_bias(c);
	lzma_ret ret = lzma_stream_buffer_encode(c->filters, c->check, NULL, c->in, c->in_size, out, &out_pos, cap);
	clear_bias();
	if (ret == LZMA_OPTIONS_ERROR) { printf("rejected ret=%d\n", (int)ret); free(out); return; }
	if (ret != LZMA_OK) { printf("FAIL stage=encode ret=%d bound=%zu\n", (int)ret, cap); free(out); return; }
	buf_t enc = { out, out_pos, cap }, dec = { 0 };
	dump_all(c, &enc);
	dec.p = malloc(c->in_size + 1); dec.cap = c->in_size + 1;
	uint64_t memlimit = UINT64_MAX;
	size_t in_pos = 0;
	ret = lzma_stream_buffer_decode(&memlimit, 0, NULL, out, &in_pos, out_pos, dec.p, &dec.n, dec.cap);
	if (ret != LZMA_OK || in_pos != out_pos) printf("FAIL stage=decode ret=%d in_pos=%zu out=%zu\n", (int)ret, in_pos, out_pos);
	else verdict(c, &enc, &dec, c->in, c->in_size, "");
	free(out);
	free(dec.p);
}

static void rt_alone(cfg_t *c)
{
	lzma_stream strm = LZMA_STREAM_INIT;
	set_bias(c);
	lzma_ret ret = lzma_alone_encoder(&strm, &c->lz);
	clear_bias();
	if (ret != LZMA_OK) { printf("rejected ret=%d\n", (int)ret); lzma_end(&strm); return; }
	buf_t enc = { 0 }, dec = { 0 };
	ret = drive_encoder(&strm, c, &enc, false, false);
	lzma_end(&strm);
	if (ret != LZMA_STREAM_END) { printf("FAIL stage=encode ret=%d out=%zu\n", (int)ret, enc.n); free(enc.p); return; }
	dump_all(c, &enc);
	lzma_stream d = LZMA_STREAM_INIT;
	ret = lzma_alone_decoder(&d, UINT64_MAX);
	if (ret != LZMA_OK) { printf("FAIL stage=decoder-init ret=%d\n", (int)ret); free(enc.p); return; }
	if (decode_all(&d, c, &enc, &dec, 3)) verdict(c, &enc, &dec, c->in, c->in_size, "");
	lzma_end(&d);
	free(enc.p);
	free(dec.p);
}

static void rt_raw(cfg_t *c, bool buffer_api)
{
	if (!cfg_chain(c)) { printf("bad-op\n"); return; }
	buf_t enc = { 0 }, dec = { 0 };
	lzma_ret ret;
	if (buffer_api) {
		size_t cap = c->in_size + c->in_size / 2 + 65536;
		enc.p = malloc(cap); enc.cap = cap;
		set_bias(c);
		ret = lzma_raw_buffer_encode(c->filters, NULL, c->in, c->in_size, enc.p, &enc.n, cap);
		clear_bias();
		if (ret == LZMA_OPTIONS_ERROR) { printf("rejected ret=%d\n", (int)ret); free(enc.p); return; }
		if (ret != LZMA_OK) { printf("FAIL stage=encode ret=%d\n", (int)ret); free(enc.p); return; }
		dump_all(c, &enc);
		dec.p = malloc(c->in_size + 1); dec.cap = c->in_size + 1;
		size_t in_pos = 0;
		ret = lzma_raw_buffer_decode(c->filters, NULL, enc.p, &in_pos, enc.n, dec.p, &dec.n, dec.cap);
		if (ret != LZMA_OK || in_pos != enc.n) printf("FAIL stage=decode ret=%d in_pos=%zu out=%zu\n", (int)ret, in_pos, enc.n);
		else verdict(c, &enc, &dec, c->in, c->in_size, "");
		free(enc.p);
		free(dec.p);
		return;
	}
	lzma_stream strm = LZMA_STREAM_INIT;
	set_bias(c);
	ret = lzma_raw_encoder(&strm, c->filters);
	clear_bias();
	if (ret != LZMA_OK) { printf("rejected ret=%d\n", (int)ret); lzma_end(&strm); return; }
	bool sync_ok = true;
	for (int i = 0; i < c->nfilters; ++i)
		if (c->filters[i].id != LZMA_FILTER_LZMA2 && c->filters[i].id != LZMA_FILTER_DELTA) sync_ok = false;
	ret = drive_encoder(&strm, c, &enc, sync_ok, false);
	lzma_end(&strm);
	if (ret != LZMA_STREAM_END) { printf("FAIL stage=encode ret=%d out=%zu\n", (int)ret, enc.n); free(enc.p); return; }
	dump_all(c, &enc);
	lzma_stream d = LZMA_STREAM_INIT;
	ret = lzma_raw_decoder(&d, c->filters);
	if (ret != LZMA_OK) { printf("FAIL stage=decoder-init ret=%d\n", (int)ret); free(enc.p); return; }
	if (decode_all(&d, c, &enc, &dec, 3)) verdict(c, &enc, &dec, c->in, c->in_size, "");
	lzma_end(&d);
	free(enc.p);
	free(dec.p);
}

// MicroLZMA: output-size-limited encoder. Returns through *enc / *consumed; prints FAIL itself.
static bool micro_encode(cfg_t *c, buf_t *enc, size_t *consumed)
{
	lzma_stream strm = LZMA_STREAM_INIT;
	set_bias(c);
	lzma_ret ret = lzma_microlzma_encoder(&strm, &c->lz);
	clear_bias();
	if (ret != LZMA_OK) { printf("rejected ret=%d\n", (int)ret); lzma_end(&strm); return false; }
	size_t limit = (size_t)c->limit;
	enc->p = malloc(limit ? limit : 1);
	enc->cap = limit;
	strm.next_in = c->in;
	strm.avail_in = c->in_size;
	strm.next_out = enc->p;
	strm.avail_out = limit;
	ret = lzma_code(&strm, LZMA_FINISH);
	enc->n = limit - strm.avail_out;
	*consumed = c->in_size - strm.avail_in;
	const uint64_t tin = strm.total_in, tout = strm.total_out;
	lzma_end(&strm);
	if (ret != LZMA_STREAM_END) {
		if (limit < 6) { printf("rejected ret=%d\n", (int)ret); }
		else printf("FAIL stage=encode ret=%d out=%zu limit=%zu\n", (int)ret, enc->n, limit);
		return false;
	}
	if (enc->n > limit || tout != enc->n || tin != *consumed || *consumed > c->in_size) {
		printf("FAIL stage=limit ret=1 out=%zu limit=%zu total_in=%llu total_out=%llu consumed=%zu\n", enc->n, limit,
				(unsigned long long)tin, (unsigned long long)tout, *consumed);
		return false;
	}
	// a generous limit must take everything
	if (limit >= c->in_size + c->in_size / 3 + 128 && *consumed != c->in_size) {
		printf("FAIL stage=limit-generous ret=1 consumed=%zu in=%zu limit=%zu\n", *consumed, c->in_size, limit);
		return false;
	}
	return true;
}

static bool micro_decode_check(cfg_t *c, const buf_t *enc, size_t consumed, const char *extra)
{
	buf_t dec = { 0 };
	lzma_stream d = LZMA_STREAM_INIT;
	lzma_ret ret = lzma_microlzma_decoder(&d, enc->n, consumed, true, c->lz.dict_size);
	if (ret != LZMA_OK) { printf("FAIL stage=decoder-init ret=%d\n", (int)ret); return false; }
	dec.p = malloc(consumed + 1);
	dec.cap = consumed + 1;
	d.next_in = enc->p;
	d.avail_in = enc->n;
	d.next_out = dec.p;
	d.avail_out = consumed;         // exactly the announced size
	ret = lzma_code(&d, LZMA_FINISH);
	dec.n = consumed - d.avail_out;
	bool ok = false;
	if (ret != LZMA_STREAM_END) printf("FAIL stage=decode ret=%d decoded_len=%zu consumed=%zu out=%zu\n", (int)ret, dec.n, consumed, enc->n);
	else if (d.avail_in != 0) printf("FAIL stage=decode-consumed ret=1 left=%zu out=%zu\n", d.avail_in, enc->n);
	else ok = verdict(c, enc, &dec, c->in, consumed, extra);
	lzma_end(&d);
	free(dec.p);
	return ok;
}

static void rt_micro(cfg_t *c)
{
	buf_t enc = { 0 };
	size_t consumed = 0;
	if (micro_encode(c, &enc, &consumed)) {
		dump_all(c, &enc);
		char extra[64];
		snprintf(extra, sizeof(extra), " consumed=%zu", consumed);
		micro_decode_check(c, &enc, consumed, extra);
	}
	free(enc.p);
}

// ---------------------------------------------------------------------------------------------------------------
// single Blocks: lzma_block_buffer_encode / lzma_block_uncomp_encode
// ---------------------------------------------------------------------------------------------------------------

static void rt_block(cfg_t *c, bool uncomp)
{
	if (!cfg_chain(c)) { printf("bad-op\n"); return; }
	lzma_block block;
	memset(&block, 0, sizeof(block));
	block.version = 0;
	block.check = c->check;
	block.filters = c->filters;
	size_t cap = lzma_block_buffer_bound(c->in_size);
	if (cap == 0) { printf("rejected ret=0\n"); return; }
	uint8_t *out = malloc(cap);
	if (out == NULL) abort();
	size_t out_pos = 0;
	set_bias(c);
	lzma_ret ret = uncomp ? lzma_block_uncomp_encode(&block, c->in, c->in_size, out, &out_pos, cap)
			: lzma_block_buffer_encode(&block, NULL, c->in, c->in_size, out, &out_pos, cap);
	clear_bias();
	if (ret == LZMA_OPTIONS_ERROR) { printf("rejected ret=%d\n", (int)ret); free(out); return; }
	if (ret != LZMA_OK) { printf("FAIL stage=encode ret=%d bound=%zu\n", (int)ret, cap); free(out); return; }
	// the sizes the encoder reports (and which go into the Index) must be the real ones
	const size_t check_size = lzma_check_size(c->check);
	const lzma_vli unpadded = lzma_block_unpadded_size(&block);
	const lzma_vli total = lzma_block_total_size(&block);
	if (block.uncompressed_size != c->in_size || total != out_pos
			|| unpadded != block.header_size + block.compressed_size + check_size
			|| block.header_size + block.compressed_size + check_size > out_pos
			|| out_pos - (block.header_size + block.compressed_size + check_size) > 3) {
		printf("FAIL stage=block-sizes ret=0 header=%u compressed=%llu check=%zu unpadded=%llu total=%llu written=%zu uncompressed=%llu in=%zu\n",
				(unsigned)block.header_size, (unsigned long long)block.compressed_size, check_size,
				(unsigned long long)unpadded, (unsigned long long)total, out_pos,
				(unsigned long long)block.uncompressed_size, c->in_size);
		free(out);
		return;
	}
	buf_t enc = { out, out_pos, cap }, dec = { 0 };
	dump_all(c, &enc);
	// decode: header first, then the Block
	lzma_block d;
	lzma_filter dfilters[LZMA_FILTERS_MAX + 1];
	memset(&d, 0, sizeof(d));
	d.version = 0;
	d.check = c->check;
	d.filters = dfilters;
	d.header_size = lzma_block_header_size_decode(out[0]);
	ret = lzma_block_header_decode(&d, NULL, out);
	if (ret != LZMA_OK) { printf("FAIL stage=decode-header ret=%d\n", (int)ret); free(out); return; }
	if (d.compressed_size != block.compressed_size || d.uncompressed_size != block.uncompressed_size) {
		printf("FAIL stage=header-fields ret=0 stored_compressed=%llu real=%llu stored_uncompressed=%llu real=%llu\n",
				(unsigned long long)d.compressed_size, (unsigned long long)block.compressed_size,
				(unsigned long long)d.uncompressed_size, (unsigned long long)block.uncompressed_size);
	} else {
		dec.p = malloc(c->in_size + 1);
		dec.cap = c->in_size + 1;
		size_t in_pos = d.header_size;
		ret = lzma_block_buffer_decode(&d, NULL, out, &in_pos, out_pos, dec.p, &dec.n, dec.cap);
		if (ret != LZMA_OK || in_pos != out_pos) printf("FAIL stage=decode ret=%d in_pos=%zu out=%zu\n", (int)ret, in_pos, out_pos);
		else verdict(c, &enc, &dec, c->in, c->in_size, "");
	}
	for (size_t i = 0; i < LZMA_FILTERS_MAX && dfilters[i].id != LZMA_VLI_UNKNOWN; ++i)
		free(dfilters[i].options);
	free(out);
	free(dec.p);
}

// ---------------------------------------------------------------------------------------------------------------
// handle reuse: two streams through ONE lzma_stream, the first one finished through a small output window
// ---------------------------------------------------------------------------------------------------------------

// whole input available, output handed out `ochunk` bytes per call (0 = 1 MiB pieces)
static lzma_ret drive_fixed(lzma_stream *strm, const uint8_t *in, size_t in_size, buf_t *out, size_t ochunk, size_t *consumed)
{
	if (ochunk == 0) ochunk = 1u << 20;
	strm->next_in = in;
	strm->avail_in = in_size;
	for (unsigned long guard = 0; guard < 400000000ul; ++guard) {
		uint8_t *tmp = malloc(ochunk);
		if (tmp == NULL) abort();
		strm->next_out = tmp;
		strm->avail_out = ochunk;
		lzma_ret ret = lzma_code(strm, LZMA_FINISH);
		buf_add(out, tmp, ochunk - strm->avail_out);
		free(tmp);
		if (ret != LZMA_OK) {
			if (consumed) *consumed = in_size - strm->avail_in;
			return ret;
		}
	}
	return LZMA_PROG_ERROR;
}

static lzma_ret reuse_enc_init(lzma_stream *strm, cfg_t *c)
{
	lzma_ret ret;
	set_bias(c);
	if (strcmp(c->api, "alone") == 0) ret = lzma_alone_encoder(strm, &c->lz);
	else if (strcmp(c->api, "easy") == 0) ret = lzma_easy_encoder(strm, c->has_preset ? c->preset : 6, c->check);
	else if (!cfg_chain(c)) ret = LZMA_PROG_ERROR;
	else if (strcmp(c->api, "raw") == 0) ret = lzma_raw_encoder(strm, c->filters);
	else if (strcmp(c->api, "stream") == 0) ret = lzma_stream_encoder(strm, c->filters, c->check);
	else if (strcmp(c->api, "mt") == 0) {
		lzma_mt mt;
		memset(&mt, 0, sizeof(mt));
		mt.threads = c->threads ? c->threads : 1;
		mt.block_size = c->block;
		mt.timeout = c->timeout;
		mt.check = c->check;
		if (c->chain != NULL) mt.filters = c->filters;
		else mt.preset = c->has_preset ? c->preset : 6;
		ret = lzma_stream_encoder_mt(strm, &mt);
	}
	else ret = LZMA_PROG_ERROR;
	clear_bias();
	return ret;
}

static lzma_ret reuse_dec_init(lzma_stream *strm, cfg_t *c)
{
	if (strcmp(c->api, "alone") == 0) return lzma_alone_decoder(strm, UINT64_MAX);
	if (strcmp(c->api, "raw") == 0) return lzma_raw_decoder(strm, c->filters);
	return lzma_stream_decoder(strm, UINT64_MAX, 0);
}

static void do_reuse(hp_line *l)
{
	// split the keys: plain keys go to both streams (gen/oslice only to stream 1), "2."-prefixed ones override for stream 2,
	// gen2=/oslice2= are stream 2's gen=/oslice=
	if (l->ntok < 4) { printf("bad-op\n"); return; }
	hp_line l1 = { 0 }, l2 = { 0 };
	char *own[2 * HP_MAXTOK];
	int nown = 0;
	l1.tok[l1.ntok++] = l->tok[0]; l1.tok[l1.ntok++] = l->tok[1];
	l2.tok[l2.ntok++] = l->tok[0]; l2.tok[l2.ntok++] = l->tok[2];
	for (int i = 3; i < l->ntok && l1.ntok < HP_MAXTOK && l2.ntok < HP_MAXTOK; ++i) {
		const char *t = l->tok[i];
		char *cp;
		if (strncmp(t, "2.", 2) == 0) { cp = strdup(t + 2); l2.tok[l2.ntok++] = cp; }
		else if (strncmp(t, "gen2=", 5) == 0) { cp = malloc(strlen(t) + 1); sprintf(cp, "gen=%s", t + 5); l2.tok[l2.ntok++] = cp; }
		else if (strncmp(t, "oslice2=", 8) == 0) { cp = malloc(strlen(t) + 1); sprintf(cp, "oslice=%s", t + 8); l2.tok[l2.ntok++] = cp; }
		else if (strncmp(t, "gen=", 4) == 0 || strncmp(t, "oslice=", 7) == 0) { cp = strdup(t); l1.tok[l1.ntok++] = cp; }
		else { cp = strdup(t); l1.tok[l1.ntok++] = cp; own[nown++] = cp; cp = strdup(t); l2.tok[l2.ntok++] = cp; }
		own[nown++] = cp;
	}
	// a "2." override must win over the shared key: cfg_parse takes the LAST occurrence, and the overrides were appended in
	// line order, so move them behind the shared keys
	{
		char *ov[HP_MAXTOK]; int nov = 0, w = 2;
		for (int i = 2; i < l2.ntok; ++i) {
			bool is_ov = false;
			for (int j = 3; j < l->ntok; ++j)
				if (strncmp(l->tok[j], "2.", 2) == 0 && strcmp(l->tok[j] + 2, l2.tok[i]) == 0) is_ov = true;
			if (is_ov) ov[nov++] = l2.tok[i]; else l2.tok[w++] = l2.tok[i];
		}
		for (int i = 0; i < nov; ++i) l2.tok[w++] = ov[i];
	}
	cfg_t c1, c2;
	bool ok1 = cfg_parse(&c1, &l1), ok2 = cfg_parse(&c2, &l2);
	if (!ok1 || !ok2) {
		printf("bad-op\n");
		cfg_free(&c1); cfg_free(&c2);
		for (int i = 0; i < nown; ++i) free(own[i]);
		return;
	}
	buf_t e1 = { 0 }, e2 = { 0 }, d1 = { 0 }, d2 = { 0 };
	lzma_stream strm = LZMA_STREAM_INIT, dstrm = LZMA_STREAM_INIT;
	bool good = false;
	lzma_ret ret = reuse_enc_init(&strm, &c1);
	if (ret != LZMA_OK) { printf("rejected ret=%d stream=1\n", (int)ret); goto done; }
	ret = drive_fixed(&strm, c1.in, c1.in_size, &e1, (size_t)c1.oslice, NULL);
	if (ret != LZMA_STREAM_END) { printf("FAIL stage=encode1 ret=%d out=%zu\n", (int)ret, e1.n); goto done; }
	// the same handle again, without lzma_end()
	ret = reuse_enc_init(&strm, &c2);
	if (ret != LZMA_OK) { printf("rejected ret=%d stream=2\n", (int)ret); goto done; }
	ret = drive_fixed(&strm, c2.in, c2.in_size, &e2, (size_t)c2.oslice, NULL);
	if (ret != LZMA_STREAM_END) { printf("FAIL stage=encode2 ret=%d out=%zu\n", (int)ret, e2.n); goto done; }
	// decode both, also through one handle
	for (int k = 0; k < 2; ++k) {
		cfg_t *c = k ? &c2 : &c1;
		buf_t *e = k ? &e2 : &e1, *d = k ? &d2 : &d1;
		size_t consumed = 0;
		ret = reuse_dec_init(&dstrm, c);
		if (ret != LZMA_OK) { printf("FAIL stage=decoder-init%d ret=%d\n", k + 1, (int)ret); goto done; }
		ret = drive_fixed(&dstrm, e->p, e->n, d, k ? 0 : (size_t)c1.oslice, &consumed);
		if (ret != LZMA_STREAM_END || consumed != e->n) {
			printf("FAIL stage=decode%d ret=%d decoded_len=%zu in=%zu consumed=%zu out=%zu\n", k + 1, (int)ret, d->n, c->in_size, consumed, e->n);
			goto done;
		}
		if (d->n != c->in_size || (d->n && memcmp(d->p, c->in, d->n) != 0)) {
			size_t pos = 0;
			while (pos < d->n && pos < c->in_size && d->p[pos] == c->in[pos]) ++pos;
			printf("FAIL stage=compare%d ret=0 decoded_len=%zu expected_len=%zu pos=%zu out=%zu\n", k + 1, d->n, c->in_size, pos, e->n);
			goto done;
		}
	}
	good = true;
	printf("ok in=%zu+%zu out=%zu+%zu\n", c1.in_size, c2.in_size, e1.n, e2.n);
done:
	(void)good;
	lzma_end(&strm);
	lzma_end(&dstrm);
	free(e1.p); free(e2.p); free(d1.p); free(d2.p);
	cfg_free(&c1); cfg_free(&c2);
	for (int i = 0; i < nown; ++i) free(own[i]);
}

// ---------------------------------------------------------------------------------------------------------------
// symbol trace (hook H2)
// ---------------------------------------------------------------------------------------------------------------

#ifdef C01_HAVE_H2
static buf_t trace_buf;

static void trace_put(uint32_t kind, uint32_t back, uint32_t len, uint32_t position, uint32_t read_ahead)
{
	uint32_t rec[5] = { kind, back, len, position, read_ahead };
	uint8_t b[20];
	for (int i = 0; i < 5; ++i) {
		b[4 * i] = (uint8_t)rec[i]; b[4 * i + 1] = (uint8_t)(rec[i] >> 8);
		b[4 * i + 2] = (uint8_t)(rec[i] >> 16); b[4 * i + 3] = (uint8_t)(rec[i] >> 24);
	}
	buf_add(&trace_buf, b, 20);
}

// Like drive_encoder, but records a kind-2 marker in the trace whenever a LZMA_SYNC_FLUSH completed.
static lzma_ret drive_encoder_traced(lzma_stream *strm, const cfg_t *c, buf_t *out, bool sync_ok)
{
	rng_t sr = { c->slice * 77 + 1 }, fr = { c->flush * 991 + 7 };
	rng_t *r = c->slice ? &sr : NULL;
	size_t pos = 0;
	if (c->flush && sync_ok && c->in_size > 0) {
		unsigned nf = 1 + (unsigned)rng_below(&fr, 4);
		for (unsigned i = 0; i < nf && pos < c->in_size; ++i) {
			size_t seg = (size_t)rng_below(&fr, c->in_size - pos + 1);
			lzma_ret ret = drive(strm, c->in + pos, seg, out, r, LZMA_SYNC_FLUSH, NULL);
			if (ret != LZMA_STREAM_END) return ret;
			pos += seg;
			trace_put(2, 0, 0, (uint32_t)pos, 0);
		}
	}
	return drive(strm, c->in + pos, c->in_size - pos, out, r, LZMA_FINISH, NULL);
}

static void do_trace(cfg_t *c)
{
	if (c->dump == NULL) { printf("bad-op\n"); return; }
	trace_buf.n = 0;
	buf_t enc = { 0 }, dec = { 0 };
	lzma_ret ret;
	char extra[96];
	if (strcmp(c->api, "micro") == 0) {
		size_t consumed = 0;
		lzma_verif_sym_cb = &trace_put;
		bool ok = micro_encode(c, &enc, &consumed);
		lzma_verif_sym_cb = NULL;
		if (ok) {
			dump_all(c, &enc);
			dump_file(c->dump, "trace", trace_buf.p, trace_buf.n);
			snprintf(extra, sizeof(extra), " nsym=%zu consumed=%zu", trace_buf.n / 20, consumed);
			micro_decode_check(c, &enc, consumed, extra);
		}
		free(enc.p);
		return;
	}
	bool l2 = strcmp(c->api, "lzma2") == 0;
	if (!l2 && strcmp(c->api, "lzma1") != 0) { printf("bad-op\n"); return; }
	c->chain = l2 ? "lzma2" : "lzma1";
	if (!cfg_chain(c)) { printf("bad-op\n"); return; }
	lzma_stream strm = LZMA_STREAM_INIT;
	set_bias(c);
	ret = lzma_raw_encoder(&strm, c->filters);
	clear_bias();
	if (ret != LZMA_OK) { printf("rejected ret=%d\n", (int)ret); lzma_end(&strm); return; }
	lzma_verif_sym_cb = &trace_put;
	ret = drive_encoder_traced(&strm, c, &enc, l2);
	lzma_verif_sym_cb = NULL;
	lzma_end(&strm);
	if (ret != LZMA_STREAM_END) { printf("FAIL stage=encode ret=%d out=%zu\n", (int)ret, enc.n); free(enc.p); return; }
	dump_all(c, &enc);
	dump_file(c->dump, "trace", trace_buf.p, trace_buf.n);
	lzma_stream d = LZMA_STREAM_INIT;
	ret = lzma_raw_decoder(&d, c->filters);
	if (ret != LZMA_OK) { printf("FAIL stage=decoder-init ret=%d\n", (int)ret); free(enc.p); return; }
	snprintf(extra, sizeof(extra), " nsym=%zu", trace_buf.n / 20);
	if (decode_all(&d, c, &enc, &dec, 3)) verdict(c, &enc, &dec, c->in, c->in_size, extra);
	lzma_end(&d);
	free(enc.p);
	free(dec.p);
}
#endif

int main(void)
{
	hp_line l = { 0 };
	while (hp_next(&l)) {
		if (strcmp(l.tok[0], "caps") == 0) {
			int h1 = 0, h2 = 0;
#ifdef C01_HAVE_H1
			h1 = 1;
#endif
#ifdef C01_HAVE_H2
			h2 = 1;
#endif
			printf("caps h1=%d h2=%d\n", h1, h2);
			fflush(stdout);
			continue;
		}
		if (strcmp(l.tok[0], "rc") == 0 && l.ntok == 2) { c01_rc_op(l.tok[1]); fflush(stdout); continue; }
		if (strcmp(l.tok[0], "rcdummy") == 0 && l.ntok == 4) {
			c01_rcdummy2_op(l.tok[1], l.tok[2], hp_u64(l.tok[3]));
			fflush(stdout);
			continue;
		}
		if (strcmp(l.tok[0], "reuse") == 0) { do_reuse(&l); fflush(stdout); continue; }
		bool is_rt = strcmp(l.tok[0], "rt") == 0, is_trace = strcmp(l.tok[0], "trace") == 0;
		cfg_t c;
		if ((!is_rt && !is_trace) || !cfg_parse(&c, &l)) {
			if (is_rt || is_trace) cfg_free(&c);
			printf("bad-op\n");
			fflush(stdout);
			continue;
		}
		if (is_trace) {
#ifdef C01_HAVE_H2
			do_trace(&c);
#else
			printf("no-hook\n");
#endif
		}
		else if (strcmp(c.api, "easy") == 0) rt_easy_buffer(&c);
		else if (strcmp(c.api, "sbuf") == 0) rt_sbuf(&c);
		else if (strcmp(c.api, "stream") == 0 || strcmp(c.api, "mt") == 0) rt_stream_like(&c);
		else if (strcmp(c.api, "alone") == 0) rt_alone(&c);
		else if (strcmp(c.api, "raw") == 0) rt_raw(&c, false);
		else if (strcmp(c.api, "rawbuf") == 0) rt_raw(&c, true);
		else if (strcmp(c.api, "micro") == 0) rt_micro(&c);
		else if (strcmp(c.api, "blockbuf") == 0) rt_block(&c, false);
		else if (strcmp(c.api, "blockuncomp") == 0) rt_block(&c, true);
		else printf("bad-op\n");
		cfg_free(&c);
		fflush(stdout);
	}
	hp_done(&l);
#ifdef C01_HAVE_H2
	free(trace_buf.p);
#endif
	return 0;
}
