// Shared declarations of the C19 harness translation units (each TU textually includes ONE file of /repo/src/xz,
// because the xz headers have no include guards).
#ifndef VERIF_C19_H
#define VERIF_C19_H
#include <stdbool.h>
#include <stddef.h>
#include <stdio.h>
#include <setjmp.h>

// ---- message recorder (c19_main.c): the stubs of message_warning/message_error/message_fatal record what was said
extern jmp_buf c19_fatal_jmp;       // message_fatal() longjmps here when armed, aborts otherwise
extern bool c19_fatal_armed;
extern int c19_n_warn, c19_n_err;   // since c19_msg_reset()
extern int c19_last_code;           // classification of the LAST warning/error, see C19_* below
extern int c19_first_code;          // classification of the FIRST warning/error
extern int c19_last_errno;
void c19_msg_reset(void);

enum {
	C19_OK = 0,
	C19_W_SYMLINK = 1,
	C19_W_DIR = 2,
	C19_W_NOTREG = 3,
	C19_W_SETUID = 4,
	C19_W_STICKY = 5,
	C19_W_NLINK = 6,
	C19_W_ALREADY = 7,      // "already has '%s' suffix"
	C19_W_UNKNOWN = 8,      // "unknown suffix"
	C19_W_OWNER = 9,        // "Cannot set the file owner"
	C19_W_GROUP = 10,       // "Cannot set the file group"
	C19_W_PERM = 11,        // "Cannot set the file permissions"
	C19_W_OTHER = 19,
	C19_E_ERRNO = 20,       // message_error("%s: %s", name, strerror(errno)) : see c19_last_errno
	C19_E_REMOVE = 21,      // "Cannot remove"
	C19_E_EMPTY = 22,       // "Empty filename"
	C19_E_OTHER = 29,
	C19_FATAL = 30,
};

// ---- c19_suffix.c (real suffix.c)
bool c19_set_suffix(const char *sfx);
bool c19_suffix_is_set(void);
char *c19_dest_name(int mode, int format, const char *name);
size_t c19_test_suffix(const char *suffix, const char *name);
void c19_probe_tables(FILE *f);

// ---- c19_fileio.c (real file_io.c)
void c19_io_init(void);
// io_copy_attrs() with fchown/fchmod/futimens intercepted (no system call is made): returns the mode handed to fchmod
unsigned c19_copy_attrs_mode(unsigned src_mode, bool gid_same, bool group_fail, bool owner_fail, bool as_root);
// real io_open_src() on a path; returns C19_OK (and closes the file again) or the code of the message
int c19_open_src(const char *name, bool opt_c, bool opt_f, bool opt_k);
// real io_open_src + io_open_dest + io_close on the real file system. Results:
//   *stage 0 = source refused, 1 = destination refused, 2 = done; returns the message code of the refusal (or C19_OK)
//   dest_name_out: malloc'ed copy of pair->dest_name when stage 2 and not stdout
int c19_cycle(int mode, int format, const char *name, bool opt_c, bool opt_f, bool opt_k,
		bool group_fail, bool owner_fail, const void *payload, size_t payload_size,
		int *stage, char **dest_name_out);
void c19_probe_files(FILE *f, const char *scratch_dir);

// ---- c19_args.c (real args.c)
int c19_args_code(int prog, int env, int o1, int o2);
void c19_probe_args(FILE *f);

// ---- plan recorder (c19_main.c): what the real main() hands to coder_run(), in order
#define C19_PLAN_MAX 64
extern int c19_plan_n;
extern char *c19_plan[C19_PLAN_MAX];     // malloc'ed; "\001S" = standard input, "\001R" = refused (stdin busy with the list), "\001E" = list read error
void c19_plan_reset(void);
void c19_plan_add(const char *s);
extern jmp_buf c19_exit_jmp;             // tuklib_exit() longjmps here when armed
extern bool c19_exit_armed;
extern int c19_exit_code;
void c19_args_reset(void);

// ---- c19_exit.c (real main.c)
// runs the real main() (renamed) with this argv; returns the status given to tuklib_exit(); the plan is in c19_plan
int c19_run_main(int argc, char **argv);
void c19_probe_main(FILE *f, const char *scratch_dir);
void c19_exit_reset(void);
int c19_exit_get(void);
void c19_exit_set(int status);           // real set_exit_status()
void c19_probe_exit(FILE *f);

#endif
