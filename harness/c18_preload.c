// C18: LD_PRELOAD shim that logs the system calls a tool issues on its destination descriptor.
// Tracked descriptors: 1 (standard output) and every descriptor obtained from open()/open64()/openat() with
// O_CREAT|O_EXCL (the file `xz -d` creates). One line per call is appended to the file named by $C18_LOG
// (opened in the constructor, i.e. before xz enables its sandbox):
//   w <fd> <requested> <ret>            write
//   s <fd> <offset> <whence> <ret>      lseek (whence: 0 SET, 1 CUR, 2 END)
//   f <fd> <append><nonblock> <ret>     fcntl(fd, F_SETFL, flags)
//   o <fd>                              tracked open
//   c <fd>                              close of a tracked descriptor
#define _GNU_SOURCE
#include <dlfcn.h>
#include <fcntl.h>
#include <stdarg.h>
#include <stdio.h>
#include <stdlib.h>
#include <string.h>
#include <unistd.h>
#include <sys/syscall.h>
#include <sys/types.h>

static int logfd = -1;
static unsigned char tracked[1024];

static void logline(const char *fmt, ...)
{
	if (logfd < 0) return;
	char buf[160];
	va_list ap;
	va_start(ap, fmt);
	int n = vsnprintf(buf, sizeof(buf), fmt, ap);
	va_end(ap);
	if (n > 0) (void)!syscall(SYS_write, logfd, buf, (size_t)n);
}

__attribute__((constructor)) static void c18_init(void)
{
	const char *p = getenv("C18_LOG");
	tracked[1] = 1;
	if (!p) return;
	int fd = (int)syscall(SYS_openat, AT_FDCWD, p, O_WRONLY | O_CREAT | O_APPEND, 0600);
	if (fd < 0) return;
	int hi = (int)syscall(SYS_fcntl, fd, F_DUPFD, 900);
	if (hi >= 0) { syscall(SYS_close, fd); logfd = hi; } else logfd = fd;
}

static int is_tracked(int fd) { return fd >= 0 && fd < (int)sizeof(tracked) && tracked[fd]; }

ssize_t write(int fd, const void *buf, size_t n)
{
	static ssize_t (*real)(int, const void *, size_t);
	if (!real) real = dlsym(RTLD_NEXT, "write");
	ssize_t r = real(fd, buf, n);
	if (is_tracked(fd)) logline("w %d %zu %zd\n", fd, n, r);
	return r;
}

off_t lseek(int fd, off_t off, int whence)
{
	static off_t (*real)(int, off_t, int);
	if (!real) real = dlsym(RTLD_NEXT, "lseek");
	off_t r = real(fd, off, whence);
	if (is_tracked(fd)) logline("s %d %lld %d %lld\n", fd, (long long)off, whence, (long long)r);
	return r;
}

off64_t lseek64(int fd, off64_t off, int whence)
{
	static off64_t (*real)(int, off64_t, int);
	if (!real) real = dlsym(RTLD_NEXT, "lseek64");
	off64_t r = real(fd, off, whence);
	if (is_tracked(fd)) logline("s %d %lld %d %lld\n", fd, (long long)off, whence, (long long)r);
	return r;
}

static int fcntl_common(const char *name, int fd, int cmd, void *arg)
{
	int (*real)(int, int, ...) = dlsym(RTLD_NEXT, name);
	int r = real(fd, cmd, arg);
	if (cmd == F_SETFL && is_tracked(fd)) {
		long fl = (long)arg;
		logline("f %d %d%d %d\n", fd, !!(fl & O_APPEND), !!(fl & O_NONBLOCK), r);
	}
	return r;
}

int fcntl(int fd, int cmd, ...)
{
	va_list ap;
	va_start(ap, cmd);
	void *arg = va_arg(ap, void *);
	va_end(ap);
	return fcntl_common("fcntl", fd, cmd, arg);
}

int fcntl64(int fd, int cmd, ...)
{
	va_list ap;
	va_start(ap, cmd);
	void *arg = va_arg(ap, void *);
	va_end(ap);
	return fcntl_common("fcntl64", fd, cmd, arg);
}

static void track_open(int fd, int flags)
{
	if (fd >= 0 && fd < (int)sizeof(tracked) && (flags & O_CREAT) && (flags & O_EXCL)) {
		tracked[fd] = 1;
		logline("o %d\n", fd);
	}
}

int open(const char *path, int flags, ...)
{
	static int (*real)(const char *, int, ...);
	if (!real) real = dlsym(RTLD_NEXT, "open");
	mode_t mode = 0;
	if (flags & (O_CREAT | O_TMPFILE)) { va_list ap; va_start(ap, flags); mode = (mode_t)va_arg(ap, int); va_end(ap); }
	int fd = real(path, flags, mode);
	track_open(fd, flags);
	return fd;
}

int open64(const char *path, int flags, ...)
{
	static int (*real)(const char *, int, ...);
	if (!real) real = dlsym(RTLD_NEXT, "open64");
	mode_t mode = 0;
	if (flags & (O_CREAT | O_TMPFILE)) { va_list ap; va_start(ap, flags); mode = (mode_t)va_arg(ap, int); va_end(ap); }
	int fd = real(path, flags, mode);
	track_open(fd, flags);
	return fd;
}

int close(int fd)
{
	static int (*real)(int);
	if (!real) real = dlsym(RTLD_NEXT, "close");
	if (fd == logfd) return 0;
	if (fd != 1 && is_tracked(fd)) { tracked[fd] = 0; logline("c %d\n", fd); }
	return real(fd);
}
