// C06 harness: every liblzma coder driven through the generic sliced driver (c06_run.h).
// This is the direct oracle of the property (C against C): the same input under different
// slicings must give the same concatenated output, final lzma_ret, total_in and total_out.
//
// Line protocol (one result line per op):
//   run   <coder> <F|R> <hex> <fresh|reuse> <full|hash> <slicing>...
//           -> "<result> | <result> ..."  one per slicing
//   sweep <coder> <F|R> <hex> <cmp> <sweep-item>...
//           -> "runs=<n> diffs=<k> ref=[<result of W>] {diff=<slicing> [<result>]}"
//         cmp: f full, s status+total_in, o status+output, r status
//         sweep items:  B:<k>  S:<from>:<to>:<step>  O:<from>:<to>:<step>  X:<seed>:<count>:<maxout>
//                       R:<seed0>:<count>:<npieces>:<maxin>:<maxout>:<pzero>  L:<in>,<out>;...
//                       N (toggle NULL pointers for empty windows)  F (fresh stream for every run from here on)
//                       G (first item only: use the process-wide lzma_stream that is never lzma_end()ed between ops, so this
//                          sweep starts on a handle last used by another coder)   FW (whole-buffer run on a brand-new stream,
//                          compared with the reference)   K:<p>:<calls> (run S:<p> for <calls> calls and abandon it mid-stream;
//                          not compared; the next run re-initialises the abandoned handle)
//   flush <coder> <hex> <points> <outcap> <variant>...
//           encoder with flush actions in the middle: <points> = e.g. "S1234,F5000" (S LZMA_SYNC_FLUSH, F LZMA_FULL_FLUSH,
//           B LZMA_FULL_BARRIER at these input offsets; LZMA_FINISH at the end). The bytes of a segment are offered in pieces
//           (LZMA_RUN) and the last piece with the segment's action, repeated until LZMA_STREAM_END. A <variant> "<first>/<then>"
//           gives the piece sizes used inside every segment AFTER the first flush (prefix 'a': inside the first segment too);
//           the reference offers every segment in one piece. <outcap> = output window per call (0 = 1 MiB).
//           A point may also be "N<pos>" (no action, just a place) and carry "e<k>" / "z<k>" = k EMPTY lzma_code(LZMA_RUN)
//           calls (avail_in == 0, with output room / with avail_out == 0) made right there, e.g. "N0e1" (start of the Stream),
//           "F5000e2" (between Blocks), "F<len>e1" (no data after the last flush). The reference makes no empty calls; every
//           variant does ("0/0" = whole segments, only the empty calls differ).
//           -> "ref=[result] dec=<1 ok|0 wrong|- not checked> runs=<n> diffs=<k> {diff=<variant> [result]}"
//   hist <coderB> <F|R> <hexB> <slicingB> <history>...
//           "same data + same options => same result" whatever the handle did before. The reference is job B on a brand-new
//           lzma_stream. Each <history> = <coderA>|<seed>|<len>|<outcap>|<calls>|<a|f> runs job A first on a new handle (input:
//           <len> pseudo-random, mildly compressible bytes from <seed>, all offered at once with LZMA_RUN, output windows of
//           <outcap> bytes (0 = 1 MiB)): 'a' = abandoned after <calls> lzma_code() calls (no LZMA_FINISH, no lzma_end()),
//           'f' = run to its end (LZMA_FINISH; success or error). Then job B is initialised on the SAME handle and run with
//           <slicingB>; its result must equal the reference.
//           -> "ref=[result] runs=<n> diffs=<k> {diff=<history> [result]}"
//   lzc <coder> <hex> <in>,<out>[x<repeat>] ...
//           the real coder driven with EXACTLY these per-call windows (avail_in = min(<in>, bytes left), avail_out = <out>,
//           LZMA_RUN); the twin of driver op lzr1/lzr2 (resumable LZMA model). LZMA_BUF_ERROR (second consecutive call without
//           progress) is printed as LZMA_OK: the model has no such wrapper.
//           -> "<ret>:<consumed>:<produced> ... | <last ret> <total_in> <out len>:<fnv64>"
//   strrt <struct-chain>
//           -> "ok <string>" if lzma_str_to_filters(lzma_str_from_filters(f)) = f field by field for the flag sets ENCODER,
//              ENCODER|GETOPT_LONG, ENCODER|NO_SPACES|GETOPT_LONG (all options) and DECODER (decoder-relevant options);
//              <string> is the ENCODER|NO_SPACES|GETOPT_LONG form (no blanks), usable as "@<string>" chain. Else "diff ...".
//   small-coder ops (tie to the Lean model; see c06_small.c): vlid, vlie, simple, delta, bufcpy
//
// Coder specs (':' separated; a filter chain is always the last field):
//   decoders: sd:<flags>:<memlimit>   sdmt:<flags>:<threads>:<timeout>:<memlimit_threading>:<memlimit_stop>
//             auto:<flags>:<memlimit>  alone:<memlimit>  lzip:<flags>:<memlimit>  rawd:<chain>
//             blockd:<check>:<ignore_check>  indexd:<memlimit>  fileinfo:<memlimit>
//             microd:<comp_size>:<uncomp_size>:<exact>:<dict_size>
//   encoders: easy:<preset>:<check>  se:<check>:<chain>  alonee:<chain>  rawe:<chain>  blocke:<check>:<chain>
//             semt:<threads>:<timeout>:<block_size>:<check>:<preset|chain>  microe:<outcap>:<chain>  indexe
//   chain:    @<lzma_str_to_filters string, written with '=' and '--' instead of ':' and ' '>
//             or  name,key=val,...+name,...    names: lzma1 lzma1ext lzma2 delta x86 powerpc ia64 arm armthumb arm64 sparc riscv
#include "c06_run.h"
#include <signal.h>
#include <unistd.h>

bool c06_small_op(hp_line *l);   // c06_small.c

// Watchdog: a single run (one coder, one input, one slicing) that takes longer than this many seconds of wall time means that
// lzma_code() itself does not return (e.g. a threaded coder waiting for a worker that will never signal). The process says so
// and exits with status 3; the Python side records the op line as the replay.
static unsigned g_run_timeout = 180;
static void on_alarm(int sig)
{
	(void)sig;
	static const char msg[] = "\nWATCHDOG: lzma_code() did not return\n";
	ssize_t w = write(2, msg, sizeof(msg) - 1);
	(void)w;
	_exit(3);
}

// Link-time interposer (-Wl,--wrap=lzma_simple_coder_init, no source change): tells whether a BCJ filter
// took part in a run, which is what decides how much of a rejected input's result the property fixes.
static volatile bool g_bcj_used;   // written by worker threads too (a plain flag; only ever set to true during a run)
struct lzma_next_coder_s; struct lzma_filter_info_s;
extern lzma_ret __real_lzma_simple_coder_init(void *next, const lzma_allocator *allocator, const void *filters,
		size_t (*filter)(void *simple, uint32_t now_pos, bool is_encoder, uint8_t *buffer, size_t size),
		size_t simple_size, size_t unfiltered_max, uint32_t alignment, bool is_encoder);
lzma_ret __wrap_lzma_simple_coder_init(void *next, const lzma_allocator *allocator, const void *filters,
		size_t (*filter)(void *simple, uint32_t now_pos, bool is_encoder, uint8_t *buffer, size_t size),
		size_t simple_size, size_t unfiltered_max, uint32_t alignment, bool is_encoder)
{
	g_bcj_used = true;
	return __real_lzma_simple_coder_init(next, allocator, filters, filter, simple_size, unfiltered_max, alignment, is_encoder);
}

// ---------------------------------------------------------------------------------------------
// filter chains
// ---------------------------------------------------------------------------------------------
typedef struct {
	lzma_filter f[LZMA_FILTERS_MAX + 1];
	lzma_options_lzma lz[LZMA_FILTERS_MAX];
	lzma_options_delta de[LZMA_FILTERS_MAX];
	lzma_options_bcj bcj[LZMA_FILTERS_MAX];
	bool from_str;
	bool ok;
} chain;

static void chain_free(chain *c)
{
	if (c->from_str && c->ok)
		lzma_filters_free(c->f, NULL);
	c->ok = false;
}

static bool parse_filter(char *s, chain *c, int k)
{
	char *save = NULL;
	char *name = strtok_r(s, ",", &save);
	if (name == NULL) return false;
	lzma_vli id;
	int cls; // 0 lzma, 1 delta, 2 bcj
	if (!strcmp(name, "lzma1")) { id = LZMA_FILTER_LZMA1; cls = 0; }
	else if (!strcmp(name, "lzma1ext")) { id = LZMA_FILTER_LZMA1EXT; cls = 0; }
	else if (!strcmp(name, "lzma2")) { id = LZMA_FILTER_LZMA2; cls = 0; }
	else if (!strcmp(name, "delta")) { id = LZMA_FILTER_DELTA; cls = 1; }
	else if (!strcmp(name, "x86")) { id = LZMA_FILTER_X86; cls = 2; }
	else if (!strcmp(name, "powerpc")) { id = LZMA_FILTER_POWERPC; cls = 2; }
	else if (!strcmp(name, "ia64")) { id = LZMA_FILTER_IA64; cls = 2; }
	else if (!strcmp(name, "arm")) { id = LZMA_FILTER_ARM; cls = 2; }
	else if (!strcmp(name, "armthumb")) { id = LZMA_FILTER_ARMTHUMB; cls = 2; }
	else if (!strcmp(name, "arm64")) { id = LZMA_FILTER_ARM64; cls = 2; }
	else if (!strcmp(name, "sparc")) { id = LZMA_FILTER_SPARC; cls = 2; }
	else if (!strcmp(name, "riscv")) { id = LZMA_FILTER_RISCV; cls = 2; }
	else return false;
	c->f[k].id = id;
	if (cls == 0) {
		lzma_options_lzma *o = &c->lz[k];
		// first pass: preset
		uint32_t preset = 6;
		char *copy = save ? strdup(save) : NULL;
		if (copy) {
			char *sv2 = NULL;
			for (char *kv = strtok_r(copy, ",", &sv2); kv; kv = strtok_r(NULL, ",", &sv2))
				if (!strncmp(kv, "preset=", 7)) preset = (uint32_t)strtoul(kv + 7, NULL, 0);
			free(copy);
		}
		if (lzma_lzma_preset(o, preset)) return false;
		for (char *kv = strtok_r(NULL, ",", &save); kv; kv = strtok_r(NULL, ",", &save)) {
			char *eq = strchr(kv, '=');
			if (!eq) return false;
			*eq = 0;
			uint64_t v = strtoull(eq + 1, NULL, 0);
			if (!strcmp(kv, "preset")) ;
			else if (!strcmp(kv, "dict")) o->dict_size = (uint32_t)v;
			else if (!strcmp(kv, "lc")) o->lc = (uint32_t)v;
			else if (!strcmp(kv, "lp")) o->lp = (uint32_t)v;
			else if (!strcmp(kv, "pb")) o->pb = (uint32_t)v;
			else if (!strcmp(kv, "mode")) o->mode = (lzma_mode)v;
			else if (!strcmp(kv, "nice")) o->nice_len = (uint32_t)v;
			else if (!strcmp(kv, "mf")) o->mf = (lzma_match_finder)v;
			else if (!strcmp(kv, "depth")) o->depth = (uint32_t)v;
			else if (!strcmp(kv, "extflags")) o->ext_flags = (uint32_t)v;
			else if (!strcmp(kv, "extsize")) { o->ext_size_low = (uint32_t)v; o->ext_size_high = (uint32_t)(v >> 32); }
			else return false;
		}
		c->f[k].options = o;
	} else if (cls == 1) {
		lzma_options_delta *o = &c->de[k];
		memset(o, 0, sizeof(*o));
		o->type = LZMA_DELTA_TYPE_BYTE;
		o->dist = 1;
		for (char *kv = strtok_r(NULL, ",", &save); kv; kv = strtok_r(NULL, ",", &save)) {
			if (!strncmp(kv, "dist=", 5)) o->dist = (uint32_t)strtoul(kv + 5, NULL, 0);
			else return false;
		}
		c->f[k].options = o;
	} else {
		lzma_options_bcj *o = &c->bcj[k];
		memset(o, 0, sizeof(*o));
		bool any = false;
		for (char *kv = strtok_r(NULL, ",", &save); kv; kv = strtok_r(NULL, ",", &save)) {
			if (!strncmp(kv, "start=", 6)) { o->start_offset = (uint32_t)strtoul(kv + 6, NULL, 0); any = true; }
			else return false;
		}
		c->f[k].options = any ? o : NULL;
	}
	return true;
}

static bool parse_chain(const char *s, chain *c)
{
	memset(c, 0, sizeof(*c));
	if (s[0] == '@') {
		// lzma_str_to_filters accepts '=' for ':' and "--" for ' ' exactly so that the
		// string can be a single shell word.
		int err_pos = 0;
		const char *msg = lzma_str_to_filters(s + 1, &err_pos, c->f, LZMA_STR_ALL_FILTERS, NULL);
		if (msg != NULL) return false;
		c->from_str = true;
		c->ok = true;
		return true;
	}
	char *copy = strdup(s);
	char *save = NULL;
	int k = 0;
	bool ok = true;
	// split on '+' by hand because parse_filter uses strtok_r too
	char *p = copy;
	while (ok && p && *p) {
		char *plus = strchr(p, '+');
		if (plus) *plus = 0;
		if (k >= LZMA_FILTERS_MAX) { ok = false; break; }
		ok = parse_filter(p, c, k++);
		p = plus ? plus + 1 : NULL;
	}
	(void)save;
	c->f[k].id = LZMA_VLI_UNKNOWN;
	c->f[k].options = NULL;
	free(copy);
	c->ok = ok && k > 0;
	return c->ok;
}

// ---------------------------------------------------------------------------------------------
// coder descriptors
// ---------------------------------------------------------------------------------------------
typedef struct {
	char kind[16];
	uint64_t p[8];
	int np;
	chain ch;
	bool has_chain;
	bool seekable, timed, single_call, is_encoder, index_out;
	// per run
	lzma_index *idx;
	lzma_block block;
	lzma_filter block_filters[LZMA_FILTERS_MAX + 1];
	bool block_filters_live;
} coder;

static uint64_t memlim(uint64_t v) { return v == 0 ? UINT64_MAX : v; }

static bool coder_parse(const char *spec, coder *c)
{
	memset(c, 0, sizeof(*c));
	char *copy = strdup(spec);
	char *fields[10];
	int nf = 0;
	// the chain (last field) may itself contain anything but blanks; kinds with a chain say how many
	// numeric fields precede it
	char *p = copy;
	char *colon = strchr(p, ':');
	if (colon) *colon = 0;
	snprintf(c->kind, sizeof(c->kind), "%s", p);
	int nnum;
	bool want_chain = false;
	if (!strcmp(c->kind, "sd")) nnum = 2;
	else if (!strcmp(c->kind, "sdmt")) { nnum = 5; c->timed = true; }
	else if (!strcmp(c->kind, "auto")) nnum = 2;
	else if (!strcmp(c->kind, "alone")) nnum = 1;
	else if (!strcmp(c->kind, "lzip")) nnum = 2;
	else if (!strcmp(c->kind, "rawd")) { nnum = 0; want_chain = true; }
	else if (!strcmp(c->kind, "blockd")) nnum = 2;
	else if (!strcmp(c->kind, "indexd")) { nnum = 1; c->index_out = true; }
	else if (!strcmp(c->kind, "fileinfo")) { nnum = 1; c->seekable = true; c->index_out = true; }
	else if (!strcmp(c->kind, "microd")) nnum = 4;
	else if (!strcmp(c->kind, "easy")) { nnum = 2; c->is_encoder = true; }
	else if (!strcmp(c->kind, "se")) { nnum = 1; want_chain = true; c->is_encoder = true; }
	else if (!strcmp(c->kind, "alonee")) { nnum = 0; want_chain = true; c->is_encoder = true; }
	else if (!strcmp(c->kind, "rawe")) { nnum = 0; want_chain = true; c->is_encoder = true; }
	else if (!strcmp(c->kind, "blocke")) { nnum = 1; want_chain = true; c->is_encoder = true; }
	else if (!strcmp(c->kind, "semt")) { nnum = 4; want_chain = true; c->is_encoder = true; c->timed = true; }
	else if (!strcmp(c->kind, "microe")) { nnum = 1; want_chain = true; c->is_encoder = true; c->single_call = true; }
	else if (!strcmp(c->kind, "indexe")) { nnum = 0; c->is_encoder = true; }
	else { free(copy); return false; }
	p = colon ? colon + 1 : NULL;
	for (int i = 0; i < nnum; ++i) {
		if (p == NULL) { free(copy); return false; }
		char *e = strchr(p, ':');
		if (e) *e = 0;
		fields[nf++] = p;
		c->p[c->np++] = strtoull(p, NULL, 0);
		p = e ? e + 1 : NULL;
	}
	bool ok = true;
	if (want_chain) {
		if (p == NULL) ok = false;
		else if (!strcmp(c->kind, "semt") && p[0] >= '0' && p[0] <= '9') {
			c->p[c->np++] = strtoull(p, NULL, 0);   // preset
			c->has_chain = false;
		} else {
			ok = parse_chain(p, &c->ch);
			c->has_chain = ok;
		}
	}
	(void)fields;
	free(copy);
	return ok;
}

static void coder_free(coder *c)
{
	if (c->has_chain) chain_free(&c->ch);
	if (c->idx) { lzma_index_end(c->idx, NULL); c->idx = NULL; }
}

static void put_u(c06_result *r, const char *tag, uint64_t v)
{
	char buf[64];
	int n = snprintf(buf, sizeof(buf), "%s%" PRIu64 ";", tag, v);
	c06_out_append(r, (const uint8_t *)buf, (size_t)n);
}

// Canonical serialisation of an lzma_index (Streams, Blocks, flags, padding) into the output vector.
static void serialise_index(const lzma_index *i, c06_result *r)
{
	put_u(r, "I:streams=", lzma_index_stream_count(i));
	put_u(r, "blocks=", lzma_index_block_count(i));
	put_u(r, "size=", lzma_index_size(i));
	put_u(r, "total=", lzma_index_total_size(i));
	put_u(r, "file=", lzma_index_file_size(i));
	put_u(r, "uncomp=", lzma_index_uncompressed_size(i));
	put_u(r, "checks=", lzma_index_checks(i));
	lzma_index_iter it;
	lzma_index_iter_init(&it, i);
	while (!lzma_index_iter_next(&it, LZMA_INDEX_ITER_STREAM)) {
		put_u(r, "S", it.stream.number);
		if (it.stream.flags != NULL) {
			put_u(r, "v", it.stream.flags->version);
			put_u(r, "c", (uint64_t)it.stream.flags->check);
			put_u(r, "b", it.stream.flags->backward_size);
		}
		put_u(r, "n", it.stream.block_count);
		put_u(r, "co", it.stream.compressed_offset);
		put_u(r, "uo", it.stream.uncompressed_offset);
		put_u(r, "cs", it.stream.compressed_size);
		put_u(r, "us", it.stream.uncompressed_size);
		put_u(r, "pad", it.stream.padding);
	}
	lzma_index_iter_init(&it, i);
	while (!lzma_index_iter_next(&it, LZMA_INDEX_ITER_BLOCK)) {
		put_u(r, "B", it.block.number_in_file);
		put_u(r, "cf", it.block.compressed_file_offset);
		put_u(r, "uf", it.block.uncompressed_file_offset);
		put_u(r, "up", it.block.unpadded_size);
		put_u(r, "ts", it.block.total_size);
		put_u(r, "us", it.block.uncompressed_size);
	}
}

// Initialises the stream for one run. *in / *in_len may be advanced (block header). Returns the
// init function's lzma_ret.
static lzma_ret coder_init(coder *c, lzma_stream *strm, const uint8_t **in, size_t *in_len, c06_result *r)
{
	const char *k = c->kind;
	if (c->idx && strcmp(k, "indexe")) { lzma_index_end(c->idx, NULL); c->idx = NULL; }
	if (!strcmp(k, "sd")) return lzma_stream_decoder(strm, memlim(c->p[1]), (uint32_t)c->p[0]);
	if (!strcmp(k, "sdmt")) {
		lzma_mt mt;
		memset(&mt, 0, sizeof(mt));
		mt.flags = (uint32_t)c->p[0];
		mt.threads = (uint32_t)c->p[1];
		mt.timeout = (uint32_t)c->p[2];
		mt.memlimit_threading = memlim(c->p[3]);
		mt.memlimit_stop = memlim(c->p[4]);
		return lzma_stream_decoder_mt(strm, &mt);
	}
	if (!strcmp(k, "auto")) return lzma_auto_decoder(strm, memlim(c->p[1]), (uint32_t)c->p[0]);
	if (!strcmp(k, "alone")) return lzma_alone_decoder(strm, memlim(c->p[0]));
	if (!strcmp(k, "lzip")) return lzma_lzip_decoder(strm, memlim(c->p[1]), (uint32_t)c->p[0]);
	if (!strcmp(k, "rawd")) return lzma_raw_decoder(strm, c->ch.f);
	if (!strcmp(k, "rawe")) return lzma_raw_encoder(strm, c->ch.f);
	if (!strcmp(k, "easy")) return lzma_easy_encoder(strm, (uint32_t)c->p[0], (lzma_check)c->p[1]);
	if (!strcmp(k, "se")) return lzma_stream_encoder(strm, c->ch.f, (lzma_check)c->p[0]);
	if (!strcmp(k, "alonee")) return lzma_alone_encoder(strm, c->ch.f[0].options);
	if (!strcmp(k, "microe")) return lzma_microlzma_encoder(strm, c->ch.f[0].options);
	if (!strcmp(k, "microd"))
		return lzma_microlzma_decoder(strm, c->p[0], c->p[1], c->p[2] != 0, (uint32_t)c->p[3]);
	if (!strcmp(k, "semt")) {
		lzma_mt mt;
		memset(&mt, 0, sizeof(mt));
		mt.threads = (uint32_t)c->p[0];
		mt.timeout = (uint32_t)c->p[1];
		mt.block_size = c->p[2];
		mt.check = (lzma_check)c->p[3];
		if (c->has_chain) mt.filters = c->ch.f;
		else mt.preset = (uint32_t)c->p[4];
		return lzma_stream_encoder_mt(strm, &mt);
	}
	if (!strcmp(k, "indexd")) return lzma_index_decoder(strm, &c->idx, memlim(c->p[0]));
	if (!strcmp(k, "fileinfo")) return lzma_file_info_decoder(strm, &c->idx, memlim(c->p[0]), *in_len);
	if (!strcmp(k, "indexe")) {
		// the "input" is an encoded Index field; the coder under test re-encodes it
		if (c->idx == NULL) {
			uint64_t ml = UINT64_MAX;
			size_t ip = 0;
			lzma_ret ret = lzma_index_buffer_decode(&c->idx, &ml, NULL, *in, &ip, *in_len);
			if (ret != LZMA_OK) return ret;
		}
		*in_len = 0;
		return lzma_index_encoder(strm, c->idx);
	}
	if (!strcmp(k, "blockd")) {
		if (c->block_filters_live) { lzma_filters_free(c->block_filters, NULL); c->block_filters_live = false; }
		if (*in_len < 1) return LZMA_PROG_ERROR + 50;
		memset(&c->block, 0, sizeof(c->block));
		c->block.version = 1;
		c->block.check = (lzma_check)c->p[0];
		c->block.ignore_check = c->p[1] != 0;
		c->block.filters = c->block_filters;
		c->block.header_size = lzma_block_header_size_decode((*in)[0]);
		if (c->block.header_size > *in_len) return LZMA_PROG_ERROR + 51;
		lzma_ret ret = lzma_block_header_decode(&c->block, NULL, *in);
		if (ret != LZMA_OK) return ret;
		c->block_filters_live = true;
		*in += c->block.header_size;
		*in_len -= c->block.header_size;
		return lzma_block_decoder(strm, &c->block);
	}
	if (!strcmp(k, "blocke")) {
		memset(&c->block, 0, sizeof(c->block));
		c->block.version = 1;
		c->block.check = (lzma_check)c->p[0];
		c->block.filters = c->ch.f;
		c->block.compressed_size = LZMA_VLI_UNKNOWN;
		c->block.uncompressed_size = LZMA_VLI_UNKNOWN;
		lzma_ret ret = lzma_block_header_size(&c->block);
		if (ret != LZMA_OK) return ret;
		uint8_t hdr[LZMA_BLOCK_HEADER_SIZE_MAX];
		ret = lzma_block_header_encode(&c->block, hdr);
		if (ret != LZMA_OK) return ret;
		c06_out_append(r, hdr, c->block.header_size);
		return lzma_block_encoder(strm, &c->block);
	}
	return LZMA_PROG_ERROR;
}

static void coder_post(coder *c, c06_result *r)
{
	if (c->index_out && c->idx != NULL && r->ret == LZMA_STREAM_END)
		serialise_index(c->idx, r);
	if (!strcmp(c->kind, "blockd") && r->ret == LZMA_STREAM_END) {
		put_u(r, "|csize=", c->block.compressed_size);
		put_u(r, "usize=", c->block.uncompressed_size);
		c06_out_append(r, c->block.raw_check, lzma_check_size(c->block.check));
	}
	if (!strcmp(c->kind, "blocke") && r->ret == LZMA_STREAM_END) {
		put_u(r, "|csize=", c->block.compressed_size);
		put_u(r, "usize=", c->block.uncompressed_size);
	}
}

// One complete run of a coder on an input under a slicing. `strm` may carry a previous coder (reuse).
static void do_run(coder *c, lzma_stream *strm, const uint8_t *in, size_t in_len, c06_slicing *sl,
		bool final_finish, c06_result *r)
{
	c06_result_reset(r);
	g_bcj_used = false;
	alarm(g_run_timeout);
	lzma_ret ir = coder_init(c, strm, &in, &in_len, r);
	if (ir != LZMA_OK) {
		alarm(0);
		r->ret = 100 + (int)ir;
		r->out_len = 0;
		return;
	}
	c06_slicing tmp;
	if (c->single_call) {
		// MicroLZMA encoder: one call, all input, fixed output capacity. Only repetition varies.
		memset(&tmp, 0, sizeof(tmp));
		tmp.kind = 'X';
		tmp.a = in_len;
		tmp.b = c->p[0];
		sl = &tmp;
	}
	c06_run_sliced(strm, in, in_len, sl, final_finish || c->is_encoder, c->seekable, c->timed, r);
	alarm(0);
	r->bcj = g_bcj_used;
	coder_post(c, r);
}

static void print_result(const c06_result *r, bool full)
{
	putchar('[');
	c06_result_print(r, full);
	putchar(']');
}

typedef struct {
	coder *c;
	lzma_stream strm;
	bool fresh;
	const uint8_t *in;
	size_t in_len;
	bool fin;
	char cmp;
	c06_result ref, cur;
	unsigned long runs, diffs;
	bool hung;   // a run did not terminate: the remaining items of this sweep are skipped (each would wait again)
} sweep;

static lzma_stream g_strm = LZMA_STREAM_INIT;   // process-wide handle for 'G' sweeps

static void sweep_one(sweep *s, const char *spec)
{
	c06_slicing sl;
	if (s->hung) return;
	if (!c06_slicing_parse(spec, &sl)) { printf(" bad-slicing=%s", spec); return; }
	if (s->fresh) { lzma_end(&s->strm); lzma_stream z = LZMA_STREAM_INIT; s->strm = z; }
	do_run(s->c, &s->strm, s->in, s->in_len, &sl, s->fin, &s->cur);
	++s->runs;
	if (s->cur.ret == C06_HANG) s->hung = true;
	if (!c06_result_same(&s->ref, &s->cur, s->cmp)) {
		if (s->diffs++ < 3) {
			printf(" diff=%s%s ", spec, i06_null_in ? "/N" : "");
			print_result(&s->cur, false);
		}
	}
	c06_slicing_free(&sl);
}

// One encoder run with flush points (see the `flush` op). first == 0 means: every segment in one piece.
// pe[i] / pz[i]: number of EMPTY lzma_code(LZMA_RUN) calls (avail_in == 0; with output room / with avail_out == 0 too) made
// right after point i has been reached (after its flush returned LZMA_STREAM_END); only when `empties` is set.
static void flush_run(coder *c, lzma_stream *strm, const uint8_t *in, size_t n, const size_t *pt, const lzma_action *pa,
		const unsigned *pe, const unsigned *pz, int np,
		size_t first, size_t then, bool all_segments, bool empties, size_t outcap, c06_result *r)
{
	c06_result_reset(r);
	g_bcj_used = false;
	alarm(g_run_timeout);
	lzma_ret ir = coder_init(c, strm, &in, &n, r);
	if (ir != LZMA_OK) { alarm(0); r->ret = 100 + (int)ir; r->out_len = 0; return; }
	if (outcap == 0) outcap = C06_OUTBIG;
	size_t pos = 0;
	lzma_ret ret = LZMA_OK;
	uint8_t dummy = 0;
	bool noprog = false;   // the previous lzma_code() call consumed and produced nothing and returned LZMA_OK / LZMA_BUF_ERROR
	for (int seg = 0; seg <= np && r->ret == -1; ++seg) {
		const size_t end = seg < np ? pt[seg] : n;
		const lzma_action act_end = seg < np ? pa[seg] : LZMA_FINISH;   // LZMA_RUN = a point without a flush ('N')
		const bool sliced = first != 0 && (seg > 0 || all_segments);
		bool firstpiece = true;
		for (;;) {
			const size_t left = end - pos;
			if (left == 0 && act_end == LZMA_RUN) break;   // nothing to feed and no action: not a call at all
			size_t want = !sliced ? left : (firstpiece ? first : then);
			if (want == 0) want = 1;
			const size_t ain = want > left ? left : want;
			const lzma_action act = ain == left ? act_end : LZMA_RUN;
			strm->next_in = ain ? in + pos : &dummy;
			strm->avail_in = ain;
			unsigned idle = 0;
			for (;;) {
				c06_out_reserve(r, outcap);
				strm->next_out = r->out + r->out_len;
				strm->avail_out = outcap;
				const size_t before_in = strm->avail_in;
				ret = lzma_code(strm, act);
				++r->ncalls;
				r->out_len += outcap - strm->avail_out;
				idle = (before_in == strm->avail_in && strm->avail_out == outcap) ? idle + 1 : 0;
				noprog = idle > 0 && ret == LZMA_OK;
				if (ret != LZMA_OK && ret != LZMA_STREAM_END) { r->ret = (int)ret; break; }
				if (idle > 200 && !c->timed) { r->ret = C06_HANG; break; }
				if (r->out_len > c06_out_limit) { r->ret = C06_RUNAWAY; break; }
				if (act == LZMA_RUN && ret == LZMA_STREAM_END) { r->ret = C06_SPURIOUS_BUF_ERROR + 100; break; }
				if (act == LZMA_RUN ? strm->avail_in == 0 : ret == LZMA_STREAM_END) break;
			}
			if (r->ret != -1) break;
			pos += ain;
			firstpiece = false;
			if (ain == left) break;
		}
		// empty calls at this structural point
		if (r->ret == -1 && empties && seg < np) {
			for (unsigned k = 0; k < pe[seg] + pz[seg] && r->ret == -1; ++k) {
				const size_t cap = k < pe[seg] ? outcap : 0;
				if (cap) c06_out_reserve(r, cap);
				strm->next_in = &dummy;
				strm->avail_in = 0;
				strm->next_out = cap ? r->out + r->out_len : &dummy;
				strm->avail_out = cap;
				lzma_ret er = lzma_code(strm, LZMA_RUN);
				++r->ncalls;
				r->out_len += cap - strm->avail_out;
				// LZMA_BUF_ERROR is legal only for the second of two consecutive calls without progress
				if (er == LZMA_BUF_ERROR && !noprog) r->ret = C06_SPURIOUS_BUF_ERROR;
				else if (er != LZMA_OK && er != LZMA_BUF_ERROR) r->ret = 200 + (int)er;
				noprog = cap == strm->avail_out;
			}
		}
	}
	if (r->ret == -1) r->ret = (int)ret;
	alarm(0);
	r->total_in = strm->total_in;
	r->total_out = strm->total_out;
	r->bcj = g_bcj_used;
	coder_post(c, r);
}

// Job A of the `hist` op: returns false if the history token does not parse.
static bool history_run(const char *tok, lzma_stream *strm)
{
	char *copy = strdup(tok);
	char *f[6]; int nf = 0;
	for (char *q = copy; q && nf < 6; ) { f[nf++] = q; q = strchr(q, '|'); if (q) *q++ = 0; }
	coder a;
	if (nf != 6 || !coder_parse(f[0], &a)) { free(copy); return false; }
	uint64_t seed = strtoull(f[1], NULL, 10) * 0x9E3779B97F4A7C15ull + 1;
	size_t n = (size_t)strtoull(f[2], NULL, 10);
	size_t outcap = (size_t)strtoull(f[3], NULL, 10);
	unsigned long calls = strtoul(f[4], NULL, 10);
	bool finish = f[5][0] == 'f';
	uint8_t *in = malloc(n ? n : 1);
	for (size_t i = 0; i < n; ) {
		uint64_t x = c06_rand(&seed);
		if ((x & 7) < 3 && i >= 64) {            // copy of something earlier
			size_t len = 3 + (size_t)((x >> 8) % 40), src = (size_t)((x >> 20) % i);
			for (size_t k = 0; k < len && i < n; ++k) in[i++] = in[src + k < i ? src + k : i - 1];
		} else {
			for (int k = 0; k < 6 && i < n; ++k) in[i++] = (uint8_t)(x >> (8 * k + 8));
		}
	}
	c06_result r = {0};
	if (finish) {
		c06_slicing w;
		c06_slicing_parse("W", &w);
		do_run(&a, strm, in, n, &w, true, &r);
	} else {
		c06_result_reset(&r);
		const uint8_t *ip = in; size_t il = n;
		alarm(g_run_timeout);
		if (coder_init(&a, strm, &ip, &il, &r) == LZMA_OK) {
			if (outcap == 0) outcap = C06_OUTBIG;
			uint8_t *ob = malloc(outcap);
			strm->next_in = ip; strm->avail_in = il;
			for (unsigned long k = 0; k < calls; ++k) {
				strm->next_out = ob; strm->avail_out = outcap;
				lzma_ret ret = lzma_code(strm, LZMA_RUN);
				if (ret != LZMA_OK && ret != LZMA_BUF_ERROR) break;
			}
			free(ob);
		}
		alarm(0);
		// abandoned: the handle keeps whatever state job A left; the caller's buffers are gone
		strm->next_in = NULL; strm->avail_in = 0; strm->next_out = NULL; strm->avail_out = 0;
	}
	c06_result_free(&r);
	if (a.block_filters_live) lzma_filters_free(a.block_filters, NULL);
	coder_free(&a);
	free(in);
	free(copy);
	return true;
}

static uint32_t bcj_start(const lzma_filter *f) { return f->options ? ((const lzma_options_bcj *)f->options)->start_offset : 0; }

// Field-by-field comparison of two chains; `enc` = all encoder options, else only what a decoder needs.
static bool chains_equal(const lzma_filter *a, const lzma_filter *b, bool enc, char *why, size_t whysz)
{
	for (int i = 0; ; ++i) {
		if (a[i].id != b[i].id) { snprintf(why, whysz, "f%d.id %llx/%llx", i, (unsigned long long)a[i].id, (unsigned long long)b[i].id); return false; }
		if (a[i].id == LZMA_VLI_UNKNOWN) return true;
		if (a[i].id == LZMA_FILTER_LZMA1 || a[i].id == LZMA_FILTER_LZMA2) {
			const lzma_options_lzma *x = a[i].options, *y = b[i].options;
			if (x == NULL || y == NULL) { snprintf(why, whysz, "f%d.options NULL", i); return false; }
#define CMPF(fld) if ((uint64_t)x->fld != (uint64_t)y->fld) { snprintf(why, whysz, "f%d." #fld " %llu/%llu", i, (unsigned long long)x->fld, (unsigned long long)y->fld); return false; }
			CMPF(dict_size)
			// a decoder needs lc/lp/pb only for LZMA1 (LZMA2 carries them in the stream; LZMA_STR_DECODER omits them)
			if (enc || a[i].id == LZMA_FILTER_LZMA1) { CMPF(lc) CMPF(lp) CMPF(pb) }
			if (enc) { CMPF(mode) CMPF(nice_len) CMPF(mf) CMPF(depth) }
#undef CMPF
			if (y->preset_dict != NULL) { snprintf(why, whysz, "f%d.preset_dict", i); return false; }
		} else if (a[i].id == LZMA_FILTER_DELTA) {
			const lzma_options_delta *x = a[i].options, *y = b[i].options;
			if (x == NULL || y == NULL || x->dist != y->dist || x->type != y->type) { snprintf(why, whysz, "f%d.delta", i); return false; }
		} else {
			if (bcj_start(&a[i]) != bcj_start(&b[i])) { snprintf(why, whysz, "f%d.start %u/%u", i, bcj_start(&a[i]), bcj_start(&b[i])); return false; }
		}
	}
}

static void op_strrt(const char *spec)
{
	chain c;
	if (!parse_chain(spec, &c) || c.from_str) { printf("bad-chain\n"); return; }
	static const uint32_t flagsets[4] = { LZMA_STR_ENCODER, LZMA_STR_ENCODER | LZMA_STR_GETOPT_LONG,
		LZMA_STR_ENCODER | LZMA_STR_NO_SPACES | LZMA_STR_GETOPT_LONG, LZMA_STR_DECODER };
	char keep[1024] = "";
	for (int k = 0; k < 4; ++k) {
		char *str = NULL;
		lzma_ret r = lzma_str_from_filters(&str, c.f, flagsets[k], NULL);
		if (r != LZMA_OK) { printf("diff from_filters(flags=0x%x)=%d\n", flagsets[k], (int)r); return; }
		lzma_filter back[LZMA_FILTERS_MAX + 1];
		int pos = 0;
		const char *msg = lzma_str_to_filters(str, &pos, back, LZMA_STR_ALL_FILTERS, NULL);
		if (msg != NULL) { printf("diff to_filters(flags=0x%x) rejects its own output at %d: %s: ", flagsets[k], pos, msg); for (char *q = str; *q; ++q) putchar(*q == ' ' ? '_' : *q); printf("\n"); free(str); return; }
		char why[128];
		bool same = chains_equal(c.f, back, k < 3, why, sizeof(why));
		if (!same) { printf("diff flags=0x%x %s : ", flagsets[k], why); for (char *q = str; *q; ++q) putchar(*q == ' ' ? '_' : *q); printf("\n"); }
		if (k == 2) snprintf(keep, sizeof(keep), "%s", str);
		lzma_filters_free(back, NULL);
		free(str);
		if (!same) return;
	}
	printf("ok %s\n", keep);
}

int main(void)
{
	hp_line l = {0};
	signal(SIGALRM, on_alarm);
	if (getenv("C06_RUN_TIMEOUT") != NULL) g_run_timeout = (unsigned)atoi(getenv("C06_RUN_TIMEOUT"));
	while (hp_next(&l)) {
		const char *op = l.tok[0];
		if (!strcmp(op, "run") && l.ntok >= 7) {
			coder c;
			if (!coder_parse(l.tok[1], &c)) { printf("bad-coder\n"); continue; }
			bool fin = l.tok[2][0] == 'F';
			size_t n; uint8_t *in = hp_hex(l.tok[3], &n);
			bool fresh = !strcmp(l.tok[4], "fresh");
			bool full = !strcmp(l.tok[5], "full");
			lzma_stream strm = LZMA_STREAM_INIT;
			c06_result r = {0};
			i06_null_in = false;
			for (int i = 6; i < l.ntok; ++i) {
				if (!strcmp(l.tok[i], "N")) { i06_null_in = !i06_null_in; continue; }
				c06_slicing sl;
				const char *spec = l.tok[i];
				char *slash = strstr(l.tok[i], "/N");
				bool saved = i06_null_in;
				if (slash) { *slash = 0; i06_null_in = true; }
				if (!c06_slicing_parse(spec, &sl)) { printf("bad-slicing "); continue; }
				if (fresh) { lzma_end(&strm); lzma_stream z = LZMA_STREAM_INIT; strm = z; }
				do_run(&c, &strm, in, n, &sl, fin, &r);
				if (i == 6) c06_out_limit = 2 * r.out_len + 65536;   // later runs are compared with the first one
				if (i > 6) printf(" | ");
				print_result(&r, full);
				c06_slicing_free(&sl);
				i06_null_in = saved;
			}
			printf("\n");
			c06_out_limit = (size_t)256 << 20;
			lzma_end(&strm);
			c06_result_free(&r);
			if (c.block_filters_live) lzma_filters_free(c.block_filters, NULL);
			coder_free(&c);
			free(in);
		} else if (!strcmp(op, "sweep") && l.ntok >= 5) {
			coder c;
			if (!coder_parse(l.tok[1], &c)) { printf("bad-coder\n"); continue; }
			sweep s;
			double t_start = c06_now();
			memset(&s, 0, sizeof(s));
			s.c = &c;
			lzma_stream z = LZMA_STREAM_INIT;
			s.strm = z;
			s.fin = l.tok[2][0] == 'F';
			size_t n; uint8_t *in = hp_hex(l.tok[3], &n);
			s.in = in; s.in_len = n;
			s.cmp = l.tok[4][0];
			i06_null_in = false;
			bool global = l.ntok > 5 && !strcmp(l.tok[5], "G");
			if (global) s.strm = g_strm;
			c06_slicing w;
			c06_slicing_parse("W", &w);
			do_run(&c, &s.strm, in, n, &w, s.fin, &s.ref);
			if (s.ref.ret == C06_HANG) s.hung = true;
			c06_out_limit = 2 * s.ref.out_len + 65536;
			char buf[256];
			// the text before the diffs is printed last; collect diffs first
			// (diff fragments are written directly, so print the header now)
			printf("ref=");
			print_result(&s.ref, false);
			for (int i = 5; i < l.ntok; ++i) {
				const char *it = l.tok[i];
				if (!strcmp(it, "N")) { i06_null_in = !i06_null_in; continue; }
				if (!strcmp(it, "F")) { s.fresh = true; continue; }
				if (!strcmp(it, "G")) continue;
				if (!strcmp(it, "FW")) {
					// whole-buffer run on a brand-new handle must equal the reference (which may have run on a reused one)
					lzma_stream keep = s.strm;
					lzma_stream z2 = LZMA_STREAM_INIT;
					s.strm = z2;
					sweep_one(&s, "W");
					lzma_end(&s.strm);
					s.strm = keep;
					continue;
				}
				if (it[0] == 'K' && it[1] == ':') {
					unsigned long long p, calls;
					if (sscanf(it + 2, "%llu:%llu", &p, &calls) != 2) { printf(" bad-item=%s", it); continue; }
					if (s.hung) continue;
					snprintf(buf, sizeof(buf), "S:%llu", p);
					c06_slicing ks;
					c06_slicing_parse(buf, &ks);
					c06_abandon_after = calls ? calls : 1;
					do_run(&c, &s.strm, in, n, &ks, s.fin, &s.cur);
					c06_abandon_after = 0;
					c06_slicing_free(&ks);
					continue;
				}
				if (it[0] == 'S' || it[0] == 'O') {
					unsigned long long from, to, step;
					int nn = sscanf(it + 2, "%llu:%llu:%llu", &from, &to, &step);
					if (nn == 1) { sweep_one(&s, it); continue; }
					if (nn != 3 || step == 0) { printf(" bad-item=%s", it); continue; }
					for (unsigned long long p = from; p <= to; p += step) {
						snprintf(buf, sizeof(buf), "%c:%llu", it[0], p);
						sweep_one(&s, buf);
					}
				} else if (it[0] == 'X') {
					unsigned long long seed, count, maxout;
					if (sscanf(it + 2, "%llu:%llu:%llu", &seed, &count, &maxout) != 3) { printf(" bad-item=%s", it); continue; }
					uint64_t st = seed * 77 + 5;
					for (unsigned long long j = 0; j < count; ++j) {
						uint64_t a = c06_rand(&st) % (n + 1), b = c06_rand(&st) % (maxout + 1);
						snprintf(buf, sizeof(buf), "X:%" PRIu64 ":%" PRIu64, a, b);
						sweep_one(&s, buf);
					}
				} else if (it[0] == 'R') {
					unsigned long long seed0, count, np, mi, mo, pz;
					if (sscanf(it + 2, "%llu:%llu:%llu:%llu:%llu:%llu", &seed0, &count, &np, &mi, &mo, &pz) != 6) { printf(" bad-item=%s", it); continue; }
					for (unsigned long long j = 0; j < count; ++j) {
						snprintf(buf, sizeof(buf), "R:%llu:%llu:%llu:%llu:%llu", seed0 + j, np, mi, mo, pz);
						sweep_one(&s, buf);
					}
				} else {
					sweep_one(&s, it);
				}
			}
			printf(" ms=%.0f runs=%lu diffs=%lu\n", (c06_now() - t_start) * 1000.0, s.runs, s.diffs);
			c06_out_limit = (size_t)256 << 20;
			if (global) g_strm = s.strm; else lzma_end(&s.strm);
			c06_result_free(&s.ref);
			c06_result_free(&s.cur);
			if (c.block_filters_live) lzma_filters_free(c.block_filters, NULL);
			coder_free(&c);
			free(in);
		} else if (!strcmp(op, "flush") && l.ntok >= 6) {
			coder c;
			if (!coder_parse(l.tok[1], &c) || !c.is_encoder) { printf("bad-coder\n"); continue; }
			size_t n; uint8_t *in = hp_hex(l.tok[2], &n);
			size_t pt[32]; lzma_action pa[32]; unsigned pe[32], pz[32]; int np = 0;
			bool okp = true, any_empty = false;
			for (const char *q = l.tok[3]; *q && *q != '-' && np < 32; ) {
				if (strchr("SFBN", *q) == NULL) { okp = false; break; }
				lzma_action a = *q == 'S' ? LZMA_SYNC_FLUSH : *q == 'F' ? LZMA_FULL_FLUSH : *q == 'B' ? LZMA_FULL_BARRIER : LZMA_RUN;
				char *e;
				pt[np] = (size_t)strtoull(q + 1, &e, 10);
				if (pt[np] > n || (np > 0 && pt[np] < pt[np - 1])) { okp = false; break; }
				pe[np] = pz[np] = 0;
				while (*e == 'e' || *e == 'z') {
					char w = *e;
					unsigned k = (unsigned)strtoul(e + 1, &e, 10);
					if (w == 'e') pe[np] += k; else pz[np] += k;
					any_empty = true;
				}
				pa[np++] = a;
				q = *e == ',' ? e + 1 : e;
			}
			if (!okp) { printf("bad-points\n"); free(in); coder_free(&c); continue; }
			size_t outcap = (size_t)hp_u64(l.tok[4]);
			lzma_stream strm = LZMA_STREAM_INIT;
			c06_result ref = {0}, cur = {0};
			flush_run(&c, &strm, in, n, pt, pa, pe, pz, np, 0, 0, false, false, outcap, &ref);
			c06_out_limit = 2 * ref.out_len + 65536;
			// the reference must decode to the input
			char dec = '-';
			if (ref.ret == LZMA_STREAM_END && (!strcmp(c.kind, "easy") || !strcmp(c.kind, "se") || !strcmp(c.kind, "semt") || !strcmp(c.kind, "rawe"))) {
				uint8_t *back = malloc(n + 1);
				size_t ip = 0, op2 = 0;
				uint64_t ml = UINT64_MAX;
				lzma_ret dr = !strcmp(c.kind, "rawe")
					? lzma_raw_buffer_decode(c.ch.f, NULL, ref.out, &ip, ref.out_len, back, &op2, n + 1)
					: lzma_stream_buffer_decode(&ml, 0, NULL, ref.out, &ip, ref.out_len, back, &op2, n + 1);
				dec = (dr == LZMA_OK && op2 == n && ip == ref.out_len && (n == 0 || memcmp(back, in, n) == 0)) ? '1' : '0';
				free(back);
			}
			printf("ref=");
			print_result(&ref, false);
			unsigned long runs = 0, diffs = 0;
			for (int i = 5; i < l.ntok; ++i) {
				const char *v = l.tok[i];
				bool all = v[0] == 'a';
				if (all) ++v;
				unsigned long long f1, f2;
				if (sscanf(v, "%llu/%llu", &f1, &f2) != 2 || (f1 == 0 && !any_empty)) { printf(" bad-variant=%s", l.tok[i]); continue; }
				flush_run(&c, &strm, in, n, pt, pa, pe, pz, np, (size_t)f1, (size_t)f2, all, true, outcap, &cur);
				++runs;
				if (!c06_result_same(&ref, &cur, 'f')) {
					if (diffs++ < 3) { printf(" diff=%s ", l.tok[i]); print_result(&cur, false); }
				}
			}
			printf(" dec=%c runs=%lu diffs=%lu\n", dec, runs, diffs);
			c06_out_limit = (size_t)256 << 20;
			lzma_end(&strm);
			c06_result_free(&ref);
			c06_result_free(&cur);
			coder_free(&c);
			free(in);
		} else if (!strcmp(op, "hist") && l.ntok >= 6) {
			coder c;
			if (!coder_parse(l.tok[1], &c)) { printf("bad-coder\n"); continue; }
			bool fin = l.tok[2][0] == 'F';
			size_t n; uint8_t *in = hp_hex(l.tok[3], &n);
			c06_slicing sl;
			if (!c06_slicing_parse(l.tok[4], &sl)) { printf("bad-slicing\n"); free(in); coder_free(&c); continue; }
			c06_result ref = {0}, cur = {0};
			lzma_stream fresh = LZMA_STREAM_INIT;
			do_run(&c, &fresh, in, n, &sl, fin, &ref);
			lzma_end(&fresh);
			c06_out_limit = 2 * ref.out_len + 65536;
			printf("ref=");
			print_result(&ref, false);
			unsigned long runs = 0, diffs = 0;
			for (int i = 5; i < l.ntok; ++i) {
				lzma_stream strm = LZMA_STREAM_INIT;
				if (!history_run(l.tok[i], &strm)) { printf(" bad-history=%s", l.tok[i]); lzma_end(&strm); continue; }
				do_run(&c, &strm, in, n, &sl, fin, &cur);
				lzma_end(&strm);
				++runs;
				if (!c06_result_same(&ref, &cur, c.timed && !c.is_encoder ? 'm' : c.seekable ? 'i' : 'f')) {
					if (diffs++ < 3) { printf(" diff=%s ", l.tok[i]); print_result(&cur, false); }
				}
			}
			printf(" runs=%lu diffs=%lu\n", runs, diffs);
			c06_out_limit = (size_t)256 << 20;
			c06_slicing_free(&sl);
			c06_result_free(&ref);
			c06_result_free(&cur);
			if (c.block_filters_live) lzma_filters_free(c.block_filters, NULL);
			coder_free(&c);
			free(in);
		} else if (!strcmp(op, "lzc") && l.ntok >= 3) {
			coder c;
			if (!coder_parse(l.tok[1], &c)) { printf("bad-coder\n"); continue; }
			size_t n; uint8_t *in0 = hp_hex(l.tok[2], &n);
			const uint8_t *in = in0;
			lzma_stream strm = LZMA_STREAM_INIT;
			c06_result r = {0};
			c06_result_reset(&r);
			alarm(g_run_timeout);
			lzma_ret ir = coder_init(&c, &strm, &in, &n, &r);
			if (ir != LZMA_OK) { alarm(0); printf("init=%d\n", (int)ir); lzma_end(&strm); free(in0); coder_free(&c); continue; }
			size_t pos = 0;
			lzma_ret last = LZMA_OK;
			uint8_t dummy = 0;
			bool firstcall = true;
			for (int i = 3; i < l.ntok && last == LZMA_OK; ++i) {
				unsigned long long a, b, rep = 1;
				if (sscanf(l.tok[i], "%llu,%llux%llu", &a, &b, &rep) < 2) { printf("bad-piece "); break; }
				for (unsigned long long k = 0; k < rep && last == LZMA_OK; ++k) {
				size_t ain = a > n - pos ? n - pos : (size_t)a;
				uint8_t *ib = malloc(ain ? ain : 1), *ob = malloc(b ? (size_t)b : 1);
				if (ain) memcpy(ib, in + pos, ain);
				strm.next_in = ain ? ib : &dummy; strm.avail_in = ain;
				strm.next_out = b ? ob : &dummy; strm.avail_out = (size_t)b;
				lzma_ret ret = lzma_code(&strm, LZMA_RUN);
				size_t used = ain - strm.avail_in, made = (size_t)b - strm.avail_out;
				if (ret == LZMA_BUF_ERROR) ret = LZMA_OK;
				printf("%s%d:%zu:%zu", firstcall ? "" : " ", (int)ret, used, made);
				firstcall = false;
				c06_out_append(&r, ob, made);
				pos += used;
				last = ret;
				free(ib); free(ob);
				}
			}
			alarm(0);
			printf(" | %d %" PRIu64 " %zu:%016" PRIx64 "\n", (int)last, (uint64_t)strm.total_in, r.out_len, c06_hash(r.out, r.out_len));
			lzma_end(&strm);
			c06_result_free(&r);
			if (c.block_filters_live) lzma_filters_free(c.block_filters, NULL);
			coder_free(&c);
			free(in0);
		} else if (!strcmp(op, "strrt") && l.ntok == 2) {
			op_strrt(l.tok[1]);
		} else if (c06_small_op(&l)) {
			// handled
		} else {
			printf("bad-op\n");
		}
		fflush(stdout);
	}
	lzma_end(&g_strm);
	hp_done(&l);
	return 0;
}
