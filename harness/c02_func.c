// C02 harness, functional ops: every L0-L2 codec of liblzma called in-process, one canonical result line per op.
// Includes block_buffer_encoder.c to reach the static lzma2_bound() and index.h for the static inline arithmetic.
#include "block_buffer_encoder.c"
#include "index.h"
#include "filter_common.h"
#include "stream_flags_common.h"
#include "c02_common.h"

static void put_ret_hex(lzma_ret r, const uint8_t *p, size_t n)
{
	printf("%d ", (int)r);
	if (r == LZMA_OK) hp_put_hex(p, n); else putchar('-');
	putchar('\n');
}

// Parses filter tokens tok[from..ntok) into filters[] (terminated); at most 8.
static int parse_filters(hp_line *l, int from, lzma_filter *filters, c02_fopts *st)
{
	int n = 0;
	for (int i = from; i < l->ntok && n < 8; ++i, ++n)
		if (!c02_parse_filter(l->tok[i], &filters[n], &st[n]))
			return -1;
	filters[n].id = LZMA_VLI_UNKNOWN;
	filters[n].options = NULL;
	return n;
}

bool c02_func(hp_line *l)
{
	const char *op = l->tok[0];
	const int nt = l->ntok;

	if (!strcmp(op, "vlisize") && nt == 2) {
		printf("%" PRIu32 "\n", lzma_vli_size(strtoull(l->tok[1], NULL, 10)));

	} else if (!strcmp(op, "vlienc") && nt == 3) {
		const uint64_t v = strtoull(l->tok[1], NULL, 10);
		const size_t avail = (size_t)hp_u64(l->tok[2]);
		uint8_t *out = malloc(avail ? avail : 1);
		size_t out_pos = 0;
		const lzma_ret r = lzma_vli_encode(v, NULL, out, &out_pos, avail);
		put_ret_hex(r, out, out_pos);
		free(out);

	} else if (!strcmp(op, "vliencm") && nt == 4) {
		const uint64_t v = strtoull(l->tok[1], NULL, 10);
		size_t pos = (size_t)hp_u64(l->tok[2]);
		const size_t avail = (size_t)hp_u64(l->tok[3]);
		uint8_t *out = malloc(avail ? avail : 1);
		size_t out_pos = 0;
		const lzma_ret r = lzma_vli_encode(v, &pos, out, &out_pos, avail);
		printf("%d %zu ", (int)r, pos);
		hp_put_hex(out, out_pos);
		putchar('\n');
		free(out);

	} else if (!strcmp(op, "vlidec") && nt == 2) {
		size_t n; uint8_t *in = hp_hex(l->tok[1], &n);
		lzma_vli v = 12345; size_t in_pos = 0;
		const lzma_ret r = lzma_vli_decode(&v, NULL, in, &in_pos, n);
		if (r == LZMA_OK) printf("0 %" PRIu64 " %zu\n", v, in_pos); else printf("%d\n", (int)r);
		free(in);

	} else if (!strcmp(op, "vlidecm") && nt == 4) {
		lzma_vli v = strtoull(l->tok[1], NULL, 10);
		size_t pos = (size_t)hp_u64(l->tok[2]);
		size_t n; uint8_t *in = hp_hex(l->tok[3], &n);
		size_t in_pos = 0;
		const lzma_ret r = lzma_vli_decode(&v, &pos, in, &in_pos, n);
		printf("%d %" PRIu64 " %zu %zu\n", (int)r, v, pos, in_pos);
		free(in);

	} else if (!strcmp(op, "chksize") && nt == 2) {
		printf("%" PRIu32 "\n", lzma_check_size((lzma_check)hp_u64(l->tok[1])));

	} else if (!strcmp(op, "shenc") && nt == 3) {
		lzma_stream_flags f = { .version = (uint32_t)hp_u64(l->tok[1]), .check = (lzma_check)hp_u64(l->tok[2]) };
		uint8_t out[LZMA_STREAM_HEADER_SIZE];
		put_ret_hex(lzma_stream_header_encode(&f, out), out, sizeof(out));

	} else if (!strcmp(op, "sfenc") && nt == 4) {
		lzma_stream_flags f = { .version = (uint32_t)hp_u64(l->tok[1]), .check = (lzma_check)hp_u64(l->tok[2]),
				.backward_size = c02_vli(l->tok[3]) };
		uint8_t out[LZMA_STREAM_HEADER_SIZE];
		put_ret_hex(lzma_stream_footer_encode(&f, out), out, sizeof(out));

	} else if ((!strcmp(op, "shdec") || !strcmp(op, "sfdec")) && nt == 2) {
		size_t n; uint8_t *in = hp_hex(l->tok[1], &n);
		if (n < LZMA_STREAM_HEADER_SIZE) { printf("bad-op\n"); free(in); return true; }
		lzma_stream_flags f; memset(&f, 0x55, sizeof(f));
		if (op[1] == 'h') {
			const lzma_ret r = lzma_stream_header_decode(&f, in);
			if (r == LZMA_OK) printf("0 %u %d\n", (unsigned)f.check, f.backward_size == LZMA_VLI_UNKNOWN && f.version == 0);
			else printf("%d\n", (int)r);
		} else {
			const lzma_ret r = lzma_stream_footer_decode(&f, in);
			if (r == LZMA_OK) printf("0 %u %" PRIu64 "\n", (unsigned)f.check, f.backward_size);
			else printf("%d\n", (int)r);
		}
		free(in);

	} else if (!strcmp(op, "sfcmp") && nt == 7) {
		lzma_stream_flags a = { .version = (uint32_t)hp_u64(l->tok[1]), .check = (lzma_check)hp_u64(l->tok[2]), .backward_size = c02_vli(l->tok[3]) };
		lzma_stream_flags b = { .version = (uint32_t)hp_u64(l->tok[4]), .check = (lzma_check)hp_u64(l->tok[5]), .backward_size = c02_vli(l->tok[6]) };
		printf("%d\n", (int)lzma_stream_flags_compare(&a, &b));

	} else if (!strcmp(op, "propsize") && nt == 2) {
		lzma_filter f; c02_fopts st;
		if (!c02_parse_filter(l->tok[1], &f, &st)) { printf("bad-op\n"); return true; }
		uint32_t size = 0;
		const lzma_ret r = lzma_properties_size(&size, &f);
		if (r == LZMA_OK) printf("0 %" PRIu32 "\n", size); else printf("%d\n", (int)r);

	} else if (!strcmp(op, "propenc") && nt == 2) {
		lzma_filter f; c02_fopts st;
		if (!c02_parse_filter(l->tok[1], &f, &st)) { printf("bad-op\n"); return true; }
		uint32_t size = 0;
		if (lzma_properties_size(&size, &f) != LZMA_OK) size = 0;
		uint8_t *out = malloc(size ? size : 1);
		put_ret_hex(lzma_properties_encode(&f, out), out, size);
		free(out);

	} else if (!strcmp(op, "propdec") && nt == 3) {
		lzma_filter f = { .id = strtoull(l->tok[1], NULL, 10), .options = NULL };
		size_t n; uint8_t *in = hp_hex(l->tok[2], &n);
		const lzma_ret r = lzma_properties_decode(&f, NULL, in, n);
		if (r == LZMA_OK) { printf("0 "); c02_put_filter_opts(&f); putchar('\n'); } else printf("%d\n", (int)r);
		free(f.options);
		free(in);

	} else if (!strcmp(op, "ffsize") && nt == 2) {
		lzma_filter f; c02_fopts st;
		if (!c02_parse_filter(l->tok[1], &f, &st)) { printf("bad-op\n"); return true; }
		uint32_t size = 0;
		const lzma_ret r = lzma_filter_flags_size(&size, &f);
		if (r == LZMA_OK) printf("0 %" PRIu32 "\n", size); else printf("%d\n", (int)r);

	} else if (!strcmp(op, "ffenc") && nt == 3) {
		lzma_filter f; c02_fopts st;
		if (!c02_parse_filter(l->tok[1], &f, &st)) { printf("bad-op\n"); return true; }
		const size_t avail = (size_t)hp_u64(l->tok[2]);
		uint8_t *out = malloc(avail ? avail : 1);
		size_t out_pos = 0;
		const lzma_ret r = lzma_filter_flags_encode(&f, out, &out_pos, avail);
		put_ret_hex(r, out, out_pos);
		free(out);

	} else if (!strcmp(op, "ffdec") && nt == 2) {
		size_t n; uint8_t *in = hp_hex(l->tok[1], &n);
		lzma_filter f = { .id = 77, .options = NULL };
		size_t in_pos = 0;
		const lzma_ret r = lzma_filter_flags_decode(&f, NULL, in, &in_pos, n);
		if (r == LZMA_OK) { printf("0 "); c02_put_filter_opts(&f); printf(" %zu\n", in_pos); } else printf("%d\n", (int)r);
		free(f.options);
		free(in);

	} else if (!strcmp(op, "chain") && nt >= 1) {
		lzma_filter filters[40];
		int n = 0;
		for (int i = 1; i < nt && n < 39; ++i, ++n) { filters[n].id = strtoull(l->tok[i], NULL, 10); filters[n].options = NULL; }
		filters[n].id = LZMA_VLI_UNKNOWN; filters[n].options = NULL;
		size_t count = 0;
		const lzma_ret r = lzma_validate_chain(filters, &count);
		if (r == LZMA_OK) printf("0 %zu\n", count); else printf("%d\n", (int)r);

	} else if (!strcmp(op, "bhsize") && nt >= 4) {
		lzma_filter filters[9]; c02_fopts st[8];
		if (parse_filters(l, 4, filters, st) < 0) { printf("bad-op\n"); return true; }
		lzma_block b = { .version = (uint32_t)hp_u64(l->tok[1]), .compressed_size = c02_vli(l->tok[2]),
				.uncompressed_size = c02_vli(l->tok[3]), .filters = filters, .header_size = 7777 };
		const lzma_ret r = lzma_block_header_size(&b);
		if (r == LZMA_OK) printf("0 %" PRIu32 "\n", b.header_size); else printf("%d\n", (int)r);

	} else if (!strcmp(op, "bhenc") && nt >= 6) {
		lzma_filter filters[9]; c02_fopts st[8];
		if (parse_filters(l, 6, filters, st) < 0) { printf("bad-op\n"); return true; }
		lzma_block b = { .version = (uint32_t)hp_u64(l->tok[1]), .header_size = (uint32_t)hp_u64(l->tok[2]),
				.check = (lzma_check)hp_u64(l->tok[3]), .compressed_size = c02_vli(l->tok[4]),
				.uncompressed_size = c02_vli(l->tok[5]), .filters = filters };
		// exactly header_size bytes when it is a plausible size, so that ASan sees any overrun
		const size_t cap = (b.header_size >= 8 && b.header_size <= 1024) ? b.header_size : 1024;
		uint8_t *out = malloc(cap);
		memset(out, 0xAA, cap);
		const lzma_ret r = lzma_block_header_encode(&b, out);
		put_ret_hex(r, out, b.header_size);
		free(out);

	} else if (!strcmp(op, "bhenc2") && nt >= 4) {
		lzma_filter filters[9]; c02_fopts st[8];
		if (parse_filters(l, 4, filters, st) < 0) { printf("bad-op\n"); return true; }
		lzma_block b = { .version = 0, .check = (lzma_check)hp_u64(l->tok[1]), .compressed_size = c02_vli(l->tok[2]),
				.uncompressed_size = c02_vli(l->tok[3]), .filters = filters };
		lzma_ret r = lzma_block_header_size(&b);
		if (r != LZMA_OK) { printf("%d -\n", (int)r); return true; }
		uint8_t *out = malloc(b.header_size);
		memset(out, 0xAA, b.header_size);
		r = lzma_block_header_encode(&b, out);
		put_ret_hex(r, out, b.header_size);
		free(out);

	} else if (!strcmp(op, "bhdec") && nt == 4) {
		size_t n; uint8_t *in = hp_hex(l->tok[3], &n);
		lzma_filter filters[LZMA_FILTERS_MAX + 1];
		lzma_block b = { .version = 1, .header_size = (uint32_t)hp_u64(l->tok[1]), .check = (lzma_check)hp_u64(l->tok[2]),
				.filters = filters, .compressed_size = 4242, .uncompressed_size = 4343 };
		if (n < 4 || (b.header_size == lzma_block_header_size_decode(in[0]) && n < b.header_size)) { printf("bad-op\n"); free(in); return true; }
		const lzma_ret r = lzma_block_header_decode(&b, NULL, in);
		if (r == LZMA_OK) {
			printf("0 "); c02_put_vli(b.compressed_size); putchar(' '); c02_put_vli(b.uncompressed_size);
			for (size_t i = 0; filters[i].id != LZMA_VLI_UNKNOWN; ++i) { putchar(' '); c02_put_filter_opts(&filters[i]); }
			putchar('\n');
			lzma_filters_free(filters, NULL);
		} else {
			printf("%d\n", (int)r);
		}
		free(in);

	} else if (!strcmp(op, "unpadded") && nt == 5) {
		lzma_block b = { .version = (uint32_t)hp_u64(l->tok[1]), .header_size = (uint32_t)hp_u64(l->tok[2]),
				.check = (lzma_check)hp_u64(l->tok[3]), .compressed_size = c02_vli(l->tok[4]) };
		printf("%" PRIu64 " %" PRIu64 "\n", lzma_block_unpadded_size(&b), lzma_block_total_size(&b));

	} else if (!strcmp(op, "compsize") && nt == 6) {
		lzma_block b = { .version = (uint32_t)hp_u64(l->tok[1]), .header_size = (uint32_t)hp_u64(l->tok[2]),
				.check = (lzma_check)hp_u64(l->tok[3]), .compressed_size = c02_vli(l->tok[4]) };
		const lzma_ret r = lzma_block_compressed_size(&b, strtoull(l->tok[5], NULL, 10));
		if (r == LZMA_OK) printf("0 %" PRIu64 "\n", b.compressed_size); else printf("%d\n", (int)r);

	} else if (!strcmp(op, "idxenc") && nt >= 2) {
		const size_t avail = (size_t)hp_u64(l->tok[1]);
		lzma_index *idx = lzma_index_init(NULL);
		for (int i = 2; i < nt; ++i) {
			char *c = strchr(l->tok[i], ':');
			const lzma_ret r = lzma_index_append(idx, NULL, strtoull(l->tok[i], NULL, 10), c ? strtoull(c + 1, NULL, 10) : 0);
			if (r != LZMA_OK) { printf("append %d %d\n", i - 2, (int)r); lzma_index_end(idx, NULL); return true; }
		}
		uint8_t *out = malloc(avail ? avail : 1);
		size_t out_pos = 0;
		const lzma_ret r = lzma_index_buffer_encode(idx, out, &out_pos, avail);
		printf("%d %" PRIu64 " ", (int)r, lzma_index_size(idx));
		if (r == LZMA_OK) hp_put_hex(out, out_pos); else putchar('-');
		putchar('\n');
		free(out);
		lzma_index_end(idx, NULL);

	} else if (!strcmp(op, "idxgen") && nt == 4) {
		// idxgen <n> <seed> <avail>: n pseudo-random Records (LCG shared with the model driver and c02.py)
		const uint64_t n = hp_u64(l->tok[1]);
		uint64_t x = hp_u64(l->tok[2]);
		const size_t avail = (size_t)hp_u64(l->tok[3]);
		lzma_index *idx = lzma_index_init(NULL);
		for (uint64_t i = 0; i < n; ++i) {
			x = x * UINT64_C(6364136223846793005) + UINT64_C(1442695040888963407);
			const lzma_ret r = lzma_index_append(idx, NULL, 5 + (x >> 33) % 100000, (x >> 11) % (UINT64_C(1) << 30));
			if (r != LZMA_OK) { printf("append %" PRIu64 " %d\n", i, (int)r); lzma_index_end(idx, NULL); return true; }
		}
		uint8_t *out = malloc(avail ? avail : 1);
		size_t out_pos = 0;
		const lzma_ret r = lzma_index_buffer_encode(idx, out, &out_pos, avail);
		printf("%d %" PRIu64 " ", (int)r, lzma_index_size(idx));
		if (r == LZMA_OK) hp_put_hex(out, out_pos); else putchar('-');
		putchar('\n');
		free(out);
		lzma_index_end(idx, NULL);

	} else if (!strcmp(op, "idxdec") && nt == 2) {
		size_t n; uint8_t *in = hp_hex(l->tok[1], &n);
		lzma_index *idx = NULL;
		uint64_t memlimit = UINT64_MAX;
		size_t in_pos = 0;
		const lzma_ret r = lzma_index_buffer_decode(&idx, &memlimit, NULL, in, &in_pos, n);
		if (r == LZMA_OK) {
			printf("0 %zu", in_pos);
			lzma_index_iter it;
			lzma_index_iter_init(&it, idx);
			while (!lzma_index_iter_next(&it, LZMA_INDEX_ITER_BLOCK))
				printf(" %" PRIu64 ":%" PRIu64, it.block.unpadded_size, it.block.uncompressed_size);
			putchar('\n');
			lzma_index_end(idx, NULL);
		} else {
			printf("%d\n", (int)r);
		}
		free(in);

	} else if (!strcmp(op, "idxarith") && nt == 4) {
		// values are kept small enough by the generator for vli_ceil4's assertion
		const lzma_vli count = strtoull(l->tok[1], NULL, 10), ls = strtoull(l->tok[2], NULL, 10), bs = strtoull(l->tok[3], NULL, 10);
		printf("%" PRIu64 " %" PRIu64 " %" PRIu64 "\n", index_size_unpadded(count, ls), index_size(count, ls), index_stream_size(bs, count, ls));

	} else if (!strcmp(op, "buenc") && nt == 4) {
		// buenc <check> <avail> <hex>: lzma_block_uncomp_encode into exactly <avail> bytes
		size_t n; uint8_t *in = hp_hex(l->tok[3], &n);
		const size_t avail = (size_t)hp_u64(l->tok[2]);
		uint8_t *out = malloc(avail ? avail : 1);
		size_t out_pos = 0;
		lzma_block b = { .version = 0, .check = (lzma_check)hp_u64(l->tok[1]), .filters = NULL };
		const lzma_ret r = lzma_block_uncomp_encode(&b, in, n, out, &out_pos, avail);
		put_ret_hex(r, out, out_pos);
		free(out);
		free(in);

	} else if (!strcmp(op, "bound") && nt == 2) {
		const uint64_t n = strtoull(l->tok[1], NULL, 10);
		printf("%" PRIu64 " %" PRIu64 " %zu %zu\n", lzma2_bound(n), lzma_block_buffer_bound64(n),
				lzma_block_buffer_bound((size_t)n), lzma_stream_buffer_bound((size_t)n));

	} else {
		return false;
	}
	return true;
}
