// Shared helpers of the C02 harness (filter tokens, number parsing).
#ifndef VERIF_C02_COMMON_H
#define VERIF_C02_COMMON_H
#include "hproto.h"
#include "lzma.h"

#define C02_UNKNOWN_TOK "u"

// "u" = LZMA_VLI_UNKNOWN, otherwise a decimal uint64
static uint64_t c02_vli(const char *s)
{
	return strcmp(s, C02_UNKNOWN_TOK) == 0 ? LZMA_VLI_UNKNOWN : strtoull(s, NULL, 10);
}

static void c02_put_vli(uint64_t v)
{
	if (v == LZMA_VLI_UNKNOWN) printf(C02_UNKNOWN_TOK); else printf("%" PRIu64, v);
}

// Storage for the options of one filter given as a token.
typedef struct {
	lzma_options_lzma lzma;
	lzma_options_bcj bcj;
	lzma_options_delta delta;
} c02_fopts;

// Splits "a:b:c" into numeric fields after the name. Returns the number of fields.
static int c02_fields(const char *tok, char *name, size_t name_size, uint64_t *f, int maxf)
{
	const char *p = strchr(tok, ':');
	size_t n = p ? (size_t)(p - tok) : strlen(tok);
	if (n >= name_size) n = name_size - 1;
	memcpy(name, tok, n);
	name[n] = '\0';
	int k = 0;
	while (p != NULL && k < maxf) {
		++p;
		f[k++] = strtoull(p, NULL, 10);
		p = strchr(p, ':');
	}
	return k;
}

// Functional-level filter tokens (options exactly as given, no presets):
//   lzma1:<id>:<lc>:<lp>:<pb>:<dict>   lzma2:<dict>   bcj:<id>:<off>   bcjn:<id> (options == NULL)
//   delta:<dist>   other:<id> (options == NULL)
static bool c02_parse_filter(const char *tok, lzma_filter *flt, c02_fopts *st)
{
	char name[16];
	uint64_t f[8] = {0};
	int k = c02_fields(tok, name, sizeof(name), f, 8);
	memset(st, 0, sizeof(*st));
	if (!strcmp(name, "lzma1") && k == 5) {
		flt->id = f[0];
		st->lzma.lc = (uint32_t)f[1]; st->lzma.lp = (uint32_t)f[2]; st->lzma.pb = (uint32_t)f[3];
		st->lzma.dict_size = (uint32_t)f[4];
		flt->options = &st->lzma;
	} else if (!strcmp(name, "lzma2") && k == 1) {
		flt->id = LZMA_FILTER_LZMA2;
		st->lzma.dict_size = (uint32_t)f[0];
		flt->options = &st->lzma;
	} else if (!strcmp(name, "bcj") && k == 2) {
		flt->id = f[0];
		st->bcj.start_offset = (uint32_t)f[1];
		flt->options = &st->bcj;
	} else if (!strcmp(name, "bcjn") && k == 1) {
		flt->id = f[0];
		flt->options = NULL;
	} else if (!strcmp(name, "delta") && k == 1) {
		flt->id = LZMA_FILTER_DELTA;
		st->delta.type = LZMA_DELTA_TYPE_BYTE;
		st->delta.dist = (uint32_t)f[0];
		flt->options = &st->delta;
	} else if (!strcmp(name, "other") && k == 1) {
		flt->id = f[0];
		flt->options = NULL;
	} else {
		return false;
	}
	return true;
}

static bool c02_is_bcj(uint64_t id) { return id >= LZMA_FILTER_X86 && id <= LZMA_FILTER_RISCV; }

// Prints decoded options in the token syntax (bcj with NULL options prints offset 0).
static void c02_put_filter_opts(const lzma_filter *flt)
{
	if (flt->id == LZMA_FILTER_LZMA1 || flt->id == LZMA_FILTER_LZMA1EXT) {
		const lzma_options_lzma *o = flt->options;
		printf("lzma1:%" PRIu64 ":%u:%u:%u:%u", flt->id, o->lc, o->lp, o->pb, o->dict_size);
	} else if (flt->id == LZMA_FILTER_LZMA2) {
		const lzma_options_lzma *o = flt->options;
		printf("lzma2:%u", o->dict_size);
	} else if (c02_is_bcj(flt->id)) {
		const lzma_options_bcj *o = flt->options;
		printf("bcj:%" PRIu64 ":%u", flt->id, o ? o->start_offset : 0);
	} else if (flt->id == LZMA_FILTER_DELTA) {
		const lzma_options_delta *o = flt->options;
		printf("delta:%u", o->dist);
	} else {
		printf("other:%" PRIu64, flt->id);
	}
}

#endif
