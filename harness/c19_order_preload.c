// LD_PRELOAD shim for the C19 ORDER measurement (stage G): logs, in call order, the system calls the real `xz` binary
// makes on the file pair, so that the order can be compared with the trace of Model/Attrs.lean.
//
//   C19_ORDER_LOG=<path>   the log file (opened in a constructor, i.e. before xz enables its Landlock sandbox)
//
// Classification of file descriptors by how xz opened them (src/xz/file_io.c):
//   D  open(..., O_CREAT ...)              the destination (io_open_dest_real)
//   R  open(..., O_DIRECTORY ...)          the directory of the destination (only with opt_synchronous)
//   S  the first other open()              the source (io_open_src_real)
// Log lines (decimal):
//   open D|R|S
//   write D <requested> <returned>
//   lseek D <offset> <whence> <returned>
//   fchown D <uid|-1> <gid|-1> <rc>
//   fchmod D <mode> <rc>
//   futimens D <atime ns> <mtime ns> <rc>          (sec * 1e9 + nsec)
//   fsync D|R <rc>
//   close D|R|S <rc>
//   unlink D|S|O <rc>                              by name: destination, source, other
// Calls on other descriptors (stderr, the self-pipe, ...) are passed through silently.
// Everything is passed through to the next definition (so it can be stacked before c19_preload.so, which forces
// fchown failures). Build: cc -shared -fPIC -O1 c19_order_preload.c -o c19_order_preload.so -ldl
#define _GNU_SOURCE
#include <dlfcn.h>
#include <errno.h>
#include <fcntl.h>
#include <stdarg.h>
#include <stdio.h>
#include <stdlib.h>
#include <string.h>
#include <sys/stat.h>
#include <sys/types.h>
#include <time.h>
#include <unistd.h>

static int log_fd = -1;
static int fd_d = -1, fd_r = -1, fd_s = -1;
static char name_d[4096], name_s[4096];

static ssize_t (*real_write)(int, const void *, size_t);

static void
resolve(void)
{
	if (real_write == NULL)
		real_write = (ssize_t (*)(int, const void *, size_t))dlsym(RTLD_NEXT, "write");
}

__attribute__((constructor)) static void
order_init(void)
{
	resolve();
	const char *p = getenv("C19_ORDER_LOG");
	if (p != NULL) {
		int (*real_open)(const char *, int, ...) = (int (*)(const char *, int, ...))dlsym(RTLD_NEXT, "open");
		log_fd = real_open(p, O_WRONLY | O_CREAT | O_TRUNC | O_CLOEXEC, 0600);
		if (log_fd >= 0 && log_fd < 100) {
			// keep it out of the way of the descriptor numbers xz will get
			int hi = fcntl(log_fd, F_DUPFD_CLOEXEC, 100);
			if (hi >= 0) {
				int (*real_close)(int) = (int (*)(int))dlsym(RTLD_NEXT, "close");
				real_close(log_fd);
				log_fd = hi;
			}
		}
	}
}

static void
logf_(const char *fmt, ...)
{
	if (log_fd < 0)
		return;
	const int saved = errno;
	char buf[256];
	va_list ap;
	va_start(ap, fmt);
	const int n = vsnprintf(buf, sizeof(buf), fmt, ap);
	va_end(ap);
	resolve();
	if (n > 0)
		(void)real_write(log_fd, buf, (size_t)n);
	errno = saved;
}

static const char *
tag(int fd)
{
	if (fd < 0)
		return NULL;
	if (fd == fd_d) return "D";
	if (fd == fd_r) return "R";
	if (fd == fd_s) return "S";
	return NULL;
}

int
open(const char *path, int flags, ...)
{
	static int (*real)(const char *, int, ...);
	if (real == NULL)
		real = (int (*)(const char *, int, ...))dlsym(RTLD_NEXT, "open");
	mode_t mode = 0;
	if (flags & (O_CREAT | O_TMPFILE)) {
		va_list ap;
		va_start(ap, flags);
		mode = (mode_t)va_arg(ap, int);
		va_end(ap);
	}
	const int fd = real(path, flags, mode);
	if (fd >= 0) {
		if (flags & O_CREAT) {
			fd_d = fd;
			snprintf(name_d, sizeof(name_d), "%s", path);
			logf_("open D\n");
		} else if (flags & O_DIRECTORY) {
			fd_r = fd;
			logf_("open R\n");
		} else if (fd_s == -1 && name_s[0] == '\0') {
			fd_s = fd;
			snprintf(name_s, sizeof(name_s), "%s", path);
			logf_("open S\n");
		}
	}
	return fd;
}

ssize_t
write(int fd, const void *buf, size_t n)
{
	resolve();
	const ssize_t r = real_write(fd, buf, n);
	if (tag(fd) != NULL)
		logf_("write %s %zu %zd\n", tag(fd), n, r);
	return r;
}

off_t
lseek(int fd, off_t off, int whence)
{
	static off_t (*real)(int, off_t, int);
	if (real == NULL)
		real = (off_t (*)(int, off_t, int))dlsym(RTLD_NEXT, "lseek");
	const off_t r = real(fd, off, whence);
	if (fd == fd_d && fd >= 0)
		logf_("lseek D %lld %d %lld\n", (long long)off, whence, (long long)r);
	return r;
}

int
fchown(int fd, uid_t u, gid_t g)
{
	static int (*real)(int, uid_t, gid_t);
	if (real == NULL)
		real = (int (*)(int, uid_t, gid_t))dlsym(RTLD_NEXT, "fchown");
	const int r = real(fd, u, g);
	if (tag(fd) != NULL)
		logf_("fchown %s %lld %lld %d\n", tag(fd), u == (uid_t)(-1) ? -1LL : (long long)u,
				g == (gid_t)(-1) ? -1LL : (long long)g, r);
	return r;
}

int
fchmod(int fd, mode_t m)
{
	static int (*real)(int, mode_t);
	if (real == NULL)
		real = (int (*)(int, mode_t))dlsym(RTLD_NEXT, "fchmod");
	const int r = real(fd, m);
	if (tag(fd) != NULL)
		logf_("fchmod %s %u %d\n", tag(fd), (unsigned)m, r);
	return r;
}

int
futimens(int fd, const struct timespec tv[2])
{
	static int (*real)(int, const struct timespec *);
	if (real == NULL)
		real = (int (*)(int, const struct timespec *))dlsym(RTLD_NEXT, "futimens");
	const int r = real(fd, tv);
	if (tag(fd) != NULL && tv != NULL)
		logf_("futimens %s %lld %lld %d\n", tag(fd),
				(long long)tv[0].tv_sec * 1000000000LL + (long long)tv[0].tv_nsec,
				(long long)tv[1].tv_sec * 1000000000LL + (long long)tv[1].tv_nsec, r);
	else if (tag(fd) != NULL)
		logf_("futimens %s NULL NULL %d\n", tag(fd), r);
	return r;
}

int
fsync(int fd)
{
	static int (*real)(int);
	if (real == NULL)
		real = (int (*)(int))dlsym(RTLD_NEXT, "fsync");
	const int r = real(fd);
	if (tag(fd) != NULL)
		logf_("fsync %s %d\n", tag(fd), r);
	return r;
}

int
close(int fd)
{
	static int (*real)(int);
	if (real == NULL)
		real = (int (*)(int))dlsym(RTLD_NEXT, "close");
	const char *t = tag(fd);
	if (fd == log_fd && fd >= 0)
		return 0;		// nobody closes the log
	const int r = real(fd);
	if (t != NULL) {
		logf_("close %s %d\n", t, r);
		if (fd == fd_d) fd_d = -2;
		else if (fd == fd_r) fd_r = -2;
		else if (fd == fd_s) fd_s = -2;
	}
	return r;
}

int
unlink(const char *path)
{
	static int (*real)(const char *);
	if (real == NULL)
		real = (int (*)(const char *))dlsym(RTLD_NEXT, "unlink");
	const int r = real(path);
	const char *t = (name_d[0] != '\0' && strcmp(path, name_d) == 0) ? "D"
			: (name_s[0] != '\0' && strcmp(path, name_s) == 0) ? "S" : "O";
	logf_("unlink %s %d\n", t, r);
	return r;
}
