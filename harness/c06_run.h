// C06: generic sliced driver for any lzma_stream coder.
//
// A *slicing* is a (possibly infinite) sequence of pieces (inLen, outCap). Call number i offers
//     avail_in  = min(inLen_i, bytes of input not yet consumed)
//     avail_out = outCap_i
// Zero lengths are allowed (empty calls). When the generator is exhausted every further piece is
// (everything, OUTBIG), which makes every slicing fair. The action is LZMA_FINISH as soon as the
// offered piece reaches the end of the input (and from then on all remaining input is offered, as
// lzma_code() demands), LZMA_RUN before that; with final action RUN it is always LZMA_RUN.
//
// The run ends at the first return value that is neither LZMA_OK, nor one of the informational
// codes (NO_CHECK, UNSUPPORTED_CHECK, GET_CHECK, SEEK_NEEDED: recorded as events with their
// total_in/total_out position), nor a LZMA_BUF_ERROR provoked by a starved call (less than all
// remaining input offered, or no output space). The observable result is:
//     final lzma_ret, total_in, total_out, the concatenated output bytes, the event list.
#ifndef VERIF_C06_RUN_H
#define VERIF_C06_RUN_H
#include "hproto.h"
#include <lzma.h>
#include <time.h>

#define C06_OUTBIG ((size_t)1 << 20)
#define C06_EXACT_MAX 4096   // pieces up to this size are copied into exactly sized heap blocks (ASan sees overruns)
#define C06_HANG 99          // pseudo return code: no termination
#define C06_SPURIOUS_BUF_ERROR 97  // pseudo return code: LZMA_BUF_ERROR although the previous call had made progress
#define C06_RUNAWAY 98       // pseudo return code: output grew beyond the limit below (a coder that never stops producing)

// Upper limit for the output of one run. A sweep lowers it to twice the reference run's output + 64 KiB: a sliced run that
// produces more than that already differs from the reference, and need not be followed any further.
static size_t c06_out_limit = (size_t)256 << 20;

// When set, empty windows are passed as NULL pointers (lzma_code() allows NULL with avail == 0).
static bool i06_null_in = false;

// ---------------------------------------------------------------------------------------------
// slicing generators
// ---------------------------------------------------------------------------------------------
typedef struct {
	char kind;            // 'W' whole, 'B' bytewise patterns, 'S' two-piece input split, 'O' two-piece output split,
	                      // 'R' random, 'L' explicit list, 'X' split both in and out
	uint64_t a, b, c, d;  // parameters
	uint64_t rng;         // state of the PRNG for 'R'
	size_t i;             // piece counter
	size_t *list;         // 'L': pairs
	size_t nlist;
} c06_slicing;

static uint64_t c06_rand(uint64_t *s)
{
	// splitmix64
	uint64_t z = (*s += 0x9E3779B97F4A7C15ull);
	z = (z ^ (z >> 30)) * 0xBF58476D1CE4E5B9ull;
	z = (z ^ (z >> 27)) * 0x94D049BB133111EBull;
	return z ^ (z >> 31);
}

// Parses: W | B:<pattern> | S:<p> | O:<p> | X:<p>:<q> | R:<seed>:<npieces>:<maxin>:<maxout>:<pzero%> | L:<in>,<out>;<in>,<out>;...
static bool c06_slicing_parse(const char *s, c06_slicing *sl)
{
	memset(sl, 0, sizeof(*sl));
	sl->kind = s[0];
	if (s[0] == 'W' && s[1] == 0)
		return true;
	if (s[1] != ':')
		return false;
	const char *p = s + 2;
	if (s[0] == 'L') {
		size_t n = 1;
		for (const char *q = p; *q; ++q)
			if (*q == ';') ++n;
		sl->list = malloc(2 * n * sizeof(size_t));
		sl->nlist = 0;
		while (*p) {
			char *e;
			unsigned long long x = strtoull(p, &e, 10);
			if (*e != ',') return false;
			unsigned long long y = strtoull(e + 1, &e, 10);
			sl->list[2 * sl->nlist] = (size_t)x;
			sl->list[2 * sl->nlist + 1] = (size_t)y;
			++sl->nlist;
			if (*e == ';') ++e;
			else if (*e) return false;
			p = e;
		}
		return true;
	}
	uint64_t v[5] = {0};
	int n = 0;
	while (*p && n < 5) {
		char *e;
		v[n++] = strtoull(p, &e, 10);
		if (*e == ':') ++e;
		else if (*e) return false;
		p = e;
	}
	sl->a = v[0]; sl->b = v[1]; sl->c = v[2]; sl->d = v[3];
	if (s[0] == 'R') {
		sl->rng = v[0] * 0x2545F4914F6CDD1Dull + 12345;
		// a=seed b=npieces c=maxin d=maxout, pzero in v[4]
		sl->i = 0;
		sl->list = malloc(sizeof(size_t));
		sl->list[0] = (size_t)v[4];
	}
	return strchr("BSOXR", s[0]) != NULL;
}

static void c06_slicing_free(c06_slicing *sl) { free(sl->list); sl->list = NULL; }

static void c06_slicing_reset(c06_slicing *sl)
{
	sl->i = 0;
	if (sl->kind == 'R')
		sl->rng = sl->a * 0x2545F4914F6CDD1Dull + 12345;
}

#define C06_ALL ((size_t)-1)

// Next piece. inLen == C06_ALL means "everything that is left".
static void c06_slicing_next(c06_slicing *sl, size_t *in_len, size_t *out_cap)
{
	size_t i = sl->i++;
	*in_len = C06_ALL;
	*out_cap = C06_OUTBIG;
	switch (sl->kind) {
	case 'W':
		break;
	case 'B':
		// byte-at-a-time patterns with empty calls interleaved
		switch (sl->a) {
		case 0: *in_len = 1; *out_cap = 1; break;                                   // 1/1
		case 1: if (i % 2 == 0) { *in_len = 1; *out_cap = 1; } else { *in_len = 0; *out_cap = 0; } break;  // 1/1, 0/0
		// (a coder may need input and output space in the same call to make progress, e.g. alone_decode() and
		//  the LZMA2 encoder loop only run while *out_pos < out_size; so every pattern offers both now and then)
		case 2: if (i % 3 == 0) { *in_len = 1; *out_cap = 0; } else if (i % 3 == 1) { *in_len = 0; *out_cap = 1; } else { *in_len = 1; *out_cap = 1; } break;
		case 3: if (i % 4 == 0) { *in_len = 0; *out_cap = 0; } else if (i % 4 == 1) { *in_len = 1; *out_cap = 0; } else if (i % 4 == 2) { *in_len = 0; *out_cap = 1; } else { *in_len = 1; *out_cap = 1; } break;
		case 4: *in_len = 1; *out_cap = C06_OUTBIG; break;                          // 1 byte in, roomy out
		case 5: *in_len = C06_ALL; *out_cap = 1; break;                             // all in, 1 byte out
		case 6: *in_len = 1; *out_cap = (i % 4 == 3) ? 1 : 0; break;                // input pushed ahead of output
		case 7: *in_len = (i % 4 == 3) ? 1 : 0; *out_cap = 1; break;                // output drained ahead of input
		// all input offered, tiny output windows ("ran out of output space in the middle of a field" paths)
		case 8: *in_len = C06_ALL; *out_cap = 2; break;
		case 9: *in_len = C06_ALL; *out_cap = 3; break;
		case 10: *in_len = C06_ALL; *out_cap = 5; break;
		case 11: *in_len = C06_ALL; *out_cap = 7; break;
		case 12: *in_len = C06_ALL; *out_cap = 1 + (i * 7 + 3) % 5; break;   // 1..5 bytes, varying
		// isolated empty calls far apart, with plenty of progress in between (lzma_code() may answer LZMA_BUF_ERROR only to the
		// second of two CONSECUTIVE calls without progress)
		case 13: if (i % 97 == 96) { *in_len = 0; *out_cap = 13; } else { *in_len = 1; *out_cap = 13; } break;   // avail_in == 0
		case 14: if (i % 53 == 52) { *in_len = 3; *out_cap = 0; } else { *in_len = 3; *out_cap = 5; } break;     // avail_out == 0
		case 15: if (i % 31 == 30 || i == 2) { *in_len = 0; *out_cap = 0; } else { *in_len = 64; *out_cap = 64; } break;
		default: *in_len = 1; *out_cap = 1; break;
		}
		break;
	case 'S':
		if (i == 0) *in_len = (size_t)sl->a;
		break;
	case 'O':
		if (i == 0) *out_cap = (size_t)sl->a;
		break;
	case 'X':
		if (i == 0) { *in_len = (size_t)sl->a; *out_cap = (size_t)sl->b; }
		break;
	case 'R':
		if (i < sl->b) {
			uint64_t r = c06_rand(&sl->rng);
			uint64_t pz = sl->list[0];
			// small pieces are much more likely than large ones
			uint64_t mi = sl->c ? sl->c : 1, mo = sl->d ? sl->d : 1;
			uint64_t x = c06_rand(&sl->rng), y = c06_rand(&sl->rng);
			size_t li = (size_t)((x >> 8) % (((x & 3) == 0) ? mi + 1 : (mi < 8 ? mi + 1 : 8)));
			size_t lo = (size_t)((y >> 8) % (((y & 3) == 0) ? mo + 1 : (mo < 8 ? mo + 1 : 8)));
			if (r % 100 < pz) li = 0;
			if ((r >> 20) % 100 < pz) lo = 0;
			*in_len = li;
			*out_cap = lo;
		}
		break;
	case 'L':
		if (i < sl->nlist) {
			*in_len = sl->list[2 * i];
			*out_cap = sl->list[2 * i + 1];
		}
		break;
	}
}

// ---------------------------------------------------------------------------------------------
// result
// ---------------------------------------------------------------------------------------------
#define C06_MAXEV 24
typedef struct {
	int ret;
	uint64_t total_in, total_out;
	uint8_t *out;
	size_t out_len, out_cap;
	int nev;
	struct { int ret; uint64_t tin, tout; } ev[C06_MAXEV];
	uint64_t ncalls;
	bool bcj;   // a BCJ (simple) filter was initialised during this run (set through the --wrap interposer)
} c06_result;

static void c06_result_reset(c06_result *r)
{
	r->ret = -1; r->total_in = r->total_out = 0; r->out_len = 0; r->nev = 0; r->ncalls = 0; r->bcj = false;
}

static void c06_result_free(c06_result *r) { free(r->out); memset(r, 0, sizeof(*r)); }

static void c06_out_reserve(c06_result *r, size_t more)
{
	if (r->out_len + more > r->out_cap) {
		size_t nc = r->out_cap ? r->out_cap : 4096;
		while (nc < r->out_len + more) nc *= 2;
		r->out = realloc(r->out, nc);
		if (r->out == NULL) abort();
		r->out_cap = nc;
	}
}

static void c06_out_append(c06_result *r, const uint8_t *p, size_t n)
{
	c06_out_reserve(r, n);
	if (n) memcpy(r->out + r->out_len, p, n);
	r->out_len += n;
}

static uint64_t c06_hash(const uint8_t *p, size_t n)
{
	uint64_t h = 0xcbf29ce484222325ull;
	for (size_t i = 0; i < n; ++i) { h ^= p[i]; h *= 0x100000001b3ull; }
	return h;
}

// Canonical text of a result. With full != 0 the output bytes are printed in hex, else length:hash.
static void c06_result_print(const c06_result *r, bool full)
{
	printf("ret=%d in=%" PRIu64 " out=%" PRIu64 " ev=", r->ret, r->total_in, r->total_out);
	if (r->nev == 0) putchar('-');
	for (int i = 0; i < r->nev; ++i)
		printf("%s%d@%" PRIu64 "/%" PRIu64, i ? "," : "", r->ev[i].ret, r->ev[i].tin, r->ev[i].tout);
	printf(" bcj=%d bytes=%zu:%016" PRIx64, (int)r->bcj, r->out_len, c06_hash(r->out, r->out_len));
	if (full) { printf(" hex="); hp_put_hex(r->out, r->out_len); }
}

// Comparison modes (what the property fixes):
//   'f' everything: status, total_in, total_out, output bytes, informational events.
//   'a' decoder: as 'f' when the input is accepted (LZMA_STREAM_END); for rejected input status, total_in and
//       everything else too, unless a BCJ filter was involved in either run: then only status and total_in
//       ("the bytes written by the failing call are unspecified").
//   'm' threaded decoder: as 'f' when accepted; for rejected input status and output bytes (how far the main
//       thread has read ahead of the failing worker is timing dependent), status only behind a BCJ filter.
//   'i' file-info decoder: status and the resulting index (how many bytes are read around each seek
//       legitimately depends on how much of the file each call shows).
//   's' status + total_in;  'o' status + output;  'r' status only.
static bool c06_result_same(const c06_result *a, const c06_result *b, char mode)
{
	if (a->ret != b->ret) return false;
	bool accepted = a->ret == LZMA_STREAM_END;
	bool bcj = a->bcj || b->bcj;
	if (mode == 'a' && !accepted && bcj) mode = 's';
	if (mode == 'm' && !accepted) mode = bcj ? 'r' : 'o';
	if (mode == 'a' || mode == 'm') mode = 'f';
	if (mode == 'i') mode = 'o';
	if (mode == 'r') return true;
	if (mode == 's') return a->total_in == b->total_in;
	if (a->out_len != b->out_len || (a->out_len && memcmp(a->out, b->out, a->out_len) != 0)) return false;
	if (mode == 'o') return true;
	if (a->total_in != b->total_in || a->total_out != b->total_out || a->nev != b->nev) return false;
	for (int i = 0; i < a->nev; ++i)
		if (a->ev[i].ret != b->ev[i].ret || a->ev[i].tin != b->ev[i].tin || a->ev[i].tout != b->ev[i].tout)
			return false;
	return true;
}

// ---------------------------------------------------------------------------------------------
// the driver
// ---------------------------------------------------------------------------------------------
static double c06_now(void)
{
	struct timespec ts;
	clock_gettime(CLOCK_MONOTONIC, &ts);
	return (double)ts.tv_sec + 1e-9 * (double)ts.tv_nsec;
}

// final_finish: use LZMA_FINISH once the offered piece reaches the end of the input.
// seekable: the coder is lzma_file_info_decoder; LZMA_SEEK_NEEDED repositions the input.
// timed: the coder has worker threads and/or a timeout; "no progress" is judged by wall time.
// When non-zero, the run is abandoned (the loop simply stops, ret = -2) after this many calls: used to leave a coder in the
// middle of a stream before its handle is re-initialised for the next run.
static uint64_t c06_abandon_after = 0;

static void c06_run_sliced(lzma_stream *strm, const uint8_t *in, size_t in_len, c06_slicing *sl,
		bool final_finish, bool seekable, bool timed, c06_result *r)
{
	size_t pos = 0;             // position of next_in inside in[]
	bool finishing = false;
	unsigned idle = 0;
	bool prev_no_progress = false;   // the previous call consumed and produced nothing and returned LZMA_OK or LZMA_BUF_ERROR
	double idle_since = 0;
	uint8_t dummy_in = 0, dummy_out = 0;
	c06_slicing_reset(sl);
	for (;;) {
		size_t want_in, out_cap;
		c06_slicing_next(sl, &want_in, &out_cap);
		size_t left = in_len - pos;
		size_t ain = want_in == C06_ALL || want_in > left ? left : want_in;
		if (finishing)
			ain = left;
		lzma_action act = LZMA_RUN;
		if (final_finish && ain == left) {
			act = LZMA_FINISH;
			finishing = true;
		}
		// input window
		uint8_t *tmp_in = NULL;
		if (ain == 0) {
			strm->next_in = (i06_null_in) ? NULL : &dummy_in;
		} else if (ain <= C06_EXACT_MAX) {
			tmp_in = malloc(ain);
			memcpy(tmp_in, in + pos, ain);
			strm->next_in = tmp_in;
		} else {
			strm->next_in = in + pos;
		}
		strm->avail_in = ain;
		// output window
		uint8_t *tmp_out = NULL;
		if (out_cap == 0) {
			strm->next_out = (i06_null_in) ? NULL : &dummy_out;
		} else if (out_cap <= C06_EXACT_MAX) {
			tmp_out = malloc(out_cap);
			strm->next_out = tmp_out;
		} else {
			c06_out_reserve(r, out_cap);
			strm->next_out = r->out + r->out_len;
		}
		strm->avail_out = out_cap;

		lzma_ret ret = lzma_code(strm, act);
		++r->ncalls;

		size_t used_in = ain - strm->avail_in;
		size_t made_out = out_cap - strm->avail_out;
		if (tmp_out != NULL) {
			c06_out_append(r, tmp_out, made_out);
			free(tmp_out);
		} else {
			r->out_len += made_out;
		}
		free(tmp_in);
		pos += used_in;

		// lzma_code() turns LZMA_OK into LZMA_BUF_ERROR only for the second of two consecutive calls that made no progress.
		// An LZMA_BUF_ERROR right after a call that did make progress means the final status an application sees depends on
		// where it happened to make an empty call earlier: reported as its own pseudo code.
		if (ret == LZMA_BUF_ERROR && !prev_no_progress) {
			r->ret = C06_SPURIOUS_BUF_ERROR;
			break;
		}
		prev_no_progress = used_in == 0 && made_out == 0 && (ret == LZMA_OK || ret == LZMA_BUF_ERROR);
		bool full_call = (ain == left) && out_cap > 0;
		if (used_in == 0 && made_out == 0) {
			if (idle++ == 0)
				idle_since = c06_now();
		} else {
			idle = 0;
		}

		bool stop = false;
		switch (ret) {
		case LZMA_OK:
			break;
		case LZMA_NO_CHECK:
		case LZMA_UNSUPPORTED_CHECK:
		case LZMA_GET_CHECK:
		case LZMA_SEEK_NEEDED:
			if (r->nev < C06_MAXEV) {
				r->ev[r->nev].ret = (int)ret;
				r->ev[r->nev].tin = seekable ? 0 : strm->total_in;
				r->ev[r->nev].tout = strm->total_out;
				++r->nev;
			} else {
				stop = true;
			}
			if (ret == LZMA_SEEK_NEEDED) {
				if (!seekable || strm->seek_pos > in_len) { stop = true; break; }
				pos = (size_t)strm->seek_pos;
				finishing = false;
				// the number and position of seeks legitimately depend on how much of the
				// file each call shows; only their existence is not an error. Do not record.
				--r->nev;
			}
			idle = 0;
			break;
		case LZMA_BUF_ERROR:
			if (full_call)
				stop = true;
			break;
		default:
			stop = true;
			break;
		}
		if (stop) {
			r->ret = (int)ret;
			break;
		}
		if (c06_abandon_after != 0 && r->ncalls >= c06_abandon_after) {
			r->ret = -2;
			break;
		}
		// termination guard
		if (idle > 0 && ((!timed && idle > 200) || (timed && c06_now() - idle_since > 30.0)) ) {
			r->ret = C06_HANG;
			break;
		}
		if (r->out_len > c06_out_limit) {
			r->ret = C06_RUNAWAY;
			break;
		}
		if (r->ncalls > (uint64_t)40 * 1000 * 1000) {
			r->ret = C06_HANG;
			break;
		}
	}
	r->total_in = strm->total_in;
	r->total_out = strm->total_out;
}

#endif
