#include "c08_events.h"
#include <stdio.h>
#include <stdlib.h>

extern void (*lzma_verif_mtenc_event)(unsigned ev, uint64_t t, uint64_t a, uint64_t b, uint64_t c);

typedef struct { unsigned ev; uint64_t t, a, b, c; } rec;
static rec *g_buf; static size_t g_n, g_cap;
int c08_ev_enabled = 0;
static int g_on = 0;

void c08_ev_add(unsigned ev, uint64_t t, uint64_t a, uint64_t b, uint64_t c)
{
	if (!g_on) return;
	if (g_n == g_cap) { g_cap = g_cap ? g_cap * 2 : 4096; g_buf = realloc(g_buf, g_cap * sizeof *g_buf); if (!g_buf) abort(); }
	g_buf[g_n++] = (rec){ ev, t, a, b, c };
}

void c08_ev_begin(void) { g_n = 0; g_on = c08_ev_enabled; lzma_verif_mtenc_event = g_on ? c08_ev_add : NULL; }
void c08_ev_end(void) { lzma_verif_mtenc_event = NULL; g_on = 0; }

void c08_ev_print(void)
{
	if (!c08_ev_enabled) return;
	printf(" nev=%zu trace=", g_n);
	for (size_t i = 0; i < g_n; ++i)
		printf("%s%u.%llu.%llu.%llu.%llu", i ? "," : "", g_buf[i].ev, (unsigned long long)g_buf[i].t, (unsigned long long)g_buf[i].a,
			(unsigned long long)g_buf[i].b, (unsigned long long)g_buf[i].c);
}
