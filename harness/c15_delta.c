// C15 harness, part 2: the delta filter. delta_encoder.c / delta_decoder.c are #included to reach the static loops.
#include "delta_encoder.c"
#include "delta_decoder.c"
#include "c15.h"

static void load(lzma_delta_coder *c, const h15_delta_state *s)
{
	memset(c, 0, sizeof(*c));
	c->distance = s->distance;
	c->pos = s->pos;
	memcpy(c->history, s->history, LZMA_DELTA_DIST_MAX);
}

static void store(h15_delta_state *s, const lzma_delta_coder *c)
{
	s->pos = c->pos;
	memcpy(s->history, c->history, LZMA_DELTA_DIST_MAX);
}

void h15_delta_copy_and_encode(h15_delta_state *s, const uint8_t *in, uint8_t *out, size_t size)
{
	lzma_delta_coder c; load(&c, s);
	copy_and_encode(&c, in, out, size);
	store(s, &c);
}

void h15_delta_encode_in_place(h15_delta_state *s, uint8_t *buf, size_t size)
{
	lzma_delta_coder c; load(&c, s);
	encode_in_place(&c, buf, size);
	store(s, &c);
}

void h15_delta_decode_buffer(h15_delta_state *s, uint8_t *buf, size_t size)
{
	lzma_delta_coder c; load(&c, s);
	decode_buffer(&c, buf, size);
	store(s, &c);
}

lzma_ret h15_delta_init(bool enc, lzma_next_coder *next, const lzma_filter_info *filters)
{
	return enc ? lzma_delta_encoder_init(next, NULL, filters) : lzma_delta_decoder_init(next, NULL, filters);
}
