// C17 launcher: gives the program under test a DEFINED process environment, whatever ./check inherited.
//   c17_launch [-i SIGNO]... -- prog args...
// Resets every signal xz cares about (and QUIT/ALRM/USR1/USR2/CHLD) to SIG_DFL, empties the signal mask, sets umask 022,
// raises the soft RLIMIT_FSIZE / RLIMIT_CPU to the hard limits, then marks the signals given with -i as ignored
// (the "inherited SIG_IGN" scenarios) and exec's the program. Dispositions SIG_DFL/SIG_IGN and the mask survive exec.
#include <signal.h>
#include <stdio.h>
#include <stdlib.h>
#include <string.h>
#include <sys/resource.h>
#include <sys/stat.h>
#include <unistd.h>

int main(int argc, char **argv)
{
	static const int reset[] = { SIGINT, SIGTERM, SIGHUP, SIGPIPE, SIGQUIT, SIGXFSZ, SIGXCPU, SIGALRM,
			SIGUSR1, SIGUSR2, SIGCHLD, SIGTSTP, SIGVTALRM, SIGPROF };
	for (size_t i = 0; i < sizeof(reset) / sizeof(reset[0]); ++i)
		signal(reset[i], SIG_DFL);
	sigset_t none;
	sigemptyset(&none);
	sigprocmask(SIG_SETMASK, &none, NULL);
	umask(022);
	struct rlimit rl;
	if (getrlimit(RLIMIT_FSIZE, &rl) == 0) { rl.rlim_cur = rl.rlim_max; setrlimit(RLIMIT_FSIZE, &rl); }
	if (getrlimit(RLIMIT_CPU, &rl) == 0) { rl.rlim_cur = rl.rlim_max; setrlimit(RLIMIT_CPU, &rl); }
	int i = 1;
	while (i + 1 < argc && strcmp(argv[i], "-i") == 0) {
		signal(atoi(argv[i + 1]), SIG_IGN);
		i += 2;
	}
	if (i >= argc || strcmp(argv[i], "--") != 0 || i + 1 >= argc) {
		fprintf(stderr, "usage: c17_launch [-i SIGNO]... -- prog args...\n");
		return 125;
	}
	execv(argv[i + 1], argv + i + 1);
	perror("c17_launch: execv");
	return 126;
}
