// C17 launcher: gives the program under test a DEFINED process environment, whatever ./check inherited.
//   c17_launch [-i SIGNO]... [-c ERRNO] -- prog args...
//   -c ERRNO: every close(1) of the program fails with ERRNO (seccomp filter, SECCOMP_RET_ERRNO): the way to make the
//   FINAL close of standard output fail -- stdio's fclose(stdout) does not go through the PLT, so the LD_PRELOAD
//   interposer cannot see it. Exit status 124 = the filter could not be installed (seccomp unavailable).
// Resets every signal xz cares about (and QUIT/ALRM/USR1/USR2/CHLD) to SIG_DFL, empties the signal mask, sets umask 022,
// raises the soft RLIMIT_FSIZE / RLIMIT_CPU to the hard limits, then marks the signals given with -i as ignored
// (the "inherited SIG_IGN" scenarios) and exec's the program. Dispositions SIG_DFL/SIG_IGN and the mask survive exec.
#include <signal.h>
#include <stdio.h>
#include <stdlib.h>
#include <string.h>
#include <sys/resource.h>
#include <sys/stat.h>
#include <unistd.h>
#include <errno.h>
#include <stddef.h>
#include <sys/prctl.h>
#include <sys/syscall.h>
#include <linux/audit.h>
#include <linux/filter.h>
#include <linux/seccomp.h>

// close(fd == 1) -> -1/errno; everything else is allowed
static int fail_close_of_stdout(int err)
{
	struct sock_filter f[] = {
		BPF_STMT(BPF_LD | BPF_W | BPF_ABS, offsetof(struct seccomp_data, arch)),
		BPF_JUMP(BPF_JMP | BPF_JEQ | BPF_K, AUDIT_ARCH_X86_64, 0, 5),
		BPF_STMT(BPF_LD | BPF_W | BPF_ABS, offsetof(struct seccomp_data, nr)),
		BPF_JUMP(BPF_JMP | BPF_JEQ | BPF_K, __NR_close, 0, 3),
		BPF_STMT(BPF_LD | BPF_W | BPF_ABS, offsetof(struct seccomp_data, args[0])),
		BPF_JUMP(BPF_JMP | BPF_JEQ | BPF_K, 1, 0, 1),
		BPF_STMT(BPF_RET | BPF_K, SECCOMP_RET_ERRNO | ((unsigned)err & SECCOMP_RET_DATA)),
		BPF_STMT(BPF_RET | BPF_K, SECCOMP_RET_ALLOW),
	};
	struct sock_fprog prog = { .len = (unsigned short)(sizeof(f) / sizeof(f[0])), .filter = f };
	if (prctl(PR_SET_NO_NEW_PRIVS, 1, 0, 0, 0) != 0)
		return -1;
	return (int)syscall(SYS_seccomp, SECCOMP_SET_MODE_FILTER, 0, &prog);
}

int main(int argc, char **argv)
{
	static const int reset[] = { SIGINT, SIGTERM, SIGHUP, SIGPIPE, SIGQUIT, SIGXFSZ, SIGXCPU, SIGALRM,
			SIGUSR1, SIGUSR2, SIGCHLD, SIGTSTP, SIGVTALRM, SIGPROF };
	for (size_t i = 0; i < sizeof(reset) / sizeof(reset[0]); ++i)
		signal(reset[i], SIG_DFL);
	sigset_t none;
	sigemptyset(&none);
	sigprocmask(SIG_SETMASK, &none, NULL);
	umask(022);
	struct rlimit rl;
	if (getrlimit(RLIMIT_FSIZE, &rl) == 0) { rl.rlim_cur = rl.rlim_max; setrlimit(RLIMIT_FSIZE, &rl); }
	if (getrlimit(RLIMIT_CPU, &rl) == 0) { rl.rlim_cur = rl.rlim_max; setrlimit(RLIMIT_CPU, &rl); }
	int i = 1;
	while (i + 1 < argc && strcmp(argv[i], "-i") == 0) {
		signal(atoi(argv[i + 1]), SIG_IGN);
		i += 2;
	}
	if (i + 1 < argc && strcmp(argv[i], "-c") == 0) {
		if (fail_close_of_stdout(atoi(argv[i + 1])) != 0) {
			perror("c17_launch: seccomp");
			return 124;
		}
		i += 2;
	}
	if (i >= argc || strcmp(argv[i], "--") != 0 || i + 1 >= argc) {
		fprintf(stderr, "usage: c17_launch [-i SIGNO]... [-c ERRNO] -- prog args...\n");
		return 125;
	}
	execv(argv[i + 1], argv + i + 1);
	perror("c17_launch: execv");
	return 126;
}
