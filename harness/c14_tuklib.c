// C14 unit row for src/common/tuklib_integer.h itself (the integer readers/writers the CRC and SHA-256 code use).
// Compiled twice by tools/props/c14.py: with the build's flags (memcpy-based variants) and with
// -UTUKLIB_FAST_UNALIGNED_ACCESS (byte-by-byte variants).
//   tuk <hex of 24 bytes>  ->  27 decimals + hex of a 96-byte output buffer:
//     read16le read16be read32le read32be read64le read64be at offset 0, the same six at offset 1 (unaligned),
//     aligned_read16le/16be/32le/32be/64le/64be/16ne/32ne/64ne at offset 0 (64-byte aligned buffer), then a buffer
//     pre-filled with 0xAA after write16le@1 write16be@5 write32le@9 write32be@15 write64le@21 write64be@31
//     aligned_write16le@40 16be@42 32le@44 32be@48 64le@56 64be@64 16ne@72 32ne@76 64ne@80 of the offset-0 values.
#include "sysdefs.h"
#include "tuklib_integer.h"
#include "hproto.h"

int main(void)
{
	hp_line l = {0};
	while (hp_next(&l)) {
		if (strcmp(l.tok[0], "tuk") || l.ntok != 2 || strlen(l.tok[1]) != 48) { printf("bad-op\n"); continue; }
		size_t n; void *base;
		uint8_t *b = hp_hex_aligned(l.tok[1], &n, 0, &base);
		for (int off = 0; off < 2; ++off)
			printf("%u %u %" PRIu32 " %" PRIu32 " %" PRIu64 " %" PRIu64 " ",
				(unsigned)read16le(b + off), (unsigned)read16be(b + off), read32le(b + off), read32be(b + off),
				read64le(b + off), read64be(b + off));
		printf("%u %u %" PRIu32 " %" PRIu32 " %" PRIu64 " %" PRIu64 " %u %" PRIu32 " %" PRIu64 " ",
			(unsigned)aligned_read16le(b), (unsigned)aligned_read16be(b), aligned_read32le(b), aligned_read32be(b),
			aligned_read64le(b), aligned_read64be(b), (unsigned)aligned_read16ne(b), aligned_read32ne(b), aligned_read64ne(b));
		uint8_t *o = NULL;
		if (posix_memalign((void **)&o, 64, 96) != 0) abort();
		memset(o, 0xAA, 96);
		uint16_t v16 = read16le(b); uint32_t v32 = read32le(b); uint64_t v64 = read64le(b);
		write16le(o + 1, v16); write16be(o + 5, v16);
		write32le(o + 9, v32); write32be(o + 15, v32);
		write64le(o + 21, v64); write64be(o + 31, v64);
		aligned_write16le(o + 40, v16); aligned_write16be(o + 42, v16);
		aligned_write32le(o + 44, v32); aligned_write32be(o + 48, v32);
		aligned_write64le(o + 56, v64); aligned_write64be(o + 64, v64);
		aligned_write16ne(o + 72, v16); aligned_write32ne(o + 76, v32); aligned_write64ne(o + 80, v64);
		hp_put_hex(o, 96);
		putchar('\n');
		free(o);
		free(base);
	}
	hp_done(&l);
	return 0;
}
