// lzma_allocator for the C03 harnesses: requests of 64 MiB and more (LZ dictionaries declared as 1 GiB … 4 GiB − 1) are
// served by mmap(MAP_NORESERVE), so that they succeed without committing memory (the decoder touches only the pages it
// writes); everything else goes to malloc (and stays under ASan's eyes). If the address space cannot be reserved the
// allocation fails and the decoder answers LZMA_MEM_ERROR, which the check records as "no address space" and skips.
#ifndef C03_ALLOC_H
#define C03_ALLOC_H
#include <sys/mman.h>
#include <stdlib.h>
#include <lzma.h>

#define C03_BIG ((size_t)64 << 20)
static struct { void *p; size_t n; } c03_maps[16];

static void *c03_alloc(void *opaque, size_t nmemb, size_t size)
{
	(void)opaque;
	size_t n = nmemb * size;
	if (n < C03_BIG)
		return malloc(n ? n : 1);
	for (int i = 0; i < 16; ++i)
		if (c03_maps[i].p == NULL) {
			void *p = mmap(NULL, n, PROT_READ | PROT_WRITE, MAP_PRIVATE | MAP_ANONYMOUS | MAP_NORESERVE, -1, 0);
			if (p == MAP_FAILED)
				return NULL;
			c03_maps[i].p = p; c03_maps[i].n = n;
			return p;
		}
	return NULL;
}

static void c03_free(void *opaque, void *ptr)
{
	(void)opaque;
	if (ptr == NULL) return;
	for (int i = 0; i < 16; ++i)
		if (c03_maps[i].p == ptr) {
			munmap(ptr, c03_maps[i].n);
			c03_maps[i].p = NULL;
			return;
		}
	free(ptr);
}

static const lzma_allocator c03_allocator = { &c03_alloc, &c03_free, NULL };
#endif
