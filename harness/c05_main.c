// C05 harness: the real liblzma decoders on damaged files (direct oracle + C side of the correspondence).
//
// Line protocol (state ops print one line; run ops print one line per damaged input):
//   base <hex>                         the undamaged file                         -> "ok <len>"
//   orig <hex>                         the plaintext it decodes to (reference)   -> "ok <len>"
//   reuse <0|1>                        1: every following lzma_stream case runs on ONE persistent lzma_stream that is
//                                      re-initialised by the next case's init function WITHOUT lzma_end in between (the
//                                      previous case ended in success, an error, or was abandoned mid-stream);
//                                      results must equal the fresh-handle results                -> "ok <n>"
//   slice 0 | slice k <n> | slice c <o1> [<o2> ...] | slice r <seed>                          -> "ok"
//                                      how the input of every following lzma_stream case is fed: 0 = all at once with
//                                      LZMA_FINISH (default); k = pieces of <n> bytes; c = cut at the given absolute
//                                      offsets (a cut at the end gives an empty final piece); r = seeded random pieces.
//                                      All pieces but the last are fed with LZMA_RUN until consumed, the last with
//                                      LZMA_FINISH. The verdict must not depend on this (lzma_stream_buffer_decode ignores it).
//   one    <api> <flags> w             decode the base file as it is              -> "w <res>"
//   one    <api> <flags> f <bit>       flip bit <bit> (bit k of byte k/8 is 1<<(k%8)) -> "f<bit> <res>"
//   one    <api> <flags> t <len>       keep only the first <len> bytes           -> "t<len> <res>"
//   one    <api> <flags> e <off> <del> <inshex>   delete <del> bytes at <off>, insert <inshex> there -> "e <res>"
//   flips  <api> <flags> <from> <to>   every bit in [from,to)                     -> (to-from) lines "f<bit> <res>"
//   truncs <api> <flags> <from> <to>   every length in [from,to)                  -> (to-from) lines "t<len> <res>"
// <res> = "<ret> <consumed> <notices> <outlen> <lcp> <crc64 of the output, hex>"
//   ret      final lzma_ret as a decimal (lzma_code loop: LZMA_FINISH, all input, until ret != LZMA_OK and not a
//            LZMA_NO_CHECK/UNSUPPORTED_CHECK/GET_CHECK notice);  100 = output buffer filled up (case not judged),
//            101 = the library called abort() (assertion failure), 102 = no end after 10000 lzma_code calls
//   notices  the notice codes seen, in order, joined by ',' ("-" if none)
//   lcp      length of the longest common prefix of the output and <orig>
// <api>:  sd  lzma_stream_decoder          sbd   lzma_stream_buffer_decode      mt  lzma_stream_decoder_mt (<threads> below)
//         auto lzma_auto_decoder           alone lzma_alone_decoder             lzip lzma_lzip_decoder
//         mt2/mt4 = mt with 2/4 threads.   <flags> = decimal LZMA_* decoder flag mask.
#include "hproto.h"
#include <lzma.h>
#include <setjmp.h>
#include <signal.h>
#include <unistd.h>

#define OUTCAP ((size_t)48 << 20)
#define MEMLIMIT ((uint64_t)160 << 20)
static uint8_t *g_out;            // one big lazily touched output buffer, reused for every case
static uint8_t *g_base; static size_t g_base_len;
static uint8_t *g_orig; static size_t g_orig_len;

// --- independent CRC-64/XZ used only as a digest of the produced output ---------------------------------------------
static uint64_t g_crc64_tab[256];
static void crc64_init(void)
{
	for (unsigned b = 0; b < 256; ++b) {
		uint64_t c = b;
		for (int k = 0; k < 8; ++k)
			c = (c & 1) ? (c >> 1) ^ UINT64_C(0xC96C5795D7870F42) : c >> 1;
		g_crc64_tab[b] = c;
	}
}
static uint64_t crc64_of(const uint8_t *p, size_t n)
{
	uint64_t c = ~UINT64_C(0);
	for (size_t i = 0; i < n; ++i)
		c = g_crc64_tab[(uint8_t)c ^ p[i]] ^ (c >> 8);
	return ~c;
}

// --- abort() recovery for the single-call API (so that a failing assert is reported as a result, not as a dead harness) ---
static sigjmp_buf g_jmp;
static volatile sig_atomic_t g_guard;
static void on_abort(int sig)
{
	(void)sig;
	if (g_guard)
		siglongjmp(g_jmp, 1);
	signal(SIGABRT, SIG_DFL);
	raise(SIGABRT);
}

#define LIVE_MAX 256
static void *g_live[LIVE_MAX];
static void *trk_alloc(void *opaque, size_t nmemb, size_t size)
{
	(void)opaque;
	void *p = malloc(nmemb * size ? nmemb * size : 1);
	if (p != NULL)
		for (int i = 0; i < LIVE_MAX; ++i)
			if (g_live[i] == NULL) { g_live[i] = p; break; }
	return p;
}
static void trk_free(void *opaque, void *ptr)
{
	(void)opaque;
	if (ptr == NULL) return;
	for (int i = 0; i < LIVE_MAX; ++i)
		if (g_live[i] == ptr) { g_live[i] = NULL; break; }
	free(ptr);
}
static void trk_free_all(void)
{
	for (int i = 0; i < LIVE_MAX; ++i)
		if (g_live[i] != NULL) { free(g_live[i]); g_live[i] = NULL; }
}
static const lzma_allocator g_trk = { &trk_alloc, &trk_free, NULL };

// --- one decode ----------------------------------------------------------------------------------------------------
typedef struct { int ret; size_t consumed; size_t outlen; char notices[128]; } result;

static void note(result *r, int code)
{
	size_t l = strlen(r->notices);
	if (l + 8 < sizeof(r->notices))
		snprintf(r->notices + l, sizeof(r->notices) - l, l ? ",%d" : "%d", code);
}

static int g_slice_kind;                   // 0 whole, 1 fixed piece size, 2 explicit cuts, 3 random
static size_t g_slice_n;
static size_t g_slice_cuts[16]; static int g_slice_ncuts;
static uint64_t g_slice_seed, g_slice_counter;
static bool g_reuse;                       // see the `reuse` op
static lzma_stream g_strm = LZMA_STREAM_INIT;

static void run_stream_api(const char *api, uint32_t flags, const uint8_t *in, size_t n, result *r)
{
	lzma_stream fresh = LZMA_STREAM_INIT;
	lzma_stream *sp = g_reuse ? &g_strm : &fresh;
#define strm (*sp)
	lzma_ret ret;
	if (!strcmp(api, "sd"))
		ret = lzma_stream_decoder(&strm, MEMLIMIT, flags);
	else if (!strcmp(api, "auto"))
		ret = lzma_auto_decoder(&strm, MEMLIMIT, flags);
	else if (!strcmp(api, "alone"))
		ret = lzma_alone_decoder(&strm, MEMLIMIT);
	else if (!strcmp(api, "lzip"))
		ret = lzma_lzip_decoder(&strm, MEMLIMIT, flags);
	else if (!strncmp(api, "mt", 2)) {
		lzma_mt mt;
		memset(&mt, 0, sizeof(mt));
		mt.flags = flags;
		mt.threads = api[2] ? (uint32_t)atoi(api + 2) : 2;
		mt.timeout = 0;
		mt.memlimit_threading = MEMLIMIT;
		mt.memlimit_stop = MEMLIMIT;
		ret = lzma_stream_decoder_mt(&strm, &mt);
	} else {
		r->ret = 198; return;
	}
	if (ret != LZMA_OK) { r->ret = (int)ret; if (!g_reuse) lzma_end(&strm); return; }
	// A zero-length buffer still needs a non-NULL pointer for lzma_code() not to complain; use a valid address.
	static const uint8_t empty[1] = {0};
	strm.next_out = g_out;
	strm.avail_out = OUTCAP;
	int fin = 102;
	size_t fed = 0;          // bytes handed to the decoder in earlier pieces
	if (g_slice_kind != 0 && n > 0) {
		// all pieces but the last: LZMA_RUN until the piece is consumed
		uint64_t rs = g_slice_seed * UINT64_C(6364136223846793005) + (++g_slice_counter) * UINT64_C(1442695040888963407) + n;
		int ci = 0;
		while (fed < n) {
			size_t len;
			if (g_slice_kind == 1) {
				len = g_slice_n ? g_slice_n : 1;
			} else if (g_slice_kind == 2) {
				while (ci < g_slice_ncuts && g_slice_cuts[ci] <= fed) {
					if (g_slice_cuts[ci] == fed && fed == n) break;
					++ci;
				}
				if (ci >= g_slice_ncuts || g_slice_cuts[ci] > n) break;      // the rest is the final piece
				len = g_slice_cuts[ci] - fed;
				++ci;
			} else {
				rs = rs * UINT64_C(6364136223846793005) + UINT64_C(1442695040888963407);
				static const size_t choices[] = { 1, 1, 2, 3, 4, 5, 7, 8, 12, 13, 31, 64, 257 };
				len = choices[(rs >> 33) % (sizeof(choices) / sizeof(choices[0]))];
				if ((rs >> 20) % 7 == 0) break;                              // the rest is the final piece
			}
			if (len >= n - fed) {
				if (g_slice_kind != 2 || len > n - fed) break;              // last piece is fed with LZMA_FINISH below
				// an explicit cut exactly at the end: feed everything with LZMA_RUN, then an empty LZMA_FINISH piece
			}
			strm.next_in = in + fed;
			strm.avail_in = len;
			for (int it = 0; it < 10000 && strm.avail_in > 0; ++it) {
				ret = lzma_code(&strm, LZMA_RUN);
				if (ret == LZMA_OK) {
					if (strm.avail_out == 0) { fin = 100; goto done; }
					continue;
				}
				if (ret == LZMA_NO_CHECK || ret == LZMA_UNSUPPORTED_CHECK || ret == LZMA_GET_CHECK) {
					note(r, (int)ret);
					continue;
				}
				fin = (int)ret;
				goto done;
			}
			if (strm.avail_in > 0) goto done;   // 10000 calls without consuming the piece: fin stays 102
			fed += len;
		}
	}
	strm.next_in = (n - fed) ? in + fed : empty;
	strm.avail_in = n - fed;
	for (int it = 0; it < 10000; ++it) {
		ret = lzma_code(&strm, LZMA_FINISH);
		if (ret == LZMA_OK) {
			if (strm.avail_out == 0) { fin = 100; break; }
			continue;
		}
		if (ret == LZMA_NO_CHECK || ret == LZMA_UNSUPPORTED_CHECK || ret == LZMA_GET_CHECK) {
			note(r, (int)ret);
			continue;
		}
		fin = (int)ret;
		break;
	}
done:
	r->ret = fin;
	r->consumed = (size_t)strm.total_in;
	r->outlen = (size_t)strm.total_out;
	if (!g_reuse)
		lzma_end(&strm);
	else {
		// the input buffer of this case is freed by the caller: do not leave a dangling pointer in the kept handle
		strm.next_in = NULL; strm.avail_in = 0; strm.next_out = NULL; strm.avail_out = 0;
	}
#undef strm
}

static void run_sbd(uint32_t flags, const uint8_t *in, size_t n, result *r)
{
	static const uint8_t empty[1] = {0};
	uint64_t memlimit = MEMLIMIT;
	// volatile: read after siglongjmp
	volatile size_t in_pos = 0, out_pos = 0;
	g_guard = 1;
	if (sigsetjmp(g_jmp, 1) == 0) {
		size_t ip = 0, op = 0;
		lzma_ret ret = lzma_stream_buffer_decode(&memlimit, flags, &g_trk, n ? in : empty, &ip, n, g_out, &op, OUTCAP);
		in_pos = ip; out_pos = op;
		g_guard = 0;
		r->ret = (int)ret;   // LZMA_BUF_ERROR here means "output buffer too small" (never expected with OUTCAP)
	} else {
		g_guard = 0;
		trk_free_all();
		r->ret = 101;
	}
	r->consumed = in_pos;
	r->outlen = out_pos;
}

static void run_one(const char *api, uint32_t flags, const uint8_t *in, size_t n, const char *tag)
{
	result r;
	memset(&r, 0, sizeof(r));
	if (!strcmp(api, "sbd"))
		run_sbd(flags, in, n, &r);
	else
		run_stream_api(api, flags, in, n, &r);
	size_t lcp = 0;
	size_t m = r.outlen < g_orig_len ? r.outlen : g_orig_len;
	while (lcp < m && g_out[lcp] == g_orig[lcp]) ++lcp;
	printf("%s %d %zu %s %zu %zu %016" PRIx64 "\n", tag, r.ret, r.consumed, r.notices[0] ? r.notices : "-",
			r.outlen, lcp, crc64_of(g_out, r.outlen));
}

static uint8_t *dup_exact(const uint8_t *p, size_t n)
{
	// exactly sized copy so that ASan sees any read past the end of the (damaged) file
	uint8_t *q = malloc(n ? n : 1);
	if (q == NULL) abort();
	if (n) memcpy(q, p, n);
	return q;
}

int main(void)
{
	crc64_init();
	g_out = malloc(OUTCAP);
	if (g_out == NULL) { fprintf(stderr, "cannot allocate the output buffer\n"); return 3; }
	signal(SIGABRT, on_abort);
	hp_line l = {0};
	char tag[64];
	while (hp_next(&l)) {
		const char *op = l.tok[0];
		if (!strcmp(op, "base") && l.ntok == 2) {
			free(g_base);
			g_base = hp_hex(l.tok[1], &g_base_len);
			printf("ok %zu\n", g_base_len);
		} else if (!strcmp(op, "orig") && l.ntok == 2) {
			free(g_orig);
			g_orig = hp_hex(l.tok[1], &g_orig_len);
			printf("ok %zu\n", g_orig_len);
		} else if (!strcmp(op, "slice") && l.ntok >= 2) {
			const char *k = l.tok[1];
			g_slice_ncuts = 0;
			if (!strcmp(k, "0")) g_slice_kind = 0;
			else if (!strcmp(k, "k") && l.ntok == 3) { g_slice_kind = 1; g_slice_n = (size_t)hp_u64(l.tok[2]); }
			else if (!strcmp(k, "c") && l.ntok >= 3) {
				g_slice_kind = 2;
				for (int i = 2; i < l.ntok && g_slice_ncuts < 16; ++i)
					g_slice_cuts[g_slice_ncuts++] = (size_t)hp_u64(l.tok[i]);
			} else if (!strcmp(k, "r") && l.ntok == 3) { g_slice_kind = 3; g_slice_seed = hp_u64(l.tok[2]); g_slice_counter = 0; }
			else { printf("bad-op\n"); continue; }
			printf("ok\n");
		} else if (!strcmp(op, "reuse") && l.ntok == 2) {
			g_reuse = hp_u64(l.tok[1]) != 0;
			if (!g_reuse) { lzma_end(&g_strm); }
			printf("ok %d\n", g_reuse ? 1 : 0);
		} else if (!strcmp(op, "one") && l.ntok >= 4 && g_base != NULL) {
			const char *api = l.tok[1];
			uint32_t flags = (uint32_t)hp_u64(l.tok[2]);
			const char *k = l.tok[3];
			if (!strcmp(k, "w") && l.ntok == 4) {
				uint8_t *d = dup_exact(g_base, g_base_len);
				run_one(api, flags, d, g_base_len, "w");
				free(d);
			} else if (!strcmp(k, "f") && l.ntok == 5) {
				size_t bit = (size_t)hp_u64(l.tok[4]);
				if (bit / 8 >= g_base_len) { printf("bad-op\n"); continue; }
				uint8_t *d = dup_exact(g_base, g_base_len);
				d[bit / 8] ^= (uint8_t)(1u << (bit % 8));
				snprintf(tag, sizeof(tag), "f%zu", bit);
				run_one(api, flags, d, g_base_len, tag);
				free(d);
			} else if (!strcmp(k, "t") && l.ntok == 5) {
				size_t n = (size_t)hp_u64(l.tok[4]);
				if (n > g_base_len) { printf("bad-op\n"); continue; }
				uint8_t *d = dup_exact(g_base, n);
				snprintf(tag, sizeof(tag), "t%zu", n);
				run_one(api, flags, d, n, tag);
				free(d);
			} else if (!strcmp(k, "e") && l.ntok == 7) {
				size_t off = (size_t)hp_u64(l.tok[4]), del = (size_t)hp_u64(l.tok[5]);
				size_t ins_len; uint8_t *ins = hp_hex(l.tok[6], &ins_len);
				if (off > g_base_len || del > g_base_len - off) { printf("bad-op\n"); free(ins); continue; }
				size_t n = g_base_len - del + ins_len;
				uint8_t *d = malloc(n ? n : 1);
				if (d == NULL) abort();
				memcpy(d, g_base, off);
				memcpy(d + off, ins, ins_len);
				memcpy(d + off + ins_len, g_base + off + del, g_base_len - off - del);
				run_one(api, flags, d, n, "e");
				free(d); free(ins);
			} else {
				printf("bad-op\n");
			}
		} else if ((!strcmp(op, "flips") || !strcmp(op, "truncs")) && l.ntok == 5 && g_base != NULL) {
			const char *api = l.tok[1];
			uint32_t flags = (uint32_t)hp_u64(l.tok[2]);
			size_t from = (size_t)hp_u64(l.tok[3]), to = (size_t)hp_u64(l.tok[4]);
			bool fl = op[0] == 'f';
			if (from > to || (fl ? to > 8 * g_base_len : to > g_base_len + 1)) { printf("bad-op\n"); continue; }
			for (size_t i = from; i < to; ++i) {
				if (fl) {
					uint8_t *d = dup_exact(g_base, g_base_len);
					d[i / 8] ^= (uint8_t)(1u << (i % 8));
					snprintf(tag, sizeof(tag), "f%zu", i);
					run_one(api, flags, d, g_base_len, tag);
					free(d);
				} else {
					uint8_t *d = dup_exact(g_base, i);
					snprintf(tag, sizeof(tag), "t%zu", i);
					run_one(api, flags, d, i, tag);
					free(d);
				}
			}
		} else {
			printf("bad-op\n");
		}
	}
	hp_done(&l);
	lzma_end(&g_strm);
	free(g_base); free(g_orig); free(g_out);
	return 0;
}
