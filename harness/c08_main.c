// C08 harness: DIRECT ORACLE for the threaded .xz encoder (lzma_stream_encoder_mt), independent of the Lean model.
//
// Line protocol: one scenario per input line, one result line per scenario.
//   scn <id> [pert=<mode>:<seed>:<usec>] [dump=1] [wd=<seconds>] S:<stream> [S:<stream> ...] [end=1]
//   <stream> = t<threads>,b<block_size>,o<timeout_ms>,c<check>,f<chain>,k<kind>,n<size>,d<dataseed>,s<sliceseed>,x<abort_after_calls|-1>[,z<slice scale>],g<seg>;<seg>;...
//              optional fault keys before g: a<k> = the k-th allocation made by a WORKER thread during this stream fails,
//              A<k> = the k-th allocation made by the main thread inside lzma_code() fails, w<usec> = the failing worker sleeps first (real scheduling)
//   <seg>    = <len><r|f|b|F>[u<chain>]      r=LZMA_RUN f=LZMA_FULL_FLUSH b=LZMA_FULL_BARRIER F=LZMA_FINISH,
//                                              u<chain> = lzma_filters_update(chain) after the segment
// All streams of a scenario run on ONE lzma_stream handle (re-initialisation); a stream with x>=0 is abandoned after
// that many lzma_code calls (the next stream re-initialises the handle, or lzma_end frees it = early lzma_end).
//
// For every stream the harness first produces the reference run (same action sequence, threads=1, timeout=0, large
// slices, separate handle, no perturbation) and validates the reference output completely:
//   single Stream: header | Blocks | Index | footer, nothing else; header/footer flags agree and carry the Check type;
//   walking the Block Headers from the front gives Blocks whose uncompressed sizes are exactly the expected cut list
//   (cuts only at block_size and at FULL_FLUSH/FULL_BARRIER/FINISH offsets), whose sizes equal the Index Records, whose
//   filter chains are the expected ones (or plain LZMA2 for the incompressible fallback), and each Block, decoded on its
//   own with lzma_block_decoder, yields exactly its slice of the input (= Blocks are in input order);
//   lzma_stream_decoder (single-threaded) decodes the whole output to exactly the input.
// Then the test run (threads, timeout, random in/out slicing, perturbed scheduling) must satisfy:
//   output bytes identical to the reference (checked incrementally after every lzma_code call, also for abandoned streams);
//   every FULL_FLUSH that returned LZMA_STREAM_END: the output so far ends exactly at a Block boundary, and decodes
//   (lzma_stream_decoder without LZMA_FINISH) to exactly all input given so far;
//   return-code protocol: only LZMA_OK / LZMA_STREAM_END (at the right moments) / a justified LZMA_BUF_ERROR; with
//   timeout=0 a call that could make progress never returns without progress;
//   lzma_filters_update returns LZMA_PROG_ERROR exactly when a Block is open, LZMA_OK otherwise;
//   lzma_get_progress sampled after every call: progress_in <= total_in, >= uncompressed size of delivered Blocks;
//   progress_out >= total_out, <= Stream Header + final sizes of the Blocks begun so far (+Index+Footer when finishing);
//   after LZMA_STREAM_END both equal the true totals.
// Fault injection (failing lzma_allocator on the test handle): once the armed allocation has failed, the stream must end with
// LZMA_MEM_ERROR from lzma_code() (never hang, never LZMA_STREAM_END for FINISH, no other error code), a further lzma_code() must
// return LZMA_PROG_ERROR, re-init / lzma_end must succeed, and after lzma_end every allocation has been freed.
// A watchdog thread turns a hang into `DEADLOCK id=<id>` + exit 97.
#define _GNU_SOURCE
#include "hproto.h"
#include "c08_pert.h"
#include <lzma.h>
#include <pthread.h>
#include <time.h>
#include <unistd.h>
#include <stdarg.h>

#ifdef C08_USE_VSCHED
#include "vsched.h"
// the perturbation layer is not linked in this variant (vsched.c owns the pthread wrappers)
int c08_pert_mode; uint64_t c08_pert_seed; unsigned c08_pert_usec;
#endif
#ifdef C08_EVENTS
#include "c08_events.h"
#define EVT(ev, t, a, b, c) c08_ev_add((ev), (uint64_t)(t), (uint64_t)(a), (uint64_t)(b), (uint64_t)(c))
#else
#define EVT(ev, t, a, b, c) ((void)0)
#endif

#define MAXSEG 24
#define MAXSTREAM 8
#define MAXBLK 4096
#define HEADERS_BOUND_SLACK 1088u

// ---------------------------------------------------------------------------------------------------------------
// small utilities
// ---------------------------------------------------------------------------------------------------------------
typedef struct { uint64_t s; } rng_t;
static uint64_t rnd(rng_t *r)
{
	uint64_t x = r->s ? r->s : 0x9E3779B97F4A7C15ull;
	x ^= x << 13; x ^= x >> 7; x ^= x << 17;
	r->s = x;
	return x * 0x2545F4914F6CDD1Dull;
}
static size_t rnd_below(rng_t *r, size_t n) { return n ? (size_t)(rnd(r) % n) : 0; }

typedef struct { uint8_t *p; size_t n, cap; } vec;
static void vec_add(vec *v, const uint8_t *p, size_t n)
{
	if (v->n + n > v->cap) {
		size_t c = v->cap ? v->cap : 4096;
		while (c < v->n + n) c *= 2;
		v->p = realloc(v->p, c);
		if (!v->p) abort();
		v->cap = c;
	}
	if (n) memcpy(v->p + v->n, p, n);
	v->n += n;
}
static void vec_free(vec *v) { free(v->p); v->p = NULL; v->n = v->cap = 0; }

static char g_fail[600];
static int g_failed = 0;
static int fail(const char *code, const char *fmt, ...)
{
	if (g_failed) return -1;      // keep the first failure
	g_failed = 1;
	char d[400];
	va_list ap; va_start(ap, fmt); vsnprintf(d, sizeof d, fmt, ap); va_end(ap);
	for (char *q = d; *q; ++q) if (*q == ' ' || *q == '\n' || *q == '\t') *q = '_';
	snprintf(g_fail, sizeof g_fail, "code=%s detail=%s", code, d);
	return -1;
}

// ---------------------------------------------------------------------------------------------------------------
// scenario description
// ---------------------------------------------------------------------------------------------------------------
typedef struct { size_t len; lzma_action action; int upd; } seg_t;
typedef struct {
	unsigned threads; uint64_t bs; unsigned timeout; int check; int flt; int kind; size_t n;
	uint64_t dseed, sseed; long abort_after; unsigned zscale; long fail_worker, fail_main; unsigned fail_delay; int nseg; seg_t seg[MAXSEG];
} stream_cfg;

typedef struct { size_t uoff, usize, coff, hsize, csize, total; int fallback; int nflt; uint64_t fid[4]; } blk_t;

typedef struct {
	vec out;
	int completed;
	size_t nfl; size_t fl_in[MAXSEG], fl_out[MAXSEG];
	size_t nbar; size_t bar_in[MAXSEG];
	// from validation of the reference
	size_t nblk; blk_t *blk; size_t index_size;
	// statistics
	unsigned long calls, noprog, buferr, samples, upd_ok, upd_rej;
} stream_res;

static int parse_stream(const char *tok, stream_cfg *c)
{
	memset(c, 0, sizeof *c);
	c->abort_after = -1; c->zscale = 1; c->fail_worker = 0; c->fail_main = 0; c->fail_delay = 0;
	const char *s = tok + 2;
	while (*s) {
		char k = *s++;
		if (k == 'g') {
			while (*s) {
				if (c->nseg >= MAXSEG) return -1;
				char *e; unsigned long long len = strtoull(s, &e, 10);
				seg_t *g = &c->seg[c->nseg++];
				g->len = (size_t)len; g->upd = -1;
				switch (*e) {
				case 'r': g->action = LZMA_RUN; break;
				case 'f': g->action = LZMA_FULL_FLUSH; break;
				case 'b': g->action = LZMA_FULL_BARRIER; break;
				case 'F': g->action = LZMA_FINISH; break;
				default: return -1;
				}
				s = e + 1;
				if (*s == 'u') { g->upd = (int)strtol(s + 1, &e, 10); s = e; }
				if (*s == ';') ++s;
			}
			break;
		}
		char *e; long long v = strtoll(s, &e, 10);
		switch (k) {
		case 't': c->threads = (unsigned)v; break;
		case 'b': c->bs = (uint64_t)v; break;
		case 'o': c->timeout = (unsigned)v; break;
		case 'c': c->check = (int)v; break;
		case 'f': c->flt = (int)v; break;
		case 'k': c->kind = (int)v; break;
		case 'n': c->n = (size_t)v; break;
		case 'd': c->dseed = (uint64_t)v; break;
		case 's': c->sseed = (uint64_t)v; break;
		case 'x': c->abort_after = (long)v; break;
		case 'z': c->zscale = (unsigned)v; break;
		case 'a': c->fail_worker = (long)v; break;
		case 'A': c->fail_main = (long)v; break;
		case 'w': c->fail_delay = (unsigned)v; break;
		default: return -1;
		}
		s = e;
		if (*s == ',') ++s;
	}
	size_t tot = 0;
	for (int i = 0; i < c->nseg; ++i) tot += c->seg[i].len;
	if (tot != c->n || c->nseg == 0 || c->seg[c->nseg - 1].action != LZMA_FINISH) return -1;
	return 0;
}

// ---------------------------------------------------------------------------------------------------------------
// input data
// ---------------------------------------------------------------------------------------------------------------
static const char *const WORDS[] = { "the ", "quick ", "brown ", "fox ", "jumps ", "over ", "lazy ", "dog ", "xz ", "lzma ",
	"block ", "stream ", "index ", "footer ", "0123456789", "\n", "threaded ", "encoder ", "queue ", "progress " };

static void gen_region(uint8_t *p, size_t n, int kind, rng_t *r)
{
	size_t i = 0;
	switch (kind) {
	case 0: // incompressible
		for (; i + 8 <= n; i += 8) { uint64_t x = rnd(r); memcpy(p + i, &x, 8); }
		for (; i < n; ++i) p[i] = (uint8_t)rnd(r);
		break;
	case 1: // text-like
		while (i < n) {
			const char *w = WORDS[rnd_below(r, sizeof WORDS / sizeof *WORDS)];
			size_t l = strlen(w); if (l > n - i) l = n - i;
			memcpy(p + i, w, l); i += l;
		}
		break;
	case 2: // zeros
		memset(p, 0, n);
		break;
	case 4: // nearly incompressible: random with short copies of earlier data
		while (i < n) {
			if (i > 64 && (rnd(r) & 7) == 0) {
				size_t l = 3 + rnd_below(r, 12), d = 1 + rnd_below(r, 60);
				for (size_t j = 0; j < l && i < n; ++j, ++i) p[i] = p[i - d];
			} else {
				size_t l = 8 + rnd_below(r, 120);
				for (size_t j = 0; j < l && i < n; ++j, ++i) p[i] = (uint8_t)rnd(r);
			}
		}
		break;
	default: memset(p, 0x55, n);
	}
}

static uint8_t *gen_input(const stream_cfg *c)
{
	uint8_t *p = malloc(c->n ? c->n : 1);
	if (!p) abort();
	rng_t r = { c->dseed * 2654435761u + 12345 };
	if (c->kind == 3) { // mixed regions at roughly block-size scale
		size_t i = 0;
		while (i < c->n) {
			size_t unit = c->bs < 64 ? 64 : (size_t)c->bs;
			size_t l = 1 + rnd_below(&r, 2 * unit);
			if (l > c->n - i) l = c->n - i;
			static const int kinds[] = { 0, 1, 0, 2, 4, 1 };
			gen_region(p + i, l, kinds[rnd_below(&r, 6)], &r);
			i += l;
		}
	} else {
		gen_region(p, c->n, c->kind, &r);
	}
	return p;
}

// ---------------------------------------------------------------------------------------------------------------
// filter chains
// ---------------------------------------------------------------------------------------------------------------
typedef struct { lzma_filter f[LZMA_FILTERS_MAX + 1]; lzma_options_lzma lz; lzma_options_delta dl; int nids; uint64_t ids[4]; int use_preset; uint32_t preset; } chain_t;

static void small_lzma(lzma_options_lzma *o, uint32_t dict)
{
	lzma_lzma_preset(o, 0);
	o->dict_size = dict;
}

static int build_chain(int id, chain_t *c)
{
	memset(c, 0, sizeof *c);
	int n = 0;
	switch (id) {
	case 0: small_lzma(&c->lz, 1u << 16); break;
	case 1: lzma_lzma_preset(&c->lz, 0); break;
	case 2: c->dl.type = LZMA_DELTA_TYPE_BYTE; c->dl.dist = 3; c->f[n].id = LZMA_FILTER_DELTA; c->f[n++].options = &c->dl; small_lzma(&c->lz, 1u << 15); break;
	case 3: c->f[n].id = LZMA_FILTER_X86; c->f[n++].options = NULL; small_lzma(&c->lz, 1u << 15); break;
	case 4: small_lzma(&c->lz, 1u << 14); c->lz.lc = 0; c->lz.lp = 2; c->lz.pb = 0; c->lz.mode = LZMA_MODE_NORMAL; c->lz.mf = LZMA_MF_BT2; c->lz.nice_len = 32; break;
	case 5: lzma_lzma_preset(&c->lz, 1); break;
	case 6: c->dl.type = LZMA_DELTA_TYPE_BYTE; c->dl.dist = 256; c->f[n].id = LZMA_FILTER_DELTA; c->f[n++].options = &c->dl;
		c->f[n].id = LZMA_FILTER_X86; c->f[n++].options = NULL; small_lzma(&c->lz, 1u << 12); break;
	case 7: lzma_lzma_preset(&c->lz, 0); c->use_preset = 1; c->preset = 0; break;   // via lzma_mt.preset, filters = NULL
	default: return -1;
	}
	c->f[n].id = LZMA_FILTER_LZMA2; c->f[n++].options = &c->lz;
	c->f[n].id = LZMA_VLI_UNKNOWN; c->f[n].options = NULL;
	c->nids = n;
	for (int i = 0; i < n; ++i) c->ids[i] = c->f[i].id;
	return 0;
}

// ---------------------------------------------------------------------------------------------------------------
// expected Block cuts (pure function of block_size and the action sequence)
// ---------------------------------------------------------------------------------------------------------------
typedef struct { size_t n; size_t usize[MAXBLK]; int chain[MAXBLK]; } cuts_t;

static int expected_cuts(const stream_cfg *c, cuts_t *k)
{
	k->n = 0;
	size_t cur = 0; int chain = c->flt;
	for (int i = 0; i < c->nseg; ++i) {
		size_t n = c->seg[i].len;
		while (n > 0) {
			size_t take = c->bs - cur < n ? (size_t)(c->bs - cur) : n;
			if (cur == 0) { if (k->n >= MAXBLK) return -1; k->chain[k->n] = chain; }
			cur += take; n -= take;
			if (cur == c->bs) { k->usize[k->n++] = cur; cur = 0; }
		}
		if (c->seg[i].action != LZMA_RUN && cur > 0) { k->usize[k->n++] = cur; cur = 0; }
		if (c->seg[i].upd >= 0 && cur == 0) chain = c->seg[i].upd;     // rejected while a Block is open
	}
	return 0;
}

// ---------------------------------------------------------------------------------------------------------------
// decoding helpers (single-threaded C decoders of the same liblzma)
// ---------------------------------------------------------------------------------------------------------------
// Decodes `in` with lzma_stream_decoder. finish=1: must end with LZMA_STREAM_END having consumed everything.
// finish=0: LZMA_RUN only, must never error; returns the bytes produced. Output compared with `exp`.
static int stream_decode_check(const uint8_t *in, size_t n, const uint8_t *exp, size_t expn, int finish, const char *what)
{
	lzma_stream s = LZMA_STREAM_INIT;
	if (lzma_stream_decoder(&s, UINT64_MAX, 0) != LZMA_OK) return fail("decoder-init", "%s", what);
	size_t cap = expn + 4096; uint8_t *o = malloc(cap);
	s.next_in = in; s.avail_in = n; s.next_out = o; s.avail_out = cap;
	lzma_ret r = LZMA_OK;
	for (int it = 0; it < 4 && r == LZMA_OK; ++it) {
		r = lzma_code(&s, finish ? LZMA_FINISH : LZMA_RUN);
		if (!finish && s.avail_in == 0) break;
	}
	size_t got = cap - s.avail_out; size_t left = s.avail_in;
	lzma_end(&s);
	int rc = 0;
	if (finish && r != LZMA_STREAM_END) rc = fail("decode-status", "%s: lzma_stream_decoder returned %d, expected STREAM_END", what, (int)r);
	else if (!finish && r != LZMA_OK && !(r == LZMA_BUF_ERROR)) rc = fail("prefix-decode-status", "%s: decoder returned %d on the flushed prefix", what, (int)r);
	else if (left != 0) rc = fail("decode-trailing", "%s: %zu input bytes not consumed", what, left);
	else if (got != expn) rc = fail(finish ? "decode-length" : "prefix-decode-length", "%s: decoded %zu bytes, expected %zu", what, got, expn);
	else if (expn && memcmp(o, exp, expn) != 0) rc = fail(finish ? "decode-mismatch" : "prefix-decode-mismatch", "%s: decoded data differs from the input", what);
	free(o);
	return rc;
}

static int fallback_bound_eq(size_t usize, size_t csize)
{
	uint64_t chunks = (usize + 65535) / 65536;
	return csize == usize + chunks * 3 + 1;
}

// Walks Block Headers from offset 12. complete=1: expects Index + Footer after the Blocks and validates them.
// complete=0: `out` is a prefix; walks as many complete Blocks as present; *end receives the offset after the last one.
static int walk_blocks(const uint8_t *out, size_t n, int complete, int check, const uint8_t *input, size_t input_n,
		blk_t *blk, size_t *nblk, size_t *end, size_t *index_size, const char *what)
{
	*nblk = 0;
	if (n < 12) { if (complete) return fail("short", "%s: %zu bytes", what, n); *end = 0; return 0; }
	lzma_stream_flags hf;
	lzma_ret r = lzma_stream_header_decode(&hf, out);
	if (r != LZMA_OK) return fail("header", "%s: stream header decode %d", what, (int)r);
	if ((int)hf.check != check) return fail("header-check", "%s: check %d expected %d", what, (int)hf.check, check);
	size_t pos = 12, uoff = 0;
	uint32_t csz = lzma_check_size((lzma_check)check);
	for (;;) {
		if (pos >= n) { if (complete) return fail("no-index", "%s: output ends after the Blocks", what); break; }
		if (out[pos] == 0x00) break;      // Index indicator
		uint32_t hs = lzma_block_header_size_decode(out[pos]);
		if (pos + hs > n) { if (complete) return fail("trunc-block-header", "%s at %zu", what, pos); break; }
		lzma_filter fl[LZMA_FILTERS_MAX + 1];
		lzma_block b; memset(&b, 0, sizeof b);
		b.version = 1; b.header_size = hs; b.check = (lzma_check)check; b.filters = fl;
		r = lzma_block_header_decode(&b, NULL, out + pos);
		if (r != LZMA_OK) return fail("block-header", "%s: Block Header at %zu: %d", what, pos, (int)r);
		int rc = 0;
		if (b.compressed_size == LZMA_VLI_UNKNOWN || b.uncompressed_size == LZMA_VLI_UNKNOWN)
			rc = fail("block-header-sizes", "%s: Block at %zu lacks size fields", what, pos);
		lzma_vli total = rc ? 0 : lzma_block_total_size(&b);
		if (!rc && total == 0) rc = fail("block-total", "%s at %zu", what, pos);
		if (!rc && pos + total > n) {
			if (complete) rc = fail("trunc-block", "%s: Block at %zu total %llu exceeds output", what, pos, (unsigned long long)total);
			else { lzma_filters_free(fl, NULL); break; }
		}
		if (!rc && *nblk >= MAXBLK) rc = fail("too-many-blocks", "%s", what);
		if (!rc) {
			blk_t *k = &blk[(*nblk)++];
			k->uoff = uoff; k->usize = (size_t)b.uncompressed_size; k->coff = pos; k->hsize = hs;
			k->csize = (size_t)b.compressed_size; k->total = (size_t)total;
			k->nflt = 0;
			for (int i = 0; fl[i].id != LZMA_VLI_UNKNOWN && i < 4; ++i) k->fid[k->nflt++] = fl[i].id;
			k->fallback = (k->nflt == 1 && fl[0].id == LZMA_FILTER_LZMA2 && fallback_bound_eq(k->usize, k->csize)
					&& fl[0].options && ((lzma_options_lzma *)fl[0].options)->dict_size == LZMA_DICT_SIZE_MIN);
			// decode this Block on its own: must give exactly input[uoff, uoff+usize)
			if (uoff + k->usize > input_n) rc = fail("block-beyond-input", "%s: Block %zu covers [%zu,%zu) of %zu input bytes", what, *nblk - 1, uoff, uoff + k->usize, input_n);
			else {
				lzma_stream s = LZMA_STREAM_INIT;
				r = lzma_block_decoder(&s, &b);
				if (r != LZMA_OK) rc = fail("block-decoder-init", "%s: %d", what, (int)r);
				else {
					uint8_t *o = malloc(k->usize + 16);
					s.next_in = out + pos + hs; s.avail_in = (size_t)total - hs; s.next_out = o; s.avail_out = k->usize + 16;
					r = lzma_code(&s, LZMA_FINISH);
					size_t got = k->usize + 16 - s.avail_out;
					if (r != LZMA_STREAM_END) rc = fail("block-decode-status", "%s: Block %zu at %zu: %d", what, *nblk - 1, pos, (int)r);
					else if (s.avail_in != 0) rc = fail("block-decode-trailing", "%s: Block %zu", what, *nblk - 1);
					else if (got != k->usize || (got && memcmp(o, input + uoff, got) != 0))
						rc = fail("block-order", "%s: Block %zu does not decode to input[%zu,%zu)", what, *nblk - 1, uoff, uoff + k->usize);
					free(o);
					lzma_end(&s);
				}
			}
			uoff += k->usize;
		}
		lzma_filters_free(fl, NULL);
		if (rc) return rc;
		pos += (size_t)total;
		(void)csz;
	}
	*end = pos;
	if (!complete) return 0;
	// Index + Footer
	if (n < pos + 12 + 4) return fail("trunc-index", "%s", what);
	lzma_stream_flags ff;
	r = lzma_stream_footer_decode(&ff, out + n - 12);
	if (r != LZMA_OK) return fail("footer", "%s: %d", what, (int)r);
	if (lzma_stream_flags_compare(&hf, &ff) != LZMA_OK) return fail("flags-mismatch", "%s", what);
	if (ff.backward_size != n - 12 - pos) return fail("backward-size", "%s: backward_size %llu but Index occupies %zu", what, (unsigned long long)ff.backward_size, n - 12 - pos);
	lzma_index *idx = NULL; uint64_t ml = UINT64_MAX; size_t ip = pos;
	r = lzma_index_buffer_decode(&idx, &ml, NULL, out, &ip, n - 12);
	if (r != LZMA_OK) return fail("index-decode", "%s: %d", what, (int)r);
	int rc = 0;
	if (ip != n - 12) rc = fail("index-size", "%s", what);
	else if (lzma_index_block_count(idx) != *nblk) rc = fail("index-count", "%s: Index has %llu Records, walk found %zu Blocks", what, (unsigned long long)lzma_index_block_count(idx), *nblk);
	else {
		lzma_index_iter it; lzma_index_iter_init(&it, idx);
		for (size_t i = 0; i < *nblk && !rc; ++i) {
			if (lzma_index_iter_next(&it, LZMA_INDEX_ITER_BLOCK)) { rc = fail("index-iter", "%s", what); break; }
			blk_t *k = &blk[i];
			if (it.block.uncompressed_size != k->usize || it.block.unpadded_size != k->hsize + k->csize + csz
					|| it.block.compressed_file_offset != k->coff || it.block.uncompressed_file_offset != k->uoff)
				rc = fail("index-record", "%s: Record %zu (unpadded %llu, uncompressed %llu) does not describe Block %zu (header %zu + %zu + check %u, uncompressed %zu)",
					what, i, (unsigned long long)it.block.unpadded_size, (unsigned long long)it.block.uncompressed_size, i, k->hsize, k->csize, csz, k->usize);
		}
	}
	*index_size = n - 12 - pos;
	lzma_index_end(idx, NULL);
	return rc;
}

static int validate_complete(const stream_cfg *c, const uint8_t *input, stream_res *res, const char *what)
{
	cuts_t *k = malloc(sizeof *k);
	res->blk = calloc(MAXBLK, sizeof(blk_t));
	int rc = 0; size_t end = 0;
	if (expected_cuts(c, k) != 0) rc = fail("too-many-cuts", "%s", what);
	if (!rc) rc = walk_blocks(res->out.p, res->out.n, 1, c->check, input, c->n, res->blk, &res->nblk, &end, &res->index_size, what);
	if (!rc && res->nblk != k->n) rc = fail("block-count", "%s: %zu Blocks, expected %zu", what, res->nblk, k->n);
	for (size_t i = 0; !rc && i < k->n; ++i) {
		if (res->blk[i].usize != k->usize[i])
			rc = fail("block-boundary", "%s: Block %zu holds %zu bytes, expected %zu (cuts only at block_size and flush/barrier offsets)", what, i, res->blk[i].usize, k->usize[i]);
		else if (!res->blk[i].fallback) {
			chain_t ch; build_chain(k->chain[i], &ch);
			int same = ch.nids == res->blk[i].nflt;
			for (int j = 0; same && j < ch.nids; ++j) same = ch.ids[j] == res->blk[i].fid[j];
			if (!same) rc = fail("block-filters", "%s: Block %zu uses an unexpected filter chain (expected chain %d)", what, i, k->chain[i]);
		}
	}
	if (!rc) {
		size_t u = 0; for (size_t i = 0; i < res->nblk; ++i) u += res->blk[i].usize;
		if (u != c->n) rc = fail("blocks-cover", "%s: Blocks cover %zu of %zu input bytes", what, u, c->n);
	}
	if (!rc) rc = stream_decode_check(res->out.p, res->out.n, input, c->n, 1, what);
	// flush points must lie on Block boundaries
	for (size_t i = 0; !rc && i < res->nfl; ++i) {
		size_t uo = 0, co = 12; int hit = (res->fl_in[i] == 0 && res->fl_out[i] == 12);
		for (size_t j = 0; j < res->nblk && !hit; ++j) {
			uo += res->blk[j].usize; co += res->blk[j].total;
			if (uo == res->fl_in[i] && co == res->fl_out[i]) hit = 1;
		}
		if (!hit) rc = fail("flush-boundary", "%s: FULL_FLUSH at input %zu returned with %zu output bytes, not a Block boundary", what, res->fl_in[i], res->fl_out[i]);
	}
	free(k);
	return rc;
}

// ---------------------------------------------------------------------------------------------------------------
// failing / counting allocator of the test handle
// ---------------------------------------------------------------------------------------------------------------
static pthread_t g_main_thread;
static long g_live_allocs;            // outstanding allocations (atomic)
static long g_worker_allocs, g_main_allocs;   // counted while armed
static long g_fail_worker_at, g_fail_main_at; // 0 = off
static unsigned g_fail_delay;
static int g_fault_fired;             // 1 = a worker allocation failed, 2 = a main-thread allocation failed
static int g_in_code;                 // main thread is inside lzma_code()
static int g_real_sched;              // real scheduling: the delay may be used

static void *h_alloc(void *opaque, size_t nmemb, size_t size)
{
	(void)opaque;
	if (pthread_equal(pthread_self(), g_main_thread)) {
		long at = __atomic_load_n(&g_fail_main_at, __ATOMIC_RELAXED);
		if (at > 0 && g_in_code && ++g_main_allocs == at) { __atomic_store_n(&g_fault_fired, 2, __ATOMIC_SEQ_CST); return NULL; }
	} else {
		long at = __atomic_load_n(&g_fail_worker_at, __ATOMIC_RELAXED);
		if (at > 0 && __atomic_add_fetch(&g_worker_allocs, 1, __ATOMIC_SEQ_CST) == at) {
			if (g_real_sched && g_fail_delay) usleep(g_fail_delay);
			__atomic_store_n(&g_fault_fired, 1, __ATOMIC_SEQ_CST);
			return NULL;
		}
	}
	void *p = malloc(nmemb * size ? nmemb * size : 1);
	if (p) __atomic_add_fetch(&g_live_allocs, 1, __ATOMIC_SEQ_CST);
	return p;
}
static void h_free(void *opaque, void *p)
{
	(void)opaque;
	if (p == NULL) return;
	__atomic_sub_fetch(&g_live_allocs, 1, __ATOMIC_SEQ_CST);
	free(p);
}
static const lzma_allocator g_allocator = { &h_alloc, &h_free, NULL };

static void fault_arm(const stream_cfg *c)
{
	g_worker_allocs = 0; g_main_allocs = 0; g_fail_delay = c->fail_delay;
	__atomic_store_n(&g_fault_fired, 0, __ATOMIC_SEQ_CST);
	__atomic_store_n(&g_fail_main_at, c->fail_main, __ATOMIC_SEQ_CST);
	__atomic_store_n(&g_fail_worker_at, c->fail_worker, __ATOMIC_SEQ_CST);
}
static void fault_disarm(void)
{
	__atomic_store_n(&g_fail_main_at, 0L, __ATOMIC_SEQ_CST);
	__atomic_store_n(&g_fail_worker_at, 0L, __ATOMIC_SEQ_CST);
}

// ---------------------------------------------------------------------------------------------------------------
// driving one stream
// ---------------------------------------------------------------------------------------------------------------
typedef struct {
	lzma_stream *strm; const stream_cfg *c; const uint8_t *input; int is_ref; rng_t r;
	stream_res *res; const stream_res *ref;
	size_t in_off;         // input bytes handed over AND consumed so far
	int finishing;
	long calls_left;
	uint64_t alloc;        // outbuf allocation = lzma_block_buffer_bound(block_size)
	int prev_noprog_ok;    // previous call legitimately made no progress
} drv_t;

static int g_noprogress_checks = 0;   // np=1: skip the progress oracle (used to look past a known progress defect)

static int sample_progress(drv_t *d, int final)
{
	if (g_noprogress_checks) return 0;
	uint64_t pin = 0, pout = 0;
	lzma_get_progress(d->strm, &pin, &pout);
	d->res->samples++;
	uint64_t tin = d->strm->total_in, tout = d->strm->total_out;
	if (final) {
		if (pin != tin || pout != tout)
			return fail("progress-final", "after STREAM_END progress=(%llu,%llu) but totals=(%llu,%llu)", (unsigned long long)pin, (unsigned long long)pout, (unsigned long long)tin, (unsigned long long)tout);
		return 0;
	}
	if (pin > tin) return fail("progress-in-over", "progress_in %llu > total_in %llu", (unsigned long long)pin, (unsigned long long)tin);
	if (pout < tout) return fail("progress-out-under", "progress_out %llu < total_out %llu", (unsigned long long)pout, (unsigned long long)tout);
	if (d->ref && d->ref->blk) {
		uint64_t delivered_u = 0, co = 12, ub = 12;
		for (size_t i = 0; i < d->ref->nblk; ++i) {
			const blk_t *k = &d->ref->blk[i];
			co += k->total;
			if (co <= tout) delivered_u += k->usize;
			if (k->uoff < tin) ub += (k->fallback && d->alloc > k->total) ? d->alloc : k->total;
		}
		if (d->finishing && tin == d->c->n) ub += d->ref->index_size + 12;
		if (pin < delivered_u) return fail("progress-in-under", "progress_in %llu < %llu bytes of Blocks already delivered", (unsigned long long)pin, (unsigned long long)delivered_u);
		if (pout > ub) return fail("progress-out-over", "progress_out %llu > %llu (header + final sizes of the Blocks begun so far)", (unsigned long long)pout, (unsigned long long)ub);
	}
	return 0;
}

// One lzma_code call with a fresh exact-size output buffer. Returns lzma_ret, or -1 on failure, or -2 if the stream is to be abandoned now.
static int one_call(drv_t *d, lzma_action action)
{
	lzma_stream *s = d->strm;
	size_t ao;
	if (d->is_ref) ao = 1u << 16;
	else {
		uint64_t x = rnd(&d->r);
		if ((x & 15) == 0) ao = 0;
		else if ((x & 15) < 6) ao = 1 + (size_t)((x >> 8) % 16);
		else if ((x & 15) < 11) ao = 1 + (size_t)((x >> 8) % 700);
		else ao = 1 + (size_t)((x >> 8) % 20000);
		if (ao) ao *= d->c->zscale;
	}
	uint8_t *ob = malloc(ao ? ao : 1);
	if (!ob) abort();
	s->next_out = ob; s->avail_out = ao;
	size_t ai = s->avail_in;
	if (!d->is_ref) EVT(100, 0, ai, ao, action);
	if (!d->is_ref) g_in_code = 1;
	lzma_ret r = lzma_code(s, action);
	g_in_code = 0;
	size_t produced = ao - s->avail_out, consumed = ai - s->avail_in;
	if (!d->is_ref) EVT(101, 0, r, consumed, produced);
	d->res->calls++;
	size_t before = d->res->out.n;
	vec_add(&d->res->out, ob, produced);
	free(ob);
	d->in_off += consumed;
	int rc = (int)r;
	if (!d->is_ref && r == LZMA_MEM_ERROR && __atomic_load_n(&g_fault_fired, __ATOMIC_SEQ_CST) != 0) {
		// the injected allocation failure has been reported: the stream is dead, the wrapper must say so from now on
		lzma_ret r2 = lzma_code(s, action);
		if (r2 != LZMA_PROG_ERROR) return fail("after-error-ret", "lzma_code after LZMA_MEM_ERROR returned %d, expected LZMA_PROG_ERROR", (int)r2);
		return -3;
	}
	if (r != LZMA_OK && r != LZMA_STREAM_END && r != LZMA_BUF_ERROR)
		rc = fail("ret-error", "lzma_code(action=%d) returned %d after %zu input / %zu output bytes", (int)action, (int)r, d->in_off, d->res->out.n);
	int could_progress = ao > 0 && (ai > 0 || action != LZMA_RUN);
	if (rc >= 0 && r == LZMA_BUF_ERROR) {
		d->res->buferr++;
		if (could_progress || !d->prev_noprog_ok)
			rc = fail("buf-error", "LZMA_BUF_ERROR with avail_in=%zu avail_out=%zu action=%d", ai, ao, (int)action);
	}
	if (rc >= 0 && r == LZMA_OK && produced == 0 && consumed == 0) {
		d->res->noprog++;
		if (could_progress && d->c->timeout == 0 && !d->is_ref)
			rc = fail("no-progress-return", "timeout=0 but lzma_code returned LZMA_OK without progress (avail_in=%zu avail_out=%zu action=%d)", ai, ao, (int)action);
		if (could_progress && d->is_ref)
			rc = fail("ref-no-progress", "reference run returned without progress");
	}
	d->prev_noprog_ok = (produced == 0 && consumed == 0 && !could_progress);
	if (rc >= 0 && r == LZMA_STREAM_END && action == LZMA_RUN) rc = fail("stream-end-on-run", "LZMA_STREAM_END for LZMA_RUN");
	// bytes identical to the reference, incrementally
	if (rc >= 0 && d->ref) {
		if (d->res->out.n > d->ref->out.n || (produced && memcmp(d->res->out.p + before, d->ref->out.p + before, produced) != 0)) {
			size_t i = before; while (i < d->res->out.n && i < d->ref->out.n && d->res->out.p[i] == d->ref->out.p[i]) ++i;
			rc = fail("differs-from-threads1", "output differs from the threads=1 run at offset %zu (have %zu bytes, reference %zu)", i, d->res->out.n, d->ref->out.n);
		}
	}
	if (rc >= 0 && sample_progress(d, 0) != 0) rc = -1;
	if (rc >= 0 && d->calls_left > 0 && --d->calls_left == 0 && !(r == LZMA_STREAM_END && action == LZMA_FINISH)) return -2;
	return rc;
}

static int drive(drv_t *d)
{
	const stream_cfg *c = d->c; lzma_stream *s = d->strm;
	d->calls_left = d->is_ref ? -1 : (c->abort_after >= 0 ? c->abort_after : -1);
	if (!d->is_ref && c->abort_after == 0) return 1;
	if (!d->is_ref && sample_progress(d, 0) != 0) return -1;
	size_t blockfill = 0; int chain = c->flt; size_t base = 0;
	for (int i = 0; i < c->nseg; ++i) {
		const seg_t *g = &c->seg[i];
		size_t p = g->action == LZMA_RUN ? g->len : (d->is_ref ? 0 : rnd_below(&d->r, g->len + 1));
		if (!d->is_ref && (rnd(&d->r) & 3) == 0 && g->action != LZMA_RUN) p = (rnd(&d->r) & 1) ? 0 : g->len;
		size_t fed = 0;
		while (fed < p) {   // LZMA_RUN part, random input slices in exact-size buffers
			size_t rem = p - fed, sl;
			if (d->is_ref) sl = rem;
			else {
				uint64_t x = rnd(&d->r);
				size_t m = (x & 7) < 2 ? 16 : (x & 7) < 5 ? 3000 : 70000;
				sl = (1 + (size_t)((x >> 8) % m)) * d->c->zscale; if (sl > rem) sl = rem;
			}
			uint8_t *ib = malloc(sl); memcpy(ib, d->input + base + fed, sl);
			s->next_in = ib; s->avail_in = sl;
			if (!d->is_ref && (rnd(&d->r) & 31) == 0) {   // an empty-input call in between
				size_t keep = s->avail_in; s->avail_in = 0;
				int r0 = one_call(d, LZMA_RUN);
				s->avail_in = keep;
				if (r0 < 0) { free(ib); return r0 == -2 ? 1 : r0 == -3 ? 2 : -1; }
			}
			while (s->avail_in > 0) {
				int r = one_call(d, LZMA_RUN);
				if (r < 0) { free(ib); return r == -2 ? 1 : r == -3 ? 2 : -1; }
			}
			free(ib);
			fed += sl;
		}
		if (g->action != LZMA_RUN) {
			size_t rest = g->len - p;
			uint8_t *ib = malloc(rest ? rest : 1); if (rest) memcpy(ib, d->input + base + p, rest);
			s->next_in = ib; s->avail_in = rest;
			d->finishing = g->action == LZMA_FINISH;
			for (;;) {
				int r = one_call(d, g->action);
				if (r < 0) { free(ib); return r == -2 ? 1 : r == -3 ? 2 : -1; }
				if (r == LZMA_STREAM_END) break;
			}
			if (s->avail_in != 0) { free(ib); return fail("stream-end-input-left", "STREAM_END for action %d with %zu input bytes unconsumed", (int)g->action, (size_t)s->avail_in); }
			free(ib);
		}
		base += g->len;
		if (d->in_off != base) return fail("consumed-count", "consumed %zu, handed over %zu", d->in_off, base);
		// bookkeeping of the open Block
		blockfill = (blockfill + g->len) % (size_t)c->bs;
		if (g->action != LZMA_RUN) blockfill = 0;
		if (g->action == LZMA_FULL_FLUSH) {
			size_t k = d->res->nfl++;
			d->res->fl_in[k] = base; d->res->fl_out[k] = d->res->out.n;
			char w[64]; snprintf(w, sizeof w, "%s FULL_FLUSH #%zu at input %zu", d->is_ref ? "ref" : "test", k, base);
			if (d->ref && (k >= d->ref->nfl || d->ref->fl_out[k] != d->res->out.n))
				return fail("flush-out-offset", "%s: %zu output bytes, reference had %zu", w, d->res->out.n, k < d->ref->nfl ? d->ref->fl_out[k] : (size_t)0);
			if (stream_decode_check(d->res->out.p, d->res->out.n, d->input, base, 0, w) != 0) return -1;
			// the flushed prefix must consist of complete Blocks only
			blk_t *tmp = calloc(MAXBLK, sizeof(blk_t)); size_t nb, end, isz;
			int rc = walk_blocks(d->res->out.p, d->res->out.n, 0, c->check, d->input, base, tmp, &nb, &end, &isz, w);
			free(tmp);
			if (rc) return -1;
			if (end != d->res->out.n && !(base == 0 && d->res->out.n <= 12)) return fail("flush-partial-block", "%s: complete Blocks end at %zu but %zu bytes were output", w, end, d->res->out.n);
		}
		if (g->action == LZMA_FULL_BARRIER) d->res->bar_in[d->res->nbar++] = base;
		if (g->upd >= 0) {
			chain_t ch; build_chain(g->upd, &ch);
			lzma_ret r = lzma_filters_update(s, ch.f);
			if (!d->is_ref) EVT(106, 0, g->upd, r, 0);
			lzma_ret exp = blockfill > 0 ? LZMA_PROG_ERROR : LZMA_OK;
			if (g->action == LZMA_FINISH) exp = LZMA_PROG_ERROR;
			if (r != exp) return fail("filters-update-ret", "lzma_filters_update returned %d, expected %d (open Block holds %zu bytes)", (int)r, (int)exp, blockfill);
			if (r == LZMA_OK) { chain = g->upd; d->res->upd_ok++; } else d->res->upd_rej++;
		}
	}
	(void)chain;
	if (!d->is_ref && __atomic_load_n(&g_fault_fired, __ATOMIC_SEQ_CST) != 0)
		return fail("fault-swallowed", "an allocation failure (kind %d) was injected but the stream finished with LZMA_STREAM_END", g_fault_fired);
	d->res->completed = 1;
	if (sample_progress(d, 1) != 0) return -1;
	return 0;
}

static lzma_ret init_mt(lzma_stream *s, const stream_cfg *c, unsigned threads, unsigned timeout, chain_t *ch)
{
	build_chain(c->flt, ch);
	lzma_mt mt; memset(&mt, 0, sizeof mt);
	mt.flags = 0; mt.threads = threads; mt.block_size = c->bs; mt.timeout = timeout;
	mt.preset = ch->preset; mt.filters = ch->use_preset ? NULL : ch->f; mt.check = (lzma_check)c->check;
	return lzma_stream_encoder_mt(s, &mt);
}

// ---------------------------------------------------------------------------------------------------------------
// watchdog
// ---------------------------------------------------------------------------------------------------------------
static long long g_deadline = 0;      // accessed with __atomic builtins only
static unsigned long long g_steps, g_switches, g_sto, g_spur, g_hash;
static char g_cur_id[64] = "-";
int __real_pthread_create(pthread_t *, const pthread_attr_t *, void *(*)(void *), void *);

static void *watchdog(void *arg)
{
	(void)arg;
	for (;;) {
		usleep(200000);
		long long dl = __atomic_load_n(&g_deadline, __ATOMIC_ACQUIRE);
		if (dl != 0 && (long long)time(NULL) > dl) {
			char b[160]; int n = snprintf(b, sizeof b, "DEADLOCK id=%s code=watchdog detail=no_completion_within_the_time_limit\n", g_cur_id);
			fflush(stdout);
			if (write(1, b, (size_t)n) < 0) {}
			_exit(97);
		}
	}
	return NULL;
}

// ---------------------------------------------------------------------------------------------------------------
int main(void)
{
	setvbuf(stdout, NULL, _IOLBF, 0);
	pthread_t wt;
	g_main_thread = pthread_self();
	__real_pthread_create(&wt, NULL, watchdog, NULL);
	hp_line l = {0};
	while (hp_next(&l)) {
		if (strcmp(l.tok[0], "scn") != 0 || l.ntok < 3) { printf("bad-op\n"); continue; }
		snprintf(g_cur_id, sizeof g_cur_id, "%s", l.tok[1]);
		stream_cfg *cfg = calloc(MAXSTREAM, sizeof *cfg); int ns = 0, bad = 0, dump = 0, pmode = 0, np = 0; unsigned pusec = 300; uint64_t pseed = 1; long wd = 120;
		unsigned long long sc[8] = { 0, 1, 0, 3, 2000, 32, 4, 0 }; int use_sched = 0;   // mode seed sticky pct_depth pct_steps p_timeout p_spurious
#ifdef C08_EVENTS
		c08_ev_enabled = 0;
#endif
		for (int i = 2; i < l.ntok; ++i) {
			if (!strncmp(l.tok[i], "S:", 2)) { if (ns >= MAXSTREAM || parse_stream(l.tok[i], &cfg[ns++]) != 0) bad = 1; }
			else if (!strncmp(l.tok[i], "pert=", 5)) { unsigned long long a = 0, b = 1, c = 300; sscanf(l.tok[i] + 5, "%llu:%llu:%llu", &a, &b, &c); pmode = (int)a; pseed = b; pusec = (unsigned)c; }
			else if (!strncmp(l.tok[i], "sched=", 6)) { use_sched = 1; sscanf(l.tok[i] + 6, "%llu:%llu:%llu:%llu:%llu:%llu:%llu", &sc[0], &sc[1], &sc[2], &sc[3], &sc[4], &sc[5], &sc[6]); }
			else if (!strncmp(l.tok[i], "dump=", 5)) dump = atoi(l.tok[i] + 5);
			else if (!strncmp(l.tok[i], "np=", 3)) np = atoi(l.tok[i] + 3);
			else if (!strncmp(l.tok[i], "ev=", 3)) {
#ifdef C08_EVENTS
				c08_ev_enabled = atoi(l.tok[i] + 3);
#endif
			}
			else if (!strncmp(l.tok[i], "wd=", 3)) wd = atol(l.tok[i] + 3);
			else bad = 1;
		}
		if (bad || ns == 0) { printf("bad-op\n"); free(cfg); continue; }
		g_failed = 0; g_fail[0] = 0; g_noprogress_checks = np;
		__atomic_store_n(&g_deadline, (long long)time(NULL) + wd, __ATOMIC_RELEASE);
		uint8_t *input[MAXSTREAM] = {0};
		stream_res *ref = calloc(MAXSTREAM, sizeof *ref), *res = calloc(MAXSTREAM, sizeof *res);
		int failed_stream = -1;
		// 1. reference runs (threads=1, timeout=0), fully validated
		C08_PERT_SET(0, 1, 0);
		for (int i = 0; i < ns && !g_failed; ++i) {
			input[i] = gen_input(&cfg[i]);
			lzma_stream rs = LZMA_STREAM_INIT; chain_t ch;
			lzma_ret r = init_mt(&rs, &cfg[i], 1, 0, &ch);
			if (r != LZMA_OK) { fail("ref-init", "lzma_stream_encoder_mt(threads=1) returned %d", (int)r); failed_stream = i; break; }
			drv_t d; memset(&d, 0, sizeof d);
			d.strm = &rs; d.c = &cfg[i]; d.input = input[i]; d.is_ref = 1; d.res = &ref[i]; d.ref = NULL;
			d.alloc = lzma_block_buffer_bound((size_t)cfg[i].bs);
			int rc = drive(&d);
			lzma_end(&rs);
			if (rc == 0) rc = validate_complete(&cfg[i], input[i], &ref[i], "threads=1 run");
			if (rc != 0) { failed_stream = i; break; }
		}
		// 2. the test sequence on one handle
		unsigned long faults = 0, memerr = 0;
		unsigned long tot_blocks = 0, tot_fb = 0, tot_calls = 0, tot_noprog = 0, tot_fl = 0, tot_bar = 0, aborted = 0, tot_samples = 0, upd_ok = 0, upd_rej = 0, tot_in = 0, tot_out = 0, buferr = 0;
		if (!g_failed) {
			lzma_stream ts = LZMA_STREAM_INIT;
			ts.allocator = &g_allocator;
			g_real_sched = 1;
			C08_PERT_SET(pmode, pseed, pusec);
#ifdef C08_USE_VSCHED
			sched_config scfg; memset(&scfg, 0, sizeof scfg);
			scfg.mode = use_sched ? (sched_mode)sc[0] : SCHED_REAL; scfg.seed = sc[1]; scfg.sticky = (unsigned)sc[2]; scfg.pct_depth = (unsigned)sc[3];
			scfg.pct_steps = sc[4]; scfg.p_timeout = (unsigned)sc[5]; scfg.p_spurious = (unsigned)sc[6]; scfg.max_steps = 20000000; scfg.jitter = 0;
			scfg.log_path = getenv("C08_SCHED_LOG");
			sched_begin(&scfg);
			g_real_sched = !use_sched;
#else
			(void)use_sched; (void)sc;
#endif
#ifdef C08_EVENTS
			c08_ev_begin();
#endif
			for (int i = 0; i < ns && !g_failed; ++i) {
				chain_t ch;
				EVT(102, cfg[i].flt, cfg[i].threads, cfg[i].bs, cfg[i].timeout);
				lzma_ret r = init_mt(&ts, &cfg[i], cfg[i].threads, cfg[i].timeout, &ch);
				EVT(104, 0, r, lzma_block_buffer_bound((size_t)cfg[i].bs), 0);
				if (r != LZMA_OK) { fail("init", "lzma_stream_encoder_mt returned %d", (int)r); failed_stream = i; break; }
				drv_t d; memset(&d, 0, sizeof d);
				d.strm = &ts; d.c = &cfg[i]; d.input = input[i]; d.is_ref = 0; d.res = &res[i]; d.ref = &ref[i];
				d.r.s = cfg[i].sseed * 0x9E3779B97F4A7C15ull + 7;
				d.alloc = lzma_block_buffer_bound((size_t)cfg[i].bs);
				fault_arm(&cfg[i]);
				int rc = drive(&d);
				fault_disarm();
				if (rc < 0) { failed_stream = i; break; }
				if (__atomic_load_n(&g_fault_fired, __ATOMIC_SEQ_CST) != 0) faults++;
				if (rc == 1) aborted++;
				else if (rc == 2) memerr++;
				else {
					if (res[i].out.n != ref[i].out.n) { fail("differs-from-threads1", "stream finished with %zu bytes, reference has %zu", res[i].out.n, ref[i].out.n); failed_stream = i; break; }
					if (res[i].nbar != ref[i].nbar || res[i].nfl != ref[i].nfl) { fail("flush-count", "internal"); failed_stream = i; break; }
				}
				tot_blocks += ref[i].nblk; tot_calls += res[i].calls; tot_noprog += res[i].noprog; tot_fl += res[i].nfl; tot_bar += res[i].nbar;
				tot_samples += res[i].samples; upd_ok += res[i].upd_ok; upd_rej += res[i].upd_rej; tot_in += ts.total_in; tot_out += res[i].out.n; buferr += res[i].buferr;
				for (size_t j = 0; j < ref[i].nblk; ++j) tot_fb += ref[i].blk[j].fallback;
			}
			EVT(103, 0, 0, 0, 0);
			lzma_end(&ts);
			EVT(105, 0, 0, 0, 0);
			if (!g_failed && __atomic_load_n(&g_live_allocs, __ATOMIC_SEQ_CST) != 0) {
				fail("alloc-balance", "%ld allocations of the encoder are still live after lzma_end", __atomic_load_n(&g_live_allocs, __ATOMIC_SEQ_CST));
				failed_stream = ns - 1;
			}
#ifdef C08_USE_VSCHED
			sched_stats sst; sched_end(&sst);
			g_steps = sst.steps; g_switches = sst.switches; g_sto = sst.timeouts; g_spur = sst.spurious; g_hash = sst.trace_hash;
#endif
#ifdef C08_EVENTS
			c08_ev_end();
#endif
			C08_PERT_SET(0, 1, 0);
		}
		__atomic_store_n(&g_deadline, 0LL, __ATOMIC_RELEASE);
		if (g_failed) printf("FAIL id=%s stream=%d %s\n", l.tok[1], failed_stream, g_fail);
		else {
			printf("ok id=%s streams=%d aborted=%lu faults=%lu memerr=%lu blocks=%lu fallback=%lu calls=%lu noprog=%lu buferr=%lu flush=%lu barrier=%lu samples=%lu upd_ok=%lu upd_rej=%lu in=%lu out=%lu",
				l.tok[1], ns, aborted, faults, memerr, tot_blocks, tot_fb, tot_calls, tot_noprog, buferr, tot_fl, tot_bar, tot_samples, upd_ok, upd_rej, tot_in, tot_out);
#ifdef C08_USE_VSCHED
			printf(" steps=%llu switches=%llu sched_timeouts=%llu spurious=%llu hash=%016llx", g_steps, g_switches, g_sto, g_spur, g_hash);
#endif
			if (dump) for (int i = 0; i < ns; ++i) if (res[i].completed) { printf(" din%d=", i); hp_put_hex(input[i], cfg[i].n); printf(" dout%d=", i); hp_put_hex(res[i].out.p, res[i].out.n); }
#ifdef C08_EVENTS
			c08_ev_print();
#endif
			printf("\n");
		}
		for (int i = 0; i < ns; ++i) { free(input[i]); vec_free(&ref[i].out); vec_free(&res[i].out); free(ref[i].blk); free(res[i].blk); }
		free(ref); free(res); free(cfg);
	}
	hp_done(&l);
	return 0;
}
