// C09: LD_PRELOAD heap counter for the real `xz` tool. Counts malloc_usable_size() of every live heap block, remembers the
// peak and writes "peak=<bytes> live=<bytes> allocs=<n>" to the file named by $C09_PEAK_FILE when the process exits.
// No source change in /repo is needed (rule 7 of CONVENTIONS.md).
#define _GNU_SOURCE
#include <dlfcn.h>
#include <malloc.h>
#include <stdatomic.h>
#include <stddef.h>
#include <stdint.h>
#include <stdio.h>
#include <stdlib.h>
#include <string.h>
#include <unistd.h>
#include <fcntl.h>

static void *(*real_malloc)(size_t);
static void *(*real_calloc)(size_t, size_t);
static void *(*real_realloc)(void *, size_t);
static void (*real_free)(void *);
static int (*real_posix_memalign)(void **, size_t, size_t);
static void *(*real_aligned_alloc)(size_t, size_t);

static _Atomic uint64_t live, peak, nalloc;
static char boot[65536];
static size_t boot_used;
static int resolving;

static void note_alloc(void *p)
{
	if (p == NULL) return;
	uint64_t n = malloc_usable_size(p);
	uint64_t now = atomic_fetch_add(&live, n) + n;
	atomic_fetch_add(&nalloc, 1);
	uint64_t old = atomic_load(&peak);
	while (now > old && !atomic_compare_exchange_weak(&peak, &old, now)) { }
}

static void note_free(void *p)
{
	if (p == NULL) return;
	atomic_fetch_sub(&live, malloc_usable_size(p));
}

static int is_boot(void *p) { return (char *)p >= boot && (char *)p < boot + sizeof(boot); }

static void resolve(void)
{
	if (real_malloc != NULL || resolving) return;
	resolving = 1;
	real_malloc = dlsym(RTLD_NEXT, "malloc");
	real_calloc = dlsym(RTLD_NEXT, "calloc");
	real_realloc = dlsym(RTLD_NEXT, "realloc");
	real_free = dlsym(RTLD_NEXT, "free");
	real_posix_memalign = dlsym(RTLD_NEXT, "posix_memalign");
	real_aligned_alloc = dlsym(RTLD_NEXT, "aligned_alloc");
	resolving = 0;
}

static void *boot_alloc(size_t n)
{
	n = (n + 15) & ~(size_t)15;
	if (boot_used + n > sizeof(boot)) _exit(97);
	void *p = boot + boot_used;
	boot_used += n;
	return p;
}

void *malloc(size_t n)
{
	resolve();
	if (real_malloc == NULL) return boot_alloc(n);
	void *p = real_malloc(n);
	note_alloc(p);
	return p;
}

void *calloc(size_t a, size_t b)
{
	resolve();
	if (real_calloc == NULL) { void *p = boot_alloc(a * b); memset(p, 0, a * b); return p; }
	void *p = real_calloc(a, b);
	note_alloc(p);
	return p;
}

void *realloc(void *q, size_t n)
{
	resolve();
	if (is_boot(q)) { void *p = malloc(n); if (p) memcpy(p, q, n); return p; }
	note_free(q);
	void *p = real_realloc(q, n);
	if (p == NULL && n != 0) note_alloc(q); else note_alloc(p);
	return p;
}

void free(void *p)
{
	if (p == NULL || is_boot(p)) return;
	resolve();
	note_free(p);
	real_free(p);
}

int posix_memalign(void **out, size_t al, size_t n)
{
	resolve();
	int r = real_posix_memalign(out, al, n);
	if (r == 0) note_alloc(*out);
	return r;
}

void *aligned_alloc(size_t al, size_t n)
{
	resolve();
	void *p = real_aligned_alloc(al, n);
	note_alloc(p);
	return p;
}

// Worker threads: every pthread_create() of the process is counted (xz itself creates none; liblzma's threaded coders create
// one per worker, lazily).
#include <pthread.h>
static _Atomic uint64_t nthreads;
static int (*real_pthread_create)(pthread_t *, const pthread_attr_t *, void *(*)(void *), void *);

int pthread_create(pthread_t *t, const pthread_attr_t *a, void *(*fn)(void *), void *arg)
{
	if (real_pthread_create == NULL)
		real_pthread_create = dlsym(RTLD_NEXT, "pthread_create");
	int r = real_pthread_create(t, a, fn, arg);
	if (r == 0)
		atomic_fetch_add(&nthreads, 1);
	return r;
}

static int report_fd = -1;

// The file is opened in the constructor: xz's sandbox (Landlock) forbids creating files later on.
static void report(void)
{
	if (report_fd < 0) return;
	char buf[160];
	int n = snprintf(buf, sizeof(buf), "peak=%llu live=%llu allocs=%llu threads=%llu\n", (unsigned long long)atomic_load(&peak),
			(unsigned long long)atomic_load(&live), (unsigned long long)atomic_load(&nalloc),
			(unsigned long long)atomic_load(&nthreads));
	if (pwrite(report_fd, buf, (size_t)n, 0) < 0) { }
}

__attribute__((constructor)) static void init(void)
{
	resolve();
	const char *path = getenv("C09_PEAK_FILE");
	if (path != NULL)
		report_fd = open(path, O_WRONLY | O_CREAT | O_TRUNC | O_CLOEXEC, 0644);
	atexit(report);
}
