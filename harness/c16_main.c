// C16 harness: the REAL .lzma / .lz / auto / .xz decoders of liblzma through the public API, one op per line.
//
//   dec <kind> <flags> <memlimit> <fin> <inchunks> <outchunk> <hex>
//        kind     alone | lzip | auto | xz | xzmt
//        flags    decimal LZMA_* decoder flags (ignored by alone)
//        memlimit decimal
//        fin      1 = the last input chunk is given with LZMA_FINISH, 0 = LZMA_RUN only
//        inchunks "w" (whole buffer) or a comma list of chunk sizes (the rest is one final chunk)
//        outchunk output space offered per refill (0 = 65536)
//     -> "<ret> <total_in> <events> <memusage if MEMLIMIT_ERROR else 0> <outhex>"
//        ret      final lzma_ret of lzma_code (LZMA_BUF_ERROR = the decoder wants more input)
//        events   comma list of the non-final informational returns (2,3,4) in order, or "-"
//   redec <pkind> <pflags> <pmode> <phex> <kind> <flags> <memlimit> <fin> <inchunks> <outchunk> <hex>
//     -> same as dec, but on a lzma_stream that first ran decoder <pkind> on <phex> and was re-initialised without lzma_end()
//   raw <lc> <lp> <pb> <dict> <usize|u> <allow_eopm> <hex>
//     -> "<ret> <consumed> <outhex>"   lzma_raw_decoder(LZMA1EXT) on the whole buffer with LZMA_FINISH
//   enc_alone <lc> <lp> <pb> <dict> <hex>            -> .lzma file from lzma_alone_encoder
//   enc_raw <lc> <lp> <pb> <dict> <mode> <hex>       -> raw LZMA1 stream; mode 0 = LZMA1 (EOPM),
//                                                        1 = LZMA1EXT known size no EOPM, 2 = LZMA1EXT known size + EOPM
//   enc_xz <check> <preset> <hex>                     -> one .xz Stream (lzma_easy_buffer_encode)
#include "hproto.h"
#include <lzma.h>
#include "c03_alloc.h"   // requests >= 64 MiB (LZ dictionaries declared up to 4 GiB - 1) come from mmap(MAP_NORESERVE)

static void put_bytes(const uint8_t *p, size_t n) { hp_put_hex(p, n); }

typedef struct { uint8_t *p; size_t n, cap; } buf;
static void buf_add(buf *b, const uint8_t *p, size_t n)
{
	if (n == 0) return;
	if (b->n + n > b->cap) {
		b->cap = (b->n + n) * 2 + 64;
		b->p = realloc(b->p, b->cap);
		if (!b->p) abort();
	}
	memcpy(b->p + b->n, p, n);
	b->n += n;
}

static void opt_lzma(lzma_options_lzma *o, char **t)
{
	if (lzma_lzma_preset(o, 0)) abort();
	o->lc = (uint32_t)hp_u64(t[0]);
	o->lp = (uint32_t)hp_u64(t[1]);
	o->pb = (uint32_t)hp_u64(t[2]);
	o->dict_size = (uint32_t)hp_u64(t[3]);
	o->preset_dict = NULL;
	o->preset_dict_size = 0;
}

// Drives strm over `in` according to the chunking; returns the final code.
static lzma_ret drive(lzma_stream *strm, const uint8_t *in, size_t n, const char *chunks, bool fin, size_t outchunk,
		buf *out, buf *events)
{
	if (outchunk == 0) outchunk = 65536;
	uint8_t *ob = malloc(outchunk);
	if (!ob) abort();
	size_t pos = 0;
	const char *c = chunks;
	bool whole = (chunks[0] == 'w');
	lzma_ret ret = LZMA_OK;
	strm->next_out = ob;
	strm->avail_out = outchunk;
	for (;;) {
		size_t len;
		bool last;
		if (whole || c == NULL || *c == '\0') {
			len = n - pos;
			last = true;
		} else {
			len = (size_t)strtoull(c, (char **)&c, 10);
			if (*c == ',') ++c;
			if (len >= n - pos) { len = n - pos; last = true; }
			else last = false;
			if (len == 0 && !last)
				continue; // an empty non-final chunk would only arm LZMA_BUF_ERROR; not part of this property
		}
		// exactly sized copy of the chunk so that ASan sees any overread
		uint8_t *ib = malloc(len ? len : 1);
		if (!ib) abort();
		memcpy(ib, in + pos, len);
		pos += len;
		strm->next_in = ib;
		strm->avail_in = len;
		const lzma_action act = (last && fin) ? LZMA_FINISH : LZMA_RUN;
		bool done = false;
		for (;;) {
			if (strm->avail_out == 0) {
				buf_add(out, ob, outchunk);
				strm->next_out = ob;
				strm->avail_out = outchunk;
			}
			ret = lzma_code(strm, act);
			if (ret == LZMA_NO_CHECK || ret == LZMA_UNSUPPORTED_CHECK || ret == LZMA_GET_CHECK) {
				uint8_t e = (uint8_t)ret;
				buf_add(events, &e, 1);
				continue;
			}
			if (ret != LZMA_OK) { done = true; break; }
			if (!last && strm->avail_in == 0 && strm->avail_out > 0)
				break; // next input chunk
		}
		free(ib);
		if (done) break;
	}
	buf_add(out, ob, outchunk - strm->avail_out);
	free(ob);
	return ret;
}

// (Re-)initialises strm as the named decoder. Returns LZMA_PROG_ERROR + 100 for an unknown kind.
static lzma_ret init_kind(lzma_stream *strm, const char *kind, uint32_t flags, uint64_t memlimit)
{
	if (!strcmp(kind, "alone")) return lzma_alone_decoder(strm, memlimit);
	if (!strcmp(kind, "lzip")) return lzma_lzip_decoder(strm, memlimit, flags);
	if (!strcmp(kind, "auto")) return lzma_auto_decoder(strm, memlimit, flags);
	if (!strcmp(kind, "xz")) return lzma_stream_decoder(strm, memlimit, flags);
	if (!strcmp(kind, "xzmt")) {
		lzma_mt mt = { .flags = flags, .threads = 2, .timeout = 0,
				.memlimit_threading = memlimit, .memlimit_stop = memlimit };
		return lzma_stream_decoder_mt(strm, &mt);
	}
	return (lzma_ret)(LZMA_PROG_ERROR + 100);
}

static void print_events(const buf *ev)
{
	if (ev->n == 0) { putchar('-'); return; }
	for (size_t i = 0; i < ev->n; ++i) printf("%s%u", i ? "," : "", ev->p[i]);
}

int main(void)
{
	hp_line l = {0};
	while (hp_next(&l)) {
		const char *op = l.tok[0];
		if ((!strcmp(op, "dec") && l.ntok == 8) || (!strcmp(op, "redec") && l.ntok == 12)) {
			// redec: the decoder runs on a REUSED lzma_stream: a first decoder (pkind/pflags) is initialised on the handle,
			// fed <phex> (pmode 0: one lzma_code(LZMA_RUN) call and abandoned where it stands; 1: driven to its final code
			// with LZMA_FINISH), and then, without lzma_end(), the handle is re-initialised with the decoder under test.
			// The result must be exactly what a fresh handle gives.
			const bool reuse = op[0] == 'r';
			char **t = reuse ? &l.tok[5] : &l.tok[1];
			const char *kind = t[0];
			uint32_t flags = (uint32_t)hp_u64(t[1]);
			uint64_t memlimit = hp_u64(t[2]);
			bool fin = hp_u64(t[3]) != 0;
			size_t outchunk = (size_t)hp_u64(t[5]);
			size_t n; uint8_t *in = hp_hex(t[6], &n);
			lzma_stream strm = LZMA_STREAM_INIT;
			if (strcmp(kind, "xzmt") != 0 && !(reuse && !strcmp(l.tok[1], "xzmt")))
				strm.allocator = &c03_allocator;
			lzma_ret r;
			if (reuse) {
				r = init_kind(&strm, l.tok[1], (uint32_t)hp_u64(l.tok[2]), UINT64_C(100) << 20);
				if (r != LZMA_OK) { printf("prime-init-%u 0 - 0 -\n", (unsigned)r); lzma_end(&strm); free(in); continue; }
				size_t pn; uint8_t *pin = hp_hex(l.tok[4], &pn);
				buf pout = {0}, pev = {0};
				if (hp_u64(l.tok[3]) != 0) {
					(void)drive(&strm, pin, pn, "w", true, 0, &pout, &pev);
				} else {
					uint8_t *ob = malloc(65536);
					strm.next_in = pin; strm.avail_in = pn;
					strm.next_out = ob; strm.avail_out = 65536;
					(void)lzma_code(&strm, LZMA_RUN);
					free(ob);
				}
				free(pout.p); free(pev.p); free(pin);
				strm.next_in = NULL; strm.avail_in = 0; strm.next_out = NULL; strm.avail_out = 0;
			}
			r = init_kind(&strm, kind, flags, memlimit);
			if (r == LZMA_PROG_ERROR + 100) { printf("bad-op\n"); lzma_end(&strm); free(in); continue; }
			if (r != LZMA_OK) {
				printf("init-%u 0 - 0 -\n", (unsigned)r);
				lzma_end(&strm);
				free(in);
				continue;
			}
			buf out = {0}, ev = {0};
			r = drive(&strm, in, n, t[4], fin, outchunk, &out, &ev);
			printf("%u %" PRIu64 " ", (unsigned)r, strm.total_in);
			print_events(&ev);
			printf(" %" PRIu64 " ", r == LZMA_MEMLIMIT_ERROR ? lzma_memusage(&strm) : UINT64_C(0));
			put_bytes(out.p, out.n);
			putchar('\n');
			lzma_end(&strm);
			free(out.p); free(ev.p); free(in);
		} else if (!strcmp(op, "raw") && l.ntok == 8) {
			lzma_options_lzma o;
			opt_lzma(&o, &l.tok[1]);
			uint64_t us = (l.tok[5][0] == 'u') ? UINT64_MAX : hp_u64(l.tok[5]);
			o.ext_flags = hp_u64(l.tok[6]) ? LZMA_LZMA1EXT_ALLOW_EOPM : 0;
			o.ext_size_low = (uint32_t)us;
			o.ext_size_high = (uint32_t)(us >> 32);
			lzma_filter f[2] = { { .id = LZMA_FILTER_LZMA1EXT, .options = &o }, { .id = LZMA_VLI_UNKNOWN } };
			size_t n; uint8_t *in = hp_hex(l.tok[7], &n);
			lzma_stream strm = LZMA_STREAM_INIT;
			strm.allocator = &c03_allocator;
			lzma_ret r = lzma_raw_decoder(&strm, f);
			if (r != LZMA_OK) { printf("init-%u 0 -\n", (unsigned)r); lzma_end(&strm); free(in); continue; }
			buf out = {0}, ev = {0};
			r = drive(&strm, in, n, "w", true, 0, &out, &ev);
			printf("%u %" PRIu64 " ", (unsigned)r, strm.total_in);
			put_bytes(out.p, out.n);
			putchar('\n');
			lzma_end(&strm);
			free(out.p); free(ev.p); free(in);
		} else if ((!strcmp(op, "enc_alone") && l.ntok == 6) || (!strcmp(op, "enc_raw") && l.ntok == 7)) {
			bool alone = op[4] == 'a';
			lzma_options_lzma o;
			opt_lzma(&o, &l.tok[1]);
			size_t n; uint8_t *in = hp_hex(l.tok[alone ? 5 : 6], &n);
			lzma_stream strm = LZMA_STREAM_INIT;
			lzma_ret r;
			if (alone) {
				r = lzma_alone_encoder(&strm, &o);
			} else {
				int mode = (int)hp_u64(l.tok[5]);
				lzma_filter f[2] = { { .id = mode ? LZMA_FILTER_LZMA1EXT : LZMA_FILTER_LZMA1, .options = &o },
						{ .id = LZMA_VLI_UNKNOWN } };
				o.ext_flags = mode == 2 ? LZMA_LZMA1EXT_ALLOW_EOPM : 0;
				o.ext_size_low = (uint32_t)n;
				o.ext_size_high = 0;
				r = lzma_raw_encoder(&strm, f);
			}
			if (r != LZMA_OK) { printf("init-%u\n", (unsigned)r); lzma_end(&strm); free(in); continue; }
			size_t cap = n + n / 2 + 4096;
			uint8_t *ob = malloc(cap);
			strm.next_in = in; strm.avail_in = n;
			strm.next_out = ob; strm.avail_out = cap;
			do r = lzma_code(&strm, LZMA_FINISH); while (r == LZMA_OK);
			if (r != LZMA_STREAM_END) printf("err-%u\n", (unsigned)r);
			else { put_bytes(ob, cap - strm.avail_out); putchar('\n'); }
			lzma_end(&strm);
			free(ob); free(in);
		} else if (!strcmp(op, "enc_xz") && l.ntok == 4) {
			size_t n; uint8_t *in = hp_hex(l.tok[3], &n);
			size_t cap = lzma_stream_buffer_bound(n) + 64, pos = 0;
			uint8_t *ob = malloc(cap);
			lzma_ret r = lzma_easy_buffer_encode((uint32_t)hp_u64(l.tok[2]), (lzma_check)hp_u64(l.tok[1]), NULL,
					in, n, ob, &pos, cap);
			if (r != LZMA_OK) printf("err-%u\n", (unsigned)r);
			else { put_bytes(ob, pos); putchar('\n'); }
			free(ob); free(in);
		} else {
			printf("bad-op\n");
		}
		fflush(stdout);
	}
	hp_done(&l);
	return 0;
}
