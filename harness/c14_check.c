// C14 harness TU 3: the integrity-check dispatch (check.c) and the internal SHA-256 (sha256.c) of the source tree,
// compiled into the harness with the build's own flags. lzma_crc32()/lzma_crc64() resolve to TU 1 / TU 2.
#include "check.c"
#ifdef HAVE_INTERNAL_SHA256
#	include "sha256.c"
#endif
