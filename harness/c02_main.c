// C02 harness main: line protocol, one result line per op (see c02_func.c and c02_rel.c for the ops).
#include "hproto.h"

bool c02_func(hp_line *l);
bool c02_rel(hp_line *l);

int main(void)
{
	hp_line l = {0};
	while (hp_next(&l)) {
		if (!c02_func(&l) && !c02_rel(&l))
			printf("bad-op\n");
		fflush(stdout);
	}
	hp_done(&l);
	return 0;
}
