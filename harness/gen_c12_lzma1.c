// Stage G probe for C12 (part 5): lzma_encode() of lzma_encoder.c (the LZMA1 entry point) on mf->action = SYNC_FLUSH.
#include "lzma_encoder.c"
#include <stdio.h>

void gen_lzma1(void)
{
	lzma_mf mf;
	memset(&mf, 0, sizeof(mf));
	mf.action = LZMA_SYNC_FLUSH;
	uint8_t out[8];
	size_t out_pos = 0;
	// the coder is not touched before the action test; a NULL coder would crash if that ever changed
	const lzma_ret r = lzma_encode(NULL, &mf, out, &out_pos, sizeof(out));
	printf("/-- lzma_encode() (LZMA1) when the LZ layer reports mf->action = LZMA_SYNC_FLUSH: (return value, bytes written). -/\n");
	printf("def lzma1SyncFlush : Nat × Nat := (%u, %zu)\n\n", (unsigned)r, out_pos);
}
