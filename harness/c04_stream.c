// C04 observation engine: every lzma_stream based decoding entry point driven through lzma_code() under a seeded
// slicing of input and output. Checks made here (each failure = c04_bad = violation):
//   * every return value of the init function and of lzma_code is in the documented set of that function
//     (flag-conditional codes only with their flag, LZMA_MEM_ERROR only after a refused allocation, never LZMA_PROG_ERROR,
//     never an internal code);
//   * next_in/avail_in/next_out/avail_out/total_in/total_out move consistently and stay inside the buffers handed in
//     (the buffers are exactly sized heap blocks, so ASan traps any access outside them);
//   * no-progress rule: LZMA_OK without consuming or producing anything never happens twice in a row (the second call
//     must be LZMA_BUF_ERROR or final), except for the threaded decoder with a timeout, which is bounded by the watchdog;
//   * file-info decoder: every seek target is <= the declared file size, the number of seeks is bounded by the file size;
//   * after the final code: LZMA_STREAM_END is sticky, a fatal error turns into LZMA_PROG_ERROR, lzma_end frees everything.
#include "c04.h"

// ---------------------------------------------------------------------------------------------------------------
// raw filter chains
// ---------------------------------------------------------------------------------------------------------------
static void lzopt(lzma_options_lzma *o, uint32_t dict, uint32_t lc, uint32_t lp, uint32_t pb)
{
	memset(o, 0, sizeof(*o));
	o->dict_size = dict;
	o->lc = lc;
	o->lp = lp;
	o->pb = pb;
	o->ext_size_low = UINT32_MAX;
	o->ext_size_high = UINT32_MAX;
	// encoder-side fields (used by c04_gen.c only)
	o->mode = LZMA_MODE_FAST;
	o->nice_len = 32;
	o->mf = LZMA_MF_HC4;
	o->depth = 0;
}

bool c04_chain(unsigned v, lzma_filter *f, c04_chain_store *st)
{
	memset(st, 0, sizeof(*st));
	for (int i = 0; i < 64; ++i)
		st->preset[i] = (uint8_t)("The quick brown fox jumps over the lazy dog. 0123456789 abcdef\n\n\n"[i]);
	st->delta.type = LZMA_DELTA_TYPE_BYTE;
	st->delta.dist = 1;
	int n = 0;
#define LAST2(dict) do { lzopt(&st->lzma, dict, 3, 0, 2); f[n].id = LZMA_FILTER_LZMA2; f[n++].options = &st->lzma; } while (0)
#define BCJ(idv) do { f[n].id = idv; f[n++].options = NULL; } while (0)
	switch (v) {
	case 0: LAST2(4096); break;
	case 1: LAST2(1u << 16); break;
	case 2: LAST2(1u << 20); break;
	case 3: lzopt(&st->lzma, 4096, 3, 0, 2); f[n].id = LZMA_FILTER_LZMA1; f[n++].options = &st->lzma; break;
	case 4: lzopt(&st->lzma, 4096, 0, 4, 0); f[n].id = LZMA_FILTER_LZMA1; f[n++].options = &st->lzma; break;
	case 5: lzopt(&st->lzma, 65536, 4, 0, 4); f[n].id = LZMA_FILTER_LZMA1; f[n++].options = &st->lzma; break;
	case 6: lzopt(&st->lzma, 1, 2, 2, 1); f[n].id = LZMA_FILTER_LZMA1; f[n++].options = &st->lzma; break;
	case 7: lzopt(&st->lzma, 4096, 3, 0, 2); st->lzma.ext_flags = LZMA_LZMA1EXT_ALLOW_EOPM;
		f[n].id = LZMA_FILTER_LZMA1EXT; f[n++].options = &st->lzma; break;
	case 8: case 9: lzopt(&st->lzma, 4096, 3, 0, 2); st->lzma.ext_flags = v == 8 ? LZMA_LZMA1EXT_ALLOW_EOPM : 0;
		f[n].id = LZMA_FILTER_LZMA1EXT; f[n++].options = &st->lzma; break;   // ext_size set by the caller
	case 10: f[n].id = LZMA_FILTER_DELTA; f[n++].options = &st->delta; LAST2(4096); break;
	case 11: st->delta.dist = 256; f[n].id = LZMA_FILTER_DELTA; f[n++].options = &st->delta; LAST2(4096); break;
	case 12: BCJ(LZMA_FILTER_X86); LAST2(4096); break;
	case 13: st->bcj.start_offset = 0x1000; f[n].id = LZMA_FILTER_X86; f[n++].options = &st->bcj; LAST2(4096); break;
	case 14: BCJ(LZMA_FILTER_POWERPC); LAST2(4096); break;
	case 15: BCJ(LZMA_FILTER_IA64); LAST2(4096); break;
	case 16: BCJ(LZMA_FILTER_ARM); LAST2(4096); break;
	case 17: BCJ(LZMA_FILTER_ARMTHUMB); LAST2(4096); break;
	case 18: BCJ(LZMA_FILTER_SPARC); LAST2(4096); break;
	case 19: BCJ(LZMA_FILTER_ARM64); LAST2(4096); break;
	case 20: BCJ(LZMA_FILTER_RISCV); LAST2(4096); break;
	case 21: st->delta.dist = 7; f[n].id = LZMA_FILTER_DELTA; f[n++].options = &st->delta;
		BCJ(LZMA_FILTER_X86); BCJ(LZMA_FILTER_ARM64); LAST2(4096); break;
	case 22: BCJ(LZMA_FILTER_X86); lzopt(&st->lzma, 4096, 3, 0, 2); f[n].id = LZMA_FILTER_LZMA1; f[n++].options = &st->lzma; break;
	case 23: lzopt(&st->lzma, 4096, 3, 0, 2); st->lzma.preset_dict = st->preset; st->lzma.preset_dict_size = 64;
		f[n].id = LZMA_FILTER_LZMA1; f[n++].options = &st->lzma; break;
	// chains every decoder init must refuse with LZMA_OPTIONS_ERROR
	case 24: LAST2(4096); n = 0; f[n].id = LZMA_FILTER_LZMA2; f[n++].options = &st->lzma;
		f[n].id = LZMA_FILTER_DELTA; f[n++].options = &st->delta; break;
	case 25: lzopt(&st->lzma, 4096, 3, 2, 2); f[n].id = LZMA_FILTER_LZMA1; f[n++].options = &st->lzma; break;
	case 26: lzopt(&st->lzma, 4096, 3, 0, 5); f[n].id = LZMA_FILTER_LZMA1; f[n++].options = &st->lzma; break;
	case 27: LAST2(4096); f[n].id = LZMA_FILTER_LZMA2; f[n++].options = &st->lzma; break;
	case 28: st->bcj.start_offset = 3; f[n].id = LZMA_FILTER_ARM64; f[n++].options = &st->bcj; LAST2(4096); break;
	default: return false;
	}
	f[n].id = LZMA_VLI_UNKNOWN;
	f[n].options = NULL;
	return true;
}

void c04_chain_mods(c04_chain_store *st, uint64_t mods, bool encoder)
{
	lzma_options_lzma *o = &st->lzma;
	const unsigned pm = (unsigned)(mods & 0xFF) % 6, lm = (unsigned)((mods >> 8) & 0xFF) % 76;
	const unsigned dm = (unsigned)((mods >> 16) & 0xFF) % 9, em = (unsigned)((mods >> 24) & 0xFF) % 4;
	static const uint32_t dsz[9] = { 0, 0, 1, 4095, 4096, 4097, 65536, 1u << 20, (1u << 20) + 1 };
	if (dm != 0 && !(encoder && dsz[dm] < 4096))
		o->dict_size = dsz[dm];
	if (lm != 0) {
		// the 15 (lc, lp) pairs with lc + lp <= 4, times pb 0..4
		unsigned k = lm - 1, pair = k / 5, lc = 0, lp = 0;
		for (unsigned a = 0, idx = 0; a <= 4; ++a)
			for (unsigned b = 0; a + b <= 4; ++b, ++idx)
				if (idx == pair) {
					lc = a;
					lp = b;
				}
		o->lc = lc;
		o->lp = lp;
		o->pb = k % 5;
	}
	if (em == 1)
		o->ext_flags = 0;
	else if (em == 2)
		o->ext_flags = LZMA_LZMA1EXT_ALLOW_EOPM;
	else if (em == 3 && !encoder)
		o->ext_flags = 0x02;
	if (pm != 0) {
		const size_t base = o->dict_size < 4096 ? 4096 : o->dict_size;
		const size_t n = pm == 1 ? 1 : pm == 2 ? 100 : pm == 3 ? base : pm == 4 ? base + 1000 : 64;
		st->heap_preset = malloc(n);
		if (st->heap_preset == NULL)
			exit(3);
		for (size_t i = 0; i < n; ++i)
			st->heap_preset[i] = st->preset[i % 64];
		o->preset_dict = st->heap_preset;
		o->preset_dict_size = (uint32_t)n;
	}
}

void c04_chain_done(c04_chain_store *st)
{
	free(st->heap_preset);
	st->heap_preset = NULL;
}

// ---------------------------------------------------------------------------------------------------------------
// the driver
// ---------------------------------------------------------------------------------------------------------------
typedef struct {
	unsigned doc;          // documented lzma_code return codes of this coder (without the flag-conditional ones)
	uint32_t flags;        // decoder flags, for the flag-conditional codes
	bool has_memlimit;
	bool timeout;          // threaded decoder with a timeout: LZMA_OK without progress may repeat
	bool fileinfo;
	bool mt;
	uint64_t file_size;    // declared file size (file-info decoder)
	bool no_finish;        // the coder does not support LZMA_FINISH
	unsigned abandon_after; // != 0: stop calling after this many lzma_code calls (mid-stream abandon, handle-reuse priming)
} drive_cfg;

static size_t pick(c04_rng *g, unsigned style, bool out, size_t whole)
{
	switch (style) {
	case 0: return out ? 65536 : whole;
	case 1: return 1;
	case 2: return (size_t)c04_below(g, 4);
	case 3: return (size_t)c04_below(g, out ? 34 : 18);
	case 4: return (size_t)c04_below(g, 301);
	case 5: return (size_t)c04_below(g, out ? 8193 : 4097);
	case 6: return out ? 4096 : 1;
	case 7: return out ? 1 : whole;
	default: return out ? 1 + (size_t)c04_below(g, 64) : whole;
	}
}

static void drive(lzma_stream *strm, const c04_op *op, const drive_cfg *cfg, c04_res *r, c04_rng *g)
{
	unsigned style = (unsigned)c04_below(g, 10);
	const bool mixed = style == 9;
	unsigned finish_mode = cfg->no_finish ? 3 : (unsigned)c04_below(g, 4);   // 0,1: FINISH with the last piece; 2: FINISH at once; 3: never
	const bool starving = c04_below(g, 4) == 0;
	const bool raise_memlimit = c04_below(g, 2) == 0;
	const bool poke = c04_below(g, 8) == 0;
	size_t out_cap = (size_t)1 << 20;
	if (style == 1 || style == 2 || style == 7)
		out_cap = (size_t)1 << 15;
	else if (style == 3 || style == 8 || mixed)
		out_cap = (size_t)1 << 18;

	size_t pos = 0;              // read position in the input "file"
	bool finishing = false;
	bool force = false;          // after LZMA_BUF_ERROR: next call gets input and output space
	unsigned noprog = 0, memlimit_events = 0, notifications = 0;
	int final = -1;
	const uint64_t nseek_max = op->in_len / 4 + 8;

	for (;;) {
		if (cfg->abandon_after != 0 && r->calls >= cfg->abandon_after) {
			r->capped = true;     // abandoned in the middle: the handle is left as it is
			final = LZMA_OK;
			break;
		}
		unsigned st = mixed ? (unsigned)c04_below(g, 9) : style;
		size_t remaining = pos <= op->in_len ? op->in_len - pos : 0;
		size_t in_chunk = pick(g, st, false, remaining);
		size_t out_chunk = pick(g, st, true, 0);
		if (in_chunk > remaining)
			in_chunk = remaining;
		if (starving && !force && !finishing && c04_below(g, 8) == 0) {
			unsigned k = (unsigned)c04_below(g, 3);
			if (k != 1) in_chunk = 0;
			if (k != 0) out_chunk = 0;
		}
		if (force) {
			if (in_chunk == 0 && remaining > 0) in_chunk = 1;
			if (out_chunk == 0) out_chunk = 1;
			force = false;
		}
		lzma_action action = LZMA_RUN;
		if (finishing || finish_mode == 2 || (finish_mode <= 1 && in_chunk == remaining && (remaining == 0 || c04_below(g, 2) == 0))) {
			// LZMA_FINISH: the amount of input must not change between calls, so all the rest is handed over
			finishing = true;
			action = LZMA_FINISH;
			in_chunk = remaining;
		}
		uint8_t *ibuf = c04_dup(op->in + pos, in_chunk);
		uint8_t *obuf = c04_xmalloc(out_chunk);
		strm->next_in = (in_chunk == 0 && c04_below(g, 2) == 0) ? NULL : ibuf;
		strm->avail_in = in_chunk;
		strm->next_out = (out_chunk == 0 && c04_below(g, 2) == 0) ? NULL : obuf;
		strm->avail_out = out_chunk;
		const uint8_t *ni = strm->next_in;
		uint8_t *no = strm->next_out;
		const uint64_t ti = strm->total_in, to = strm->total_out;

		lzma_ret ret = lzma_code(strm, action);
		++r->calls;

		size_t consumed = 0, produced = 0;
		if (strm->avail_in > in_chunk || strm->avail_out > out_chunk) {
			c04_bad(r, "avail-grew:in=%zu/%zu,out=%zu/%zu", strm->avail_in, in_chunk, strm->avail_out, out_chunk);
		} else {
			consumed = in_chunk - strm->avail_in;
			produced = out_chunk - strm->avail_out;
			if ((consumed != 0 || ni != NULL) && strm->next_in != ni + consumed)
				c04_bad(r, "next_in-inconsistent");
			if ((produced != 0 || no != NULL) && strm->next_out != no + produced)
				c04_bad(r, "next_out-inconsistent");
			if (strm->total_in != ti + consumed || strm->total_out != to + produced)
				c04_bad(r, "totals-inconsistent");
		}
		if (produced)
			r->crc = lzma_crc32(obuf, produced, r->crc);
		pos += consumed;
		r->in_total += consumed;
		r->out_total += produced;
		free(ibuf);
		free(obuf);
		strm->next_in = NULL;
		strm->next_out = NULL;
		strm->avail_in = 0;      // (restored before the next call; lzma_code only compares the value at call time)
		strm->avail_out = 0;

		if (poke) {
			uint64_t pi, po;
			lzma_get_progress(strm, &pi, &po);
			(void)lzma_memusage(strm);
			(void)lzma_get_check(strm);
		}

		unsigned doc = cfg->doc;
		if (cfg->flags & LZMA_TELL_NO_CHECK) doc |= R_NOCHK;
		if (cfg->flags & LZMA_TELL_UNSUPPORTED_CHECK) doc |= R_UNSUP;
		if (cfg->flags & LZMA_TELL_ANY_CHECK) doc |= R_GETCHK;
		c04_check_ret(r, "lzma_code", (int)ret, doc);
		if (r->bad[0]) {
			final = (int)ret;
			break;
		}

		if (ret == LZMA_OK) {
			if (consumed == 0 && produced == 0) {
				++noprog;
				if (noprog > r->max_noprog)
					r->max_noprog = noprog;
				if (noprog >= 2 && !cfg->timeout) {
					c04_bad(r, "no-progress:LZMA_OK-without-progress-%u-times-in-a-row", noprog);
					final = (int)ret;
					break;
				}
				if (noprog > 400000) {
					c04_bad(r, "no-progress:LZMA_OK-without-progress-%u-times-in-a-row(timeout-mode)", noprog);
					final = (int)ret;
					break;
				}
			} else {
				noprog = 0;
			}
			if (r->out_total >= out_cap) {
				r->capped = true;
				final = (int)ret;
				break;
			}
			continue;
		}
		noprog = 0;
		if (ret == LZMA_BUF_ERROR) {
			// Final when the caller had nothing more to give (or gave both) and there was room for output;
			// otherwise it answers the harness's own starvation and decoding goes on.
			if ((in_chunk > 0 || remaining == 0) && out_chunk > 0) {
				final = (int)ret;
				break;
			}
			force = true;
			continue;
		}
		if (ret == LZMA_NO_CHECK || ret == LZMA_UNSUPPORTED_CHECK || ret == LZMA_GET_CHECK) {
			// told at most once per Stream / member header (auto decoder: also once for a .lzma file, before any input
			// is consumed), so their number is bounded by the input length
			if (++notifications > op->in_len / 6 + 2) {
				c04_bad(r, "check-notification-%d-repeated-%u-times", (int)ret, notifications);
				final = (int)ret;
				break;
			}
			(void)lzma_get_check(strm);
			continue;
		}
		if (ret == LZMA_MEMLIMIT_ERROR) {
			const uint64_t need = lzma_memusage(strm), lim = lzma_memlimit_get(strm);
			// (the threaded decoder reports the memory in use, not the amount the refused Block would need)
			if (!cfg->has_memlimit || (need <= lim && !cfg->mt)) {
				c04_bad(r, "LZMA_MEMLIMIT_ERROR-but-memusage=%" PRIu64 "<=memlimit=%" PRIu64, need, lim);
				final = (int)ret;
				break;
			}
			if (!raise_memlimit || ++memlimit_events > op->in_len + 4) {
				final = (int)ret;
				break;
			}
			uint64_t newlim = need;
			if (cfg->mt) {
				const uint64_t base = lim > need ? lim : need;
				newlim = base > (UINT64_MAX - 65536) / 2 ? UINT64_MAX : base * 2 + 65536;
			}
			lzma_ret mr = lzma_memlimit_set(strm, newlim);
			if (mr != LZMA_OK) {
				c04_bad(r, "lzma_memlimit_set(memusage)-returned-%d", (int)mr);
				final = (int)ret;
				break;
			}
			continue;
		}
		if (ret == LZMA_SEEK_NEEDED) {
			++r->seeks;
			if (strm->seek_pos > cfg->file_size) {
				c04_bad(r, "seek-beyond-file:seek_pos=%" PRIu64 ">file_size=%" PRIu64, strm->seek_pos, cfg->file_size);
				final = (int)ret;
				break;
			}
			if (r->seeks > nseek_max) {
				c04_bad(r, "seek-count-%" PRIu64 "-exceeds-bound-%" PRIu64, r->seeks, nseek_max);
				final = (int)ret;
				break;
			}
			pos = (size_t)strm->seek_pos;   // may be > in_len when the declared size is larger: reads hit EOF
			finishing = false;              // lzma_code went back to ISEQ_RUN
			continue;
		}
		final = (int)ret;
		break;
	}
	r->ret = final;

	// stickiness of the final state
	if (r->bad[0] == '\0' && !r->capped && final >= 0) {
		uint8_t *obuf = c04_xmalloc(8);
		strm->next_in = NULL;
		strm->avail_in = 0;
		strm->next_out = obuf;
		strm->avail_out = 8;
		if (final == LZMA_STREAM_END) {
			lzma_ret again = lzma_code(strm, finishing ? LZMA_FINISH : LZMA_RUN);
			if (again != LZMA_STREAM_END || strm->avail_out != 8)
				c04_bad(r, "after-LZMA_STREAM_END-lzma_code-returned-%d", (int)again);
		} else if (final == LZMA_MEM_ERROR || final == LZMA_FORMAT_ERROR || final == LZMA_OPTIONS_ERROR || final == LZMA_DATA_ERROR) {
			lzma_ret again = lzma_code(strm, finishing ? LZMA_FINISH : LZMA_RUN);
			if (again != LZMA_PROG_ERROR || strm->avail_out != 8)
				c04_bad(r, "after-fatal-%d-lzma_code-returned-%d", final, (int)again);
		}
		free(obuf);
		strm->next_out = NULL;
		strm->avail_out = 0;
	}
}

// common epilogue of every lzma_stream entry point; a reused handle (c04_run_stream_ep with reuse != NULL) is left alone:
// no lzma_end, the next initialisation has to cope with whatever state the coder was left in
static bool keep_handle;

static void finish_strm(lzma_stream *strm, c04_res *r)
{
	if (keep_handle)
		return;
	lzma_end(strm);
	if (strm->internal != NULL)
		c04_bad(r, "lzma_end-left-internal");
}

#define GENERIC_DOC (R_OK | R_END | R_MEM | R_FORMAT | R_OPTIONS | R_DATA | R_BUF)
#define SUPPORTED_FLAGS (LZMA_TELL_NO_CHECK | LZMA_TELL_UNSUPPORTED_CHECK | LZMA_TELL_ANY_CHECK | LZMA_CONCATENATED \
		| LZMA_IGNORE_CHECK | LZMA_FAIL_FAST)

bool c04_is_stream_ep(const char *ep)
{
	static const char *const eps[] = { "stream", "auto", "lzip", "mt", "alone", "micro", "raw", "block", "index", "fileinfo" };
	for (size_t i = 0; i < sizeof(eps) / sizeof(eps[0]); ++i)
		if (!strcmp(ep, eps[i]))
			return true;
	return false;
}

bool c04_run_stream_ep(const c04_op *op, c04_res *r, lzma_stream *reuse, unsigned abandon_after)
{
	const char *ep = op->ep;
	c04_rng g = { op->seed * 0x100000001B3ull + 0xC04 };
	lzma_stream fresh = LZMA_STREAM_INIT;
	fresh.allocator = &c04_alloc;
	lzma_stream *const sp = reuse != NULL ? reuse : &fresh;
	keep_handle = reuse != NULL;
#define strm (*sp)
	drive_cfg cfg;
	memset(&cfg, 0, sizeof(cfg));
	cfg.doc = GENERIC_DOC;
	cfg.abandon_after = abandon_after;

	if (!strcmp(ep, "stream") || !strcmp(ep, "auto") || !strcmp(ep, "lzip")) {
		const uint32_t flags = (uint32_t)op->p[0];
		const uint64_t memlimit = op->p[1];
		lzma_ret ir = ep[0] == 's' ? lzma_stream_decoder(&strm, memlimit, flags)
				: ep[0] == 'a' ? lzma_auto_decoder(&strm, memlimit, flags) : lzma_lzip_decoder(&strm, memlimit, flags);
		r->init_ret = (int)ir;
		c04_check_ret(r, ep, (int)ir, R_OK | R_MEM | R_OPTIONS);
		// (with a failing allocator LZMA_MEM_ERROR may come first: c04_check_ret has verified that an allocation was refused)
		if (ir != LZMA_MEM_ERROR
				&& ((flags & ~(uint32_t)SUPPORTED_FLAGS) ? ir != LZMA_OPTIONS_ERROR : ir != LZMA_OK))
			c04_bad(r, "%s-init-returned-%d-for-flags-0x%x", ep, (int)ir, flags);
		if (ir == LZMA_OK) {
			cfg.flags = flags;
			cfg.has_memlimit = true;
			cfg.doc |= R_MEMLIMIT;
			drive(&strm, op, &cfg, r, &g);
		}
		finish_strm(&strm, r);
		return true;
	}
	if (!strcmp(ep, "mt")) {
		lzma_mt mt;
		memset(&mt, 0, sizeof(mt));
		mt.flags = (uint32_t)op->p[0];
		mt.memlimit_stop = op->p[1];
		mt.threads = (uint32_t)(op->p[2] & 0xFF);
		mt.timeout = (uint32_t)(op->p[2] >> 8);
		mt.memlimit_threading = op->p[3];
		lzma_ret ir = lzma_stream_decoder_mt(&strm, &mt);
		r->init_ret = (int)ir;
		r->timing = true;
		c04_check_ret(r, ep, (int)ir, R_OK | R_MEM | R_MEMLIMIT | R_OPTIONS);
		const bool bad_opts = (mt.flags & ~(uint32_t)SUPPORTED_FLAGS) || mt.threads == 0 || mt.threads > 16384;
		if (ir != LZMA_MEM_ERROR && (bad_opts ? ir != LZMA_OPTIONS_ERROR : ir != LZMA_OK))
			c04_bad(r, "mt-init-returned-%d-for-flags-0x%x-threads-%u", (int)ir, mt.flags, mt.threads);
		if (ir == LZMA_OK) {
			cfg.flags = mt.flags;
			cfg.has_memlimit = true;
			cfg.doc |= R_MEMLIMIT;
			cfg.timeout = mt.timeout != 0;
			cfg.mt = true;
			drive(&strm, op, &cfg, r, &g);
		}
		finish_strm(&strm, r);
		return true;
	}
	if (!strcmp(ep, "alone")) {
		lzma_ret ir = lzma_alone_decoder(&strm, op->p[1]);
		r->init_ret = (int)ir;
		c04_check_ret(r, ep, (int)ir, R_OK | R_MEM);
		if (ir == LZMA_OK) {
			cfg.has_memlimit = true;
			cfg.doc |= R_MEMLIMIT;
			drive(&strm, op, &cfg, r, &g);
		}
		finish_strm(&strm, r);
		return true;
	}
	if (!strcmp(ep, "micro")) {
		// p0: how comp_size relates to the input length, p1: uncomp_size, p2: exact?, p3: dict_size
		uint64_t comp = op->in_len;
		switch (op->p[0]) {
		case 1: comp = op->in_len > 0 ? op->in_len - 1 : 0; break;
		case 2: comp = op->in_len + 1; break;
		case 3: comp = op->in_len / 2; break;
		case 4: comp = UINT64_MAX; break;
		case 5: comp = 0; break;
		default: break;
		}
		lzma_ret ir = lzma_microlzma_decoder(&strm, comp, op->p[1], op->p[2] != 0, (uint32_t)op->p[3]);
		r->init_ret = (int)ir;
		c04_check_ret(r, ep, (int)ir, R_OK | R_MEM | R_OPTIONS);
		if (ir == LZMA_OK)
			drive(&strm, op, &cfg, r, &g);
		finish_strm(&strm, r);
		return true;
	}
	if (!strcmp(ep, "raw")) {
		lzma_filter f[LZMA_FILTERS_MAX + 2];
		c04_chain_store st;
		if (!c04_chain((unsigned)op->p[0], f, &st)) {
			c04_bad(r, "harness:no-such-chain");
			return true;
		}
		if (op->p[0] == 8 || op->p[0] == 9 || (op->p[0] == 7 && ((op->p[3] >> 24) & 0xFF) % 4 != 0)) {
			st.lzma.ext_size_low = (uint32_t)op->p[1];
			st.lzma.ext_size_high = (uint32_t)(op->p[1] >> 32);
		}
		if (op->p[0] < 24)
			c04_chain_mods(&st, op->p[3], false);     // p3: decoder-side option modifiers (preset dictionary, lc/lp/pb, ...)
		lzma_ret ir = lzma_raw_decoder(&strm, f);
		r->init_ret = (int)ir;
		// invalid option structs handed in by the application (chains >= 24) may be answered with LZMA_PROG_ERROR
		c04_check_ret(r, ep, (int)ir, R_OK | R_MEM | R_OPTIONS | (op->p[0] >= 24 ? R_PROG : 0));
		if (op->p[0] >= 24 && ir != LZMA_OPTIONS_ERROR && ir != LZMA_PROG_ERROR && ir != LZMA_MEM_ERROR)
			c04_bad(r, "raw-init-accepted-invalid-chain-%u:%d", (unsigned)op->p[0], (int)ir);
		if (op->p[0] < 24 && op->p[3] == 0 && ir == LZMA_OPTIONS_ERROR)
			c04_bad(r, "raw-init-refused-valid-chain-%u", (unsigned)op->p[0]);
		if (ir == LZMA_OK)
			drive(&strm, op, &cfg, r, &g);
		finish_strm(&strm, r);
		c04_chain_done(&st);     // (the preset dictionary is copied by the initialisation; kept until here anyway)
		return true;
	}
	if (!strcmp(ep, "block")) {
		// input = Block Header + Compressed Data + Block Padding + Check; p0 = Check ID, p1 = ignore_check, p3 = lzma_block.version
		lzma_filter f[LZMA_FILTERS_MAX + 1];
		lzma_block b;
		memset(&b, 0, sizeof(b));
		memset(f, 0, sizeof(f));
		b.version = op->p[3] != 0 ? 1 : 0;   // lzma_block.version as the application set it (0: no ignore_check member)
		b.check = (lzma_check)op->p[0];
		b.filters = f;
		if (op->in_len == 0 || op->in[0] == 0) {
			// not a Block Header (0x00 is the Index Indicator): nothing to call
			r->aux = 1;
			return true;
		}
		b.header_size = lzma_block_header_size_decode(op->in[0]);
		// the caller of lzma_block_header_decode must supply header_size bytes: pad a short input
		uint8_t *hdr = c04_xmalloc(b.header_size);
		memset(hdr, 0, b.header_size);
		memcpy(hdr, op->in, op->in_len < b.header_size ? op->in_len : b.header_size);
		lzma_ret hr = lzma_block_header_decode(&b, &c04_alloc, hdr);
		free(hdr);
		c04_check_ret(r, "lzma_block_header_decode", (int)hr, R_OK | R_OPTIONS | R_DATA | R_MEM);
		r->aux = 2 + (uint64_t)hr;
		if (hr == LZMA_OK && op->in_len >= b.header_size) {
			b.ignore_check = op->p[1] != 0;
			lzma_ret ir = lzma_block_decoder(&strm, &b);
			r->init_ret = (int)ir;
			// block.h lists LZMA_OK, LZMA_PROG_ERROR, LZMA_MEM_ERROR; base.h documents LZMA_OPTIONS_ERROR for
			// "invalid or unsupported options" of any init function, which is what an impossible filter chain gives
			c04_check_ret(r, "lzma_block_decoder", (int)ir, R_OK | R_MEM | R_OPTIONS | (op->p[0] > LZMA_CHECK_ID_MAX ? R_PROG : 0));
			if (ir == LZMA_OK) {
				c04_op sub = *op;
				sub.in = op->in + b.header_size;
				sub.in_len = op->in_len - b.header_size;
				drive(&strm, &sub, &cfg, r, &g);
			}
			finish_strm(&strm, r);
		}
		if (hr == LZMA_OK)
			lzma_filters_free(f, &c04_alloc);
		else
			for (int i = 0; i <= LZMA_FILTERS_MAX; ++i)
				if (f[i].options != NULL || (f[i].id != LZMA_VLI_UNKNOWN && f[i].id != 0))
					c04_bad(r, "lzma_block_header_decode-failed-but-left-filters[%d]-set", i);
		return true;
	}
	if (!strcmp(ep, "index")) {
		lzma_index *idx = (lzma_index *)(uintptr_t)0x10;   // must be overwritten with NULL by the init function
		lzma_ret ir = lzma_index_decoder(&strm, &idx, op->p[1]);
		r->init_ret = (int)ir;
		c04_check_ret(r, ep, (int)ir, R_OK | R_MEM);
		if (ir == LZMA_OK) {
			if (idx != NULL)
				c04_bad(r, "lzma_index_decoder-did-not-reset-*i");
			idx = NULL;
			cfg.has_memlimit = true;
			cfg.doc = R_OK | R_END | R_MEM | R_MEMLIMIT | R_DATA | R_BUF;
			drive(&strm, op, &cfg, r, &g);
			if ((r->ret == LZMA_STREAM_END) != (idx != NULL))
				c04_bad(r, "index-pointer-set-iff-STREAM_END-violated:ret=%d", r->ret);
			if (idx != NULL) {
				r->aux = lzma_index_block_count(idx) * 1000003u + lzma_index_uncompressed_size(idx);
				lzma_index_end(idx, &c04_alloc);
			}
		}
		finish_strm(&strm, r);
		return true;
	}
	if (!strcmp(ep, "fileinfo")) {
		// p1 = memlimit, p2 = declared size mode (0 exact, 1 smaller, 2 larger)
		lzma_index *idx = NULL;
		uint64_t fsz = op->in_len;
		if (op->p[2] == 1) fsz = op->in_len - (op->in_len >= 4 ? 4 : op->in_len);
		if (op->p[2] == 2) fsz = op->in_len + 4;
		if (op->p[2] == 3) fsz = UINT64_MAX;
		lzma_ret ir = lzma_file_info_decoder(&strm, &idx, op->p[1], fsz);
		r->init_ret = (int)ir;
		c04_check_ret(r, ep, (int)ir, R_OK | R_MEM);
		if (ir == LZMA_OK) {
			cfg.has_memlimit = true;
			cfg.fileinfo = true;
			cfg.file_size = fsz;
			cfg.doc |= R_MEMLIMIT | R_SEEK;
			drive(&strm, op, &cfg, r, &g);
			if ((r->ret == LZMA_STREAM_END) != (idx != NULL))
				c04_bad(r, "dest_index-set-iff-STREAM_END-violated:ret=%d", r->ret);
			if (idx != NULL) {
				if (lzma_index_file_size(idx) != fsz)
					c04_bad(r, "file-info-index-describes-%" PRIu64 "-bytes-of-a-%" PRIu64 "-byte-file", (uint64_t)lzma_index_file_size(idx), fsz);
				r->aux = lzma_index_block_count(idx) * 1000003u + lzma_index_uncompressed_size(idx);
				lzma_index_end(idx, &c04_alloc);
			}
		}
		finish_strm(&strm, r);
		return true;
	}
	return false;
#undef strm
}
