// C04 observation engine: single-call decoders and parsers. The input always lives in an exactly sized heap block
// (ASan traps any read past it); every return value is checked against the documented set of its function; positions
// must stay inside the buffers; whatever a parser allocates must be gone after the documented clean-up call.
#include "c04.h"
#include <limits.h>

static uint64_t mix(uint64_t h, uint64_t v)
{
	h ^= v + 0x9E3779B97F4A7C15ull + (h << 6) + (h >> 2);
	return h;
}

static uint64_t hash_filters(const lzma_filter *f)
{
	uint64_t h = 7;
	for (int i = 0; i <= LZMA_FILTERS_MAX && f[i].id != LZMA_VLI_UNKNOWN; ++i) {
		h = mix(h, f[i].id);
		if (f[i].options == NULL) {
			h = mix(h, 1);
		} else if (f[i].id == LZMA_FILTER_LZMA1 || f[i].id == LZMA_FILTER_LZMA2 || f[i].id == LZMA_FILTER_LZMA1EXT) {
			const lzma_options_lzma *o = f[i].options;
			h = mix(h, o->dict_size);
			if (f[i].id != LZMA_FILTER_LZMA2)      // LZMA2 keeps lc/lp/pb in its chunk headers; the decoded options leave them unset
				h = mix(h, o->lc * 100 + o->lp * 10 + o->pb);
		} else if (f[i].id == LZMA_FILTER_DELTA) {
			const lzma_options_delta *o = f[i].options;
			h = mix(h, o->dist);
		} else {
			const lzma_options_bcj *o = f[i].options;
			h = mix(h, o->start_offset);
		}
	}
	return h;
}

static const lzma_vli prop_ids[] = {
	LZMA_FILTER_LZMA1, LZMA_FILTER_LZMA1EXT, LZMA_FILTER_LZMA2, LZMA_FILTER_DELTA, LZMA_FILTER_X86, LZMA_FILTER_POWERPC,
	LZMA_FILTER_IA64, LZMA_FILTER_ARM, LZMA_FILTER_ARMTHUMB, LZMA_FILTER_SPARC, LZMA_FILTER_ARM64, LZMA_FILTER_RISCV,
	0x00, 0x01, 0x02, 0x22, 0x0C, LZMA_VLI_MAX, LZMA_VLI_UNKNOWN, 0x4000000000000000ull,
};

// Block Header from the front of the input, as the API demands it: header_size bytes, exactly.
static lzma_ret decode_bhdr(const c04_op *op, lzma_block *b, lzma_filter *f, lzma_check check, c04_res *r)
{
	memset(b, 0, sizeof(*b));
	memset(f, 0, sizeof(lzma_filter) * (LZMA_FILTERS_MAX + 1));
	b->version = op->p[3] != 0 ? 1 : 0;
	b->check = check;
	b->filters = f;
	b->header_size = lzma_block_header_size_decode(op->in[0]);
	uint8_t *hdr = c04_xmalloc(b->header_size);
	memset(hdr, 0, b->header_size);
	memcpy(hdr, op->in, op->in_len < b->header_size ? op->in_len : b->header_size);
	lzma_ret hr = lzma_block_header_decode(b, &c04_alloc, hdr);
	free(hdr);
	++r->calls;
	c04_check_ret(r, "lzma_block_header_decode", (int)hr, R_OK | R_OPTIONS | R_DATA | R_MEM);
	if (hr != LZMA_OK) {
		for (int i = 0; i <= LZMA_FILTERS_MAX; ++i)
			if (f[i].options != NULL)
				c04_bad(r, "lzma_block_header_decode-failed-but-left-filters[%d].options", i);
	}
	return hr;
}

bool c04_run_parse_ep(const c04_op *op, c04_res *r, bool reuse)
{
	const char *ep = op->ep;
	c04_rng g = { op->seed * 0x100000001B3ull + 0x4C04 };

	if (!strcmp(ep, "sbuf")) {
		const uint32_t flags = (uint32_t)op->p[0];
		uint64_t memlimit = op->p[1];
		const uint64_t memlimit0 = memlimit;
		size_t out_size = op->p[2] == 0 ? (size_t)1 << 18 : (size_t)(op->p[2] - 1);
		uint8_t *in = c04_dup(op->in, op->in_len);
		uint8_t *out = c04_xmalloc(out_size);
		size_t in_pos = 0, out_pos = 0;
		lzma_ret ret = lzma_stream_buffer_decode(&memlimit, flags, &c04_alloc, in, &in_pos, op->in_len, out, &out_pos, out_size);
		r->ret = (int)ret;
		r->calls = 1;
		unsigned doc = R_OK | R_FORMAT | R_OPTIONS | R_DATA | R_MEM | R_MEMLIMIT | R_BUF;
		if (flags & LZMA_TELL_NO_CHECK) doc |= R_NOCHK;
		if (flags & LZMA_TELL_UNSUPPORTED_CHECK) doc |= R_UNSUP;
		if (flags & LZMA_TELL_ANY_CHECK) doc = R_PROG;      // documented: not allowed, LZMA_PROG_ERROR
		c04_check_ret(r, ep, (int)ret, doc);
		if (in_pos > op->in_len || out_pos > out_size)
			c04_bad(r, "sbuf-position-outside-buffer");
		if (ret != LZMA_OK && (in_pos != 0 || out_pos != 0))
			c04_bad(r, "sbuf-positions-moved-on-error-%d", (int)ret);
		if ((ret == LZMA_MEMLIMIT_ERROR) ? memlimit <= memlimit0 : memlimit != memlimit0)
			c04_bad(r, "sbuf-memlimit-%" PRIu64 "->%" PRIu64 "-on-ret-%d", memlimit0, memlimit, (int)ret);
		r->in_total = in_pos;
		r->out_total = out_pos;
		r->crc = lzma_crc32(out, out_pos, 0);
		free(in);
		free(out);
		return true;
	}
	if (!strcmp(ep, "rbuf")) {
		lzma_filter f[LZMA_FILTERS_MAX + 2];
		c04_chain_store st;
		if (!c04_chain((unsigned)op->p[0], f, &st)) {
			c04_bad(r, "harness:no-such-chain");
			return true;
		}
		if (op->p[0] == 8 || op->p[0] == 9 || (op->p[0] == 7 && ((op->p[3] >> 24) & 0xFF) % 4 != 0)) {
			st.lzma.ext_size_low = (uint32_t)op->p[1];
			st.lzma.ext_size_high = (uint32_t)(op->p[1] >> 32);
		}
		if (op->p[0] < 24)
			c04_chain_mods(&st, op->p[3], false);
		size_t out_size = op->p[2] == 0 ? (size_t)1 << 18 : (size_t)(op->p[2] - 1);
		uint8_t *in = c04_dup(op->in, op->in_len);
		uint8_t *out = c04_xmalloc(out_size);
		size_t in_pos = 0, out_pos = 0;
		lzma_ret ret = lzma_raw_buffer_decode(f, &c04_alloc, in, &in_pos, op->in_len, out, &out_pos, out_size);
		r->ret = (int)ret;
		r->calls = 1;
		// invalid option structs handed in by the application (chains >= 24) may be answered with LZMA_PROG_ERROR
		c04_check_ret(r, ep, (int)ret, R_OK | R_BUF | R_OPTIONS | R_MEM | R_DATA | (op->p[0] >= 24 ? R_PROG : 0));
		if (in_pos > op->in_len || out_pos > out_size)
			c04_bad(r, "rbuf-position-outside-buffer");
		if (op->p[0] >= 24 && ret != LZMA_OPTIONS_ERROR && ret != LZMA_PROG_ERROR)
			c04_bad(r, "rbuf-accepted-invalid-chain-%u:%d", (unsigned)op->p[0], (int)ret);
		r->in_total = in_pos;
		r->out_total = out_pos;
		r->crc = lzma_crc32(out, out_pos, 0);
		free(in);
		free(out);
		c04_chain_done(&st);
		return true;
	}
	if (!strcmp(ep, "bhdr") || !strcmp(ep, "bbuf")) {
		if (op->in_len == 0 || op->in[0] == 0) {
			r->aux = 1;
			return true;
		}
		lzma_block b;
		lzma_filter f[LZMA_FILTERS_MAX + 1];
		lzma_ret hr = decode_bhdr(op, &b, f, (lzma_check)op->p[0], r);
		r->ret = (int)hr;
		if (hr != LZMA_OK)
			return true;
		uint64_t h = hash_filters(f);
		h = mix(h, b.compressed_size);
		h = mix(h, b.uncompressed_size);
		h = mix(h, b.header_size);
		const lzma_vli unp = lzma_block_unpadded_size(&b), tot = lzma_block_total_size(&b);
		h = mix(h, unp);
		h = mix(h, tot);
		// lzma_block_unpadded_size/total_size: 0 = invalid, LZMA_VLI_UNKNOWN when Compressed Size is unknown
		if (b.compressed_size == LZMA_VLI_UNKNOWN ? (unp != LZMA_VLI_UNKNOWN || tot != LZMA_VLI_UNKNOWN)
				: (unp != 0 && (unp < 5 || unp > LZMA_VLI_MAX - 3 || tot < unp || tot > unp + 3 || (tot & 3))))
			c04_bad(r, "block-sizes-inconsistent:unpadded=%" PRIu64 ",total=%" PRIu64, (uint64_t)unp, (uint64_t)tot);
		if (!strcmp(ep, "bhdr")) {
			lzma_block b2 = b;
			lzma_vli cand = (lzma_vli)(c04_below(&g, 3) == 0 ? c04_next(&g) : c04_below(&g, 4096));
			lzma_ret cr = lzma_block_compressed_size(&b2, cand);
			c04_check_ret(r, "lzma_block_compressed_size", (int)cr, R_OK | R_DATA | R_PROG);
			if (cr == LZMA_PROG_ERROR && cand <= LZMA_VLI_MAX && cand > 0)
				c04_bad(r, "lzma_block_compressed_size-PROG_ERROR-for-valid-arguments");
			h = mix(h, (uint64_t)cr);
			r->aux = h;
		} else {
			b.ignore_check = op->p[1] != 0;
			size_t out_size = op->p[2] == 0 ? (size_t)1 << 18 : (size_t)(op->p[2] - 1);
			uint8_t *in = c04_dup(op->in, op->in_len);
			uint8_t *out = c04_xmalloc(out_size);
			size_t in_pos = b.header_size <= op->in_len ? b.header_size : op->in_len, out_pos = 0;
			const size_t in_pos0 = in_pos;
			lzma_ret ret = lzma_block_buffer_decode(&b, &c04_alloc, in, &in_pos, op->in_len, out, &out_pos, out_size);
			r->ret = (int)ret;
			++r->calls;
			c04_check_ret(r, ep, (int)ret, R_OK | R_OPTIONS | R_DATA | R_MEM | R_BUF);
			if (in_pos > op->in_len || out_pos > out_size || in_pos < in_pos0)
				c04_bad(r, "bbuf-position-outside-buffer");
			if (ret != LZMA_OK && (in_pos != in_pos0 || out_pos != 0))
				c04_bad(r, "bbuf-positions-moved-on-error-%d", (int)ret);
			r->in_total = in_pos;
			r->out_total = out_pos;
			r->crc = lzma_crc32(out, out_pos, 0);
			r->aux = h;
			free(in);
			free(out);
		}
		lzma_filters_free(f, &c04_alloc);
		return true;
	}
	if (!strcmp(ep, "ibuf")) {
		lzma_index *idx = NULL;
		uint64_t memlimit = op->p[1];
		const uint64_t memlimit0 = memlimit;
		uint8_t *in = c04_dup(op->in, op->in_len);
		size_t in_pos = 0;
		lzma_ret ret = lzma_index_buffer_decode(&idx, &memlimit, &c04_alloc, in, &in_pos, op->in_len);
		r->ret = (int)ret;
		r->calls = 1;
		c04_check_ret(r, ep, (int)ret, R_OK | R_MEM | R_MEMLIMIT | R_DATA);
		if (in_pos > op->in_len)
			c04_bad(r, "ibuf-position-outside-buffer");
		if ((ret == LZMA_OK) != (idx != NULL))
			c04_bad(r, "ibuf-index-set-iff-OK-violated:%d", (int)ret);
		if ((ret == LZMA_MEMLIMIT_ERROR) ? memlimit <= memlimit0 : memlimit != memlimit0)
			c04_bad(r, "ibuf-memlimit-%" PRIu64 "->%" PRIu64 "-on-ret-%d", memlimit0, memlimit, (int)ret);
		if (idx != NULL) {
			if (lzma_index_size(idx) != in_pos)
				c04_bad(r, "ibuf-index-size-%" PRIu64 "-but-consumed-%zu", (uint64_t)lzma_index_size(idx), in_pos);
			r->aux = lzma_index_block_count(idx) * 1000003u + lzma_index_uncompressed_size(idx);
			lzma_index_end(idx, &c04_alloc);
		}
		r->in_total = in_pos;
		free(in);
		return true;
	}
	if (!strcmp(ep, "ihash")) {
		// The Records to hash are taken from the input itself when it is a valid Index (then, depending on the seed,
		// perturbed), otherwise a few seeded Records; then the input is run through lzma_index_hash_decode in pieces.
		lzma_index *idx = NULL;
		uint64_t memlimit = UINT64_MAX;
		uint8_t *in = c04_dup(op->in, op->in_len);
		size_t ip = 0;
		lzma_ret dr = lzma_index_buffer_decode(&idx, &memlimit, &c04_alloc, in, &ip, op->in_len);
		lzma_index_hash *used = NULL;
		if (reuse) {
			// a hash object that has already seen Records and part of an Index, re-initialised instead of a new one
			c04_rng g2 = { op->seed ^ 0x1D5EEDull };     // (own generator: the main run must see the same numbers as on a fresh object)
			used = lzma_index_hash_init(NULL, &c04_alloc);
			if (used != NULL) {
				(void)lzma_index_hash_append(used, 5 + c04_below(&g2, 100), c04_below(&g2, 1000));
				(void)lzma_index_hash_append(used, 5 + c04_below(&g2, 100), c04_below(&g2, 1000));
				size_t up = 0;
				const size_t un = op->in_len < 3 ? op->in_len : (size_t)c04_below(&g2, 4);
				if (c04_below(&g2, 2) == 0 && un > 0)
					(void)lzma_index_hash_decode(used, in, &up, un);
			}
		}
		lzma_index_hash *hh = lzma_index_hash_init(used, &c04_alloc);
		if (hh == NULL) {
			if (c04_n_refused == 0)
				c04_bad(r, "lzma_index_hash_init-failed-without-allocation-failure");
			free(in);
			lzma_index_end(idx, &c04_alloc);
			return true;
		}
		const unsigned perturb = (unsigned)c04_below(&g, 4);   // 0,1: faithful; 2: drop the last Record; 3: change one
		uint64_t nrec = 0;
		if (dr == LZMA_OK && idx != NULL) {
			lzma_index_iter it;
			lzma_index_iter_init(&it, idx);
			const uint64_t total = lzma_index_block_count(idx);
			while (!lzma_index_iter_next(&it, LZMA_INDEX_ITER_BLOCK) && nrec < 100000) {
				++nrec;
				if (perturb == 2 && nrec == total)
					break;
				lzma_vli us = it.block.unpadded_size, un = it.block.uncompressed_size;
				if (perturb == 3 && nrec == 1)
					un ^= 1;
				lzma_ret ar = lzma_index_hash_append(hh, us, un);
				c04_check_ret(r, "lzma_index_hash_append", (int)ar, R_OK | R_DATA);
				if (ar != LZMA_OK)
					break;
			}
		} else {
			unsigned k = (unsigned)c04_below(&g, 4);
			for (unsigned i = 0; i < k; ++i) {
				lzma_ret ar = lzma_index_hash_append(hh, 5 + c04_below(&g, 1000), c04_below(&g, 100000));
				c04_check_ret(r, "lzma_index_hash_append", (int)ar, R_OK | R_DATA);
			}
		}
		lzma_index_end(idx, &c04_alloc);
		free(in);
		(void)lzma_index_hash_size(hh);
		size_t pos = 0;
		lzma_ret ret = LZMA_OK;
		const unsigned style = (unsigned)c04_below(&g, 3);
		while (ret == LZMA_OK) {
			size_t remaining = op->in_len - pos;
			size_t chunk = style == 0 ? remaining : style == 1 ? 1 : (size_t)c04_below(&g, 9);
			if (chunk > remaining)
				chunk = remaining;
			uint8_t *piece = c04_dup(op->in + pos, chunk);
			size_t p = 0;
			ret = lzma_index_hash_decode(hh, piece, &p, chunk);
			free(piece);
			++r->calls;
			c04_check_ret(r, "lzma_index_hash_decode", (int)ret, R_OK | R_END | R_DATA | R_BUF);
			if (p > chunk) {
				c04_bad(r, "ihash-position-outside-buffer");
				break;
			}
			if (ret == LZMA_BUF_ERROR && chunk != 0)
				c04_bad(r, "ihash-BUF_ERROR-with-input-available");
			if (ret == LZMA_OK && p != chunk)
				c04_bad(r, "ihash-LZMA_OK-without-consuming-all-input");
			pos += p;
			if (remaining == 0 && ret == LZMA_OK) {
				c04_bad(r, "ihash-LZMA_OK-without-input");
				break;
			}
			if (r->bad[0])
				break;
		}
		r->ret = (int)ret;
		r->in_total = pos;
		if (ret == LZMA_STREAM_END && dr == LZMA_OK && perturb >= 2 && nrec > 0)
			c04_bad(r, "ihash-accepted-an-Index-that-differs-from-the-hashed-Records");
		lzma_index_hash_end(hh, &c04_alloc);
		return true;
	}
	if (!strcmp(ep, "sflags")) {
		uint8_t *buf = c04_xmalloc(LZMA_STREAM_HEADER_SIZE);
		lzma_stream_flags hf, ff;
		memset(&hf, 0x5A, sizeof(hf));
		memset(&ff, 0x5A, sizeof(ff));
		memset(buf, 0, LZMA_STREAM_HEADER_SIZE);
		memcpy(buf, op->in, op->in_len < LZMA_STREAM_HEADER_SIZE ? op->in_len : LZMA_STREAM_HEADER_SIZE);
		lzma_ret h1 = lzma_stream_header_decode(&hf, buf);
		c04_check_ret(r, "lzma_stream_header_decode", (int)h1, R_OK | R_FORMAT | R_DATA | R_OPTIONS);
		lzma_ret f0 = lzma_stream_footer_decode(&ff, buf);     // a footer decoder fed a header and vice versa
		c04_check_ret(r, "lzma_stream_footer_decode", (int)f0, R_OK | R_FORMAT | R_DATA | R_OPTIONS);
		memset(buf, 0, LZMA_STREAM_HEADER_SIZE);
		if (op->in_len >= LZMA_STREAM_HEADER_SIZE)
			memcpy(buf, op->in + op->in_len - LZMA_STREAM_HEADER_SIZE, LZMA_STREAM_HEADER_SIZE);
		else
			memcpy(buf, op->in, op->in_len);
		memset(&ff, 0x5A, sizeof(ff));
		lzma_ret f1 = lzma_stream_footer_decode(&ff, buf);
		c04_check_ret(r, "lzma_stream_footer_decode", (int)f1, R_OK | R_FORMAT | R_DATA | R_OPTIONS);
		r->calls = 3;
		r->ret = (int)h1;
		uint64_t h = mix(mix(3, (uint64_t)h1), (uint64_t)f1);
		if (h1 == LZMA_OK) {
			if (hf.version != 0 || (unsigned)hf.check > LZMA_CHECK_ID_MAX || hf.backward_size != LZMA_VLI_UNKNOWN)
				c04_bad(r, "stream-header-decoded-to-invalid-flags");
			h = mix(h, (uint64_t)hf.check);
		}
		if (f1 == LZMA_OK) {
			if (ff.version != 0 || (unsigned)ff.check > LZMA_CHECK_ID_MAX || ff.backward_size < LZMA_BACKWARD_SIZE_MIN
					|| ff.backward_size > LZMA_BACKWARD_SIZE_MAX || (ff.backward_size & 3))
				c04_bad(r, "stream-footer-decoded-to-invalid-flags");
			h = mix(mix(h, (uint64_t)ff.check), ff.backward_size);
		}
		if (h1 == LZMA_OK && f1 == LZMA_OK) {
			lzma_ret cr = lzma_stream_flags_compare(&hf, &ff);
			c04_check_ret(r, "lzma_stream_flags_compare", (int)cr, R_OK | R_DATA);
			h = mix(h, (uint64_t)cr);
		}
		r->aux = h;
		free(buf);
		return true;
	}
	if (!strcmp(ep, "fflags")) {
		uint8_t *in = c04_dup(op->in, op->in_len);
		size_t pos = 0;
		uint64_t h = 5;
		lzma_ret ret = LZMA_OK;
		while (pos < op->in_len && r->calls < 64) {
			lzma_filter f = { .id = 0x5A5A, .options = (void *)(uintptr_t)0x10 };
			const size_t pos0 = pos;
			ret = lzma_filter_flags_decode(&f, &c04_alloc, in, &pos, op->in_len);
			++r->calls;
			c04_check_ret(r, "lzma_filter_flags_decode", (int)ret, R_OK | R_OPTIONS | R_MEM | R_DATA);
			if (pos > op->in_len || pos < pos0) {
				c04_bad(r, "fflags-position-outside-buffer");
				break;
			}
			if (ret != LZMA_OK) {
				if (f.options != NULL)
					c04_bad(r, "lzma_filter_flags_decode-failed-%d-but-left-options-set", (int)ret);
				break;
			}
			if (pos == pos0) {
				c04_bad(r, "fflags-OK-without-consuming");
				break;
			}
			lzma_filter ff[2] = { f, { .id = LZMA_VLI_UNKNOWN, .options = NULL } };
			h = mix(h, hash_filters(ff));
			c04_alloc.free(NULL, f.options);
		}
		r->ret = (int)ret;
		r->in_total = pos;
		r->aux = h;
		free(in);
		return true;
	}
	if (!strcmp(ep, "props")) {
		const size_t nids = sizeof(prop_ids) / sizeof(prop_ids[0]);
		lzma_filter f = { .id = prop_ids[op->p[0] % nids], .options = (void *)(uintptr_t)0x10 };
		uint8_t *in = c04_dup(op->in, op->in_len);
		lzma_ret ret = lzma_properties_decode(&f, &c04_alloc, in, op->in_len);
		r->ret = (int)ret;
		r->calls = 1;
		c04_check_ret(r, "lzma_properties_decode", (int)ret, R_OK | R_OPTIONS | R_MEM);
		if (ret != LZMA_OK && f.options != NULL)
			c04_bad(r, "lzma_properties_decode-failed-%d-but-left-options-set", (int)ret);
		if (ret == LZMA_OK) {
			lzma_filter ff[2] = { f, { .id = LZMA_VLI_UNKNOWN, .options = NULL } };
			r->aux = hash_filters(ff);
			if (f.options != NULL && (f.id == LZMA_FILTER_LZMA1 || f.id == LZMA_FILTER_LZMA1EXT)) {
				const lzma_options_lzma *o = f.options;
				if (o->lc + o->lp > LZMA_LCLP_MAX || o->pb > LZMA_PB_MAX)
					c04_bad(r, "lzma_properties_decode-accepted-lc=%u-lp=%u-pb=%u", o->lc, o->lp, o->pb);
			}
			// the decoded options must be acceptable to the size/encode functions or be refused with a documented code
			uint32_t sz = 0;
			lzma_ret sr = lzma_properties_size(&sz, &f);
			c04_check_ret(r, "lzma_properties_size", (int)sr, R_OK | R_OPTIONS | R_PROG);
			c04_alloc.free(NULL, f.options);
		}
		free(in);
		return true;
	}
	if (!strcmp(ep, "str2f")) {
		// NUL-terminated copy in an exactly sized block: reading past the terminator traps
		char *s = c04_xmalloc(op->in_len + 1);
		memcpy(s, op->in, op->in_len);
		s[op->in_len] = '\0';
		const size_t slen = strlen(s);
		char *s2 = c04_xmalloc(slen + 1);
		memcpy(s2, s, slen + 1);
		free(s);
		lzma_filter f[LZMA_FILTERS_MAX + 1];
		for (int i = 0; i <= LZMA_FILTERS_MAX; ++i) {
			f[i].id = 0x5A5A5A;
			f[i].options = (void *)(uintptr_t)0x10;   // "the old contents are ignored"
		}
		int epos = -7;
		const uint32_t flags = (uint32_t)op->p[0];
		const char *msg = lzma_str_to_filters(s2, &epos, f, flags, &c04_alloc);
		r->calls = 1;
		r->ret = msg == NULL ? 0 : 1;
		if (epos < 0 || (size_t)epos > slen)
			c04_bad(r, "lzma_str_to_filters-error_pos=%d-outside-[0,%zu]", epos, slen);
		uint64_t h = mix(11, (uint64_t)epos);
		if (msg != NULL) {
			if (strlen(msg) == 0 || strlen(msg) > 200)
				c04_bad(r, "lzma_str_to_filters-odd-message");
			for (int i = 0; i <= LZMA_FILTERS_MAX; ++i)
				if (f[i].id != 0x5A5A5A || f[i].options != (void *)(uintptr_t)0x10)
					c04_bad(r, "lzma_str_to_filters-failed-but-modified-filters[%d]", i);
			if (c04_live_blocks != 0)
				c04_bad(r, "lzma_str_to_filters-failed-and-leaked");
			h = mix(h, strlen(msg));
		} else {
			h = mix(h, hash_filters(f));
			char *back = NULL;
			lzma_ret br = lzma_str_from_filters(&back, f, (flags & LZMA_STR_ALL_FILTERS) | LZMA_STR_DECODER, &c04_alloc);
			c04_check_ret(r, "lzma_str_from_filters", (int)br, R_OK | R_OPTIONS | R_MEM);
			if ((br == LZMA_OK) != (back != NULL))
				c04_bad(r, "lzma_str_from_filters-output-set-iff-OK-violated");
			if (back != NULL) {
				h = mix(h, lzma_crc32((const uint8_t *)back, strlen(back), 0));
				c04_alloc.free(NULL, back);
			}
			lzma_filters_free(f, &c04_alloc);
		}
		r->aux = h;
		free(s2);
		return true;
	}
	if (!strcmp(ep, "vli")) {
		uint8_t *in = c04_dup(op->in, op->in_len);
		// single-call
		lzma_vli v1 = 0x5A5A;
		size_t p1 = 0;
		lzma_ret r1 = lzma_vli_decode(&v1, NULL, in, &p1, op->in_len);
		c04_check_ret(r, "lzma_vli_decode(single)", (int)r1, R_OK | R_DATA);
		if (p1 > op->in_len || p1 > 9)
			c04_bad(r, "vli-position-outside-buffer");
		if (r1 == LZMA_OK && (v1 > LZMA_VLI_MAX || p1 == 0 || lzma_vli_size(v1) != p1))
			c04_bad(r, "vli-single-call-accepted-value-%" PRIu64 "-in-%zu-bytes", (uint64_t)v1, p1);
		free(in);
		// multi-call, one exactly sized piece at a time
		lzma_vli v2 = 0x5A5A;
		size_t vpos = 0, pos = 0;
		lzma_ret r2 = LZMA_OK;
		while (r2 == LZMA_OK) {
			size_t remaining = op->in_len - pos;
			size_t chunk = (size_t)c04_below(&g, 4);
			if (chunk > remaining)
				chunk = remaining;
			uint8_t *piece = c04_dup(op->in + pos, chunk);
			size_t p = 0;
			r2 = lzma_vli_decode(&v2, &vpos, piece, &p, chunk);
			free(piece);
			++r->calls;
			c04_check_ret(r, "lzma_vli_decode(multi)", (int)r2, R_OK | R_END | R_DATA | R_BUF);
			if (p > chunk || vpos > 9) {
				c04_bad(r, "vli-multi-position-outside-buffer");
				break;
			}
			if (chunk == 0 && r2 != LZMA_BUF_ERROR)
				c04_bad(r, "vli-multi-no-input-but-%d", (int)r2);
			if (r2 == LZMA_BUF_ERROR && chunk != 0)
				c04_bad(r, "vli-multi-BUF_ERROR-with-input");
			if (r2 == LZMA_OK && (chunk == 0 || p != chunk))
				c04_bad(r, "vli-multi-OK-without-consuming-all-input");
			pos += p;
			if (r->bad[0])
				break;
			if (r2 == LZMA_BUF_ERROR && remaining > 0)
				r2 = LZMA_OK;      // our own empty piece: go on
			else if (r2 == LZMA_BUF_ERROR)
				break;
		}
		if (r2 == LZMA_STREAM_END && (v2 > LZMA_VLI_MAX || r1 != LZMA_OK || v1 != v2 || pos != p1))
			c04_bad(r, "vli-multi-call-differs-from-single-call");
		if (r1 == LZMA_OK && r2 != LZMA_STREAM_END)
			c04_bad(r, "vli-single-call-OK-but-multi-call-%d", (int)r2);
		r->ret = (int)r1;
		r->in_total = p1;
		r->aux = r1 == LZMA_OK ? v1 : 0;
		return true;
	}
	return false;
}
