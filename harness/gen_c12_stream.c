// Stage G probe for C12 (part 1): runs the real stream_encode() and block_encode() (static functions, reached by
// #include-ing the .c files with the build's own flags) on STUB inner coders and tabulates what they do with every
// action. Printed as Lean tables by gen_c12_main.c.
#include "stream_encoder.c"
#include "block_encoder.c"
#include <stdio.h>

static lzma_action seen_action;
static int stub_calls;
static lzma_ret stub_ret;

static lzma_ret
stub_code(void *coder, const lzma_allocator *allocator, const uint8_t *restrict in, size_t *restrict in_pos,
		size_t in_size, uint8_t *restrict out, size_t *restrict out_pos, size_t out_size, lzma_action action)
{
	(void)coder; (void)allocator; (void)in; (void)out; (void)out_pos; (void)out_size;
	if (stub_calls++ == 0)
		seen_action = action;
	*in_pos = in_size;
	return stub_ret;
}

static int dummy;

// rows: action, inner return, action seen by the Block encoder, return value, sequence afterwards, Blocks in the Index
void gen_stream_block_encode(void)
{
	printf("/-- stream_encode() at SEQ_BLOCK_ENCODE with a stub Block encoder: (action, what the Block encoder returns,\n"
	       "    action the Block encoder was called with, return value, coder->sequence afterwards, Records in the Index). -/\n");
	printf("def streamBlockEncode : List (Nat × Nat × Nat × Nat × Nat × Nat) := [");
	int first = 1;
	for (unsigned a = 0; a <= LZMA_ACTION_MAX; ++a)
	for (unsigned sr = 0; sr <= 1; ++sr) {
		static lzma_stream_coder c;
		memset(&c, 0, sizeof(c));
		c.sequence = SEQ_BLOCK_ENCODE;
		c.block_encoder = LZMA_NEXT_CODER_INIT;
		c.block_encoder.coder = &dummy;
		c.block_encoder.code = &stub_code;
		c.index_encoder = LZMA_NEXT_CODER_INIT;
		c.index = lzma_index_init(NULL);
		c.filters[0].id = LZMA_VLI_UNKNOWN;
		c.block_options.version = 0;
		c.block_options.check = LZMA_CHECK_CRC32;
		c.block_options.header_size = 12;
		c.block_options.compressed_size = 8;
		c.block_options.uncompressed_size = 5;
		stub_calls = 0;
		stub_ret = sr ? LZMA_STREAM_END : LZMA_OK;
		const uint8_t in[1] = {0x41};
		uint8_t out[256];
		size_t in_pos = 0, out_pos = 0;
		const lzma_ret r = stream_encode(&c, NULL, in, &in_pos, 1, out, &out_pos, sizeof(out), (lzma_action)a);
		printf("%s\n  (%u, %u, %u, %u, %u, %u)", first ? "" : ",", a, (unsigned)stub_ret, (unsigned)seen_action, (unsigned)r,
				(unsigned)c.sequence, (unsigned)lzma_index_block_count(c.index));
		first = 0;
		lzma_next_end(&c.index_encoder, NULL);
		lzma_index_end(c.index, NULL);
	}
	printf("]\n\n");
}

// rows: action, return value, sequence afterwards, bytes written
void gen_stream_block_init(void)
{
	printf("/-- stream_encode() at SEQ_BLOCK_INIT without input: (action, return value, coder->sequence afterwards, bytes written). -/\n");
	printf("def streamBlockInitNoInput : List (Nat × Nat × Nat × Nat) := [");
	int first = 1;
	for (unsigned a = 0; a <= LZMA_ACTION_MAX; ++a) {
		static lzma_stream_coder c;
		memset(&c, 0, sizeof(c));
		c.sequence = SEQ_BLOCK_INIT;
		c.block_encoder = LZMA_NEXT_CODER_INIT;
		c.index_encoder = LZMA_NEXT_CODER_INIT;
		c.index = lzma_index_init(NULL);
		c.filters[0].id = LZMA_VLI_UNKNOWN;
		c.block_options.check = LZMA_CHECK_CRC32;
		uint8_t out[256];
		size_t in_pos = 0, out_pos = 0;
		const lzma_ret r = stream_encode(&c, NULL, NULL, &in_pos, 0, out, &out_pos, sizeof(out), (lzma_action)a);
		printf("%s\n  (%u, %u, %u, %zu)", first ? "" : ",", a, (unsigned)r, (unsigned)c.sequence, out_pos);
		first = 0;
		lzma_next_end(&c.index_encoder, NULL);
		lzma_index_end(c.index, NULL);
	}
	printf("]\n\n");
	printf("def streamSeqValues : List Nat := [%u, %u, %u, %u, %u, %u]\n\n", (unsigned)SEQ_STREAM_HEADER, (unsigned)SEQ_BLOCK_INIT,
			(unsigned)SEQ_BLOCK_HEADER, (unsigned)SEQ_BLOCK_ENCODE, (unsigned)SEQ_INDEX_ENCODE, (unsigned)SEQ_STREAM_FOOTER);
}

// rows: action, inner return, action seen by the filter chain, return value, sequence afterwards, bytes written
void gen_block_encode(void)
{
	printf("/-- block_encode() at SEQ_CODE with a stub filter chain, compressed_size = 5 so far, Check = CRC32:\n"
	       "    (action, what the chain returns, action the chain was called with, return value, sequence afterwards, bytes written). -/\n");
	printf("def blockEncode : List (Nat × Nat × Nat × Nat × Nat × Nat) := [");
	int first = 1;
	static const lzma_action acts[3] = {LZMA_RUN, LZMA_SYNC_FLUSH, LZMA_FINISH};
	for (unsigned ai = 0; ai < 3; ++ai)
	for (unsigned sr = 0; sr <= 1; ++sr) {
		if (acts[ai] == LZMA_RUN && sr == 1)
			continue;   // a filter chain never answers LZMA_RUN with LZMA_STREAM_END (block_encode asserts it)
		lzma_block blk;
		memset(&blk, 0, sizeof(blk));
		blk.check = LZMA_CHECK_CRC32;
		lzma_block_coder c;
		memset(&c, 0, sizeof(c));
		c.next = LZMA_NEXT_CODER_INIT;
		c.next.coder = &dummy;
		c.next.code = &stub_code;
		c.block = &blk;
		c.sequence = SEQ_CODE;
		c.compressed_size = 5;
		c.uncompressed_size = 9;
		lzma_check_init(&c.check, LZMA_CHECK_CRC32);
		stub_calls = 0;
		stub_ret = sr ? LZMA_STREAM_END : LZMA_OK;
		const uint8_t in[1] = {0x41};
		uint8_t out[64];
		size_t in_pos = 0, out_pos = 0;
		const lzma_ret r = block_encode(&c, NULL, in, &in_pos, 1, out, &out_pos, sizeof(out), acts[ai]);
		printf("%s\n  (%u, %u, %u, %u, %u, %zu)", first ? "" : ",", (unsigned)acts[ai], (unsigned)stub_ret, (unsigned)seen_action,
				(unsigned)r, (unsigned)c.sequence, out_pos);
		first = 0;
	}
	printf("]\n\n");
	printf("def blockSeqValues : List Nat := [%u, %u, %u]\n\n", (unsigned)SEQ_CODE, (unsigned)SEQ_PADDING, (unsigned)SEQ_CHECK);
}
