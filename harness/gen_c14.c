// Stage G probe for C14 (part 1): prints Lean definitions (no namespace header; tools/props/c14.py wraps them) from
// the code the build really compiles: the CRC tables, SHA256_K and the initial state of lzma_sha256_init, the
// check sizes / supported flags returned by check.c, vmasks[] and the CRC32 CLMUL constants of crc_x86_clmul.h.
// Compiled with the -D/-I flags of the library build.
#include <stdint.h>
#include <stdio.h>
#include <inttypes.h>
#include <stddef.h>
#include <string.h>

#if defined(__x86_64__) || defined(__i386__)
#include <immintrin.h>
// Record the arguments of every _mm_set_epi64x() the CRC code executes (fold512, fold128, mu_p are locals).
static uint64_t rec[32];
static int nrec;
static inline __m128i rec_set(long long hi, long long lo)
{
	if (nrec + 2 <= 32) { rec[nrec++] = (uint64_t)hi; rec[nrec++] = (uint64_t)lo; }
	return (_mm_set_epi64x)(hi, lo);
}
#define _mm_set_epi64x(hi, lo) rec_set((hi), (lo))
#endif

#include "crc32_fast.c"      // lzma_crc32, lzma_crc32_table (if generic), crc32_arch_optimized (if CLMUL)
#ifndef CRC32_GENERIC
#	include "crc32_table_le.h"
#endif
#include "crc64_table_le.h"
#include "check.c"
#ifdef HAVE_INTERNAL_SHA256
#	include "sha256.c"
#endif

// check.c refers to lzma_crc64; it is never called here.
extern LZMA_API(uint64_t) lzma_crc64(const uint8_t *buf, size_t size, uint64_t crc) { (void)buf; (void)size; return crc; }

int main(void)
{
	printf("-- part 1: harness/gen_c14.c\n");
	for (int s = 0; s < 8; ++s) {
		printf("def crc32T%d : List Nat := [", s);
		for (int i = 0; i < 256; ++i)
			printf("%s%s%" PRIu32, i ? "," : "", (i % 8) ? " " : "\n  ", lzma_crc32_table[s][i]);
		printf("]\n\n");
	}
	printf("def crc32Table : List (List Nat) := [crc32T0, crc32T1, crc32T2, crc32T3, crc32T4, crc32T5, crc32T6, crc32T7]\n\n");
	for (int s = 0; s < 4; ++s) {
		printf("def crc64T%d : List Nat := [", s);
		for (int i = 0; i < 256; ++i)
			printf("%s%s%" PRIu64, i ? "," : "", (i % 4) ? " " : "\n  ", lzma_crc64_table[s][i]);
		printf("]\n\n");
	}
	printf("def crc64Table : List (List Nat) := [crc64T0, crc64T1, crc64T2, crc64T3]\n\n");

	// SHA-256
	printf("/-- SHA256_K[64] of sha256.c -/\ndef sha256K : List Nat := [");
#ifdef HAVE_INTERNAL_SHA256
	for (int i = 0; i < 64; ++i)
		printf("%s%s%" PRIu32, i ? "," : "", (i % 8) ? " " : "\n  ", SHA256_K[i]);
#endif
	printf("]\n\n");
	printf("/-- check->state.sha256.state after lzma_sha256_init -/\ndef sha256Init : List Nat := [");
#ifdef HAVE_INTERNAL_SHA256
	{
		lzma_check_state c;
		memset(&c, 0xAA, sizeof(c));
		lzma_sha256_init(&c);
		for (int i = 0; i < 8; ++i)
			printf("%s%" PRIu32, i ? ", " : "", c.state.sha256.state[i]);
		printf("]\n\ndef sha256InitSize : Nat := %" PRIu64 "\n\n", c.state.sha256.size);
	}
#else
	printf("]\n\ndef sha256InitSize : Nat := 0\n\n");
#endif

	// the 64-bit big-endian bit length that lzma_sha256_finish stores in buffer.u8[56..63] (the digest overwrites only
	// the first 32 bytes), tabulated for a grid of byte counts by running the compiled function
	printf("/-- (size, big-endian value of buffer.u8[56..63] after lzma_sha256_finish with state.sha256.size = size) -/\n"
		"def shaLenField : List (Nat × Nat) := [");
#ifdef HAVE_INTERNAL_SHA256
	{
		static const uint64_t grid[] = { 0, 1, 55, 56, 64, 1000003, (UINT64_C(1) << 29) - 1, UINT64_C(1) << 29,
			(UINT64_C(1) << 29) + 12345, (UINT64_C(1) << 30) + 5, (UINT64_C(1) << 31) + 7, (UINT64_C(1) << 32) - 1,
			UINT64_C(1) << 32, (UINT64_C(1) << 32) + 64, (UINT64_C(5) << 32) + (UINT64_C(7) << 29) + 3,
			(UINT64_C(1) << 45) + 99, (UINT64_C(1) << 61) - 1 };
		for (size_t g = 0; g < sizeof(grid) / sizeof(grid[0]); ++g) {
			lzma_check_state c;
			memset(&c, 0, sizeof(c));
			lzma_sha256_init(&c);
			c.state.sha256.size = grid[g];
			lzma_sha256_finish(&c);
			uint64_t v = 0;
			for (int i = 56; i < 64; ++i)
				v = (v << 8) | c.buffer.u8[i];
			printf("%s(%" PRIu64 ", %" PRIu64 ")", g ? ", " : "", grid[g], v);
		}
	}
#endif
	printf("]\n\n");

	// check.c
	printf("/-- lzma_check_size(0..15), then the value for 16 -/\ndef checkSizes : List Nat := [");
	for (int i = 0; i <= 16; ++i)
		printf("%s%" PRIu32, i ? ", " : "", lzma_check_size((lzma_check)i));
	printf("]\n\n");
	printf("def checkSupported : List Bool := [");
	for (int i = 0; i <= 16; ++i)
		printf("%s%s", i ? ", " : "", lzma_check_is_supported((lzma_check)i) ? "true" : "false");
	printf("]\n\n");
	printf("def checkIdMax : Nat := %d\n\n", (int)LZMA_CHECK_ID_MAX);
	printf("def checkSizeMax : Nat := %d\n\n", (int)LZMA_CHECK_SIZE_MAX);

	// CLMUL (CRC32 flavour)
	printf("/-- vmasks[64] of crc_x86_clmul.h -/\ndef clmulVmasks : List Nat := [");
#ifdef CRC_X86_CLMUL
	for (int i = 0; i < 64; ++i)
		printf("%s%u", i ? ", " : "", (unsigned)vmasks[i]);
#endif
	printf("]\n\n");
	printf("/-- arguments (hi, lo) of the _mm_set_epi64x calls in crc32_arch_optimized: fold512, fold128, mu_p -/\n"
		"def clmul32 : List Nat := [");
#if defined(CRC_X86_CLMUL) && defined(CRC32_ARCH_OPTIMIZED)
	{
		int ok = 1;
#	ifdef CRC32_GENERIC
		ok = is_arch_extension_supported();
#	endif
		if (ok) {
			uint8_t one[1] = { 0 };
			nrec = 0;
			(void)crc32_arch_optimized(one, 1, 0);
			for (int i = 0; i < nrec; ++i)
				printf("%s%" PRIu64, i ? ", " : "", rec[i]);
		}
	}
#endif
	printf("]\n\n");
	return 0;
}
