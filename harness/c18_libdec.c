// C18: in-process library decode of a file, used as the reference for what the command-line tools must deliver.
// Links liblzma.a of the build under test; contains NO code of src/xz or src/xzdec.
//
// Line protocol (one op per line on stdin, one result line on stdout):
//   dec <tool xz|xzdec|lzmadec> <single 0|1> <ignorecheck 0|1> <format auto|xz|lzma|lzip|raw> <xz's IO_BUFFER_SIZE> <infile> <outfile>
//     -> fmt=<xz|lzma|lzip|unknown> init_warn=<k> init_ret=<lzma_ret> warn=<k> ret=<lzma_ret> trailing=<0|1>
//        allow_trailing=<0|1> out=<bytes written to outfile> in=<file size>
//
// tool=xz follows the way the xz tool drives liblzma (documented behaviour of coder_run): the first chunk of at most
// IO_BUFFER_SIZE bytes decides the format (own re-implementation of the detection rules), the decoder is created with
// LZMA_TELL_UNSUPPORTED_CHECK (or LZMA_IGNORE_CHECK) and LZMA_CONCATENATED (unless --single-stream), the headers are
// decoded with no output space (LZMA_UNSUPPORTED_CHECK answers are counted as warnings), then the data is decoded
// through IO_BUFFER_SIZE-byte buffers; LZMA_FINISH is used once the input has ended. `ret` is the first return value other
// than LZMA_OK / LZMA_UNSUPPORTED_CHECK; the bytes produced up to and including that call are in <outfile>.
// ret=-1 init_ret=<error> means that the headers already failed (nothing is decoded then).
// tool=xzdec / lzmadec: lzma_stream_decoder(UINT64_MAX, LZMA_CONCATENATED) / lzma_alone_decoder(UINT64_MAX) through BUFSIZ buffers.
#include "hproto.h"
#include <lzma.h>
#include <errno.h>

#define CHUNK_MAX (1u << 22)
static size_t CHUNK = 8192;      // IO_BUFFER_SIZE of the xz under test (given on the op line)

static size_t read_full(FILE *f, uint8_t *buf, size_t n, bool *eof)
{
	size_t pos = 0;
	while (pos < n) {
		size_t r = fread(buf + pos, 1, n - pos, f);
		if (r == 0) { *eof = true; break; }
		pos += r;
	}
	return pos;
}

static bool pow2(uint32_t d) { return d != 0 && (d & (d - 1)) == 0; }

// .lzma detection as documented for xz: 13-byte header, properties byte valid ((pb*5+lp)*9+lc with lc+lp<=4),
// dictionary size 2^n or 2^n+2^(n-1) or UINT32_MAX, uncompressed size unknown or <= 256 GiB.
static bool looks_lzma(const uint8_t *b, size_t n)
{
	if (n < 13) return false;
	if (b[0] > (4 * 5 + 4) * 9 + 8) return false;
	unsigned pb = b[0] / (9 * 5), rem = b[0] - pb * 9 * 5, lp = rem / 9, lc = rem - lp * 9;
	if (lc + lp > 4) return false;
	uint32_t d = (uint32_t)b[1] | ((uint32_t)b[2] << 8) | ((uint32_t)b[3] << 16) | ((uint32_t)b[4] << 24);
	if (d != UINT32_MAX) {
		if (d == 0) return false;
		if (!pow2(d) && !(d % 3 == 0 && pow2(d / 3))) return false;
	}
	uint64_t us = 0;
	for (int i = 0; i < 8; ++i) us |= (uint64_t)b[5 + i] << (8 * i);
	if (us != UINT64_MAX && us > (UINT64_C(1) << 38)) return false;
	return true;
}

static void dec_xz(bool single, bool ignore_check, const char *format, FILE *in, FILE *out, long insize)
{
	static uint8_t ibuf[CHUNK_MAX], obuf[CHUNK_MAX];
	lzma_stream strm = LZMA_STREAM_INIT;
	bool eof = false;
	size_t n = read_full(in, ibuf, CHUNK, &eof);
	strm.next_in = ibuf;
	strm.avail_in = n;

	static const uint8_t xzmagic[6] = { 0xFD, 0x37, 0x7A, 0x58, 0x5A, 0x00 };
	const bool is_xz = n >= 6 && memcmp(ibuf, xzmagic, 6) == 0;
	const bool is_lz = n >= 4 && memcmp(ibuf, "LZIP", 4) == 0;
	const bool is_lzma = looks_lzma(ibuf, n);
	const char *fmt = "unknown";
	if (!strcmp(format, "auto")) {
		if (is_xz) fmt = "xz"; else if (is_lz) fmt = "lzip"; else if (is_lzma) fmt = "lzma";
	} else if (!strcmp(format, "xz")) { if (is_xz) fmt = "xz"; }
	else if (!strcmp(format, "lzma")) { if (is_lzma) fmt = "lzma"; }
	else if (!strcmp(format, "lzip")) { if (is_lz) fmt = "lzip"; }
	else if (!strcmp(format, "raw")) { fmt = "raw"; }       // xz --format=raw --lzma2=preset=0: no detection, no header phase

	uint32_t flags = ignore_check ? LZMA_IGNORE_CHECK : LZMA_TELL_UNSUPPORTED_CHECK;
	bool allow_trailing = single;
	if (!single) flags |= LZMA_CONCATENATED;

	if (!strcmp(fmt, "unknown")) {
		printf("fmt=unknown init_warn=0 init_ret=%d warn=0 ret=-1 trailing=0 allow_trailing=%d out=0 in=%ld\n",
				LZMA_FORMAT_ERROR, allow_trailing, insize);
		return;
	}
	lzma_ret ret;
	if (!strcmp(fmt, "xz")) {
		lzma_mt mt;
		memset(&mt, 0, sizeof(mt));
		mt.flags = flags;
		mt.threads = 1;
		mt.timeout = 300;
		mt.memlimit_threading = 0;
		mt.memlimit_stop = UINT64_MAX;
		ret = lzma_stream_decoder_mt(&strm, &mt);
	} else if (!strcmp(fmt, "lzma")) {
		ret = lzma_alone_decoder(&strm, UINT64_MAX);
	} else if (!strcmp(fmt, "raw")) {
		static lzma_options_lzma opt;
		if (lzma_lzma_preset(&opt, 0)) { printf("io-error preset\n"); return; }
		lzma_filter chain[2] = { { .id = LZMA_FILTER_LZMA2, .options = &opt }, { .id = LZMA_VLI_UNKNOWN, .options = NULL } };
		ret = lzma_raw_decoder(&strm, chain);
	} else {
		allow_trailing = true;
		ret = lzma_lzip_decoder(&strm, UINT64_MAX, flags);
	}
	int init_warn = 0, warn = 0;
	if (ret == LZMA_OK && strcmp(fmt, "raw") != 0) {
		strm.next_out = NULL;
		strm.avail_out = 0;
		while ((ret = lzma_code(&strm, LZMA_RUN)) == LZMA_UNSUPPORTED_CHECK)
			++init_warn;
	}
	if (ret != LZMA_OK && ret != LZMA_STREAM_END) {
		printf("fmt=%s init_warn=%d init_ret=%d warn=0 ret=-1 trailing=0 allow_trailing=%d out=0 in=%ld\n",
				fmt, init_warn, (int)ret, allow_trailing, insize);
		lzma_end(&strm);
		return;
	}
	const int init_ret = (int)ret;
	lzma_action action = eof ? LZMA_FINISH : LZMA_RUN;
	strm.next_out = obuf;
	strm.avail_out = CHUNK;
	uint64_t total = 0;
	bool trailing = false;
	for (;;) {
		if (strm.avail_in == 0 && action == LZMA_RUN) {
			strm.next_in = ibuf;
			strm.avail_in = read_full(in, ibuf, CHUNK, &eof);
			if (eof) action = LZMA_FINISH;
		}
		ret = lzma_code(&strm, action);
		if (strm.avail_out == 0 || (ret != LZMA_OK && ret != LZMA_UNSUPPORTED_CHECK)) {
			size_t k = CHUNK - strm.avail_out;
			if (fwrite(obuf, 1, k, out) != k) { perror("fwrite"); exit(3); }
			total += k;
			strm.next_out = obuf;
			strm.avail_out = CHUNK;
		}
		if (ret == LZMA_UNSUPPORTED_CHECK) { ++warn; continue; }
		if (ret != LZMA_OK) {
			if (ret == LZMA_STREAM_END) {
				trailing = strm.avail_in != 0;
				if (!trailing && !eof) {
					uint8_t c;
					trailing = fread(&c, 1, 1, in) == 1;
				}
			}
			break;
		}
	}
	printf("fmt=%s init_warn=%d init_ret=%d warn=%d ret=%d trailing=%d allow_trailing=%d out=%" PRIu64 " in=%ld\n",
			fmt, init_warn, init_ret, warn, (int)ret, trailing, allow_trailing, total, insize);
	lzma_end(&strm);
}

static void dec_xzdec(bool lzmadec, FILE *in, FILE *out, long insize)
{
	static uint8_t ibuf[CHUNK_MAX], obuf[CHUNK_MAX];    // CHUNK plays the role of xzdec's BUFSIZ
	lzma_stream strm = LZMA_STREAM_INIT;
	lzma_ret ret = lzmadec ? lzma_alone_decoder(&strm, UINT64_MAX)
			: lzma_stream_decoder(&strm, UINT64_MAX, LZMA_CONCATENATED);
	if (ret != LZMA_OK) { printf("fmt=- init_warn=0 init_ret=%d warn=0 ret=-1 trailing=0 allow_trailing=0 out=0 in=%ld\n", (int)ret, insize); return; }
	strm.avail_in = 0;
	strm.next_out = obuf;
	strm.avail_out = CHUNK;
	lzma_action action = LZMA_RUN;
	uint64_t total = 0;
	bool trailing = false;
	for (;;) {
		if (strm.avail_in == 0) {
			strm.next_in = ibuf;
			strm.avail_in = fread(ibuf, 1, CHUNK, in);
			if (!lzmadec && feof(in)) action = LZMA_FINISH;
		}
		ret = lzma_code(&strm, action);
		if (strm.avail_out == 0 || ret != LZMA_OK) {
			size_t k = CHUNK - strm.avail_out;
			if (fwrite(obuf, 1, k, out) != k) { perror("fwrite"); exit(3); }
			total += k;
			strm.next_out = obuf;
			strm.avail_out = CHUNK;
		}
		if (ret != LZMA_OK) {
			if (ret == LZMA_STREAM_END) {
				uint8_t c;
				trailing = strm.avail_in != 0 || fread(&c, 1, 1, in) != 0 || !feof(in);
			}
			break;
		}
	}
	printf("fmt=- init_warn=0 init_ret=0 warn=0 ret=%d trailing=%d allow_trailing=%d out=%" PRIu64 " in=%ld\n",
			(int)ret, trailing, !lzmadec, total, insize);
	lzma_end(&strm);
}

int main(void)
{
	hp_line l = {0};
	while (hp_next(&l)) {
		if (l.ntok == 8 && !strcmp(l.tok[0], "dec")) {
			CHUNK = (size_t)hp_u64(l.tok[5]);
			if (CHUNK == 0 || CHUNK > CHUNK_MAX) { printf("io-error chunk\n"); continue; }
			FILE *in = fopen(l.tok[6], "rb");
			FILE *out = fopen(l.tok[7], "wb");
			if (!in || !out) { printf("io-error %s\n", strerror(errno)); if (in) fclose(in); if (out) fclose(out); continue; }
			fseek(in, 0, SEEK_END);
			long insize = ftell(in);
			fseek(in, 0, SEEK_SET);
			if (!strcmp(l.tok[1], "xz"))
				dec_xz(l.tok[2][0] == '1', l.tok[3][0] == '1', l.tok[4], in, out, insize);
			else
				dec_xzdec(!strcmp(l.tok[1], "lzmadec"), in, out, insize);
			fclose(in);
			if (fclose(out)) { perror("fclose"); exit(3); }
		} else {
			printf("bad-op\n");
		}
		fflush(stdout);
	}
	hp_done(&l);
	return 0;
}
