// C06 small-coder ops: the real resumable small coders of liblzma are driven call by call so that the
// chunk-faithful Lean models (Model/Coder.lean, driver xzm_c06) can be compared with them per call.
//
//   vlid <hex> <len>...                 lzma_vli_decode with a persistent vli_pos; pieces of the given lengths,
//                                       then the rest in one piece
//        -> "<ret>:<consumed> ... | vli=<v> pos=<vli_pos>"
//   vlid1 <hex>                         single-call mode (vli_pos == NULL) -> "<ret> <vli> <in_pos>"
//   vlie <value> <cap>...               lzma_vli_encode with persistent vli_pos, output pieces of the given capacities
//        -> "<ret>:<hex> ... | pos=<vli_pos>"
//   vlie1 <value> <cap>                 single-call mode
//   field <size> <hex> <len>...         lzma_bufcpy into a fixed-size field buffer with persistent pos
//        -> "<consumed>:<pos> ... | <buffer hex>"
//   simple <unit> <umax> <enc> <next> <fin> <hex> <in>,<out> ...
//                                       simple_code() with a test filter (see tfilter), unfiltered_max = umax;
//                                       next: 0 = no next coder (copy straight from in; the encoder configuration),
//                                             1 = stub next coder that copies and returns LZMA_STREAM_END with the last byte,
//                                             2 = stub that needs one extra input byte after the data before STREAM_END
//        -> "<ret>:<consumed>:<outhex> ..."    one entry per call
//   delta <dist> <enc> <next> <fin> <hex> <in>,<out> ...       same shape for the delta coder
#include "common.h"
#include "delta_encoder.h"
#include "delta_decoder.h"
#include "simple_private.h"
#include "hproto.h"

// ---- test filter: processes whole units of `unit` bytes; byte at absolute position p becomes b + (p % 251) + 1
// (encoder) or b - (p % 251) - 1 (decoder). Satisfies the BCJ contract: processes a prefix, leaves < unit bytes,
// prefix-stable, position-dependent through now_pos only.
typedef struct { uint32_t unit; } tf_state;

static size_t tfilter(void *simple, uint32_t now_pos, bool is_encoder, uint8_t *buffer, size_t size)
{
	const tf_state *st = simple;
	size_t n = size - size % st->unit;
	for (size_t i = 0; i < n; ++i) {
		uint8_t k = (uint8_t)(((uint32_t)(now_pos + (uint32_t)i)) % 251u + 1u);
		buffer[i] = is_encoder ? (uint8_t)(buffer[i] + k) : (uint8_t)(buffer[i] - k);
	}
	return n;
}

// ---- stub next coder
typedef struct { size_t total, done; int mode; bool marker_seen; } stub;
static stub g_stub;

static lzma_ret stub_code(void *cp, const lzma_allocator *allocator, const uint8_t *restrict in, size_t *restrict in_pos,
		size_t in_size, uint8_t *restrict out, size_t *restrict out_pos, size_t out_size, lzma_action action)
{
	(void)allocator; (void)action;
	stub *s = cp;
	size_t left = s->total - s->done;
	size_t lim = in_size - *in_pos > left ? *in_pos + left : in_size;
	s->done += lzma_bufcpy(in, in_pos, lim, out, out_pos, out_size);
	if (s->done == s->total) {
		if (s->mode == 1)
			return LZMA_STREAM_END;
		if (*in_pos < in_size) {
			++*in_pos;   // the "end marker"
			return LZMA_STREAM_END;
		}
	}
	return LZMA_OK;
}

static void stub_end(void *cp, const lzma_allocator *allocator) { (void)cp; (void)allocator; }

static lzma_ret stub_init(lzma_next_coder *next, const lzma_allocator *allocator, const lzma_filter_info *filters)
{
	(void)allocator; (void)filters;
	next->coder = &g_stub;
	next->code = &stub_code;
	next->end = &stub_end;
	return LZMA_OK;
}

static bool parse_pair(const char *s, size_t *a, size_t *b)
{
	char *e;
	*a = (size_t)strtoull(s, &e, 10);
	if (*e != ',') return false;
	*b = (size_t)strtoull(e + 1, &e, 10);
	return *e == 0;
}

// Drives a lzma_next_coder call by call over explicit pieces, then (all, 4096) pieces; prints one entry per call.
static void next_run(lzma_next_coder *nc, const uint8_t *in, size_t n, bool fin, hp_line *l, int first)
{
	size_t pos = 0;
	unsigned idle = 0;
	bool finishing = false;
	int i = first;
	for (unsigned calls = 0; calls < 100000; ++calls) {
		size_t want = (size_t)-1, cap = 4096;
		if (i < l->ntok) {
			if (!parse_pair(l->tok[i], &want, &cap)) { printf("bad-piece "); return; }
			++i;
		}
		size_t left = n - pos;
		size_t ain = want > left ? left : want;
		if (finishing) ain = left;
		lzma_action act = LZMA_RUN;
		if (fin && ain == left) { act = LZMA_FINISH; finishing = true; }
		uint8_t *ib = malloc(ain ? ain : 1), *ob = malloc(cap ? cap : 1);
		if (ain) memcpy(ib, in + pos, ain);
		size_t ip = 0, op = 0;
		lzma_ret ret = nc->code(nc->coder, NULL, ain ? ib : NULL, &ip, ain, cap ? ob : NULL, &op, cap, act);
		printf("%s%d:%zu:", calls ? " " : "", (int)ret, ip);
		hp_put_hex(ob, op);
		pos += ip;
		free(ib); free(ob);
		if (ret != LZMA_OK) break;
		idle = (ip == 0 && op == 0) ? idle + 1 : 0;
		if (i >= l->ntok && idle >= 2) break;
	}
}

bool c06_small_op(hp_line *l)
{
	const char *op = l->tok[0];
	if (!strcmp(op, "vlid") && l->ntok >= 2) {
		size_t n; uint8_t *in = hp_hex(l->tok[1], &n);
		lzma_vli vli = 0x5555555555555555ull;   // garbage: the function must initialise it
		size_t vli_pos = 0, pos = 0;
		int i = 2;
		for (unsigned calls = 0; calls < 1000; ++calls) {
			size_t want = i < l->ntok ? (size_t)hp_u64(l->tok[i]) : (size_t)-1;
			bool last = i >= l->ntok;
			++i;
			size_t left = n - pos;
			size_t ain = want > left ? left : want;
			uint8_t *ib = malloc(ain ? ain : 1);
			if (ain) memcpy(ib, in + pos, ain);
			size_t ip = 0;
			lzma_ret ret = lzma_vli_decode(&vli, &vli_pos, ib, &ip, ain);
			printf("%s%d:%zu", calls ? " " : "", (int)ret, ip);
			pos += ip;
			free(ib);
			if ((ret != LZMA_OK && ret != LZMA_BUF_ERROR) || last) break;
		}
		printf(" | vli=%" PRIu64 " pos=%zu\n", (uint64_t)vli, vli_pos);
		free(in);
		return true;
	}
	if (!strcmp(op, "vlid1") && l->ntok == 2) {
		size_t n; uint8_t *in = hp_hex(l->tok[1], &n);
		lzma_vli vli = 0x5555555555555555ull;
		size_t ip = 0;
		lzma_ret ret = lzma_vli_decode(&vli, NULL, in, &ip, n);
		// on failure the values left in *vli and *in_pos are not part of the contract
		if (ret == LZMA_OK) printf("%d %" PRIu64 " %zu\n", (int)ret, (uint64_t)vli, ip);
		else printf("%d - -\n", (int)ret);
		free(in);
		return true;
	}
	if (!strcmp(op, "vlie") && l->ntok >= 2) {
		lzma_vli v = hp_u64(l->tok[1]);
		size_t vli_pos = 0;
		int i = 2;
		for (unsigned calls = 0; calls < 1000; ++calls) {
			size_t cap = i < l->ntok ? (size_t)hp_u64(l->tok[i]) : 16;
			bool last = i >= l->ntok;
			++i;
			uint8_t *ob = malloc(cap ? cap : 1);
			size_t opos = 0;
			lzma_ret ret = lzma_vli_encode(v, &vli_pos, ob, &opos, cap);
			printf("%s%d:", calls ? " " : "", (int)ret);
			hp_put_hex(ob, opos);
			free(ob);
			if ((ret != LZMA_OK && ret != LZMA_BUF_ERROR) || last) break;
		}
		printf(" | pos=%zu\n", vli_pos);
		return true;
	}
	if (!strcmp(op, "vlie1") && l->ntok == 3) {
		lzma_vli v = hp_u64(l->tok[1]);
		size_t cap = (size_t)hp_u64(l->tok[2]);
		uint8_t *ob = malloc(cap ? cap : 1);
		size_t opos = 0;
		lzma_ret ret = lzma_vli_encode(v, NULL, ob, &opos, cap);
		printf("%d:", (int)ret);
		// in single-call mode the bytes written before a failure are not part of the contract
		if (ret == LZMA_OK) hp_put_hex(ob, opos); else putchar('-');
		printf("\n");
		free(ob);
		return true;
	}
	if (!strcmp(op, "field") && l->ntok >= 3) {
		size_t size = (size_t)hp_u64(l->tok[1]);
		size_t n; uint8_t *in = hp_hex(l->tok[2], &n);
		uint8_t *buf = calloc(size ? size : 1, 1);
		size_t bpos = 0, pos = 0;
		int i = 3;
		for (unsigned calls = 0; calls < 1000; ++calls) {
			size_t want = i < l->ntok ? (size_t)hp_u64(l->tok[i]) : (size_t)-1;
			bool last = i >= l->ntok;
			++i;
			size_t left = n - pos;
			size_t ain = want > left ? left : want;
			uint8_t *ib = malloc(ain ? ain : 1);
			if (ain) memcpy(ib, in + pos, ain);
			size_t ip = 0;
			lzma_bufcpy(ib, &ip, ain, buf, &bpos, size);
			printf("%s%zu:%zu", calls ? " " : "", ip, bpos);
			pos += ip;
			free(ib);
			if (bpos == size || last) break;
		}
		printf(" | ");
		hp_put_hex(buf, bpos);
		printf("\n");
		free(buf); free(in);
		return true;
	}
	if (!strcmp(op, "ixd") && l->ntok >= 2) {
		// index_decode() driven directly (not through lzma_code(), so no LZMA_BUF_ERROR bookkeeping): pieces of the given
		// lengths, then the rest. -> "<ret>:<consumed> ... | <unpadded>/<uncompressed> ..."
		size_t n; uint8_t *in = hp_hex(l->tok[1], &n);
		lzma_stream strm = LZMA_STREAM_INIT;
		lzma_index *idx = NULL;
		if (lzma_index_decoder(&strm, &idx, UINT64_MAX) != LZMA_OK) { printf("init-failed\n"); free(in); return true; }
		size_t pos = 0;
		int i = 2;
		lzma_ret ret = LZMA_OK;
		for (unsigned calls = 0; calls < 1000; ++calls) {
			size_t want = i < l->ntok ? (size_t)hp_u64(l->tok[i]) : (size_t)-1;
			bool last = i >= l->ntok;
			++i;
			size_t left = n - pos;
			size_t ain = want > left ? left : want;
			uint8_t *ib = malloc(ain ? ain : 1);
			if (ain) memcpy(ib, in + pos, ain);
			size_t ip = 0, op2 = 0;
			ret = strm.internal->next.code(strm.internal->next.coder, NULL, ib, &ip, ain, NULL, &op2, 0, LZMA_RUN);
			printf("%s%d:%zu", calls ? " " : "", (int)ret, ip);
			pos += ip;
			free(ib);
			if (ret != LZMA_OK || last) break;
		}
		printf(" |");
		if (ret == LZMA_STREAM_END && idx != NULL) {
			lzma_index_iter it;
			lzma_index_iter_init(&it, idx);
			bool any = false;
			while (!lzma_index_iter_next(&it, LZMA_INDEX_ITER_BLOCK)) {
				printf(" %" PRIu64 "/%" PRIu64, (uint64_t)it.block.unpadded_size, (uint64_t)it.block.uncompressed_size);
				any = true;
			}
			if (!any) printf(" -");
		} else {
			printf(" -");
		}
		printf("\n");
		lzma_index_end(idx, NULL);
		lzma_end(&strm);
		free(in);
		return true;
	}
	if (!strcmp(op, "l2d") && l->ntok == 2) {
		// raw LZMA2 decoder (dict 4096) on the whole input -> "<ret> <total_in> <outhex>"
		size_t n; uint8_t *in = hp_hex(l->tok[1], &n);
		lzma_options_lzma o;
		lzma_lzma_preset(&o, 0);
		o.dict_size = 4096;
		lzma_filter f[2] = { { LZMA_FILTER_LZMA2, &o }, { LZMA_VLI_UNKNOWN, NULL } };
		lzma_stream strm = LZMA_STREAM_INIT;
		if (lzma_raw_decoder(&strm, f) != LZMA_OK) { printf("init-failed\n"); free(in); return true; }
		size_t cap = 70000 * 4 + n + 16;
		uint8_t *ob = malloc(cap);
		strm.next_in = in; strm.avail_in = n;
		strm.next_out = ob; strm.avail_out = cap;
		lzma_ret ret;
		do { ret = lzma_code(&strm, LZMA_FINISH); } while (ret == LZMA_OK);
		printf("%d %" PRIu64 " ", (int)ret, (uint64_t)strm.total_in);
		hp_put_hex(ob, (size_t)strm.total_out);
		printf("\n");
		lzma_end(&strm);
		free(ob); free(in);
		return true;
	}
	if ((!strcmp(op, "simple") && l->ntok >= 7) || (!strcmp(op, "delta") && l->ntok >= 6)) {
		bool simple = op[0] == 's';
		int a = 1;
		uint32_t unit = 1, umax = 1, dist = 1;
		if (simple) { unit = (uint32_t)hp_u64(l->tok[a++]); umax = (uint32_t)hp_u64(l->tok[a++]); }
		else dist = (uint32_t)hp_u64(l->tok[a++]);
		bool enc = hp_u64(l->tok[a++]) != 0;
		int nextmode = (int)hp_u64(l->tok[a++]);
		bool fin = hp_u64(l->tok[a++]) != 0;
		size_t n; uint8_t *in = hp_hex(l->tok[a++], &n);
		memset(&g_stub, 0, sizeof(g_stub));
		g_stub.mode = nextmode;
		g_stub.total = nextmode == 2 ? (n ? n - 1 : 0) : n;
		lzma_options_delta od = { .type = LZMA_DELTA_TYPE_BYTE, .dist = dist };
		lzma_filter_info fi[3];
		memset(fi, 0, sizeof(fi));
		fi[0].id = simple ? LZMA_FILTER_X86 : LZMA_FILTER_DELTA;
		fi[0].options = simple ? NULL : &od;
		fi[1].init = nextmode ? &stub_init : NULL;
		fi[1].id = LZMA_VLI_UNKNOWN;
		fi[2].init = NULL;
		lzma_next_coder nc = LZMA_NEXT_CODER_INIT;
		lzma_ret ir;
		if (simple) {
			ir = lzma_simple_coder_init(&nc, NULL, fi, &tfilter, sizeof(tf_state), umax, 1, enc);
			if (ir == LZMA_OK)
				((tf_state *)((lzma_simple_coder *)nc.coder)->simple)->unit = unit;
		} else {
			ir = enc ? lzma_delta_encoder_init(&nc, NULL, fi) : lzma_delta_decoder_init(&nc, NULL, fi);
		}
		nc.init = (uintptr_t)(&stub_init);   // so that lzma_next_end() frees the coder
		if (ir != LZMA_OK) {
			printf("init=%d\n", (int)ir);
		} else {
			next_run(&nc, in, n, fin, l, a);
			printf("\n");
		}
		lzma_next_end(&nc, NULL);
		free(in);
		return true;
	}
	return false;
}
