// C14 harness TU 2: same for CRC64.
#include "crc64_fast.c"

uint64_t h_crc64_generic(const uint8_t *b, size_t n, uint64_t c)
{
#ifdef CRC64_GENERIC
	return lzma_crc64_generic(b, n, c);
#else
	return lzma_crc64(b, n, c);
#endif
}

uint64_t h_crc64_arch(const uint8_t *b, size_t n, uint64_t c)
{
#if defined(CRC64_ARCH_OPTIMIZED) && defined(CRC64_GENERIC)
	return is_arch_extension_supported() ? crc64_arch_optimized(b, n, c) : lzma_crc64(b, n, c);
#elif defined(CRC64_ARCH_OPTIMIZED)
	return crc64_arch_optimized(b, n, c);
#else
	return lzma_crc64(b, n, c);
#endif
}

uint64_t h_crc64_public(const uint8_t *b, size_t n, uint64_t c) { return lzma_crc64(b, n, c); }
