// C09 harness: memory-usage estimates, real allocations (counting lzma_allocator) and memory limits of the REAL liblzma.
// Line protocol (one op per line, one result line per op; numbers decimal, bytes hex, UINT64_MAX printed as decimal).
//
// Filter chain syntax <chain>:  f1+f2+...   with
//     l1:<dict>:<lc>:<lp>:<pb>:<mode>:<nice>:<mf>:<depth>     LZMA1   (mode/nice/mf/depth only matter for encoders)
//     l2:<dict>:<lc>:<lp>:<pb>:<mode>:<nice>:<mf>:<depth>     LZMA2
//     bcj<id>:<start>        BCJ filter with Filter ID <id> (4..11), start offset; <start> = "-" means options == NULL
//     delta:<dist>           delta, dist as given (0 and 257 are invalid on purpose); delta:- means options == NULL
//     raw<id>                some other Filter ID with NULL options
//
//   mu_lzdec <dict>                         -> lzma_lz_decoder_memusage
//   mu_lzmadec <dict> <lc> <lp> <pb>        -> lzma_lzma_decoder_memusage lzma_lzma2_decoder_memusage
//   mu_lzenc <before> <dict> <after> <matchmax> <nice> <mf> <depth>   -> lzma_lz_encoder_memusage
//   mu_lzmaenc <dict> <lc> <lp> <pb> <mode> <nice> <mf> <depth>       -> lzma_lzma_encoder_memusage lzma_lzma2_encoder_memusage
//   mu_raw <chain>                          -> lzma_raw_decoder_memusage lzma_raw_encoder_memusage
//   mu_index <streams> <blocks>             -> lzma_index_memusage
//   mu_outq <bufsize> <threads>             -> lzma_outq_memusage
//   mu_mtenc <threads> <blocksize> <chain>  -> lzma_stream_encoder_mt_memusage lzma_mt_block_size lzma_block_buffer_bound64(bs)
//   al_rawdec <chain> / al_rawenc <chain>   -> "ret live peak sizes" of lzma_raw_decoder()/lzma_raw_encoder() initialisation
//   al_streamenc <check> <chain> <hex|->    -> init lzma_stream_encoder (+ encode the bytes when given): ret live peak sizes
//   al_aloneenc <chain(l1)> <hex|->         -> same for lzma_alone_encoder
//   al_mtenc <threads> <blocksize> <chain> <inlen>   -> MT encoder run over <inlen> patterned bytes: "ret estimate | peak ..."
//   al_mtsat <threads> <blocksize> <chain> <inlen>   -> the same, but output is withheld first until the encoder accepts no
//                                              more input (all workers + the whole output queue allocated), then drained
//   al_index <prealloc> <n1> <n2> ...       -> lzma_index_init + (optional prealloc) + n1 appends; then for each further n:
//                                              a new index with n appends is lzma_index_cat()ed; prints live memused per step
//   dec <kind> <flags> <limit> <sets> <chunk> <hex>    kind = xz|alone|lzip|auto ; see run_decoder()
//   decmt <threads> <flags> <limthr> <limstop> <sets> <chunk> <hex>
//          with the H3 hook: "D<live>" = bytes live when SEQ_BLOCK_DIRECT_INIT has finished (deterministic: no workers,
//          empty queue, cache cleared)
//   decmts <outwin> <threads> <flags> <limthr> <limstop> <sets> <chunk> <hex>
//          decmt with a slow consumer: only <outwin> bytes of output space per lzma_code() call
//   decmtw <size> <ms> <count> <threads> <flags> <limthr> <limstop> <sets> <chunk> <hex>
//          decmt with a slow allocator: the first <count> requests of exactly <size> bytes take <ms> milliseconds
//   idx <limit> <sets> <chunk> <hex>        -> lzma_index_decoder
//   idxbuf <limit> <hex>                    -> lzma_index_buffer_decode: "ret memlimit_out peak"
//   finfo <limit> <sets> <hex>              -> lzma_file_info_decoder over a whole file in memory
//   sbuf <flags> <limit> <retries> <hex>    -> lzma_stream_buffer_decode with its in/out *memlimit, retried with the value written back
//   ibuf <limit> <retries> <hex>            -> the same for lzma_index_buffer_decode
#include "c09_alloc.h"
#include "hproto.h"
#include <time.h>

#include "common.h"
#include "lz_encoder.h"
// lz_decoder.h and lz_encoder.h both define a type named lzma_lz_options, so the decoder-side internal
// functions are declared by hand (they are plain extern functions of liblzma.a).
extern uint64_t lzma_lz_decoder_memusage(size_t dictionary_size);
extern uint64_t lzma_lzma_decoder_memusage(const void *options);
extern uint64_t lzma_lzma2_decoder_memusage(const void *options);
#include "lzma_encoder.h"
#include "lzma2_encoder.h"
#include "delta_common.h"
#include "outqueue.h"
#include "block_buffer_encoder.h"

// ---------------------------------------------------------------------------------------------------------------
// filter chain parsing
typedef struct {
	lzma_filter f[LZMA_FILTERS_MAX + 2];
	lzma_options_lzma lz[LZMA_FILTERS_MAX + 2];
	lzma_options_bcj bcj[LZMA_FILTERS_MAX + 2];
	lzma_options_delta delta[LZMA_FILTERS_MAX + 2];
	int n;
} chain_t;

static bool parse_chain(const char *s, chain_t *c)
{
	memset(c, 0, sizeof(*c));
	char *dup = strdup(s), *save = NULL;
	int n = 0;
	for (char *t = strtok_r(dup, "+", &save); t != NULL; t = strtok_r(NULL, "+", &save)) {
		if (n > LZMA_FILTERS_MAX) { free(dup); return false; }
		char *parts[12]; int np = 0; char *s2 = NULL;
		for (char *p = strtok_r(t, ":", &s2); p != NULL && np < 12; p = strtok_r(NULL, ":", &s2))
			parts[np++] = p;
		if (np == 0) { free(dup); return false; }
		if (!strcmp(parts[0], "l1") || !strcmp(parts[0], "l2")) {
			if (np != 9) { free(dup); return false; }
			lzma_options_lzma *o = &c->lz[n];
			o->dict_size = (uint32_t)hp_u64(parts[1]);
			o->lc = (uint32_t)hp_u64(parts[2]);
			o->lp = (uint32_t)hp_u64(parts[3]);
			o->pb = (uint32_t)hp_u64(parts[4]);
			o->mode = (lzma_mode)hp_u64(parts[5]);
			o->nice_len = (uint32_t)hp_u64(parts[6]);
			o->mf = (lzma_match_finder)hp_u64(parts[7]);
			o->depth = (uint32_t)hp_u64(parts[8]);
			c->f[n].id = parts[0][1] == '1' ? LZMA_FILTER_LZMA1 : LZMA_FILTER_LZMA2;
			c->f[n].options = o;
		} else if (!strncmp(parts[0], "bcj", 3)) {
			if (np != 2) { free(dup); return false; }
			c->f[n].id = hp_u64(parts[0] + 3);
			if (!strcmp(parts[1], "-")) {
				c->f[n].options = NULL;
			} else {
				c->bcj[n].start_offset = (uint32_t)hp_u64(parts[1]);
				c->f[n].options = &c->bcj[n];
			}
		} else if (!strcmp(parts[0], "delta")) {
			if (np != 2) { free(dup); return false; }
			c->f[n].id = LZMA_FILTER_DELTA;
			if (!strcmp(parts[1], "-")) {
				c->f[n].options = NULL;
			} else {
				c->delta[n].type = LZMA_DELTA_TYPE_BYTE;
				c->delta[n].dist = (uint32_t)hp_u64(parts[1]);
				c->f[n].options = &c->delta[n];
			}
		} else if (!strncmp(parts[0], "raw", 3)) {
			c->f[n].id = hp_u64(parts[0] + 3);
			c->f[n].options = NULL;
		} else {
			free(dup);
			return false;
		}
		++n;
	}
	c->f[n].id = LZMA_VLI_UNKNOWN;
	c->f[n].options = NULL;
	c->n = n;
	free(dup);
	return n > 0;
}

static void report_alloc(lzma_ret ret, const c09_counter *c)
{
	printf("%d %" PRIu64 " %" PRIu64 " ", (int)ret, c->live, c->peak);
	c09_print_sizes(c, 0);
}

// ---------------------------------------------------------------------------------------------------------------
// "sets" = [<pre>;]<reactions>
//   <reactions> = comma separated list of new limits tried, in order, whenever LZMA_MEMLIMIT_ERROR is returned:
//       n = the amount lzma_memusage() reports at that moment, n-K, n+K, or an absolute number; "-" = empty list
//   <pre> = comma separated list of lzma_memlimit_set() calls made at fixed points of the run, whatever the decoder says:
//       <tok>        before the first input byte (create -> memlimit_set -> decode)
//       @<off>:<tok> before the first lzma_code() call made when total_in >= <off>   (offsets in non-decreasing order)
//     every one of them is executed and printed as  P<value>=<ret>/<limit after>/<memusage after>
typedef struct {
	char *toks[64]; int n, pos; char *buf;
	struct { uint64_t off; char *tok; } pre[32]; int npre, ppos; char *pbuf;
} sets_t;

static void sets_parse(sets_t *s, const char *str)
{
	s->n = 0; s->pos = 0; s->npre = 0; s->ppos = 0; s->pbuf = NULL;
	const char *semi = strchr(str, ';');
	if (semi != NULL) {
		s->pbuf = strndup(str, (size_t)(semi - str));
		str = semi + 1;
		if (strcmp(s->pbuf, "-") != 0) {
			char *save = NULL;
			for (char *t = strtok_r(s->pbuf, ",", &save); t != NULL && s->npre < 32; t = strtok_r(NULL, ",", &save)) {
				uint64_t off = 0;
				if (t[0] == '@') {
					off = strtoull(t + 1, &t, 10);
					if (*t == ':') ++t;
				}
				s->pre[s->npre].off = off;
				s->pre[s->npre].tok = t;
				++s->npre;
			}
		}
	}
	s->buf = strdup(str);
	if (!strcmp(str, "-"))
		return;
	char *save = NULL;
	for (char *t = strtok_r(s->buf, ",", &save); t != NULL && s->n < 64; t = strtok_r(NULL, ",", &save))
		s->toks[s->n++] = t;
}

static void sets_free(sets_t *s) { free(s->buf); free(s->pbuf); }

static uint64_t sets_value(const char *tok, uint64_t needed)
{
	if (tok[0] == 'n') {
		if (tok[1] == '-') return needed - hp_u64(tok + 2);
		if (tok[1] == '+') return needed + hp_u64(tok + 2);
		return needed;
	}
	return hp_u64(tok);
}

// The scheduled lzma_memlimit_set() calls that are due at input position `total_in`.
// Warm-up run of a handle that is re-initialised afterwards ("re" op): events are not printed.
static bool g_quiet;
static struct { bool on; uint64_t limit; uint8_t *buf; size_t len; } warm;
#define EV(...) do { if (!g_quiet) printf(__VA_ARGS__); } while (0)

static void sets_apply_due(lzma_stream *strm, sets_t *s, uint64_t total_in)
{
	while (s->ppos < s->npre && s->pre[s->ppos].off <= total_in) {
		uint64_t usage = lzma_memusage(strm);
		uint64_t v = sets_value(s->pre[s->ppos++].tok, usage);
		lzma_ret r = lzma_memlimit_set(strm, v);
		EV("P%" PRIu64 "=%d/%" PRIu64 "/%" PRIu64 " ", v, (int)r, lzma_memlimit_get(strm), lzma_memusage(strm));
	}
}

static uint32_t crc_acc;
static size_t out_window = 1 << 16;      // output space offered per lzma_code() call (<= 64 KiB)

// Runs a decoder that has already been initialised in *strm over in[0..len), `chunk` bytes per lzma_code() call
// (LZMA_FINISH with the last piece). Prints the event trace. Returns the final lzma_ret.
//   M<memusage>/<limit>/<live>/<peak>          LZMA_MEMLIMIT_ERROR was returned (values at that moment)
//   S<value>=<ret>/<limit after>/<memusage after>     lzma_memlimit_set(value)
//   C<ret>                                      LZMA_NO_CHECK / LZMA_UNSUPPORTED_CHECK / LZMA_GET_CHECK
static lzma_ret run_decoder(lzma_stream *strm, const uint8_t *in, size_t len, size_t chunk, sets_t *sets,
		const c09_counter *cnt, bool deterministic_alloc, uint64_t *out_total)
{
	static uint8_t outbuf[1 << 16];
	size_t pos = 0;
	lzma_ret ret = LZMA_OK;
	crc_acc = 0;
	*out_total = 0;
	int idle = 0;
	if (chunk == 0) chunk = 1;
	strm->next_in = in;
	strm->avail_in = 0;
	for (int iter = 0; iter < 20000000; ++iter) {
		if (strm->avail_in == 0 && pos < len) {
			size_t n = len - pos < chunk ? len - pos : chunk;
			strm->next_in = in + pos;
			strm->avail_in = n;
			pos += n;
		}
		lzma_action action = pos >= len ? LZMA_FINISH : LZMA_RUN;
		sets_apply_due(strm, sets, strm->total_in);
		strm->next_out = outbuf;
		strm->avail_out = out_window;
		size_t in_before = strm->avail_in;
		ret = lzma_code(strm, action);
		size_t produced = out_window - strm->avail_out;
		if (produced > 0) {
			crc_acc = lzma_crc32(outbuf, produced, crc_acc);
			*out_total += produced;
		}
		if (ret == LZMA_OK) {
			if (produced == 0 && in_before == strm->avail_in) {
				if (++idle > 3) break;      // no progress: lzma_code will say LZMA_BUF_ERROR soon
			} else idle = 0;
			continue;
		}
		idle = 0;
		if (ret == LZMA_NO_CHECK || ret == LZMA_UNSUPPORTED_CHECK || ret == LZMA_GET_CHECK) {
			EV("C%d ", (int)ret);
			continue;
		}
		if (ret == LZMA_MEMLIMIT_ERROR) {
			uint64_t needed = lzma_memusage(strm);
			if (deterministic_alloc)
				EV("M%" PRIu64 "/%" PRIu64 "/%" PRIu64 "/%" PRIu64 " ", needed, lzma_memlimit_get(strm), cnt->live, cnt->peak);
			else
				EV("M%" PRIu64 "/%" PRIu64 " ", needed, lzma_memlimit_get(strm));
			bool ok = false;
			while (sets->pos < sets->n) {
				uint64_t v = sets_value(sets->toks[sets->pos++], needed);
				lzma_ret r = lzma_memlimit_set(strm, v);
				EV("S%" PRIu64 "=%d/%" PRIu64 "/%" PRIu64 " ", v, (int)r, lzma_memlimit_get(strm), lzma_memusage(strm));
				if (r == LZMA_OK) { ok = true; break; }
			}
			if (ok)
				continue;
			break;
		}
		break;      // LZMA_STREAM_END or an error
	}
	return ret;
}

typedef struct { lzma_ret ret; uint64_t in, out, peak; uint32_t crc; } summary_t;

// After the warm-up decode: what is still allocated stays with the handle (coders are reused); the statistics restart.
static void warm_done(c09_counter *cnt, lzma_ret ret)
{
	printf("W%d/%" PRIu64 " ", (int)ret, cnt->live);
	cnt->peak = cnt->live;
	cnt->nsizes = 0;
	cnt->overflow = false;
}

static lzma_ret init_decoder(lzma_stream *strm, const char *kind, uint64_t limit, uint32_t flags)
{
	if (!strcmp(kind, "xz")) return lzma_stream_decoder(strm, limit, flags);
	if (!strcmp(kind, "alone")) return lzma_alone_decoder(strm, limit);
	if (!strcmp(kind, "lzip")) return lzma_lzip_decoder(strm, limit, flags);
	if (!strcmp(kind, "auto")) return lzma_auto_decoder(strm, limit, flags);
	return LZMA_PROG_ERROR;
}

static void op_dec(hp_line *l)
{
	const char *kind = l->tok[1];
	uint32_t flags = (uint32_t)hp_u64(l->tok[2]);
	uint64_t limit = hp_u64(l->tok[3]);
	size_t chunk = (size_t)hp_u64(l->tok[5]);
	size_t len; uint8_t *in = hp_hex(l->tok[6], &len);

	// unlimited reference run (direct oracle)
	summary_t u;
	{
		c09_counter cnt; lzma_allocator al; c09_counter_init(&cnt, &al);
		lzma_stream strm = LZMA_STREAM_INIT; strm.allocator = &al;
		sets_t s; sets_parse(&s, "-");
		u.ret = init_decoder(&strm, kind, UINT64_MAX, flags);
		if (u.ret == LZMA_OK) {
			fputs("[", stdout);
			u.ret = run_decoder(&strm, in, len, chunk, &s, &cnt, true, &u.out);
			fputs("] ", stdout);
		}
		u.in = strm.total_in; u.crc = crc_acc; u.peak = cnt.peak;
		lzma_end(&strm);
		sets_free(&s);
	}
	// limited run
	c09_counter cnt; lzma_allocator al; c09_counter_init(&cnt, &al);
	lzma_stream strm = LZMA_STREAM_INIT; strm.allocator = &al;
	sets_t s; sets_parse(&s, l->tok[4]);
	if (warm.on) {
		// use the handle for another file first, then initialise it again (lzma_*_decoder() on a used lzma_stream)
		sets_t s0; sets_parse(&s0, "-");
		uint64_t o0;
		lzma_ret r0 = init_decoder(&strm, kind, warm.limit, flags);
		g_quiet = true;
		if (r0 == LZMA_OK) r0 = run_decoder(&strm, warm.buf, warm.len, chunk, &s0, &cnt, true, &o0);
		g_quiet = false;
		sets_free(&s0);
		warm_done(&cnt, r0);
	}
	lzma_ret ret = init_decoder(&strm, kind, limit, flags);
	uint64_t out_total = 0;
	printf("I%d/%" PRIu64 "/%" PRIu64 " ", (int)ret, lzma_memusage(&strm), lzma_memlimit_get(&strm));
	if (ret == LZMA_OK)
		ret = run_decoder(&strm, in, len, chunk, &s, &cnt, true, &out_total);
	printf("R%d in=%" PRIu64 " live=%" PRIu64 " peak=%" PRIu64 " allocs=", (int)ret, strm.total_in, cnt.live, cnt.peak);
	c09_print_sizes(&cnt, 0);
	uint64_t usage_end = lzma_memusage(&strm), limit_end = lzma_memlimit_get(&strm);
	uint32_t crc = crc_acc;
	lzma_end(&strm);
	printf(" end=%" PRIu64 "/%" PRIu64 " leak=%" PRIu64 "%s", usage_end, limit_end, cnt.live, cnt.bad_free ? " BADFREE" : "");
	printf(" | out=%" PRIu64 " crc=%" PRIu32 " U=%d,%" PRIu64 ",%" PRIu64 ",%" PRIu32 ",%" PRIu64 "\n",
			out_total, crc, (int)u.ret, u.in, u.out, u.crc, u.peak);
	sets_free(&s);
	free(in);
}

// H3 hook (hooks/h3-mtdec.patch). Weak: resolves to NULL when liblzma was built without the hook.
extern void (*lzma_verif_mt_event)(unsigned ev, const void *p, uint64_t a, uint64_t b, uint64_t c) __attribute__((weak));
static c09_counter *mt_ev_cnt;

static void mt_ev_cb(unsigned ev, const void *p, uint64_t a, uint64_t b, uint64_t c)
{
	(void)p; (void)a; (void)b; (void)c;
	// 118 = end of SEQ_BLOCK_DIRECT_INIT (main thread; the workers have been joined by threads_end())
	if (ev == 118 && mt_ev_cnt != NULL) {
		pthread_mutex_lock(&mt_ev_cnt->mu);
		uint64_t live = mt_ev_cnt->live;
		pthread_mutex_unlock(&mt_ev_cnt->mu);
		printf("D%" PRIu64 " ", live);
	}
}

static void op_decmt(hp_line *l, int o)
{
	lzma_mt mt = { 0 };
	mt.threads = (uint32_t)hp_u64(l->tok[o + 1]);
	mt.flags = (uint32_t)hp_u64(l->tok[o + 2]);
	mt.memlimit_threading = hp_u64(l->tok[o + 3]);
	mt.memlimit_stop = hp_u64(l->tok[o + 4]);
	size_t chunk = (size_t)hp_u64(l->tok[o + 6]);
	size_t len; uint8_t *in = hp_hex(l->tok[o + 7], &len);
	const int have_hook = &lzma_verif_mt_event != NULL;

	summary_t u;
	{
		c09_counter cnt; lzma_allocator al; c09_counter_init(&cnt, &al);
		lzma_stream strm = LZMA_STREAM_INIT; strm.allocator = &al;
		sets_t s; sets_parse(&s, "-");
		u.ret = lzma_stream_decoder(&strm, UINT64_MAX, mt.flags & ~LZMA_FAIL_FAST);
		if (u.ret == LZMA_OK) {
			fputs("[", stdout);
			u.ret = run_decoder(&strm, in, len, chunk, &s, &cnt, true, &u.out);
			fputs("] ", stdout);
		}
		u.in = strm.total_in; u.crc = crc_acc; u.peak = cnt.peak;
		lzma_end(&strm);
		sets_free(&s);
	}
	c09_counter cnt; lzma_allocator al; c09_counter_init(&cnt, &al);
	if (o == 3) {
		cnt.delay_size = hp_u64(l->tok[1]);
		cnt.delay_ms = (uint32_t)hp_u64(l->tok[2]);
		cnt.delay_count = (uint32_t)hp_u64(l->tok[3]);
	}
	lzma_stream strm = LZMA_STREAM_INIT; strm.allocator = &al;
	sets_t s; sets_parse(&s, l->tok[o + 5]);
	if (warm.on) {
		sets_t s0; sets_parse(&s0, "-");
		uint64_t o0;
		lzma_mt mt0 = mt;
		mt0.memlimit_stop = warm.limit;
		// "re UINT64_MAX": the warm-up may use worker threads; any other limit0: threading limit of the op (0/1 = direct mode)
		if (warm.limit == UINT64_MAX)
			mt0.memlimit_threading = UINT64_MAX;
		lzma_ret r0 = lzma_stream_decoder_mt(&strm, &mt0);
		g_quiet = true;
		if (r0 == LZMA_OK) r0 = run_decoder(&strm, warm.buf, warm.len, chunk, &s0, &cnt, false, &o0);
		g_quiet = false;
		sets_free(&s0);
		warm_done(&cnt, r0);
	}
	lzma_ret ret = lzma_stream_decoder_mt(&strm, &mt);
	uint64_t out_total = 0;
	printf("I%d/%" PRIu64 "/%" PRIu64 " ", (int)ret, lzma_memusage(&strm), lzma_memlimit_get(&strm));
	if (have_hook) { mt_ev_cnt = &cnt; lzma_verif_mt_event = mt_ev_cb; }
	if (o == 1) {
		out_window = (size_t)hp_u64(l->tok[1]);
		if (out_window == 0 || out_window > (1 << 16)) out_window = 1 << 16;
	}
	if (ret == LZMA_OK)
		ret = run_decoder(&strm, in, len, chunk, &s, &cnt, false, &out_total);
	out_window = 1 << 16;
	printf("R%d", (int)ret);
	uint64_t in_total = strm.total_in;
	uint32_t crc = crc_acc;
	uint64_t usage_end = lzma_memusage(&strm), limit_end = lzma_memlimit_get(&strm);
	uint64_t peak = cnt.peak;
	lzma_end(&strm);
	if (have_hook) { lzma_verif_mt_event = NULL; mt_ev_cnt = NULL; }
	printf(" | hook=%d in=%" PRIu64 " out=%" PRIu64 " crc=%" PRIu32 " peak=%" PRIu64 " end=%" PRIu64 "/%" PRIu64 " leak=%" PRIu64 "%s U=%d,%" PRIu64 ",%" PRIu64 ",%" PRIu32 ",%" PRIu64 "\n",
			have_hook, in_total, out_total, crc, peak, usage_end, limit_end, cnt.live, cnt.bad_free ? " BADFREE" : "",
			(int)u.ret, u.in, u.out, u.crc, u.peak);
	sets_free(&s);
	free(in);
}

static void op_idx(hp_line *l)
{
	uint64_t limit = hp_u64(l->tok[1]);
	size_t chunk = (size_t)hp_u64(l->tok[3]);
	size_t len; uint8_t *in = hp_hex(l->tok[4], &len);
	c09_counter cnt; lzma_allocator al; c09_counter_init(&cnt, &al);
	lzma_stream strm = LZMA_STREAM_INIT; strm.allocator = &al;
	sets_t s; sets_parse(&s, l->tok[2]);
	lzma_index *idx = NULL;
	if (warm.on) {
		sets_t s0; sets_parse(&s0, "-");
		uint64_t o0;
		lzma_index *idx0 = NULL;
		lzma_ret r0 = lzma_index_decoder(&strm, &idx0, warm.limit);
		g_quiet = true;
		if (r0 == LZMA_OK) r0 = run_decoder(&strm, warm.buf, warm.len, chunk, &s0, &cnt, true, &o0);
		g_quiet = false;
		sets_free(&s0);
		lzma_index_end(idx0, &al);
		warm_done(&cnt, r0);
	}
	lzma_ret ret = lzma_index_decoder(&strm, &idx, limit);
	uint64_t out_total = 0;
	printf("I%d/%" PRIu64 "/%" PRIu64 " ", (int)ret, lzma_memusage(&strm), lzma_memlimit_get(&strm));
	if (ret == LZMA_OK)
		ret = run_decoder(&strm, in, len, chunk, &s, &cnt, true, &out_total);
	printf("R%d in=%" PRIu64 " live=%" PRIu64 " peak=%" PRIu64 " allocs=", (int)ret, strm.total_in, cnt.live, cnt.peak);
	c09_print_sizes(&cnt, 0);
	printf(" end=%" PRIu64 "/%" PRIu64, lzma_memusage(&strm), lzma_memlimit_get(&strm));
	uint64_t memused = idx != NULL ? lzma_index_memused(idx) : 0;
	uint64_t blocks = idx != NULL ? lzma_index_block_count(idx) : 0;
	lzma_end(&strm);
	// what stays allocated for the decoded index itself
	uint64_t idxlive = cnt.live;
	lzma_index_end(idx, &al);
	printf(" leak=%" PRIu64 "%s | idxlive=%" PRIu64 " memused=%" PRIu64 " blocks=%" PRIu64 "\n", cnt.live, cnt.bad_free ? " BADFREE" : "",
			idxlive, memused, blocks);
	sets_free(&s);
	free(in);
}

static void op_idxbuf(hp_line *l)
{
	uint64_t limit = hp_u64(l->tok[1]);
	size_t len; uint8_t *in = hp_hex(l->tok[2], &len);
	c09_counter cnt; lzma_allocator al; c09_counter_init(&cnt, &al);
	lzma_index *idx = NULL;
	size_t in_pos = 0;
	uint64_t ml = limit;
	lzma_ret ret = lzma_index_buffer_decode(&idx, &ml, &al, in, &in_pos, len);
	printf("%d %" PRIu64 " %" PRIu64 " %" PRIu64 " ", (int)ret, ml, cnt.peak, cnt.live);
	c09_print_sizes(&cnt, 0);
	lzma_index_end(idx, &al);
	printf(" leak=%" PRIu64 "\n", cnt.live);
	free(in);
}

// CRC32 over everything an application can read from a decoded lzma_index (Streams, Blocks, offsets, sizes, checks).
static uint32_t index_digest(const lzma_index *idx)
{
	if (idx == NULL)
		return 0;
	uint32_t crc = 0;
	uint64_t v[10];
	v[0] = lzma_index_stream_count(idx); v[1] = lzma_index_block_count(idx); v[2] = lzma_index_file_size(idx);
	v[3] = lzma_index_uncompressed_size(idx); v[4] = lzma_index_checks(idx); v[5] = lzma_index_total_size(idx);
	crc = lzma_crc32((const uint8_t *)v, 6 * sizeof(v[0]), crc);
	lzma_index_iter it;
	lzma_index_iter_init(&it, idx);
	while (!lzma_index_iter_next(&it, LZMA_INDEX_ITER_ANY)) {
		v[0] = it.stream.number; v[1] = it.stream.block_count; v[2] = it.stream.compressed_offset;
		v[3] = it.stream.padding;
		// a Stream without Blocks is returned too (LZMA_INDEX_ITER_ANY); its lzma_index_iter.block members are undefined
		const bool has = it.stream.block_count > 0;
		v[4] = has ? it.block.number_in_file : 0; v[5] = has ? it.block.compressed_file_offset : 0;
		v[6] = has ? it.block.uncompressed_file_offset : 0; v[7] = has ? it.block.unpadded_size : 0;
		v[8] = has ? it.block.uncompressed_size : 0;
		v[9] = it.stream.flags != NULL ? (uint64_t)it.stream.flags->check : 99;
		crc = lzma_crc32((const uint8_t *)v, sizeof(v), crc);
	}
	return crc;
}

// One lzma_file_info_decoder run over a whole file in memory (seeking is done here). `quiet`: no event output.
static lzma_ret finfo_run(lzma_stream *strm, lzma_index **idx, const uint8_t *in, size_t len, uint64_t limit, sets_t *s,
		const c09_counter *cnt, bool quiet)
{
	lzma_ret ret = lzma_file_info_decoder(strm, idx, limit, len);
	if (!quiet)
		printf("I%d/%" PRIu64 "/%" PRIu64 " ", (int)ret, lzma_memusage(strm), lzma_memlimit_get(strm));
	if (ret != LZMA_OK)
		return ret;
	sets_apply_due(strm, s, 0);       // create -> memlimit_set -> decode
	strm->next_in = in; strm->avail_in = len;
	for (int iter = 0; ret == LZMA_OK && iter < 1000000; ++iter) {
		ret = lzma_code(strm, LZMA_FINISH);
		if (ret == LZMA_SEEK_NEEDED) {
			if (strm->seek_pos > len) { ret = LZMA_PROG_ERROR; break; }
			strm->next_in = in + strm->seek_pos;
			strm->avail_in = len - strm->seek_pos;
			ret = LZMA_OK;
			continue;
		}
		if (ret == LZMA_MEMLIMIT_ERROR) {
			uint64_t needed = lzma_memusage(strm);
			if (!quiet)
				printf("M%" PRIu64 "/%" PRIu64 "/%" PRIu64 "/%" PRIu64 " ", needed, lzma_memlimit_get(strm), cnt->live, cnt->peak);
			bool ok = false;
			while (s->pos < s->n) {
				uint64_t v = sets_value(s->toks[s->pos++], needed);
				lzma_ret r = lzma_memlimit_set(strm, v);
				if (!quiet)
					printf("S%" PRIu64 "=%d/%" PRIu64 "/%" PRIu64 " ", v, (int)r, lzma_memlimit_get(strm), lzma_memusage(strm));
				if (r == LZMA_OK) { ok = true; break; }
			}
			if (ok) { ret = LZMA_OK; continue; }
			break;
		}
	}
	return ret;
}

static void op_finfo(hp_line *l)
{
	uint64_t limit = hp_u64(l->tok[1]);
	size_t len; uint8_t *in = hp_hex(l->tok[3], &len);
	// unlimited reference run (direct oracle: the final index must be the same)
	int uret; uint32_t udig; uint64_t ustreams = 0, ublocks = 0, upeak;
	{
		c09_counter cnt; lzma_allocator al; c09_counter_init(&cnt, &al);
		lzma_stream strm = LZMA_STREAM_INIT; strm.allocator = &al;
		sets_t s; sets_parse(&s, "-");
		lzma_index *idx = NULL;
		uret = (int)finfo_run(&strm, &idx, in, len, UINT64_MAX, &s, &cnt, true);
		udig = index_digest(idx);
		if (idx != NULL) { ustreams = lzma_index_stream_count(idx); ublocks = lzma_index_block_count(idx); }
		upeak = cnt.peak;
		lzma_end(&strm);
		lzma_index_end(idx, &al);
		sets_free(&s);
	}
	c09_counter cnt; lzma_allocator al; c09_counter_init(&cnt, &al);
	lzma_stream strm = LZMA_STREAM_INIT; strm.allocator = &al;
	sets_t s; sets_parse(&s, l->tok[2]);
	lzma_index *idx = NULL;
	if (warm.on) {
		sets_t s0; sets_parse(&s0, "-");
		lzma_index *idx0 = NULL;
		lzma_ret r0 = finfo_run(&strm, &idx0, warm.buf, warm.len, warm.limit, &s0, &cnt, true);
		sets_free(&s0);
		lzma_index_end(idx0, &al);
		warm_done(&cnt, r0);
	}
	lzma_ret ret = finfo_run(&strm, &idx, in, len, limit, &s, &cnt, false);
	printf("R%d peak=%" PRIu64 " end=%" PRIu64 "/%" PRIu64, (int)ret, cnt.peak, lzma_memusage(&strm), lzma_memlimit_get(&strm));
	uint64_t memused = idx != NULL ? lzma_index_memused(idx) : 0;
	uint64_t blocks = idx != NULL ? lzma_index_block_count(idx) : 0;
	uint64_t streams = idx != NULL ? lzma_index_stream_count(idx) : 0;
	uint32_t dig = index_digest(idx);
	lzma_end(&strm);
	printf(" idxlive=%" PRIu64 " memused=%" PRIu64 " streams=%" PRIu64 " blocks=%" PRIu64 " dig=%" PRIu32, cnt.live, memused, streams, blocks, dig);
	lzma_index_end(idx, &al);
	printf(" leak=%" PRIu64 "%s FU=%d,%" PRIu64 ",%" PRIu64 ",%" PRIu32 ",%" PRIu64 "\n", cnt.live, cnt.bad_free ? " BADFREE" : "",
			uret, ustreams, ublocks, udig, upeak);
	sets_free(&s);
	free(in);
}

// Single-call decoders with an in/out memory limit: lzma_stream_buffer_decode(&memlimit, …) / lzma_index_buffer_decode(&memlimit, …).
//   sbuf <flags> <limit> <retries> <hex>     ibuf <limit> <retries> <hex>
// Every call prints  B<ret>/<*memlimit afterwards>/<peak bytes of this call>/<*in_pos afterwards> ; after LZMA_MEMLIMIT_ERROR the call is
// repeated with the value the function wrote back (at most <retries> times). After " | ": out positions, CRC32 of the output
// of the last call, and the unlimited call  U=<ret>,<in_pos>,<out_pos>,<crc>,<*memlimit afterwards>.
static void op_bufdec(hp_line *l, bool is_index)
{
	uint32_t flags = is_index ? 0 : (uint32_t)hp_u64(l->tok[1]);
	uint64_t ml = hp_u64(l->tok[is_index ? 1 : 2]);
	int retries = (int)hp_u64(l->tok[is_index ? 2 : 3]);
	size_t len; uint8_t *in = hp_hex(l->tok[is_index ? 3 : 4], &len);
	static uint8_t out[1 << 20];
	char outs[512]; size_t on = 0;
	uint32_t crc = 0; uint64_t digest = 0;
	for (int attempt = 0; attempt <= retries; ++attempt) {
		c09_counter cnt; lzma_allocator al; c09_counter_init(&cnt, &al);
		size_t in_pos = 0, out_pos = 0;
		lzma_index *idx = NULL;
		lzma_ret ret = is_index ? lzma_index_buffer_decode(&idx, &ml, &al, in, &in_pos, len)
				: lzma_stream_buffer_decode(&ml, flags, &al, in, &in_pos, len, out, &out_pos, sizeof(out));
		printf("B%d/%" PRIu64 "/%" PRIu64 "/%zu ", (int)ret, ml, cnt.peak, in_pos);
		if (is_index) { digest = index_digest(idx); out_pos = idx != NULL ? (size_t)lzma_index_block_count(idx) : 0; lzma_index_end(idx, &al); }
		crc = is_index ? (uint32_t)digest : lzma_crc32(out, out_pos, 0);
		on += (size_t)snprintf(outs + on, sizeof(outs) - on, "%s%zu", attempt ? "," : "", out_pos);
		if (cnt.live != 0 || cnt.bad_free) printf("LEAK%" PRIu64 " ", cnt.live);
		if (ret != LZMA_MEMLIMIT_ERROR || on > sizeof(outs) - 32)
			break;
	}
	// unlimited reference
	uint64_t uml = UINT64_MAX;
	size_t uin = 0, uout = 0;
	lzma_index *uidx = NULL;
	c09_counter cnt; lzma_allocator al; c09_counter_init(&cnt, &al);
	lzma_ret uret = is_index ? lzma_index_buffer_decode(&uidx, &uml, &al, in, &uin, len)
			: lzma_stream_buffer_decode(&uml, flags, &al, in, &uin, len, out, &uout, sizeof(out));
	uint32_t ucrc = is_index ? index_digest(uidx) : lzma_crc32(out, uout, 0);
	if (is_index) { uout = uidx != NULL ? (size_t)lzma_index_block_count(uidx) : 0; lzma_index_end(uidx, &al); }
	printf("| outs=%s crc=%" PRIu32 " U=%d,%zu,%zu,%" PRIu32 ",%" PRIu64 "\n", outs, crc, (int)uret, uin, uout, ucrc, uml);
	free(in);
}

// ---------------------------------------------------------------------------------------------------------------
// Drains an encoder whose input (strm->next_in / avail_in) has already been set up.
static lzma_ret finish_encoder(lzma_stream *strm, uint64_t *out_total)
{
	static uint8_t outbuf[1 << 16];
	lzma_ret ret;
	*out_total = 0;
	do {
		strm->next_out = outbuf;
		strm->avail_out = sizeof(outbuf);
		ret = lzma_code(strm, LZMA_FINISH);
		*out_total += sizeof(outbuf) - strm->avail_out;
	} while (ret == LZMA_OK);
	return ret;
}

static double now_s(void)
{
	struct timespec ts;
	clock_gettime(CLOCK_MONOTONIC, &ts);
	return (double)ts.tv_sec + 1e-9 * (double)ts.tv_nsec;
}

// Saturates the threaded encoder: input is offered with LZMA_RUN while NO output space is given, so that every worker
// holds a full input buffer and the output queue fills up with finished Blocks nobody reads (2 x threads buffers).
// LZMA_BUF_ERROR (no progress twice in a row) is recoverable and simply means "still saturated".
static lzma_ret saturate_encoder(lzma_stream *strm)
{
	static uint8_t dummy[1];
	double stuck_since = -1.0;
	for (;;) {
		if (strm->avail_in == 0)
			return LZMA_OK;
		size_t before = strm->avail_in;
		strm->next_out = dummy;
		strm->avail_out = 0;
		lzma_ret ret = lzma_code(strm, LZMA_RUN);
		if (ret == LZMA_BUF_ERROR)
			ret = LZMA_OK;
		if (ret != LZMA_OK)
			return ret;
		if (strm->avail_in != before) {
			stuck_since = -1.0;
			continue;
		}
		double t = now_s();
		if (stuck_since < 0)
			stuck_since = t;
		else if (t - stuck_since > 0.4)
			return LZMA_OK;     // nothing accepted for 0.4 s: all workers and queue slots are taken
		usleep(2000);
	}
}

static lzma_ret run_encoder(lzma_stream *strm, const uint8_t *in, size_t len, uint64_t *out_total)
{
	static uint8_t outbuf[1 << 16];
	strm->next_in = in;
	strm->avail_in = len;
	lzma_ret ret;
	*out_total = 0;
	do {
		strm->next_out = outbuf;
		strm->avail_out = sizeof(outbuf);
		ret = lzma_code(strm, LZMA_FINISH);
		*out_total += sizeof(outbuf) - strm->avail_out;
	} while (ret == LZMA_OK);
	return ret;
}

static void op_al_enc(hp_line *l, int kind)
{
	// kind 0: raw decoder, 1: raw encoder, 2: stream encoder, 3: alone encoder
	chain_t ch;
	int ci = kind == 2 ? 2 : 1;
	if (!parse_chain(l->tok[ci], &ch)) { printf("bad-chain\n"); return; }
	c09_counter cnt; lzma_allocator al; c09_counter_init(&cnt, &al);
	lzma_stream strm = LZMA_STREAM_INIT; strm.allocator = &al;
	lzma_ret ret;
	switch (kind) {
	case 0: ret = lzma_raw_decoder(&strm, ch.f); break;
	case 1: ret = lzma_raw_encoder(&strm, ch.f); break;
	case 2: ret = lzma_stream_encoder(&strm, ch.f, (lzma_check)hp_u64(l->tok[1])); break;
	default: ret = ch.f[0].id == LZMA_FILTER_LZMA1 ? lzma_alone_encoder(&strm, ch.f[0].options) : LZMA_PROG_ERROR; break;
	}
	if (kind >= 2 && ret == LZMA_OK) {
		const char *hx = l->tok[kind == 2 ? 3 : 2];
		if (strcmp(hx, "-") != 0) {
			size_t len; uint8_t *in = hp_hex(hx, &len);
			uint64_t out;
			ret = run_encoder(&strm, in, len, &out);
			free(in);
		}
	}
	report_alloc(ret, &cnt);
	lzma_end(&strm);
	uint64_t est = kind == 0 ? lzma_raw_decoder_memusage(ch.f) : lzma_raw_encoder_memusage(ch.f);
	printf(" leak=%" PRIu64 "%s | est=%" PRIu64 "\n", cnt.live, cnt.bad_free ? " BADFREE" : "", est);
}

static void op_al_mtenc(hp_line *l, bool saturate)
{
	chain_t ch;
	if (!parse_chain(l->tok[3], &ch)) { printf("bad-chain\n"); return; }
	lzma_mt mt = { 0 };
	mt.threads = (uint32_t)hp_u64(l->tok[1]);
	mt.block_size = hp_u64(l->tok[2]);
	mt.filters = ch.f;
	mt.check = LZMA_CHECK_CRC32;
	size_t len = (size_t)hp_u64(l->tok[4]);
	uint8_t *in = malloc(len ? len : 1);
	uint32_t x = 12345;
	for (size_t i = 0; i < len; ++i) { x = x * 1103515245u + 12345u; in[i] = (i & 64) ? (uint8_t)(x >> 16) : (uint8_t)(i >> 3); }
	uint64_t est = lzma_stream_encoder_mt_memusage(&mt);
	c09_counter cnt; lzma_allocator al; c09_counter_init(&cnt, &al);
	lzma_stream strm = LZMA_STREAM_INIT; strm.allocator = &al;
	lzma_ret ret = lzma_stream_encoder_mt(&strm, &mt);
	uint64_t out = 0;
	uint64_t init_live = cnt.live;
	uint32_t ninit = cnt.nsizes;       // requests made by lzma_stream_encoder_mt() itself (deterministic order)
	if (ret == LZMA_OK && saturate) {
		strm.next_in = in;
		strm.avail_in = len;
		ret = saturate_encoder(&strm);
		if (ret == LZMA_OK)
			ret = finish_encoder(&strm, &out);
	} else if (ret == LZMA_OK) {
		ret = run_encoder(&strm, in, len, &out);
	}
	printf("%d %" PRIu64 " | init=%" PRIu64 " peak=%" PRIu64 " out=%" PRIu64 " nalloc=%" PRIu64 " ninit=%" PRIu32 " reqs=", (int)ret, est, init_live, cnt.peak, out, cnt.nalloc, ninit);
	c09_print_sizes(&cnt, 0);
	lzma_end(&strm);
	printf(" leak=%" PRIu64 "%s\n", cnt.live, cnt.bad_free ? " BADFREE" : "");
	free(in);
}

static void op_al_index(hp_line *l)
{
	c09_counter cnt; lzma_allocator al; c09_counter_init(&cnt, &al);
	uint64_t prealloc = hp_u64(l->tok[1]);
	lzma_index *dest = NULL;
	bool ok = true;
	for (int k = 2; k < l->ntok && ok; ++k) {
		uint64_t n = hp_u64(l->tok[k]);
		lzma_index *i = lzma_index_init(&al);
		if (i == NULL) { ok = false; break; }
		if (k == 2 && prealloc > 0)
			lzma_index_prealloc(i, prealloc);
		for (uint64_t r = 0; r < n && ok; ++r)
			ok = lzma_index_append(i, &al, 5 + (r % 7) * 1000, 1 + r % 5) == LZMA_OK;
		if (dest == NULL) {
			dest = i;
		} else {
			uint64_t before = cnt.live;
			lzma_ret r = lzma_index_cat(dest, i, &al);
			(void)before;
			if (r != LZMA_OK) { ok = false; lzma_index_end(i, &al); }
		}
		if (ok)
			printf("%" PRIu64 "/%" PRIu64 "/%" PRIu64 "/%" PRIu64 " ", cnt.live, lzma_index_memused(dest),
					(uint64_t)lzma_index_stream_count(dest), (uint64_t)lzma_index_block_count(dest));
	}
	printf("%s peak=%" PRIu64 " allocs=", ok ? "ok" : "fail", cnt.peak);
	c09_print_sizes(&cnt, 0);
	lzma_index_end(dest, &al);
	printf(" leak=%" PRIu64 "\n", cnt.live);
}

// ---------------------------------------------------------------------------------------------------------------
int main(void)
{
	hp_line l = {0};
	while (hp_next(&l)) {
		// re <limit0> <hex0> <op ...>: the decoder op runs on a handle that first decoded <hex0> (created with <limit0>) and
		// was then initialised again; prints "W<ret>/<live>" for the warm-up
		if (!strcmp(l.tok[0], "re") && l.ntok > 4) {
			warm.on = true;
			warm.limit = hp_u64(l.tok[1]);
			warm.buf = hp_hex(l.tok[2], &warm.len);
			memmove(&l.tok[0], &l.tok[3], (size_t)(l.ntok - 3) * sizeof(l.tok[0]));
			l.ntok -= 3;
		}
		const char *op = l.tok[0];
		if (!strcmp(op, "mu_lzdec") && l.ntok == 2) {
			printf("%" PRIu64 "\n", lzma_lz_decoder_memusage((size_t)hp_u64(l.tok[1])));
		} else if (!strcmp(op, "mu_lzmadec") && l.ntok == 5) {
			lzma_options_lzma o = { 0 };
			o.dict_size = (uint32_t)hp_u64(l.tok[1]); o.lc = (uint32_t)hp_u64(l.tok[2]);
			o.lp = (uint32_t)hp_u64(l.tok[3]); o.pb = (uint32_t)hp_u64(l.tok[4]);
			printf("%" PRIu64 " %" PRIu64 "\n", lzma_lzma_decoder_memusage(&o), lzma_lzma2_decoder_memusage(&o));
		} else if (!strcmp(op, "mu_lzenc") && l.ntok == 8) {
			lzma_lz_options o = { 0 };
			o.before_size = (size_t)hp_u64(l.tok[1]); o.dict_size = (size_t)hp_u64(l.tok[2]);
			o.after_size = (size_t)hp_u64(l.tok[3]); o.match_len_max = (size_t)hp_u64(l.tok[4]);
			o.nice_len = (size_t)hp_u64(l.tok[5]); o.match_finder = (lzma_match_finder)hp_u64(l.tok[6]);
			o.depth = (uint32_t)hp_u64(l.tok[7]);
			printf("%" PRIu64 "\n", lzma_lz_encoder_memusage(&o));
		} else if (!strcmp(op, "mu_lzmaenc") && l.ntok == 9) {
			lzma_options_lzma o = { 0 };
			o.dict_size = (uint32_t)hp_u64(l.tok[1]); o.lc = (uint32_t)hp_u64(l.tok[2]);
			o.lp = (uint32_t)hp_u64(l.tok[3]); o.pb = (uint32_t)hp_u64(l.tok[4]);
			o.mode = (lzma_mode)hp_u64(l.tok[5]); o.nice_len = (uint32_t)hp_u64(l.tok[6]);
			o.mf = (lzma_match_finder)hp_u64(l.tok[7]); o.depth = (uint32_t)hp_u64(l.tok[8]);
			printf("%" PRIu64 " %" PRIu64 "\n", lzma_lzma_encoder_memusage(&o), lzma_lzma2_encoder_memusage(&o));
		} else if (!strcmp(op, "mu_raw") && l.ntok == 2) {
			chain_t ch;
			if (!parse_chain(l.tok[1], &ch)) { printf("bad-chain\n"); continue; }
			printf("%" PRIu64 " %" PRIu64 "\n", lzma_raw_decoder_memusage(ch.f), lzma_raw_encoder_memusage(ch.f));
		} else if (!strcmp(op, "mu_index") && l.ntok == 3) {
			printf("%" PRIu64 "\n", lzma_index_memusage(hp_u64(l.tok[1]), hp_u64(l.tok[2])));
		} else if (!strcmp(op, "mu_outq") && l.ntok == 3) {
			printf("%" PRIu64 "\n", lzma_outq_memusage(hp_u64(l.tok[1]), (uint32_t)hp_u64(l.tok[2])));
		} else if (!strcmp(op, "mu_mtenc") && l.ntok == 4) {
			chain_t ch;
			if (!parse_chain(l.tok[3], &ch)) { printf("bad-chain\n"); continue; }
			lzma_mt mt = { 0 };
			mt.threads = (uint32_t)hp_u64(l.tok[1]);
			mt.block_size = hp_u64(l.tok[2]);
			mt.filters = ch.f;
			mt.check = LZMA_CHECK_CRC32;
			uint64_t bs = mt.block_size > 0 ? mt.block_size : lzma_mt_block_size(ch.f);
			printf("%" PRIu64 " %" PRIu64 " %" PRIu64 "\n", lzma_stream_encoder_mt_memusage(&mt), lzma_mt_block_size(ch.f),
					lzma_block_buffer_bound64(bs));
		} else if (!strcmp(op, "al_rawdec") && l.ntok == 2) {
			op_al_enc(&l, 0);
		} else if (!strcmp(op, "al_rawenc") && l.ntok == 2) {
			op_al_enc(&l, 1);
		} else if (!strcmp(op, "al_streamenc") && l.ntok == 4) {
			op_al_enc(&l, 2);
		} else if (!strcmp(op, "al_aloneenc") && l.ntok == 3) {
			op_al_enc(&l, 3);
		} else if (!strcmp(op, "al_mtenc") && l.ntok == 5) {
			op_al_mtenc(&l, false);
		} else if (!strcmp(op, "al_mtsat") && l.ntok == 5) {
			op_al_mtenc(&l, true);
		} else if (!strcmp(op, "al_index") && l.ntok >= 3) {
			op_al_index(&l);
		} else if (!strcmp(op, "dec") && l.ntok == 7) {
			op_dec(&l);
		} else if (!strcmp(op, "decmt") && l.ntok == 8) {
			op_decmt(&l, 0);
		} else if (!strcmp(op, "decmts") && l.ntok == 9) {
			op_decmt(&l, 1);
		} else if (!strcmp(op, "decmtw") && l.ntok == 11) {
			op_decmt(&l, 3);
		} else if (!strcmp(op, "idx") && l.ntok == 5) {
			op_idx(&l);
		} else if (!strcmp(op, "idxbuf") && l.ntok == 3) {
			op_idxbuf(&l);
		} else if (!strcmp(op, "sbuf") && l.ntok == 5) {
			op_bufdec(&l, false);
		} else if (!strcmp(op, "ibuf") && l.ntok == 4) {
			op_bufdec(&l, true);
		} else if (!strcmp(op, "finfo") && l.ntok == 4) {
			op_finfo(&l);
		} else {
			printf("bad-op\n");
		}
		if (warm.on) { free(warm.buf); warm.buf = NULL; warm.on = false; }
		fflush(stdout);
	}
	hp_done(&l);
	return 0;
}
