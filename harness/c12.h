// C12 harness: shared declarations (see c12_main.c for the line protocol).
#ifndef VERIF_C12_H
#define VERIF_C12_H
#include "hproto.h"
#include <lzma.h>

// ---- growable byte buffer -------------------------------------------------------------------
typedef struct { uint8_t *p; size_t n, cap; } bytes_t;
void by_reserve(bytes_t *b, size_t extra);
void by_append(bytes_t *b, const uint8_t *p, size_t n);
void by_free(bytes_t *b);

// ---- growable string (for the canonical structure line) ---------------------------------------
typedef struct { char *p; size_t n, cap; } str_t;
void st_printf(str_t *s, const char *fmt, ...);
void st_free(str_t *s);

// ---- filter chains ------------------------------------------------------------------------------
#define C12_MAXF 8
typedef struct {
	lzma_filter f[C12_MAXF + 1];
	lzma_options_lzma lz[C12_MAXF];
	lzma_options_delta dl[C12_MAXF];
	lzma_options_bcj bc[C12_MAXF];
	int n;
	bool has_lzma1, has_bcj, has_delta, last_is_lzma2;
} chain_t;
// Spec: filters in chain order joined by '+':
//   L2:<preset>:<lc>:<lp>:<pb>:<dict>:<mf>:<nice>   (dict/mf/nice 0 = keep the preset's value)
//   L1:<same fields>
//   D:<dist>
//   B:<x86|arm64|arm|armthumb|powerpc|ia64|sparc|riscv>:<start_offset>
//   P:<preset>   (only for the easy encoder / as an update chain: the preset's LZMA2)
// Returns false on a malformed spec (machinery error, never a verdict).
bool chain_parse(chain_t *c, const char *spec);
// "id:props/id:props" (props as lzma_properties_encode gives them, hex, "-" if none) as it appears in a Block Header;
// returns false if the chain cannot be put into a Block Header.
bool chain_header_string(const chain_t *c, char *buf, size_t n);

// ---- framing walker (independent of liblzma's decoders: pure LZMA2 / .xz framing) -----------------
// Result of walking an LZMA2 chunk sequence starting at p[0..n).
typedef struct {
	size_t pos;          // bytes consumed by complete chunks (and the end marker if seen)
	uint64_t usize;      // sum of the uncompressed sizes of the complete chunks
	unsigned nchunks;
	bool end_marker;     // control byte 0x00 seen (pos is just behind it)
	bool truncated;      // p[pos..n) is a proper prefix of a chunk (or empty: see at_boundary)
	bool at_boundary;    // pos == n and no end marker: the data ends exactly at a chunk boundary
	bool bad;            // an invalid control byte (0x03..0x7F) was met
} lzma2_walk_t;
// Appends "c<ctrl>.<usize>.<csize>.<props|->" items (comma separated) to s if s != NULL.
void lzma2_walk(const uint8_t *p, size_t n, lzma2_walk_t *w, str_t *s);

typedef struct {
	uint64_t hsize, usize, csize;     // header size, uncompressed size (sum of chunks), compressed size incl. end marker
	uint64_t total;                   // header + csize + padding + check
	bool complete;
	char filters[160];                // "id:props/id:props" as found in the Block Header
	lzma2_walk_t w;
} xz_block_t;

typedef struct {
	bool header_ok;
	unsigned check;                   // Check ID of the Stream Header
	unsigned nblocks;                 // complete Blocks
	xz_block_t *blocks;               // nblocks entries (+1 partial if has_partial)
	bool has_partial;                 // a Block after the complete ones has started (header complete or not)
	bool partial_header_complete;
	size_t end_of_blocks;             // offset just behind the last complete Block
	bool index_seen;                  // byte 0x00 where a Block Header could start
	bool bad;                         // framing error
	const char *why;
} xz_walk_t;
// Walks Stream Header + Blocks of p[0..n). Appends the canonical structure to s (may be NULL).
void xz_walk(const uint8_t *p, size_t n, xz_walk_t *x, str_t *s);
void xz_walk_free(xz_walk_t *x);

unsigned c12_check_size(unsigned check);

#endif
