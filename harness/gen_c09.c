// Stage G probe for C09. Compiled once per PROBE value (the allocated structs are static types with clashing names,
// so each defining .c file of /repo needs its own translation unit) with the build's own -D/-I flags; each run prints
// `def <name> : Nat := <value>` lines; tools/props/c09.py concatenates them into lean/XzVerif/Gen/C09.lean.
// Nothing of liblzma is called: only sizeof(...) and #define values are printed (link with unresolved symbols ignored).
#include <stdio.h>
#include <stddef.h>
#include <stdint.h>
#include <inttypes.h>

#define S(name, val) printf("def %s : Nat := %" PRIu64 "\n", name, (uint64_t)(val))

#if PROBE == 1
#include "stream_decoder.c"
int main(void)
{
	S("szStreamDecoder", sizeof(lzma_stream_coder));
	S("szInternal", sizeof(lzma_internal));
	S("szOptionsLzma", sizeof(lzma_options_lzma));
	S("szOptionsBcj", sizeof(lzma_options_bcj));
	S("szOptionsDelta", sizeof(lzma_options_delta));
	S("memusageBase", LZMA_MEMUSAGE_BASE);
	S("filtersMax", LZMA_FILTERS_MAX);
	S("blockHeaderSizeMax", LZMA_BLOCK_HEADER_SIZE_MAX);
	S("threadsMax", LZMA_THREADS_MAX);
	S("sizeMax", SIZE_MAX);
	S("dictSizeMin", LZMA_DICT_SIZE_MIN);
	S("lclpMax", LZMA_LCLP_MAX);
	S("pbMax", LZMA_PB_MAX);
	S("deltaDistMin", LZMA_DELTA_DIST_MIN);
	S("deltaDistMax", LZMA_DELTA_DIST_MAX);
	S("vliMax", LZMA_VLI_MAX);
	// lzma_ret values the models use
	S("retOk", LZMA_OK);
	S("retStreamEnd", LZMA_STREAM_END);
	S("retMemError", LZMA_MEM_ERROR);
	S("retMemlimitError", LZMA_MEMLIMIT_ERROR);
	S("retFormatError", LZMA_FORMAT_ERROR);
	S("retOptionsError", LZMA_OPTIONS_ERROR);
	S("retDataError", LZMA_DATA_ERROR);
	S("retBufError", LZMA_BUF_ERROR);
	S("retProgError", LZMA_PROG_ERROR);
	// filter IDs
	S("idLzma1", LZMA_FILTER_LZMA1);
	S("idLzma1Ext", LZMA_FILTER_LZMA1EXT);
	S("idLzma2", LZMA_FILTER_LZMA2);
	S("idX86", LZMA_FILTER_X86);
	S("idPowerpc", LZMA_FILTER_POWERPC);
	S("idIa64", LZMA_FILTER_IA64);
	S("idArm", LZMA_FILTER_ARM);
	S("idArmthumb", LZMA_FILTER_ARMTHUMB);
	S("idSparc", LZMA_FILTER_SPARC);
	S("idArm64", LZMA_FILTER_ARM64);
	S("idRiscv", LZMA_FILTER_RISCV);
	S("idDelta", LZMA_FILTER_DELTA);
	// match finder IDs, modes
	S("mfHc3", LZMA_MF_HC3);
	S("mfHc4", LZMA_MF_HC4);
	S("mfBt2", LZMA_MF_BT2);
	S("mfBt3", LZMA_MF_BT3);
	S("mfBt4", LZMA_MF_BT4);
	S("modeFast", LZMA_MODE_FAST);
	S("modeNormal", LZMA_MODE_NORMAL);
	return 0;
}

#elif PROBE == 2
#include "index_hash.c"
int main(void) { S("szIndexHash", sizeof(lzma_index_hash)); return 0; }

#elif PROBE == 3
#include "block_decoder.c"
int main(void) { S("szBlockDecoder", sizeof(lzma_block_coder)); return 0; }

#elif PROBE == 4
#include "lz_decoder.c"
int main(void)
{
	S("szLzDecoder", sizeof(lzma_coder));
	S("lzDictRepeatMax", LZ_DICT_REPEAT_MAX);
	S("lzDictExtra", LZ_DICT_EXTRA);
	return 0;
}

#elif PROBE == 5
#include "lzma_decoder.c"
int main(void) { S("szLzma1Decoder", sizeof(lzma_lzma1_decoder)); return 0; }

#elif PROBE == 6
#include "lzma2_decoder.c"
int main(void) { S("szLzma2Decoder", sizeof(lzma_lzma2_coder)); return 0; }

#elif PROBE == 7
#include "simple_coder.c"
int main(void) { S("szSimpleCoder", sizeof(lzma_simple_coder)); return 0; }

#elif PROBE == 8
#include "x86.c"
int main(void) { S("szSimpleX86", sizeof(lzma_simple_x86)); return 0; }

#elif PROBE == 9
#include "delta_common.c"
int main(void) { S("szDeltaCoder", sizeof(lzma_delta_coder)); return 0; }

#elif PROBE == 10
#include "alone_decoder.c"
int main(void) { S("szAloneDecoder", sizeof(lzma_alone_coder)); return 0; }

#elif PROBE == 11
#include "lzip_decoder.c"
int main(void) { S("szLzipDecoder", sizeof(lzma_lzip_coder)); return 0; }

#elif PROBE == 12
#include "auto_decoder.c"
int main(void) { S("szAutoDecoder", sizeof(lzma_auto_coder)); return 0; }

#elif PROBE == 13
#include "index_decoder.c"
int main(void) { S("szIndexDecoder", sizeof(lzma_index_coder)); return 0; }

#elif PROBE == 14
#include "index.c"
int main(void)
{
	S("szIndex", sizeof(lzma_index));
	S("szIndexStream", sizeof(index_stream));
	S("szIndexGroup", sizeof(index_group));
	S("szIndexRecord", sizeof(index_record));
	S("indexGroupSize", INDEX_GROUP_SIZE);
	S("preallocMax", PREALLOC_MAX);
	S("szVoidPtr", sizeof(void *));
	return 0;
}

#elif PROBE == 15
#include "file_info.c"
int main(void) { S("szFileInfoDecoder", sizeof(lzma_file_info_coder)); return 0; }

#elif PROBE == 16
#include "stream_decoder_mt.c"
int main(void)
{
	S("szStreamDecoderMt", sizeof(struct lzma_stream_coder));
	S("szWorkerDec", sizeof(struct worker_thread));
	S("szOutbuf", sizeof(lzma_outbuf));
	return 0;
}

#elif PROBE == 17
#include "lz_encoder.c"
int main(void)
{
	S("szLzEncoder", sizeof(lzma_coder));
	S("memcmplenExtra", LZMA_MEMCMPLEN_EXTRA);
	S("hash2Size", HASH_2_SIZE);
	S("hash3Size", HASH_3_SIZE);
	return 0;
}

#elif PROBE == 18
#include "lzma_encoder.c"
int main(void)
{
	S("szLzma1Encoder", sizeof(lzma_lzma1_encoder));
	S("encOpts", OPTS);
	S("loopInputMax", LOOP_INPUT_MAX);
	S("matchLenMin", MATCH_LEN_MIN);
	S("matchLenMax", MATCH_LEN_MAX);
	return 0;
}

#elif PROBE == 19
#include "lzma2_encoder.c"
int main(void)
{
	S("szLzma2Encoder", sizeof(lzma_lzma2_coder));
	S("lzma2ChunkMax", LZMA2_CHUNK_MAX);
	S("lzma2HeaderUncompressed", LZMA2_HEADER_UNCOMPRESSED);
	return 0;
}

#elif PROBE == 20
#include "block_encoder.c"
int main(void)
{
	S("szBlockEncoder", sizeof(lzma_block_coder));
	S("compressedSizeMax", COMPRESSED_SIZE_MAX);
	return 0;
}

#elif PROBE == 21
#include "stream_encoder.c"
int main(void) { S("szStreamEncoder", sizeof(lzma_stream_coder)); return 0; }

#elif PROBE == 22
#include "index_encoder.c"
int main(void) { S("szIndexEncoder", sizeof(lzma_index_coder)); return 0; }

#elif PROBE == 23
#include "stream_encoder_mt.c"
int main(void)
{
	S("szStreamEncoderMt", sizeof(lzma_stream_coder));
	S("szWorkerEnc", sizeof(worker_thread));
	S("blockSizeMax", BLOCK_SIZE_MAX);
	return 0;
}

#elif PROBE == 24
#include "block_buffer_encoder.c"
int main(void) { S("headersBound", HEADERS_BOUND); return 0; }

#elif PROBE == 25
#include "alone_encoder.c"
int main(void) { S("szAloneEncoder", sizeof(lzma_alone_coder)); return 0; }

#elif PROBE == 26
#include "outqueue.c"
int main(void) { S("outqBufsPerThread", GET_BUFS_LIMIT(1)); return 0; }

#else
#error "PROBE must be 1..26"
#endif
