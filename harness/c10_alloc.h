// C10 harness: tracking / failure-injecting lzma_allocator.
//
// Every allocation *attempt* gets an index 0,1,2,... (the k of "the k-th allocation fails").
// A live-block table detects double free / free of an unknown pointer and reports the bytes outstanding.
// Events are appended to a textual trace:
//     a<size>   successful allocation (its id is the attempt index)
//     x<size>   failed (injected) allocation attempt
//     f<id>     free of the block allocated by attempt <id>
//     fd<ptr#>  free of a pointer that was allocated here but is not live any more   (double free)
//     fu        free of a pointer never returned by this allocator                   (unknown pointer)
// lzma_free(NULL) is legal and frequent in liblzma; it is not an event.
#ifndef VERIF_C10_ALLOC_H
#define VERIF_C10_ALLOC_H
#include <lzma.h>
#include <pthread.h>
#include <stdint.h>
#include <stdio.h>
#include <stdlib.h>
#include <string.h>
#include <stdbool.h>

enum { FM_NONE, FM_KTH, FM_FROM, FM_SET, FM_RAND };

typedef struct {
	void *p;
	size_t size;
	long idx;
} ta_blk;

typedef struct {
	pthread_mutex_t mu;
	// failure policy
	int mode;
	long k;               // FM_KTH / FM_FROM
	long *set;            // FM_SET: sorted list
	size_t nset;
	uint64_t rng;         // FM_RAND
	unsigned permille;
	bool enabled;         // "nofail" step clears this
	// counters
	long attempts;
	long failed;
	// live table
	ta_blk *live;
	size_t nlive, caplive;
	size_t bytes;
	// pointers that were live once (to tell a double free from an unknown pointer)
	void **dead;
	size_t ndead, capdead;
	// errors
	long double_free, unknown_free;
	// trace
	char *tr;
	size_t trlen, trcap;
	bool tracing;
} ta_state;

static ta_state TA = { .mu = PTHREAD_MUTEX_INITIALIZER };

static void ta_tr(const char *s)
{
	if (!TA.tracing)
		return;
	size_t n = strlen(s);
	if (TA.trlen + n + 2 > TA.trcap) {
		TA.trcap = (TA.trcap + n + 64) * 2;
		TA.tr = realloc(TA.tr, TA.trcap);
		if (TA.tr == NULL) abort();
	}
	if (TA.trlen > 0)
		TA.tr[TA.trlen++] = ',';
	memcpy(TA.tr + TA.trlen, s, n + 1);
	TA.trlen += n;
}

// Trace text that is not an allocator event (step brackets). Takes the lock itself.
static void ta_mark(const char *s)
{
	pthread_mutex_lock(&TA.mu);
	ta_tr(s);
	pthread_mutex_unlock(&TA.mu);
}

static bool ta_should_fail(long idx)
{
	if (!TA.enabled)
		return false;
	switch (TA.mode) {
	case FM_KTH: return idx == TA.k;
	case FM_FROM: return idx >= TA.k;
	case FM_SET:
		for (size_t i = 0; i < TA.nset; ++i)
			if (TA.set[i] == idx) return true;
		return false;
	case FM_RAND:
		TA.rng = TA.rng * 6364136223846793005ULL + 1442695040888963407ULL;
		return ((TA.rng >> 33) % 1000) < TA.permille;
	default: return false;
	}
}

static void *ta_alloc(void *opaque, size_t nmemb, size_t size)
{
	(void)opaque;
	char ev[48];
	size_t n = nmemb * size;
	pthread_mutex_lock(&TA.mu);
	long idx = TA.attempts++;
	if (ta_should_fail(idx)) {
		++TA.failed;
		snprintf(ev, sizeof ev, "x%zu", n);
		ta_tr(ev);
		pthread_mutex_unlock(&TA.mu);
		return NULL;
	}
	void *p = malloc(n ? n : 1);
	if (p == NULL) abort();
	// fill with a non-zero pattern so that code relying on zeroed memory is visible
	memset(p, 0xA5, n ? n : 1);
	if (TA.nlive == TA.caplive) {
		TA.caplive = TA.caplive ? TA.caplive * 2 : 64;
		TA.live = realloc(TA.live, TA.caplive * sizeof(ta_blk));
		if (TA.live == NULL) abort();
	}
	TA.live[TA.nlive++] = (ta_blk){ p, n, idx };
	TA.bytes += n;
	// the address may be reused by malloc: it is not "dead" any more
	for (size_t i = 0; i < TA.ndead; ++i)
		if (TA.dead[i] == p) { TA.dead[i] = TA.dead[--TA.ndead]; break; }
	snprintf(ev, sizeof ev, "a%zu", n);
	ta_tr(ev);
	pthread_mutex_unlock(&TA.mu);
	return p;
}

static void ta_free(void *opaque, void *p)
{
	(void)opaque;
	if (p == NULL)
		return;
	char ev[48];
	pthread_mutex_lock(&TA.mu);
	for (size_t i = TA.nlive; i-- > 0; ) {
		if (TA.live[i].p == p) {
			snprintf(ev, sizeof ev, "f%ld", TA.live[i].idx);
			ta_tr(ev);
			TA.bytes -= TA.live[i].size;
			memmove(&TA.live[i], &TA.live[i + 1], (TA.nlive - i - 1) * sizeof(ta_blk));
			--TA.nlive;
			if (TA.ndead == TA.capdead) {
				TA.capdead = TA.capdead ? TA.capdead * 2 : 64;
				TA.dead = realloc(TA.dead, TA.capdead * sizeof(void *));
				if (TA.dead == NULL) abort();
			}
			TA.dead[TA.ndead++] = p;
			pthread_mutex_unlock(&TA.mu);
			// The real free: ASan poisons the block, so a later use or a second free through
			// another path is reported by ASan even if this table missed it.
			free(p);
			return;
		}
	}
	bool was = false;
	for (size_t i = 0; i < TA.ndead; ++i)
		if (TA.dead[i] == p) was = true;
	if (was) { ++TA.double_free; ta_tr("fd"); }
	else { ++TA.unknown_free; ta_tr("fu"); }
	pthread_mutex_unlock(&TA.mu);
	// do NOT pass it to free(): the verdict is already recorded and we want to finish the run
}

static lzma_allocator TA_ALLOC = { ta_alloc, ta_free, NULL };

static void ta_reset(void)
{
	pthread_mutex_lock(&TA.mu);
	for (size_t i = 0; i < TA.nlive; ++i)
		free(TA.live[i].p);
	TA.nlive = 0; TA.bytes = 0; TA.ndead = 0;
	TA.attempts = 0; TA.failed = 0;
	TA.double_free = 0; TA.unknown_free = 0;
	TA.mode = FM_NONE; TA.enabled = true; TA.nset = 0;
	TA.trlen = 0;
	if (TA.tr) TA.tr[0] = 0;
	TA.tracing = true;
	pthread_mutex_unlock(&TA.mu);
}

// order-independent fingerprint of the live set (ids), to compare "before" and "after" a failing call
static uint64_t ta_live_fp(void)
{
	pthread_mutex_lock(&TA.mu);
	uint64_t h = TA.nlive * 0x9E3779B97F4A7C15ULL;
	for (size_t i = 0; i < TA.nlive; ++i) {
		uint64_t x = (uint64_t)TA.live[i].idx + 1;
		x *= 0xBF58476D1CE4E5B9ULL; x ^= x >> 29;
		h += x;
	}
	pthread_mutex_unlock(&TA.mu);
	return h;
}

#endif
