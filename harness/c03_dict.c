// C03/C04 harness part: drives the REAL dictionary code of the LZ decoder
// (static inline dict_get/dict_put_safe/dict_repeat/dict_write of lz_decoder.h, and lzma_lz_decoder_init,
// lz_decoder_reset, decode_buffer (wrap + limit) of lz_decoder.c, which is #included under other external names).
//
//   dict <dictsize> <presethex> <ops…>
//     p<hexbyte>   dict_put_safe            → " F" (was full) or " ."
//     g<distance>  dict_get                 → " <byte>"
//     r<d>,<len>   dict_repeat              → " <ret>:<remaining len>"
//     W<hex>       dict_write (left = size) → " <copied>"
//     l<n>         decode_buffer with n bytes of output space and a coder that does nothing (wrap if needed + limit)
//     x            request a dictionary reset and let decode_buffer perform it
//   answer: "ok" + results + " <pos>,<full>,<has_wrapped>"
#define lzma_lz_decoder_init h_lz_decoder_init
#define lzma_lz_decoder_memusage h_lz_decoder_memusage
#include "lz_decoder.c"
#include "hproto.h"

static lzma_lz_options h_lz_opts;

static lzma_ret h_code(void *c, lzma_dict *restrict d, const uint8_t *restrict in, size_t *restrict in_pos, size_t in_size)
{
	(void)c; (void)d; (void)in; (void)in_pos; (void)in_size;
	return LZMA_STREAM_END;
}

static lzma_ret h_init(lzma_lz_decoder *lz, const lzma_allocator *a, lzma_vli id, const void *options, lzma_lz_options *lz_options)
{
	(void)a; (void)id; (void)options;
	lz->coder = NULL;
	lz->code = &h_code;
	*lz_options = h_lz_opts;
	return LZMA_OK;
}

int h_dict_op(hp_line *l)
{
	if (l->ntok < 3)
		return 0;
	size_t pn;
	uint8_t *preset = hp_hex(l->tok[2], &pn);
	h_lz_opts.dict_size = (size_t)hp_u64(l->tok[1]);
	h_lz_opts.preset_dict = pn ? preset : NULL;
	h_lz_opts.preset_dict_size = pn;
	lzma_next_coder next = LZMA_NEXT_CODER_INIT;
	lzma_filter_info filters[2] = { { .id = LZMA_FILTER_LZMA2, .init = NULL, .options = NULL }, { .id = LZMA_VLI_UNKNOWN, .init = NULL, .options = NULL } };
	if (h_lz_decoder_init(&next, NULL, filters, &h_init) != LZMA_OK) {
		free(preset);
		return 0;
	}
	lzma_coder *coder = next.coder;
	lzma_dict *d = &coder->dict;
	d->limit = d->pos;
	printf("ok");
	uint8_t *scratch = malloc(1 << 16);
	for (int i = 3; i < l->ntok; ++i) {
		const char *op = l->tok[i];
		if (op[0] == 'p') {
			size_t n; uint8_t *b = hp_hex(op + 1, &n);
			printf(dict_put_safe(d, n ? b[0] : 0) ? " F" : " .");
			free(b);
		} else if (op[0] == 'g') {
			printf(" %u", (unsigned)dict_get(d, (uint32_t)hp_u64(op + 1)));
		} else if (op[0] == 'r') {
			char *comma = strchr(op, ',');
			uint32_t dist = (uint32_t)strtoull(op + 1, NULL, 10);
			uint32_t len = (uint32_t)strtoull(comma + 1, NULL, 10);
			bool r = dict_repeat(d, dist, &len);
			printf(" %d:%u", r ? 1 : 0, len);
		} else if (op[0] == 'W') {
			size_t n; uint8_t *b = hp_hex(op + 1, &n);
			size_t in_pos = 0, left = n;
			dict_write(d, b, &in_pos, n, &left);
			printf(" %zu", in_pos);
			free(b);
		} else if (op[0] == 'l' || op[0] == 'x') {
			size_t cap = op[0] == 'l' ? (size_t)hp_u64(op + 1) : 0;
			if (cap > (1 << 16)) cap = 1 << 16;
			if (op[0] == 'x')
				dict_reset(d);
			size_t in_pos = 0, out_pos = 0;
			uint8_t dummy = 0;
			(void)decode_buffer(coder, &dummy, &in_pos, 0, scratch, &out_pos, cap);
		}
	}
	printf(" %zu,%zu,%d\n", d->pos, d->full, d->has_wrapped ? 1 : 0);
	free(scratch);
	next.end(next.coder, NULL);
	free(preset);
	return 1;
}
