// C15 harness, part 1: the eight BCJ filters. Each simple/*.c is #included so that the static `*_code` functions
// (the real ones, compiled from the tree under test) are callable directly.
#include "x86.c"
#include "powerpc.c"
#include "ia64.c"
#include "arm.c"
#include "armthumb.c"
#include "sparc.c"
#include "arm64.c"
#include "riscv.c"
#include "c15.h"

const char *const h15_names[H15_NFILTERS] = { "x86", "powerpc", "ia64", "arm", "armthumb", "sparc", "arm64", "riscv" };

const lzma_vli h15_ids[H15_NFILTERS] = { LZMA_FILTER_X86, LZMA_FILTER_POWERPC, LZMA_FILTER_IA64, LZMA_FILTER_ARM,
		LZMA_FILTER_ARMTHUMB, LZMA_FILTER_SPARC, LZMA_FILTER_ARM64, LZMA_FILTER_RISCV };

// One call of the filter function. For x86 the state is *mask / *ppos (updated); ignored by the others.
size_t h15_code(int fid, bool enc, uint32_t now_pos, uint32_t *mask, uint32_t *ppos, uint8_t *buf, size_t size)
{
	switch (fid) {
	case 0: {
		lzma_simple_x86 s = { .prev_mask = *mask, .prev_pos = *ppos };
		const size_t r = x86_code(&s, now_pos, enc, buf, size);
		*mask = s.prev_mask;
		*ppos = s.prev_pos;
		return r;
	}
	case 1: return powerpc_code(NULL, now_pos, enc, buf, size);
	case 2: return ia64_code(NULL, now_pos, enc, buf, size);
	case 3: return arm_code(NULL, now_pos, enc, buf, size);
	case 4: return armthumb_code(NULL, now_pos, enc, buf, size);
	case 5: return sparc_code(NULL, now_pos, enc, buf, size);
	case 6: return arm64_code(NULL, now_pos, enc, buf, size);
	case 7: return enc ? riscv_encode(NULL, now_pos, true, buf, size) : riscv_decode(NULL, now_pos, false, buf, size);
	}
	abort();
}

// The public one-shot functions; returns false when the filter has none.
bool h15_oneshot(int fid, bool enc, uint32_t start, uint8_t *buf, size_t size, size_t *ret)
{
	switch (fid) {
	case 0: *ret = enc ? lzma_bcj_x86_encode(start, buf, size) : lzma_bcj_x86_decode(start, buf, size); return true;
	case 6: *ret = enc ? lzma_bcj_arm64_encode(start, buf, size) : lzma_bcj_arm64_decode(start, buf, size); return true;
	case 7: *ret = enc ? lzma_bcj_riscv_encode(start, buf, size) : lzma_bcj_riscv_decode(start, buf, size); return true;
	}
	return false;
}

// The internal init functions (these set up simple_coder.c's lzma_simple_coder around the filter).
lzma_ret h15_simple_init(int fid, bool enc, lzma_next_coder *next, const lzma_filter_info *filters)
{
	switch (fid) {
	case 0: return enc ? lzma_simple_x86_encoder_init(next, NULL, filters) : lzma_simple_x86_decoder_init(next, NULL, filters);
	case 1: return enc ? lzma_simple_powerpc_encoder_init(next, NULL, filters) : lzma_simple_powerpc_decoder_init(next, NULL, filters);
	case 2: return enc ? lzma_simple_ia64_encoder_init(next, NULL, filters) : lzma_simple_ia64_decoder_init(next, NULL, filters);
	case 3: return enc ? lzma_simple_arm_encoder_init(next, NULL, filters) : lzma_simple_arm_decoder_init(next, NULL, filters);
	case 4: return enc ? lzma_simple_armthumb_encoder_init(next, NULL, filters) : lzma_simple_armthumb_decoder_init(next, NULL, filters);
	case 5: return enc ? lzma_simple_sparc_encoder_init(next, NULL, filters) : lzma_simple_sparc_decoder_init(next, NULL, filters);
	case 6: return enc ? lzma_simple_arm64_encoder_init(next, NULL, filters) : lzma_simple_arm64_decoder_init(next, NULL, filters);
	case 7: return enc ? lzma_simple_riscv_encoder_init(next, NULL, filters) : lzma_simple_riscv_decoder_init(next, NULL, filters);
	}
	abort();
}

// What lzma_simple_coder_init stored (used by the Gen probe): allocated = 2 * unfiltered_max.
size_t h15_allocated(const lzma_next_coder *next)
{
	const lzma_simple_coder *c = next->coder;
	return c->allocated;
}
