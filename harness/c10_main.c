// C10 harness: allocation-failure scenarios against the real liblzma, in-process.
//
// One input line = one scenario run:   <failspec> <step> <step> ...
//   failspec:  F=none | F=k:<k> | F=from:<k> | F=set:<i>,<j>,... | F=rand:<seed>:<permille>
//   steps   :  see do_step() below; fields inside a step are separated by ':', inside a recipe by '/',
//              filter chains are  <filter>+<filter>...  with  <filter> = lzma2,<dict>,<mf>,<nice>,<mode>
//              | lzma1,<dict>,<mf>,<nice>,<mode> | bcj,<name>,<start_offset or -1 = NULL options> | delta,<dist>
// One output line per run:
//   n=<attempts> nf=<failed> live=<live blocks> bytes=<outstanding> err=<flags|-> rets=<r,r,...> T=<trace>
// where <trace> is the allocator event log (c10_alloc.h) with step brackets  [<i> ... ]<ret>.
// `err` carries the verdicts of the DIRECT oracle (independent of the Lean model): double/unknown free, leak after
// lzma_end, failed init leaving memory or strm->internal, LZMA_MEM_ERROR without a failed allocation, caller-owned
// object modified by a failing call, round-trip mismatch.
#include "c10_alloc.h"
#include <inttypes.h>
#include <assert.h>
#include <unistd.h>

#define RET_SKIP 99
#define RET_NULL 98     // constructor returned NULL
#define RET_BADOP 97

// ------------------------------------------------------------------------------------------------------------
// small utilities
// ------------------------------------------------------------------------------------------------------------
static char errbuf[1024];
static void add_err(const char *e)
{
	if (strstr(errbuf, e) != NULL)
		return;
	if (strlen(errbuf) + strlen(e) + 2 >= sizeof errbuf)
		return;
	if (errbuf[0]) strcat(errbuf, "+");
	strcat(errbuf, e);
}

typedef struct { uint8_t *p; size_t n, cap; } buf_t;
static void buf_put(buf_t *b, const uint8_t *p, size_t n)
{
	if (b->n + n > b->cap) {
		b->cap = (b->n + n) * 2 + 256;
		b->p = realloc(b->p, b->cap);
		if (!b->p) abort();
	}
	if (n) memcpy(b->p + b->n, p, n);
	b->n += n;
}
static void buf_clear(buf_t *b) { b->n = 0; }

static void gen_data(uint8_t *p, size_t n, uint32_t seed)
{
	uint32_t x = seed * 2654435761u + 12345u;
	static const char txt[] = "the quick brown fox jumps over the lazy dog. ";
	for (size_t i = 0; i < n; ++i) {
		if ((i >> 6) & 1) {
			p[i] = (uint8_t)txt[(i + seed) % (sizeof txt - 1)];
		} else {
			x = x * 1103515245u + 12345u;
			p[i] = (uint8_t)((x >> 24) & ((i & 128) ? 0xFF : 0x0F));
		}
	}
}

static uint64_t fnv(uint64_t h, const void *p, size_t n)
{
	const uint8_t *b = p;
	for (size_t i = 0; i < n; ++i) { h ^= b[i]; h *= 0x100000001B3ULL; }
	return h;
}

static int split(char *s, char sep, char **out, int max)
{
	int n = 0;
	out[n++] = s;
	for (char *p = s; *p; ++p)
		if (*p == sep && n < max) { *p = 0; out[n++] = p + 1; }
	return n;
}

// ------------------------------------------------------------------------------------------------------------
// filter chains
// ------------------------------------------------------------------------------------------------------------
typedef struct {
	lzma_filter f[LZMA_FILTERS_MAX + 2];
	lzma_options_lzma lz[LZMA_FILTERS_MAX + 1];
	lzma_options_bcj bcj[LZMA_FILTERS_MAX + 1];
	lzma_options_delta dl[LZMA_FILTERS_MAX + 1];
	int n;
} chain_t;

static const struct { const char *name; lzma_vli id; } bcj_names[] = {
	{ "x86", LZMA_FILTER_X86 }, { "powerpc", LZMA_FILTER_POWERPC }, { "ia64", LZMA_FILTER_IA64 },
	{ "arm", LZMA_FILTER_ARM }, { "armthumb", LZMA_FILTER_ARMTHUMB }, { "arm64", LZMA_FILTER_ARM64 },
	{ "sparc", LZMA_FILTER_SPARC }, { "riscv", LZMA_FILTER_RISCV },
};

static bool parse_filter(const char *s, chain_t *c, int i)
{
	char tmp[160];
	char *t[8];
	snprintf(tmp, sizeof tmp, "%s", s);
	int n = split(tmp, ',', t, 8);
	if ((!strcmp(t[0], "lzma2") || !strcmp(t[0], "lzma1")) && n == 5) {
		lzma_options_lzma *o = &c->lz[i];
		if (lzma_lzma_preset(o, 0)) return false;
		o->dict_size = (uint32_t)strtoul(t[1], NULL, 10);
		o->mf = (lzma_match_finder)strtoul(t[2], NULL, 10);
		o->nice_len = (uint32_t)strtoul(t[3], NULL, 10);
		o->mode = (lzma_mode)strtoul(t[4], NULL, 10);
		o->depth = 0;
		c->f[i].id = t[0][4] == '2' ? LZMA_FILTER_LZMA2 : LZMA_FILTER_LZMA1;
		c->f[i].options = o;
		return true;
	}
	if (!strcmp(t[0], "bcj") && n == 3) {
		for (size_t j = 0; j < sizeof bcj_names / sizeof bcj_names[0]; ++j) {
			if (!strcmp(t[1], bcj_names[j].name)) {
				long off = strtol(t[2], NULL, 10);
				c->f[i].id = bcj_names[j].id;
				if (off < 0) {
					c->f[i].options = NULL;
				} else {
					c->bcj[i].start_offset = (uint32_t)off;
					c->f[i].options = &c->bcj[i];
				}
				return true;
			}
		}
		return false;
	}
	if (!strcmp(t[0], "delta") && n == 2) {
		memset(&c->dl[i], 0, sizeof c->dl[i]);
		c->dl[i].type = LZMA_DELTA_TYPE_BYTE;
		c->dl[i].dist = (uint32_t)strtoul(t[1], NULL, 10);
		c->f[i].id = LZMA_FILTER_DELTA;
		c->f[i].options = &c->dl[i];
		return true;
	}
	return false;
}

static bool parse_chain(const char *s, chain_t *c)
{
	char tmp[512];
	char *t[LZMA_FILTERS_MAX + 2];
	memset(c, 0, sizeof *c);
	snprintf(tmp, sizeof tmp, "%s", s);
	int n = split(tmp, '+', t, LZMA_FILTERS_MAX + 1);
	if (n > LZMA_FILTERS_MAX) return false;
	for (int i = 0; i < n; ++i)
		if (!parse_filter(t[i], c, i)) return false;
	c->f[n].id = LZMA_VLI_UNKNOWN;
	c->f[n].options = NULL;
	c->n = n;
	return true;
}

// struct copy + re-pointing of the option pointers into the copy (a plain `*dst = *src` would leave them pointing
// into the source, which is usually a local of do_step)
static void chain_copy(chain_t *dst, const chain_t *src)
{
	*dst = *src;
	for (int i = 0; i < dst->n; ++i) {
		if (src->f[i].options == NULL) continue;
		if (src->f[i].options == (const void *)&src->lz[i]) dst->f[i].options = &dst->lz[i];
		else if (src->f[i].options == (const void *)&src->bcj[i]) dst->f[i].options = &dst->bcj[i];
		else if (src->f[i].options == (const void *)&src->dl[i]) dst->f[i].options = &dst->dl[i];
	}
}

// fingerprint of a caller-owned filters array incl. the option structs it points to
static uint64_t chain_fp(const chain_t *c)
{
	uint64_t h = 0xcbf29ce484222325ULL;
	for (int i = 0; i <= c->n; ++i) {
		h = fnv(h, &c->f[i].id, sizeof c->f[i].id);
		h = fnv(h, &c->f[i].options, sizeof c->f[i].options);
	}
	h = fnv(h, c->lz, sizeof c->lz);
	h = fnv(h, c->bcj, sizeof c->bcj);
	h = fnv(h, c->dl, sizeof c->dl);
	return h;
}

static lzma_check parse_check(const char *s)
{
	if (!strcmp(s, "none")) return LZMA_CHECK_NONE;
	if (!strcmp(s, "crc32")) return LZMA_CHECK_CRC32;
	if (!strcmp(s, "crc64")) return LZMA_CHECK_CRC64;
	if (!strcmp(s, "sha256")) return LZMA_CHECK_SHA256;
	return (lzma_check)strtoul(s, NULL, 10);
}

// ------------------------------------------------------------------------------------------------------------
// recipes: inputs for decoders, built with the DEFAULT allocator (never traced, never failing)
// ------------------------------------------------------------------------------------------------------------
typedef struct {
	char key[600];
	buf_t data;        // encoded bytes
	buf_t plain;       // expected decoder output
	// extra facts for special decoders
	lzma_block block;               // blk
	lzma_filter bfilters[LZMA_FILTERS_MAX + 1];
	size_t hdr;                     // blk: header size (data to feed starts there)
	uint64_t comp, uncomp; uint32_t dict;   // mlz
	uint64_t nrec;                  // idx
	chain_t chain;                  // raw
	bool ok;
} recipe_t;

#define NRECIPE 48
static recipe_t recipes[NRECIPE];
static int nrecipes;

static bool code_all(lzma_stream *s, const uint8_t *in, size_t n, lzma_action a, buf_t *out)
{
	uint8_t tmp[8192];
	s->next_in = in; s->avail_in = n;
	for (;;) {
		s->next_out = tmp; s->avail_out = sizeof tmp;
		lzma_ret r = lzma_code(s, a);
		buf_put(out, tmp, sizeof tmp - s->avail_out);
		if (r == LZMA_STREAM_END) return true;
		if (r != LZMA_OK) return false;
		if (a == LZMA_RUN && s->avail_in == 0 && s->avail_out != 0) return true;
	}
}

static void index_records(uint64_t i, lzma_vli *unp, lzma_vli *unc)
{
	*unp = 40 + (i * 37) % 5000;
	*unc = 1 + (i * 101) % 70000;
}

static bool build_recipe(recipe_t *r, const char *spec)
{
	char tmp[600];
	char *t[10];
	snprintf(tmp, sizeof tmp, "%s", spec);
	int n = split(tmp, '/', t, 10);
	if (!strcmp(t[0], "xz") && n == 6) {
		// xz/<check>/<chain>/<len>/<nblocks>/<nstreams>
		chain_t c;
		if (!parse_chain(t[2], &c)) return false;
		size_t len = strtoul(t[3], NULL, 10);
		int nb = atoi(t[4]), ns = atoi(t[5]);
		for (int s = 0; s < ns; ++s) {
			lzma_stream st = LZMA_STREAM_INIT;
			if (lzma_stream_encoder(&st, c.f, parse_check(t[1])) != LZMA_OK) return false;
			for (int b = 0; b < nb; ++b) {
				uint8_t *d = malloc(len + 1);
				gen_data(d, len, (uint32_t)(s * 100 + b + 7));
				buf_put(&r->plain, d, len);
				bool ok = code_all(&st, d, len, b == nb - 1 ? LZMA_FINISH : LZMA_FULL_FLUSH, &r->data);
				free(d);
				if (!ok) { lzma_end(&st); return false; }
			}
			if (nb == 0 && !code_all(&st, NULL, 0, LZMA_FINISH, &r->data)) { lzma_end(&st); return false; }
			lzma_end(&st);
		}
		return true;
	}
	if (!strcmp(t[0], "xzmt") && n == 6) {
		// xzmt/<check>/<chain>/<len>/<nblocks>/<nstreams>: written by the THREADED encoder with block_size = len, so
		// every Block Header carries the sizes and lzma_stream_decoder_mt() really decodes with worker threads
		chain_t c;
		if (!parse_chain(t[2], &c)) return false;
		size_t len = strtoul(t[3], NULL, 10);
		int nb = atoi(t[4]), ns = atoi(t[5]);
		if (len == 0 || nb <= 0) return false;
		for (int s = 0; s < ns; ++s) {
			lzma_stream st = LZMA_STREAM_INIT;
			lzma_mt mt;
			memset(&mt, 0, sizeof mt);
			mt.threads = 2; mt.block_size = len; mt.filters = c.f; mt.check = parse_check(t[1]);
			if (lzma_stream_encoder_mt(&st, &mt) != LZMA_OK) return false;
			uint8_t *d = malloc(len * (size_t)nb + 1);
			for (int b = 0; b < nb; ++b)
				gen_data(d + len * (size_t)b, len, (uint32_t)(s * 100 + b + 31));
			buf_put(&r->plain, d, len * (size_t)nb);
			bool ok = code_all(&st, d, len * (size_t)nb, LZMA_FINISH, &r->data);
			free(d);
			lzma_end(&st);
			if (!ok) return false;
		}
		return true;
	}
	if (!strcmp(t[0], "badxz") && n == 2) {
		// badxz/<chain>: Stream Header + a Block Header whose filter chain decodes fine (options get allocated) but is not
		// usable (e.g. Delta as the last filter): lzma_raw_decoder_memusage() == UINT64_MAX -> LZMA_OPTIONS_ERROR at Block init
		chain_t c;
		if (!parse_chain(t[1], &c)) return false;
		lzma_stream_flags sf;
		memset(&sf, 0, sizeof sf);
		sf.version = 0; sf.check = LZMA_CHECK_CRC32;
		uint8_t hdr[LZMA_STREAM_HEADER_SIZE], bh[LZMA_BLOCK_HEADER_SIZE_MAX];
		if (lzma_stream_header_encode(&sf, hdr) != LZMA_OK) return false;
		lzma_block b;
		memset(&b, 0, sizeof b);
		b.version = 0; b.check = LZMA_CHECK_CRC32; b.filters = c.f;
		b.compressed_size = LZMA_VLI_UNKNOWN; b.uncompressed_size = LZMA_VLI_UNKNOWN;
		if (lzma_block_header_size(&b) != LZMA_OK || lzma_block_header_encode(&b, bh) != LZMA_OK) return false;
		buf_put(&r->data, hdr, sizeof hdr);
		buf_put(&r->data, bh, b.header_size);
		const uint8_t pad[64] = { 0 };
		buf_put(&r->data, pad, sizeof pad);
		return true;
	}
	if (!strcmp(t[0], "lzma") && n == 3) {
		// lzma/<lzma1 filter>/<len>
		chain_t c;
		if (!parse_chain(t[1], &c) || c.n != 1 || c.f[0].id != LZMA_FILTER_LZMA1) return false;
		size_t len = strtoul(t[2], NULL, 10);
		lzma_stream st = LZMA_STREAM_INIT;
		if (lzma_alone_encoder(&st, &c.lz[0]) != LZMA_OK) return false;
		uint8_t *d = malloc(len + 1);
		gen_data(d, len, 3);
		buf_put(&r->plain, d, len);
		bool ok = code_all(&st, d, len, LZMA_FINISH, &r->data);
		free(d);
		lzma_end(&st);
		return ok;
	}
	if (!strcmp(t[0], "lz") && n == 3) {
		// lz/<log2 dict>/<len>     (.lz member crafted from a raw LZMA1 stream)
		unsigned lg = (unsigned)atoi(t[1]);
		size_t len = strtoul(t[2], NULL, 10);
		if (lg < 12 || lg > 29) return false;
		lzma_options_lzma o;
		lzma_lzma_preset(&o, 0);
		o.dict_size = 1u << lg; o.lc = 3; o.lp = 0; o.pb = 2;
		lzma_filter f[2] = { { LZMA_FILTER_LZMA1, &o }, { LZMA_VLI_UNKNOWN, NULL } };
		lzma_stream st = LZMA_STREAM_INIT;
		if (lzma_raw_encoder(&st, f) != LZMA_OK) return false;
		uint8_t *d = malloc(len + 1);
		gen_data(d, len, 5);
		buf_put(&r->plain, d, len);
		const uint8_t hdr[6] = { 'L', 'Z', 'I', 'P', 1, (uint8_t)lg };
		buf_put(&r->data, hdr, 6);
		bool ok = code_all(&st, d, len, LZMA_FINISH, &r->data);
		lzma_end(&st);
		if (!ok) { free(d); return false; }
		uint8_t tr[20];
		uint32_t crc = lzma_crc32(d, len, 0);
		uint64_t msz = r->data.n + 20, dsz = len;
		for (int i = 0; i < 4; ++i) tr[i] = (uint8_t)(crc >> (8 * i));
		for (int i = 0; i < 8; ++i) tr[4 + i] = (uint8_t)(dsz >> (8 * i));
		for (int i = 0; i < 8; ++i) tr[12 + i] = (uint8_t)(msz >> (8 * i));
		buf_put(&r->data, tr, 20);
		free(d);
		return true;
	}
	if (!strcmp(t[0], "idx") && n == 2) {
		r->nrec = strtoull(t[1], NULL, 10);
		lzma_index *i = lzma_index_init(NULL);
		if (!i) return false;
		for (uint64_t k = 0; k < r->nrec; ++k) {
			lzma_vli a, b;
			index_records(k, &a, &b);
			if (lzma_index_append(i, NULL, a, b) != LZMA_OK) return false;
		}
		size_t sz = (size_t)lzma_index_size(i), pos = 0;
		uint8_t *o = malloc(sz + 1);
		if (lzma_index_buffer_encode(i, o, &pos, sz) != LZMA_OK) return false;
		buf_put(&r->data, o, pos);
		free(o);
		lzma_index_end(i, NULL);
		return true;
	}
	if (!strcmp(t[0], "raw") && n == 3) {
		if (!parse_chain(t[1], &r->chain)) return false;
		size_t len = strtoul(t[2], NULL, 10);
		uint8_t *d = malloc(len + 1);
		gen_data(d, len, 9);
		buf_put(&r->plain, d, len);
		lzma_stream st = LZMA_STREAM_INIT;
		if (lzma_raw_encoder(&st, r->chain.f) != LZMA_OK) { free(d); return false; }
		bool ok = code_all(&st, d, len, LZMA_FINISH, &r->data);
		lzma_end(&st);
		free(d);
		return ok;
	}
	if (!strcmp(t[0], "blk") && n == 4) {
		// blk/<chain>/<check>/<len>
		chain_t c;
		if (!parse_chain(t[1], &c)) return false;
		size_t len = strtoul(t[3], NULL, 10);
		uint8_t *d = malloc(len + 1);
		gen_data(d, len, 11);
		buf_put(&r->plain, d, len);
		lzma_block b;
		memset(&b, 0, sizeof b);
		b.version = 0; b.check = parse_check(t[2]); b.filters = c.f;
		size_t cap = lzma_block_buffer_bound(len) + 64, pos = 0;
		uint8_t *o = malloc(cap);
		lzma_ret rr = lzma_block_buffer_encode(&b, NULL, d, len, o, &pos, cap);
		free(d);
		if (rr != LZMA_OK) { free(o); return false; }
		buf_put(&r->data, o, pos);
		free(o);
		memset(&r->block, 0, sizeof r->block);
		r->block.version = 1;
		r->block.check = b.check;
		r->block.filters = r->bfilters;
		r->block.header_size = lzma_block_header_size_decode(r->data.p[0]);
		if (lzma_block_header_decode(&r->block, NULL, r->data.p) != LZMA_OK) return false;
		r->hdr = r->block.header_size;
		// lzma_block_buffer_encode() falls back to uncompressed LZMA2 chunks (and a different filter chain in the
		// Block Header) when the data does not shrink: such a recipe would not be the chain the op line names
		for (int i = 0; i <= c.n; ++i)
			if (r->bfilters[i].id != c.f[i].id) return false;
		return true;
	}
	if (!strcmp(t[0], "mlz") && n == 3) {
		chain_t c;
		if (!parse_chain(t[1], &c) || c.n != 1 || c.f[0].id != LZMA_FILTER_LZMA1) return false;
		size_t len = strtoul(t[2], NULL, 10);
		uint8_t *d = malloc(len + 1);
		gen_data(d, len, 13);
		lzma_stream st = LZMA_STREAM_INIT;
		if (lzma_microlzma_encoder(&st, &c.lz[0]) != LZMA_OK) { free(d); return false; }
		size_t cap = len + len / 2 + 256;
		uint8_t *o = malloc(cap);
		st.next_in = d; st.avail_in = len; st.next_out = o; st.avail_out = cap;
		lzma_ret rr = lzma_code(&st, LZMA_FINISH);
		if (rr != LZMA_STREAM_END) { lzma_end(&st); free(d); free(o); return false; }
		r->comp = st.total_out; r->uncomp = st.total_in; r->dict = c.lz[0].dict_size;
		buf_put(&r->data, o, (size_t)st.total_out);
		buf_put(&r->plain, d, (size_t)st.total_in);
		lzma_end(&st);
		free(d); free(o);
		return true;
	}
	return false;
}

static recipe_t *get_recipe(const char *spec)
{
	for (int i = 0; i < nrecipes; ++i)
		if (!strcmp(recipes[i].key, spec))
			return recipes[i].ok ? &recipes[i] : NULL;
	if (nrecipes == NRECIPE) {
		// drop everything (simple cache)
		for (int i = 0; i < nrecipes; ++i) {
			free(recipes[i].data.p); free(recipes[i].plain.p);
			if (recipes[i].block.filters) lzma_filters_free(recipes[i].bfilters, NULL);
		}
		memset(recipes, 0, sizeof recipes);
		nrecipes = 0;
	}
	recipe_t *r = &recipes[nrecipes++];
	memset(r, 0, sizeof *r);
	snprintf(r->key, sizeof r->key, "%s", spec);
	r->ok = build_recipe(r, spec);
	return r->ok ? r : NULL;
}

// ------------------------------------------------------------------------------------------------------------
// scenario state
// ------------------------------------------------------------------------------------------------------------
enum { K_NONE, K_SENC, K_AENC, K_RENC, K_BENC, K_MLENC, K_IENC,
       K_SDEC, K_ADEC, K_ALONEDEC, K_LZIPDEC, K_RDEC, K_BDEC, K_MLDEC, K_IDEC, K_FIDEC };

static lzma_stream strm = LZMA_STREAM_INIT;
static int kind = K_NONE;
static bool usable;               // last init succeeded and no fatal error since
static buf_t dec_out;              // decoder output since the last fresh start (decoding is resumable)
static bool paused, seek_pending; // the last decode step stopped at a recoverable code / at LZMA_SEEK_NEEDED
static bool finished;             // the encoder on the handle has returned LZMA_STREAM_END for LZMA_FINISH
static buf_t encout, plain;       // encoder output / input since the last encoder init
static chain_t cur_chain;         // chain of the current encoder (raw/block verification)
static lzma_check cur_check;
static lzma_block cur_block;      // block encoder / decoder
static lzma_options_lzma cur_lzma;
static recipe_t *cur_recipe;
static int cur_slot = -1;         // index slot written by idec/fidec
static bool mt_seen;

#define NIX 3
static lzma_index *ix[NIX];

static int caller_objects(void)
{
	int n = 0;
	for (int i = 0; i < NIX; ++i) n += ix[i] != NULL;
	return n;
}

static uint64_t index_fp(const lzma_index *i)
{
	if (i == NULL) return 0;
	uint64_t h = 0xcbf29ce484222325ULL, v;
	v = lzma_index_stream_count(i); h = fnv(h, &v, 8);
	v = lzma_index_block_count(i); h = fnv(h, &v, 8);
	v = lzma_index_size(i); h = fnv(h, &v, 8);
	v = lzma_index_total_size(i); h = fnv(h, &v, 8);
	v = lzma_index_file_size(i); h = fnv(h, &v, 8);
	v = lzma_index_uncompressed_size(i); h = fnv(h, &v, 8);
	v = lzma_index_checks(i); h = fnv(h, &v, 8);
	lzma_index_iter it;
	lzma_index_iter_init(&it, i);
	while (!lzma_index_iter_next(&it, LZMA_INDEX_ITER_ANY)) {
		h = fnv(h, &it.stream.number, sizeof it.stream.number);
		h = fnv(h, &it.stream.block_count, sizeof it.stream.block_count);
		h = fnv(h, &it.stream.compressed_offset, 8);
		h = fnv(h, &it.stream.uncompressed_offset, 8);
		h = fnv(h, &it.stream.padding, 8);
		if (it.stream.block_count == 0) continue;
		h = fnv(h, &it.block.number_in_file, 8);
		h = fnv(h, &it.block.compressed_file_offset, 8);
		h = fnv(h, &it.block.uncompressed_file_offset, 8);
		h = fnv(h, &it.block.unpadded_size, 8);
		h = fnv(h, &it.block.uncompressed_size, 8);
		h = fnv(h, &it.block.total_size, 8);
	}
	return h;
}

// step bookkeeping
static char rets[2048];
static int stepno;
static long fails_at_step_start;

static void step_begin(void)
{
	char m[32];
	snprintf(m, sizeof m, "[%d", stepno);
	ta_mark(m);
	fails_at_step_start = TA.failed;
}

static void step_end(int ret)
{
	char m[32];
	snprintf(m, sizeof m, "]%d", ret);
	ta_mark(m);
	size_t l = strlen(rets);
	snprintf(rets + l, sizeof rets - l, "%s%d", l ? "," : "", ret);
	if (ret == LZMA_MEM_ERROR && TA.failed == fails_at_step_start && !mt_seen)
		add_err("mem-error-without-failed-alloc");
	++stepno;
}

static bool step_failed_alloc(void) { return TA.failed != fails_at_step_start; }

// after a public init on `strm`
static int after_init(lzma_ret r, int k)
{
	finished = false;
	paused = false; seek_pending = false;
	if (r == LZMA_OK) {
		usable = true;
		kind = k;
		buf_clear(&encout);
		buf_clear(&plain);
	} else {
		usable = false;
		kind = K_NONE;
		if (strm.internal != NULL)
			add_err("failed-init-left-internal");
		if (caller_objects() == 0 && TA.nlive != 0)
			add_err("failed-init-left-memory");
	}
	return (int)r;
}

// ------------------------------------------------------------------------------------------------------------
// verification of finished encoder output with an untraced decoder (round trip)
// ------------------------------------------------------------------------------------------------------------
static void verify_encoded(void)
{
	buf_t out = { 0 };
	bool ok = false;
	lzma_stream s = LZMA_STREAM_INIT;
	switch (kind) {
	case K_SENC:
		ok = lzma_stream_decoder(&s, UINT64_MAX, 0) == LZMA_OK && code_all(&s, encout.p, encout.n, LZMA_FINISH, &out);
		break;
	case K_AENC:
		ok = lzma_alone_decoder(&s, UINT64_MAX) == LZMA_OK && code_all(&s, encout.p, encout.n, LZMA_FINISH, &out);
		break;
	case K_RENC:
		ok = lzma_raw_decoder(&s, cur_chain.f) == LZMA_OK && code_all(&s, encout.p, encout.n, LZMA_FINISH, &out);
		break;
	case K_BENC: {
		lzma_block b = cur_block;
		b.filters = cur_chain.f;
		if (lzma_block_header_size(&b) != LZMA_OK) break;
		ok = lzma_block_decoder(&s, &b) == LZMA_OK && code_all(&s, encout.p, encout.n, LZMA_FINISH, &out);
		break;
	}
	case K_MLENC:
		// plain may be longer than what the encoder consumed; it consumed strm.total_in bytes
		ok = lzma_microlzma_decoder(&s, encout.n, plain.n, true, cur_lzma.dict_size) == LZMA_OK
				&& code_all(&s, encout.p, encout.n, LZMA_FINISH, &out);
		break;
	default:
		return;
	}
	lzma_end(&s);
	if (!ok || out.n != plain.n || (out.n && memcmp(out.p, plain.p, out.n) != 0))
		add_err("roundtrip-mismatch");
	free(out.p);
}

// ------------------------------------------------------------------------------------------------------------
// coding steps
// ------------------------------------------------------------------------------------------------------------
static int do_encode(lzma_action a, size_t len)
{
	uint8_t *d = malloc(len + 1);
	gen_data(d, len, (uint32_t)plain.n + 1);
	uint8_t tmp[8192];
	lzma_ret r;
	strm.next_in = d; strm.avail_in = len;
	if (kind == K_MLENC) {
		size_t cap = len + len / 2 + 256;
		uint8_t *o = malloc(cap);
		strm.next_out = o; strm.avail_out = cap;
		r = lzma_code(&strm, LZMA_FINISH);
		buf_put(&encout, o, cap - strm.avail_out);
		buf_put(&plain, d, len - strm.avail_in);
		free(o);
	} else {
		buf_put(&plain, d, len);
		for (;;) {
			strm.next_out = tmp; strm.avail_out = sizeof tmp;
			r = lzma_code(&strm, a);
			buf_put(&encout, tmp, sizeof tmp - strm.avail_out);
			if (r != LZMA_OK) break;
			if (a == LZMA_RUN && strm.avail_in == 0 && strm.avail_out != 0) break;
		}
	}
	free(d);
	if (r != LZMA_OK && r != LZMA_STREAM_END)
		usable = false;
	if (r == LZMA_STREAM_END && a == LZMA_FINISH) {
		verify_encoded();
		usable = false;   // finished: further coding needs a new init
		finished = true;
	}
	return (int)r;
}

// Decoding is resumable: a RECOVERABLE code (LZMA_MEMLIMIT_ERROR; with stop_at_notice also LZMA_NO_CHECK /
// LZMA_UNSUPPORTED_CHECK / LZMA_GET_CHECK and LZMA_SEEK_NEEDED) pauses the decode; `dcont` resumes it (after a
// lzma_memlimit_set, say), `end` or a new init abandons it. Every such path must balance the allocator.

static size_t fi_pos;     // file position of the next byte to hand to the file-info decoder

static void fi_feed(const recipe_t *rc)
{
	size_t k = rc->data.n - fi_pos;
	if (k > 512) k = 512;
	strm.next_in = rc->data.p + fi_pos;
	strm.avail_in = k;
	fi_pos += k;
}

static int do_decode(bool fresh, bool stop_at_notice)
{
	recipe_t *rc = cur_recipe;
	if (rc == NULL) return RET_BADOP;
	uint8_t tmp[8192];
	lzma_ret r;
	int stall = 0;
	if (fresh) {
		const uint8_t *in = rc->data.p;
		size_t n = rc->data.n;
		if (kind == K_BDEC) { in += rc->hdr; n -= rc->hdr; }
		strm.next_in = in; strm.avail_in = n;
		// the file-info decoder reads like an application reads a file: 512-byte pieces from the current file position,
		// so that bigger files really make it ask for seeks
		if (kind == K_FIDEC) { fi_pos = 0; fi_feed(rc); }
		buf_clear(&dec_out);
	} else if (seek_pending) {
		fi_pos = (size_t)strm.seek_pos;
		fi_feed(rc);
	}
	paused = false; seek_pending = false;
	for (;;) {
		strm.next_out = tmp; strm.avail_out = sizeof tmp;
		size_t in_before = strm.avail_in;
		r = lzma_code(&strm, kind == K_FIDEC ? LZMA_RUN : LZMA_FINISH);
		buf_put(&dec_out, tmp, sizeof tmp - strm.avail_out);
		if (r == LZMA_SEEK_NEEDED && kind == K_FIDEC) {
			if (strm.seek_pos > rc->data.n) { r = LZMA_PROG_ERROR; break; }
			if (stop_at_notice) { paused = true; seek_pending = true; usable = false; return (int)r; }
			fi_pos = (size_t)strm.seek_pos;
			fi_feed(rc);
			continue;
		}
		if (r == LZMA_NO_CHECK || r == LZMA_UNSUPPORTED_CHECK || r == LZMA_GET_CHECK) {
			if (stop_at_notice) { paused = true; usable = false; return (int)r; }
			continue;
		}
		if (r == LZMA_MEMLIMIT_ERROR) { paused = true; usable = false; return (int)r; }
		if (r != LZMA_OK) break;
		if (kind == K_FIDEC && strm.avail_in == 0 && fi_pos < rc->data.n) { fi_feed(rc); continue; }
		if (strm.avail_in == in_before && strm.avail_out == sizeof tmp && ++stall > 4) break;
	}
	if (r == LZMA_STREAM_END) {
		if (kind == K_IDEC) {
			if (cur_slot < 0 || ix[cur_slot] == NULL || lzma_index_block_count(ix[cur_slot]) != rc->nrec)
				add_err("index-decoder-result");
		} else if (kind == K_FIDEC) {
			if (cur_slot < 0 || ix[cur_slot] == NULL || lzma_index_file_size(ix[cur_slot]) != rc->data.n)
				add_err("file-info-result");
		} else if (dec_out.n != rc->plain.n || (dec_out.n && memcmp(dec_out.p, rc->plain.p, dec_out.n) != 0)) {
			add_err("decode-mismatch");
		}
	} else if ((kind == K_IDEC || kind == K_FIDEC) && cur_slot >= 0 && ix[cur_slot] != NULL) {
		add_err("index-pointer-set-on-error");
	}
	usable = false;
	return (int)r;
}

// buffers of the single-call API tests: sentinels before the non-zero start offsets
#define OFF_OUT 100
#define OFF_IN 37

static uint8_t *bo_out(size_t cap)
{
	uint8_t *p = malloc(cap + 1);
	if (!p) abort();
	memset(p, 0xC3, OFF_OUT);
	return p;
}

static uint8_t *bo_in(const uint8_t *d, size_t n)
{
	uint8_t *p = malloc(OFF_IN + n + 1);
	if (!p) abort();
	memset(p, 0x5D, OFF_IN);
	if (n) memcpy(p + OFF_IN, d, n);
	return p;
}

static void bo_check(const uint8_t *out, const uint8_t *in)
{
	for (size_t i = 0; i < OFF_OUT; ++i)
		if (out[i] != 0xC3) { add_err("out-bytes-before-out_pos-modified"); break; }
	if (in != NULL)
		for (size_t i = 0; i < OFF_IN; ++i)
			if (in[i] != 0x5D) { add_err("in-bytes-before-in_pos-modified"); break; }
}

// ------------------------------------------------------------------------------------------------------------
// one step
// ------------------------------------------------------------------------------------------------------------
static int do_step(char *tok)
{
	char *a[8];
	int n = split(tok, ':', a, 8);
	const char *op = a[0];
	chain_t c;

	// ---- pseudo step ----
	if (!strcmp(op, "nofail")) { pthread_mutex_lock(&TA.mu); TA.enabled = false; pthread_mutex_unlock(&TA.mu); return 0; }

	// ---- encoder inits on the shared handle ----
	if (!strcmp(op, "easyenc") && n == 4) {
		// easyenc:<preset>:<check>:<equivalent lzma2 filter, checked against lzma_lzma_preset>
		uint32_t preset = (uint32_t)strtoul(a[1], NULL, 10);
		lzma_options_lzma o;
		if (!parse_chain(a[3], &c) || c.n != 1 || lzma_lzma_preset(&o, preset)) return RET_BADOP;
		if (o.dict_size != c.lz[0].dict_size || o.mf != c.lz[0].mf || o.nice_len != c.lz[0].nice_len
				|| o.mode != c.lz[0].mode)
			return RET_BADOP;
		chain_copy(&cur_chain, &c); cur_check = parse_check(a[2]);
		return after_init(lzma_easy_encoder(&strm, preset, cur_check), K_SENC);
	}
	if (!strcmp(op, "senc") && n == 3) {
		if (!parse_chain(a[1], &c)) return RET_BADOP;
		uint64_t fp = chain_fp(&c);
		cur_check = parse_check(a[2]);
		lzma_ret r = lzma_stream_encoder(&strm, c.f, cur_check);
		if (chain_fp(&c) != fp) add_err("caller-filters-modified");
		chain_copy(&cur_chain, &c);
		return after_init(r, K_SENC);
	}
	if (!strcmp(op, "sencmt") && n == 5) {
		if (!parse_chain(a[1], &c)) return RET_BADOP;
		mt_seen = true;
		lzma_mt mt;
		memset(&mt, 0, sizeof mt);
		mt.threads = (uint32_t)strtoul(a[3], NULL, 10);
		mt.block_size = strtoull(a[4], NULL, 10);
		mt.filters = c.f;
		mt.check = parse_check(a[2]);
		uint64_t fp = chain_fp(&c);
		lzma_ret r = lzma_stream_encoder_mt(&strm, &mt);
		if (chain_fp(&c) != fp) add_err("caller-filters-modified");
		chain_copy(&cur_chain, &c);
		return after_init(r, K_SENC);
	}
	if (!strcmp(op, "aenc") && n == 2) {
		if (!parse_chain(a[1], &c) || c.n != 1) return RET_BADOP;
		cur_lzma = c.lz[0];
		lzma_options_lzma before = cur_lzma;
		lzma_ret r = lzma_alone_encoder(&strm, &cur_lzma);
		if (memcmp(&before, &cur_lzma, sizeof before)) add_err("caller-options-modified");
		return after_init(r, K_AENC);
	}
	if (!strcmp(op, "mlenc") && n == 2) {
		if (!parse_chain(a[1], &c) || c.n != 1) return RET_BADOP;
		cur_lzma = c.lz[0];
		return after_init(lzma_microlzma_encoder(&strm, &cur_lzma), K_MLENC);
	}
	if (!strcmp(op, "renc") && n == 2) {
		if (!parse_chain(a[1], &c)) return RET_BADOP;
		uint64_t fp = chain_fp(&c);
		lzma_ret r = lzma_raw_encoder(&strm, c.f);
		if (chain_fp(&c) != fp) add_err("caller-filters-modified");
		chain_copy(&cur_chain, &c);
		return after_init(r, K_RENC);
	}
	if (!strcmp(op, "benc") && n == 3) {
		if (!parse_chain(a[1], &c)) return RET_BADOP;
		chain_copy(&cur_chain, &c);
		memset(&cur_block, 0, sizeof cur_block);
		cur_block.version = 0;
		cur_block.check = parse_check(a[2]);
		cur_block.filters = cur_chain.f;
		return after_init(lzma_block_encoder(&strm, &cur_block), K_BENC);
	}
	if (!strcmp(op, "ienc") && n == 2) {
		int s = atoi(a[1]);
		if (s < 0 || s >= NIX) return RET_BADOP;
		if (ix[s] == NULL) return RET_SKIP;      // an earlier failure left no Index to encode
		uint64_t fp = index_fp(ix[s]);
		lzma_ret r = lzma_index_encoder(&strm, ix[s]);
		if (index_fp(ix[s]) != fp) add_err("caller-index-modified");
		return after_init(r, K_IENC);
	}

	// ---- decoder inits on the shared handle: <op>:<flags>:<recipe> ----
	if ((!strcmp(op, "sdec") || !strcmp(op, "adec") || !strcmp(op, "lzipdec") || !strcmp(op, "alonedec")) && n == 3) {
		uint32_t flags = (uint32_t)strtoul(a[1], NULL, 10);
		cur_recipe = get_recipe(a[2]);
		if (!cur_recipe) return RET_BADOP;
		if (op[0] == 's') return after_init(lzma_stream_decoder(&strm, UINT64_MAX, flags), K_SDEC);
		if (op[1] == 'd') return after_init(lzma_auto_decoder(&strm, UINT64_MAX, flags), K_ADEC);
		if (op[1] == 'z') return after_init(lzma_lzip_decoder(&strm, UINT64_MAX, flags), K_LZIPDEC);
		return after_init(lzma_alone_decoder(&strm, UINT64_MAX), K_ALONEDEC);
	}
	if ((!strcmp(op, "sdecml") || !strcmp(op, "adecml")) && n == 4) {
		// <op>:<flags>:<memlimit>:<recipe>
		uint32_t flags = (uint32_t)strtoul(a[1], NULL, 10);
		uint64_t ml = strtoull(a[2], NULL, 10);
		cur_recipe = get_recipe(a[3]);
		if (!cur_recipe) return RET_BADOP;
		if (op[0] == 's') return after_init(lzma_stream_decoder(&strm, ml, flags), K_SDEC);
		return after_init(lzma_auto_decoder(&strm, ml, flags), K_ADEC);
	}
	if (!strcmp(op, "sdecmtml") && n == 5) {
		mt_seen = true;
		cur_recipe = get_recipe(a[4]);
		if (!cur_recipe) return RET_BADOP;
		lzma_mt mt;
		memset(&mt, 0, sizeof mt);
		mt.flags = (uint32_t)strtoul(a[1], NULL, 10);
		mt.threads = (uint32_t)strtoul(a[2], NULL, 10);
		mt.memlimit_threading = strtoull(a[3], NULL, 10);
		mt.memlimit_stop = mt.memlimit_threading;
		return after_init(lzma_stream_decoder_mt(&strm, &mt), K_SDEC);
	}
	if (!strcmp(op, "sdecmt") && n == 4) {
		mt_seen = true;
		cur_recipe = get_recipe(a[3]);
		if (!cur_recipe) return RET_BADOP;
		lzma_mt mt;
		memset(&mt, 0, sizeof mt);
		mt.flags = (uint32_t)strtoul(a[1], NULL, 10);
		mt.threads = (uint32_t)strtoul(a[2], NULL, 10);
		mt.memlimit_threading = UINT64_MAX;
		mt.memlimit_stop = UINT64_MAX;
		return after_init(lzma_stream_decoder_mt(&strm, &mt), K_SDEC);
	}
	if (!strcmp(op, "rdec") && n == 2) {
		cur_recipe = get_recipe(a[1]);
		if (!cur_recipe) return RET_BADOP;
		uint64_t fp = chain_fp(&cur_recipe->chain);
		lzma_ret r = lzma_raw_decoder(&strm, cur_recipe->chain.f);
		if (chain_fp(&cur_recipe->chain) != fp) add_err("caller-filters-modified");
		return after_init(r, K_RDEC);
	}
	if (!strcmp(op, "bdec") && n == 2) {
		cur_recipe = get_recipe(a[1]);
		if (!cur_recipe) return RET_BADOP;
		return after_init(lzma_block_decoder(&strm, &cur_recipe->block), K_BDEC);
	}
	if (!strcmp(op, "mldec") && n == 2) {
		cur_recipe = get_recipe(a[1]);
		if (!cur_recipe) return RET_BADOP;
		return after_init(lzma_microlzma_decoder(&strm, cur_recipe->comp, cur_recipe->uncomp, true,
				cur_recipe->dict), K_MLDEC);
	}
	if ((!strcmp(op, "idec") || !strcmp(op, "fidec")) && n == 3) {
		int s = atoi(a[1]);
		recipe_t *rcp = get_recipe(a[2]);
		if (s < 0 || s >= NIX || !rcp) return RET_BADOP;
		if (ix[s] != NULL) return RET_SKIP;      // slot still occupied because an earlier step failed
		cur_recipe = rcp;
		cur_slot = s;
		lzma_ret r = op[0] == 'i' ? lzma_index_decoder(&strm, &ix[s], UINT64_MAX)
				: lzma_file_info_decoder(&strm, &ix[s], UINT64_MAX, cur_recipe->data.n);
		if (r != LZMA_OK && ix[s] != NULL) add_err("index-pointer-set-on-error");
		return after_init(r, op[0] == 'i' ? K_IDEC : K_FIDEC);
	}

	// ---- coding ----
	if ((!strcmp(op, "run") || !strcmp(op, "sync") || !strcmp(op, "full") || !strcmp(op, "finish")) && n == 2) {
		if (!usable || kind < K_SENC || kind > K_MLENC) return RET_SKIP;
		lzma_action act = op[0] == 'r' ? LZMA_RUN : op[0] == 's' ? LZMA_SYNC_FLUSH
				: op[1] == 'u' ? LZMA_FULL_FLUSH : LZMA_FINISH;
		return do_encode(act, strtoul(a[1], NULL, 10));
	}
	if (!strcmp(op, "iencode") && n == 1) {
		if (!usable || kind != K_IENC) return RET_SKIP;
		buf_t out = { 0 };
		bool ok = code_all(&strm, NULL, 0, LZMA_RUN, &out);
		free(out.p);
		usable = false;
		return ok ? 1 : 0;
	}
	if (!strcmp(op, "dcode") && n == 1) {
		if (!usable || kind < K_SDEC) return RET_SKIP;
		return do_decode(true, false);
	}
	if (!strcmp(op, "dstop") && n == 1) {
		// like dcode, but also the notifications and LZMA_SEEK_NEEDED pause the decode
		if (!usable || kind < K_SDEC) return RET_SKIP;
		return do_decode(true, true);
	}
	if (!strcmp(op, "dcont") && n == 1) {
		if (!paused || kind < K_SDEC) return RET_SKIP;
		return do_decode(false, false);
	}
	if (!strcmp(op, "dpart") && n == 2) {
		// feed only the first <n> bytes of the recipe with LZMA_RUN and then ABANDON the decode (input "simply stops",
		// typically in the middle of a Block); the handle is re-initialised or ended by the following steps
		if (!usable || kind < K_SDEC || cur_recipe == NULL) return RET_SKIP;
		size_t nb = strtoul(a[1], NULL, 10);
		if (nb > cur_recipe->data.n) nb = cur_recipe->data.n;
		uint8_t tmp[8192];
		lzma_ret r = LZMA_OK;
		int idle = 0;
		strm.next_in = cur_recipe->data.p; strm.avail_in = nb;
		while (r == LZMA_OK && idle < 3) {
			size_t in_before = strm.avail_in;
			strm.next_out = tmp; strm.avail_out = sizeof tmp;
			r = lzma_code(&strm, LZMA_RUN);
			if (r == LZMA_NO_CHECK || r == LZMA_UNSUPPORTED_CHECK || r == LZMA_GET_CHECK) r = LZMA_OK;
			if (strm.avail_in == in_before && strm.avail_out == sizeof tmp) ++idle; else idle = 0;
			if (strm.avail_in == 0 && strm.avail_out != 0) break;
		}
		usable = false;
		return (int)r;
	}
	if (!strcmp(op, "upd") && n == 2) {
		// also on raw / block encoders and after LZMA_FINISH: such updates are (mostly) REFUSED by the coder, which
		// must not cost or leak anything
		if (!(usable || finished) || (kind != K_SENC && kind != K_RENC && kind != K_BENC)) return RET_SKIP;
		if (!parse_chain(a[1], &c)) return RET_BADOP;
		uint64_t fp = chain_fp(&c);
		lzma_ret r = lzma_filters_update(&strm, c.f);
		if (chain_fp(&c) != fp) add_err("caller-filters-modified");
		return (int)r;
	}
	// ---- refused / erroneous calls: they must not allocate, free twice or leak ----
	if ((!strcmp(op, "sdecbad") || !strcmp(op, "lzipdecbad") || !strcmp(op, "adecbad")) && n == 1) {
		// unsupported flags: LZMA_OPTIONS_ERROR after lzma_next_coder_init() has already dealt with the old coder
		const uint32_t bad = UINT32_C(0x8000);
		lzma_ret r = op[0] == 's' ? lzma_stream_decoder(&strm, UINT64_MAX, bad)
				: op[0] == 'l' ? lzma_lzip_decoder(&strm, UINT64_MAX, bad) : lzma_auto_decoder(&strm, UINT64_MAX, bad);
		return after_init(r, K_NONE);
	}
	if (!strcmp(op, "memlimit") && n == 2) {
		if (strm.internal == NULL) return RET_SKIP;
		return (int)lzma_memlimit_set(&strm, strtoull(a[1], NULL, 10));
	}
	if (!strcmp(op, "badaction") && n == 1) {
		if (strm.internal == NULL) return RET_SKIP;
		uint8_t b = 0;
		strm.next_in = &b; strm.avail_in = 0; strm.next_out = &b; strm.avail_out = 1;
		return (int)lzma_code(&strm, (lzma_action)7);
	}
	if (!strcmp(op, "end") && n == 1) {
		lzma_end(&strm);
		usable = false;
		finished = false;
		paused = false; seek_pending = false;
		kind = K_NONE;
		if (strm.internal != NULL) add_err("lzma_end-left-internal");
		if (caller_objects() == 0 && TA.nlive != 0) add_err("leak-after-lzma_end");
		return 0;
	}

	// ---- lzma_index_* with an allocator ----
	if (!strcmp(op, "ix_init") && n == 2) {
		int s = atoi(a[1]);
		if (s < 0 || s >= NIX) return RET_BADOP;
		if (ix[s] != NULL) return RET_SKIP;
		uint64_t fp = ta_live_fp();
		ix[s] = lzma_index_init(&TA_ALLOC);
		if (ix[s] == NULL) {
			if (!step_failed_alloc()) add_err("null-without-failed-alloc");
			if (ta_live_fp() != fp) add_err("failed-constructor-changed-live-set");
			return RET_NULL;
		}
		return 0;
	}
	if (!strcmp(op, "ix_app") && n == 3) {
		int s = atoi(a[1]);
		uint64_t cnt = strtoull(a[2], NULL, 10);
		if (s < 0 || s >= NIX) return RET_BADOP;
		if (ix[s] == NULL) return RET_SKIP;
		uint64_t base = lzma_index_block_count(ix[s]);
		lzma_ret r = LZMA_OK;
		for (uint64_t k = 0; k < cnt && r == LZMA_OK; ++k) {
			lzma_vli u, v;
			index_records(base + k, &u, &v);
			uint64_t fp = index_fp(ix[s]), lfp = ta_live_fp();
			r = lzma_index_append(ix[s], &TA_ALLOC, u, v);
			if (r != LZMA_OK) {
				if (index_fp(ix[s]) != fp) add_err("index-modified-by-failed-append");
				if (ta_live_fp() != lfp) add_err("failed-append-changed-live-set");
			}
		}
		return (int)r;
	}
	if (!strcmp(op, "ix_cat") && n == 3) {
		int d = atoi(a[1]), s = atoi(a[2]);
		if (d < 0 || d >= NIX || s < 0 || s >= NIX || d == s) return RET_BADOP;
		if (!ix[d] || !ix[s]) return RET_SKIP;
		uint64_t fd = index_fp(ix[d]), fs = index_fp(ix[s]), lfp = ta_live_fp();
		lzma_ret r = lzma_index_cat(ix[d], ix[s], &TA_ALLOC);
		if (r == LZMA_OK) {
			ix[s] = NULL;
		} else {
			if (index_fp(ix[d]) != fd || index_fp(ix[s]) != fs) add_err("index-modified-by-failed-cat");
			if (ta_live_fp() != lfp) add_err("failed-cat-changed-live-set");
		}
		return (int)r;
	}
	if (!strcmp(op, "ix_dup") && n == 3) {
		int d = atoi(a[1]), s = atoi(a[2]);
		if (d < 0 || d >= NIX || s < 0 || s >= NIX || d == s) return RET_BADOP;
		if (ix[d] || !ix[s]) return RET_SKIP;
		uint64_t fs = index_fp(ix[s]), lfp = ta_live_fp();
		ix[d] = lzma_index_dup(ix[s], &TA_ALLOC);
		if (index_fp(ix[s]) != fs) add_err("index-modified-by-dup");
		if (ix[d] == NULL) {
			if (!step_failed_alloc()) add_err("null-without-failed-alloc");
			if (ta_live_fp() != lfp) add_err("failed-dup-changed-live-set");
			return RET_NULL;
		}
		// compare the record lists (ignore `checks`, see F2) via block/stream counts and sizes
		if (lzma_index_block_count(ix[d]) != lzma_index_block_count(ix[s])
				|| lzma_index_file_size(ix[d]) != lzma_index_file_size(ix[s])
				|| lzma_index_uncompressed_size(ix[d]) != lzma_index_uncompressed_size(ix[s]))
			add_err("dup-differs");
		return 0;
	}
	if (!strcmp(op, "ix_end") && n == 2) {
		int s = atoi(a[1]);
		if (s < 0 || s >= NIX) return RET_BADOP;
		lzma_index_end(ix[s], &TA_ALLOC);
		ix[s] = NULL;
		return 0;
	}
	if (!strcmp(op, "ix_bufdec") && n == 3) {
		int s = atoi(a[1]);
		recipe_t *rc = get_recipe(a[2]);
		if (s < 0 || s >= NIX || !rc) return RET_BADOP;
		if (ix[s] != NULL) return RET_SKIP;
		uint8_t *in = bo_in(rc->data.p, rc->data.n);
		lzma_ret first = LZMA_OK;
		for (int pass = 0; pass < 2; ++pass) {
			uint64_t memlimit = UINT64_MAX, lfp = ta_live_fp();
			size_t pos = OFF_IN;
			lzma_index *tmp = NULL;
			lzma_ret r = lzma_index_buffer_decode(pass ? &tmp : &ix[s], &memlimit, pass ? NULL : &TA_ALLOC, in, &pos, OFF_IN + rc->data.n);
			for (size_t i = 0; i < OFF_IN; ++i) if (in[i] != 0x5D) { add_err("in-bytes-before-in_pos-modified"); break; }
			if (pass == 0) {
				first = r;
				if (r != LZMA_OK) {
					if (ix[s] != NULL) { add_err("index-pointer-set-on-error"); ix[s] = NULL; }
					if (pos != OFF_IN) add_err("in_pos-changed-on-error");
					if (ta_live_fp() != lfp) add_err("failed-bufdec-changed-live-set");
				} else if (lzma_index_block_count(ix[s]) != rc->nrec || pos != OFF_IN + rc->data.n) {
					add_err("index-decoder-result");
				} else {
					// lzma_index_buffer_encode at a non-zero offset gives the same bytes back
					size_t cap = OFF_OUT + rc->data.n + 8, op2 = OFF_OUT;
					uint8_t *o = bo_out(cap);
					if (lzma_index_buffer_encode(ix[s], o, &op2, cap) != LZMA_OK || op2 - OFF_OUT != rc->data.n
							|| memcmp(o + OFF_OUT, rc->data.p, rc->data.n)) add_err("index-buffer-encode-result");
					bo_check(o, NULL);
					op2 = OFF_OUT;
					if (lzma_index_buffer_encode(ix[s], o, &op2, OFF_OUT + rc->data.n - 1) != LZMA_BUF_ERROR || op2 != OFF_OUT)
						add_err("index-buffer-encode-position-on-error");
					free(o);
				}
			} else {
				if (r != LZMA_OK || tmp == NULL || lzma_index_block_count(tmp) != rc->nrec) add_err("retry-after-mem-error-failed");
				lzma_index_end(tmp, NULL);
			}
			if (first != LZMA_MEM_ERROR) break;
		}
		free(in);
		return (int)first;
	}

	// ---- filters ----
	if (!strcmp(op, "fcopy") && n == 2) {
		if (!parse_chain(a[1], &c)) return RET_BADOP;
		lzma_filter dest[LZMA_FILTERS_MAX + 1], sentinel[LZMA_FILTERS_MAX + 1];
		memset(dest, 0x5A, sizeof dest);
		memcpy(sentinel, dest, sizeof dest);
		uint64_t fp = chain_fp(&c), lfp = ta_live_fp();
		lzma_ret r = lzma_filters_copy(c.f, dest, &TA_ALLOC);
		if (chain_fp(&c) != fp) add_err("caller-filters-modified");
		if (r != LZMA_OK) {
			if (memcmp(dest, sentinel, sizeof dest)) add_err("dest-modified-by-failed-filters_copy");
			if (ta_live_fp() != lfp) add_err("failed-filters_copy-changed-live-set");
			return (int)r;
		}
		for (int i = 0; i <= c.n; ++i) {
			if (dest[i].id != c.f[i].id || (dest[i].options == NULL) != (c.f[i].options == NULL))
				add_err("filters_copy-result");
			else if (dest[i].options) {
				size_t sz = dest[i].id == LZMA_FILTER_DELTA ? sizeof(lzma_options_delta)
						: (dest[i].id == LZMA_FILTER_LZMA1 || dest[i].id == LZMA_FILTER_LZMA2)
						? sizeof(lzma_options_lzma) : sizeof(lzma_options_bcj);
				if (memcmp(dest[i].options, c.f[i].options, sz)) add_err("filters_copy-result");
			}
		}
		lzma_filters_free(dest, &TA_ALLOC);
		if (ta_live_fp() != lfp) add_err("filters_free-left-memory");
		return 0;
	}
	if (!strcmp(op, "bhdec") && n == 2) {
		if (!parse_chain(a[1], &c)) return RET_BADOP;
		lzma_block b;
		memset(&b, 0, sizeof b);
		b.version = 0; b.check = LZMA_CHECK_CRC32; b.filters = c.f;
		b.compressed_size = LZMA_VLI_UNKNOWN; b.uncompressed_size = LZMA_VLI_UNKNOWN;
		uint8_t hdr[LZMA_BLOCK_HEADER_SIZE_MAX];
		if (lzma_block_header_size(&b) != LZMA_OK || lzma_block_header_encode(&b, hdr) != LZMA_OK) return RET_BADOP;
		lzma_filter df[LZMA_FILTERS_MAX + 1];
		lzma_block d;
		memset(&d, 0, sizeof d);
		d.version = 1; d.check = LZMA_CHECK_CRC32; d.filters = df;
		d.header_size = lzma_block_header_size_decode(hdr[0]);
		uint64_t lfp = ta_live_fp();
		lzma_ret r = lzma_block_header_decode(&d, &TA_ALLOC, hdr);
		if (r != LZMA_OK) {
			for (int i = 0; i <= LZMA_FILTERS_MAX; ++i)
				if (df[i].id != LZMA_VLI_UNKNOWN || df[i].options != NULL) add_err("filters-not-reset-on-error");
			if (ta_live_fp() != lfp) add_err("failed-block_header_decode-changed-live-set");
			return (int)r;
		}
		for (int i = 0; i <= c.n; ++i)
			if (df[i].id != c.f[i].id) add_err("block_header_decode-result");
		lzma_filters_free(df, &TA_ALLOC);
		if (ta_live_fp() != lfp) add_err("filters_free-left-memory");
		return 0;
	}
	if ((!strcmp(op, "ffdec") || !strcmp(op, "propdec")) && n == 2) {
		if (!parse_chain(a[1], &c) || c.n != 1) return RET_BADOP;
		uint8_t b[64];
		size_t pos = 0;
		lzma_filter d = { .id = c.f[0].id, .options = (void *)(uintptr_t)0x5A5A };
		uint64_t lfp = ta_live_fp();
		lzma_ret r;
		if (op[0] == 'f') {
			if (lzma_filter_flags_encode(&c.f[0], b, &pos, sizeof b) != LZMA_OK) return RET_BADOP;
			size_t ip = 0;
			r = lzma_filter_flags_decode(&d, &TA_ALLOC, b, &ip, pos);
		} else {
			uint32_t sz;
			if (lzma_properties_size(&sz, &c.f[0]) != LZMA_OK || sz > sizeof b
					|| lzma_properties_encode(&c.f[0], b) != LZMA_OK) return RET_BADOP;
			r = lzma_properties_decode(&d, &TA_ALLOC, b, sz);
		}
		if (r != LZMA_OK) {
			if (d.options != NULL) add_err("options-not-null-on-error");
			if (ta_live_fp() != lfp) add_err("failed-props-decode-changed-live-set");
			return (int)r;
		}
		lzma_free(d.options, &TA_ALLOC);
		return 0;
	}
	if (!strcmp(op, "str2f") && n == 4) {
		// str2f:<hex of the string>:<flags>:<meta for the model>
		char s[256];
		size_t l = strlen(a[1]) / 2;
		if (l >= sizeof s) return RET_BADOP;
		for (size_t i = 0; i < l; ++i) { unsigned v; sscanf(a[1] + 2 * i, "%2x", &v); s[i] = (char)v; }
		s[l] = 0;
		lzma_filter f[LZMA_FILTERS_MAX + 1], sentinel[LZMA_FILTERS_MAX + 1];
		memset(f, 0x5A, sizeof f);
		memcpy(sentinel, f, sizeof f);
		int pos = -1;
		uint64_t lfp = ta_live_fp();
		const char *msg = lzma_str_to_filters(s, &pos, f, (uint32_t)strtoul(a[2], NULL, 10), &TA_ALLOC);
		if (msg != NULL) {
			if (memcmp(f, sentinel, sizeof f)) add_err("filters-modified-by-failed-str_to_filters");
			if (ta_live_fp() != lfp) add_err("failed-str_to_filters-changed-live-set");
			return step_failed_alloc() ? LZMA_MEM_ERROR : LZMA_OPTIONS_ERROR;
		}
		lzma_filters_free(f, &TA_ALLOC);
		if (ta_live_fp() != lfp) add_err("filters_free-left-memory");
		return 0;
	}
	if ((!strcmp(op, "f2str") && n == 3) || (!strcmp(op, "strlist") && n == 2)) {
		char *out = (char *)(uintptr_t)0x5A5A;
		uint64_t lfp = ta_live_fp();
		lzma_ret r;
		if (op[0] == 'f') {
			if (!parse_chain(a[1], &c)) return RET_BADOP;
			uint64_t fp = chain_fp(&c);
			r = lzma_str_from_filters(&out, c.f, (uint32_t)strtoul(a[2], NULL, 10), &TA_ALLOC);
			if (chain_fp(&c) != fp) add_err("caller-filters-modified");
		} else {
			r = lzma_str_list_filters(&out, LZMA_VLI_UNKNOWN, (uint32_t)strtoul(a[1], NULL, 10), &TA_ALLOC);
		}
		if (r != LZMA_OK) {
			if (out != NULL) add_err("str-not-null-on-error");
			if (ta_live_fp() != lfp) add_err("failed-str-changed-live-set");
			return (int)r;
		}
		if (out == NULL || strlen(out) == 0) add_err("str-result");
		lzma_free(out, &TA_ALLOC);
		return 0;
	}

	// ---- single-call buffer API with an allocator ----
	// All single-call functions are called DIRECTLY with *out_pos = OFF_OUT and *in_pos = OFF_IN (non-zero), the bytes before
	// the offsets filled with sentinels. On any error the positions must be what they were, the sentinels and the caller's
	// lzma_block / lzma_filter structs untouched, the allocator balanced; and after LZMA_MEM_ERROR an immediate retry
	// without failures (default allocator, same arguments) must succeed and put a valid result at the requested offset.
	if (!strcmp(op, "sbufdec") && n == 3) {
		recipe_t *rc = get_recipe(a[2]);
		if (!rc) return RET_BADOP;
		size_t cap = OFF_OUT + rc->plain.n + 16;
		uint8_t *o = bo_out(cap), *in = bo_in(rc->data.p, rc->data.n);
		lzma_ret first = LZMA_OK;
		for (int pass = 0; pass < 2; ++pass) {
			uint64_t memlimit = UINT64_MAX, lfp = ta_live_fp();
			size_t ip = OFF_IN, op_ = OFF_OUT;
			lzma_ret r = lzma_stream_buffer_decode(&memlimit, (uint32_t)strtoul(a[1], NULL, 10), pass ? NULL : &TA_ALLOC,
					in, &ip, OFF_IN + rc->data.n, o, &op_, cap);
			if (r == LZMA_OK && (op_ - OFF_OUT != rc->plain.n || memcmp(o + OFF_OUT, rc->plain.p, rc->plain.n))) add_err("decode-mismatch");
			if (r != LZMA_OK && (ip != OFF_IN || op_ != OFF_OUT)) add_err("positions-changed-on-error");
			bo_check(o, in);
			if (ta_live_fp() != lfp) add_err("buffer-call-changed-live-set");
			if (pass == 0) first = r;
			if (pass == 1 && r == LZMA_MEM_ERROR) add_err("retry-after-mem-error-failed");  // (a recipe may legitimately end in another code)
			if (first != LZMA_MEM_ERROR) break;
		}
		free(o); free(in);
		return (int)first;
	}
	if ((!strcmp(op, "sbufenc") && n == 4) || (!strcmp(op, "ebufenc") && n == 5)) {
		// sbufenc:<chain>:<check>:<len>      ebufenc:<preset>:<check>:<len>:<equivalent lzma2 filter>
		bool easy = op[0] == 'e';
		if (!parse_chain(easy ? a[4] : a[1], &c)) return RET_BADOP;
		size_t len = strtoul(a[3], NULL, 10), cap = OFF_OUT + lzma_stream_buffer_bound(len) + 64;
		uint8_t *d = malloc(len + 1), *o = bo_out(cap);
		gen_data(d, len, 21);
		lzma_ret first = LZMA_OK;
		for (int pass = 0; pass < 2; ++pass) {
			size_t pos = OFF_OUT;
			uint64_t fp = chain_fp(&c), lfp = ta_live_fp();
			const lzma_allocator *al = pass ? NULL : &TA_ALLOC;
			lzma_ret r = easy
				? lzma_easy_buffer_encode((uint32_t)strtoul(a[1], NULL, 10), parse_check(a[2]), al, d, len, o, &pos, cap)
				: lzma_stream_buffer_encode(c.f, parse_check(a[2]), al, d, len, o, &pos, cap);
			if (chain_fp(&c) != fp) add_err("caller-filters-modified");
			if (ta_live_fp() != lfp) add_err("buffer-call-changed-live-set");
			bo_check(o, NULL);
			if (r == LZMA_OK) {
				uint64_t ml = UINT64_MAX; size_t ip = OFF_OUT, op2 = 0;
				uint8_t *back = malloc(len + 16);
				if (lzma_stream_buffer_decode(&ml, 0, NULL, o, &ip, pos, back, &op2, len + 16) != LZMA_OK
						|| op2 != len || memcmp(back, d, len)) add_err("roundtrip-mismatch");
				free(back);
			} else if (pos != OFF_OUT) add_err("positions-changed-on-error");
			if (pass == 0) first = r;
			if (pass == 1 && r == LZMA_MEM_ERROR) add_err("retry-after-mem-error-failed");  // (a recipe may legitimately end in another code)
			if (first != LZMA_MEM_ERROR) break;
		}
		free(d); free(o);
		return (int)first;
	}
	if ((!strcmp(op, "rbufenc") || !strcmp(op, "rbufdec")) && n == 3) {
		if (!parse_chain(a[1], &c)) return RET_BADOP;
		size_t len = strtoul(a[2], NULL, 10), cap = OFF_OUT + len * 2 + 4096;
		uint8_t *d = malloc(len + 1), *o = bo_out(cap);
		gen_data(d, len, 23);
		lzma_ret first = LZMA_OK;
		if (op[4] == 'e') {
			for (int pass = 0; pass < 2; ++pass) {
				size_t pos = OFF_OUT;
				uint64_t fp = chain_fp(&c), lfp = ta_live_fp();
				lzma_ret r = lzma_raw_buffer_encode(c.f, pass ? NULL : &TA_ALLOC, d, len, o, &pos, cap);
				if (chain_fp(&c) != fp) add_err("caller-filters-modified");
				if (ta_live_fp() != lfp) add_err("buffer-call-changed-live-set");
				bo_check(o, NULL);
				if (r == LZMA_OK) {
					uint8_t *back = malloc(len + 16);
					size_t ip = OFF_OUT, op2 = 0;
					if (lzma_raw_buffer_decode(c.f, NULL, o, &ip, pos, back, &op2, len + 16) != LZMA_OK || op2 != len || memcmp(back, d, len))
						add_err("roundtrip-mismatch");
					free(back);
				} else if (pos != OFF_OUT) add_err("positions-changed-on-error");
				if (pass == 0) first = r;
				if (pass == 1 && r == LZMA_MEM_ERROR) add_err("retry-after-mem-error-failed");  // (a recipe may legitimately end in another code)
				if (first != LZMA_MEM_ERROR) break;
			}
		} else {
			size_t pos = 0;
			if (lzma_raw_buffer_encode(c.f, NULL, d, len, o + OFF_OUT, &pos, cap - OFF_OUT) != LZMA_OK) { free(d); free(o); return RET_BADOP; }
			uint8_t *in = bo_in(o + OFF_OUT, pos), *back = bo_out(OFF_OUT + len + 16);
			for (int pass = 0; pass < 2; ++pass) {
				size_t ip = OFF_IN, op2 = OFF_OUT;
				uint64_t fp = chain_fp(&c), lfp = ta_live_fp();
				lzma_ret r = lzma_raw_buffer_decode(c.f, pass ? NULL : &TA_ALLOC, in, &ip, OFF_IN + pos, back, &op2, OFF_OUT + len + 16);
				if (chain_fp(&c) != fp) add_err("caller-filters-modified");
				if (ta_live_fp() != lfp) add_err("buffer-call-changed-live-set");
				bo_check(back, in);
				if (r == LZMA_OK && (op2 - OFF_OUT != len || memcmp(back + OFF_OUT, d, len))) add_err("decode-mismatch");
				if (r != LZMA_OK && (ip != OFF_IN || op2 != OFF_OUT)) add_err("positions-changed-on-error");
				if (pass == 0) first = r;
				if (pass == 1 && r == LZMA_MEM_ERROR) add_err("retry-after-mem-error-failed");  // (a recipe may legitimately end in another code)
				if (first != LZMA_MEM_ERROR) break;
			}
			free(in); free(back);
		}
		free(d); free(o);
		return (int)first;
	}
	if ((!strcmp(op, "bbufenc") || !strcmp(op, "bbufdec")) && n == 4) {
		if (!parse_chain(a[1], &c)) return RET_BADOP;
		size_t len = strtoul(a[3], NULL, 10), cap = OFF_OUT + lzma_block_buffer_bound(len) + 64;
		uint8_t *d = malloc(len + 1), *o = bo_out(cap);
		gen_data(d, len, 25);
		lzma_block b;
		memset(&b, 0, sizeof b);
		b.version = 0; b.check = parse_check(a[2]); b.filters = c.f;
		lzma_ret first = LZMA_OK;
		if (op[4] == 'e') {
			for (int pass = 0; pass < 2; ++pass) {
				size_t pos = OFF_OUT;
				lzma_block bb = b;
				uint64_t fp = chain_fp(&c), lfp = ta_live_fp();
				lzma_ret r = lzma_block_buffer_encode(&bb, pass ? NULL : &TA_ALLOC, d, len, o, &pos, cap);
				if (chain_fp(&c) != fp) add_err("caller-filters-modified");
				// documented outputs of the call: header_size, compressed_size, uncompressed_size, raw_check
				if (bb.version != b.version || bb.check != b.check || bb.filters != b.filters) add_err("caller-block-modified");
				if (ta_live_fp() != lfp) add_err("buffer-call-changed-live-set");
				bo_check(o, NULL);
				if (r == LZMA_OK) {
					lzma_filter df[LZMA_FILTERS_MAX + 1];
					lzma_block db;
					memset(&db, 0, sizeof db);
					db.version = 1; db.check = b.check; db.filters = df;
					db.header_size = lzma_block_header_size_decode(o[OFF_OUT]);
					uint8_t *back = malloc(len + 16);
					size_t ip = OFF_OUT + db.header_size, op2 = 0;
					if (lzma_block_header_decode(&db, NULL, o + OFF_OUT) != LZMA_OK
							|| lzma_block_buffer_decode(&db, NULL, o, &ip, pos, back, &op2, len + 16) != LZMA_OK
							|| op2 != len || memcmp(back, d, len)) add_err("roundtrip-mismatch");
					lzma_filters_free(df, NULL);
					free(back);
				} else if (pos != OFF_OUT) add_err("positions-changed-on-error");
				if (pass == 0) first = r;
				if (pass == 1 && r == LZMA_MEM_ERROR) add_err("retry-after-mem-error-failed");  // (a recipe may legitimately end in another code)
				if (first != LZMA_MEM_ERROR) break;
			}
			// lzma_block_uncomp_encode takes no allocator; same contract for the offset
			{
				size_t pos = OFF_OUT;
				lzma_block bb = b;
				bb.filters = NULL;
				uint8_t *u = bo_out(cap);
				lzma_ret r = lzma_block_uncomp_encode(&bb, d, len, u, &pos, cap);
				bo_check(u, NULL);
				if (r != LZMA_OK ? pos != OFF_OUT : pos <= OFF_OUT) add_err("uncomp-encode-position");
				free(u);
			}
		} else {
			size_t pos = 0;
			if (lzma_block_buffer_encode(&b, NULL, d, len, o + OFF_OUT, &pos, cap - OFF_OUT) != LZMA_OK) { free(d); free(o); return RET_BADOP; }
			lzma_filter df[LZMA_FILTERS_MAX + 1];
			lzma_block db;
			memset(&db, 0, sizeof db);
			db.version = 1; db.check = b.check; db.filters = df;
			db.header_size = lzma_block_header_size_decode(o[OFF_OUT]);
			if (lzma_block_header_decode(&db, NULL, o + OFF_OUT) != LZMA_OK) { free(d); free(o); return RET_BADOP; }
			uint8_t *in = bo_in(o + OFF_OUT, pos), *back = bo_out(OFF_OUT + len + 16);
			for (int pass = 0; pass < 2; ++pass) {
				lzma_block dd = db;
				size_t ip = OFF_IN + db.header_size, op2 = OFF_OUT;
				uint64_t lfp = ta_live_fp();
				lzma_ret r = lzma_block_buffer_decode(&dd, pass ? NULL : &TA_ALLOC, in, &ip, OFF_IN + pos, back, &op2, OFF_OUT + len + 16);
				if (ta_live_fp() != lfp) add_err("buffer-call-changed-live-set");
				if (dd.version != db.version || dd.check != db.check || dd.filters != db.filters || dd.header_size != db.header_size
						|| dd.compressed_size != db.compressed_size || dd.uncompressed_size != db.uncompressed_size)
					add_err("caller-block-modified");
				bo_check(back, in);
				if (r == LZMA_OK && (op2 - OFF_OUT != len || memcmp(back + OFF_OUT, d, len))) add_err("decode-mismatch");
				if (r != LZMA_OK && (ip != OFF_IN + db.header_size || op2 != OFF_OUT)) add_err("positions-changed-on-error");
				if (pass == 0) first = r;
				if (pass == 1 && r == LZMA_MEM_ERROR) add_err("retry-after-mem-error-failed");  // (a recipe may legitimately end in another code)
				if (first != LZMA_MEM_ERROR) break;
			}
			free(in); free(back);
			lzma_filters_free(df, NULL);
		}
		free(d); free(o);
		return (int)first;
	}
	return RET_BADOP;
}

// ------------------------------------------------------------------------------------------------------------
// fail spec
// ------------------------------------------------------------------------------------------------------------
static bool set_failspec(char *tok)
{
	if (strncmp(tok, "F=", 2)) return false;
	char *a[4];
	int n = split(tok + 2, ':', a, 4);
	if (!strcmp(a[0], "none")) { TA.mode = FM_NONE; return true; }
	if (!strcmp(a[0], "k") && n == 2) { TA.mode = FM_KTH; TA.k = atol(a[1]); return true; }
	if (!strcmp(a[0], "from") && n == 2) { TA.mode = FM_FROM; TA.k = atol(a[1]); return true; }
	if (!strcmp(a[0], "set") && n == 2) {
		static long setbuf[256];
		char *e[256];
		int m = split(a[1], ',', e, 256);
		for (int i = 0; i < m; ++i) setbuf[i] = atol(e[i]);
		TA.set = setbuf; TA.nset = (size_t)m; TA.mode = FM_SET;
		return true;
	}
	if (!strcmp(a[0], "rand") && n == 3) {
		TA.mode = FM_RAND; TA.rng = strtoull(a[1], NULL, 10) * 2 + 1; TA.permille = (unsigned)atoi(a[2]);
		return true;
	}
	return false;
}

int main(void)
{
	char *line = NULL;
	size_t cap = 0;
	strm.allocator = &TA_ALLOC;
	while (getline(&line, &cap, stdin) >= 0) {
		char *tok[256];
		int nt = 0;
		char *save = NULL;
		for (char *t = strtok_r(line, " \t\r\n", &save); t && nt < 256; t = strtok_r(NULL, " \t\r\n", &save))
			tok[nt++] = t;
		if (nt == 0) continue;
		if (!strcmp(tok[0], "presets")) {
			// presets -> "<preset>:<dict>,<mf>,<nice>,<mode> ..." for 0..9 (used by the generator for easyenc/ebufenc)
			for (uint32_t p = 0; p <= 9; ++p) {
				lzma_options_lzma o;
				lzma_lzma_preset(&o, p);
				printf("%s%u:%u,%u,%u,%u", p ? " " : "", p, o.dict_size, (unsigned)o.mf, o.nice_len, (unsigned)o.mode);
			}
			printf("\n");
			fflush(stdout);
			continue;
		}
		// watchdog: a scenario takes milliseconds to a few seconds; a hang (e.g. waiting for a worker thread that does
		// not exist) kills the process with SIGALRM and is reported like a crash
		alarm(90);
		ta_reset();
		errbuf[0] = 0; rets[0] = 0; stepno = 0; mt_seen = false;
		usable = false; finished = false; paused = false; seek_pending = false; kind = K_NONE; cur_recipe = NULL; cur_slot = -1;
		if (!set_failspec(tok[0])) { printf("bad-op\n"); fflush(stdout); continue; }
		bool bad = false;
		for (int i = 1; i < nt; ++i) {
			if (!strcmp(tok[i], "nofail")) { do_step(tok[i]); continue; }
			step_begin();
			int r = do_step(tok[i]);
			step_end(r);
			if (r == RET_BADOP) { bad = true; break; }
		}
		if (bad) {
			printf("bad-op step=%d\n", stepno - 1);
		} else {
			if (TA.double_free) add_err("double-free");
			if (TA.unknown_free) add_err("free-of-unknown-pointer");
			if (TA.nlive != 0) add_err("leak-at-end-of-scenario");
			printf("n=%ld nf=%ld live=%zu bytes=%zu err=%s rets=%s T=%s\n", TA.attempts, TA.failed, TA.nlive, TA.bytes,
					errbuf[0] ? errbuf : "-", rets, TA.tr ? TA.tr : "");
		}
		fflush(stdout);
		// forced cleanup so that the next scenario starts from an empty world
		TA.tracing = false;
		TA.enabled = false;
		lzma_end(&strm);
		for (int i = 0; i < NIX; ++i) { lzma_index_end(ix[i], &TA_ALLOC); ix[i] = NULL; }
		ta_reset();
	}
	alarm(0);
	free(line);
	return 0;
}
