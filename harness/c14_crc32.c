// C14 harness TU 1: exposes the static CRC32 implementations of the build (generic slice-by-8,
// arch-optimised CLMUL) next to the public dispatching entry point.
#include "crc32_fast.c"

uint32_t h_crc32_generic(const uint8_t *b, size_t n, uint32_t c)
{
#ifdef CRC32_GENERIC
	return lzma_crc32_generic(b, n, c);
#else
	return lzma_crc32(b, n, c);
#endif
}

uint32_t h_crc32_arch(const uint8_t *b, size_t n, uint32_t c)
{
#if defined(CRC32_ARCH_OPTIMIZED) && defined(CRC32_GENERIC)
	return is_arch_extension_supported() ? crc32_arch_optimized(b, n, c) : lzma_crc32(b, n, c);
#elif defined(CRC32_ARCH_OPTIMIZED)
	return crc32_arch_optimized(b, n, c);
#else
	return lzma_crc32(b, n, c);
#endif
}

uint32_t h_crc32_public(const uint8_t *b, size_t n, uint32_t c) { return lzma_crc32(b, n, c); }
