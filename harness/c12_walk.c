// C12 harness: byte buffers, filter-chain specs and the framing walker.
// The walker understands only the FRAMING of .xz (Stream Header, Block Header fields, LZMA2 chunk
// headers, Block Padding, Check size). It never calls a liblzma decoder, so that it is an independent
// witness of where chunks and Blocks begin and end.
#include "c12.h"
#include <stdarg.h>

void by_reserve(bytes_t *b, size_t extra)
{
	if (b->n + extra <= b->cap && b->p != NULL)
		return;
	size_t cap = b->cap ? b->cap : 4096;
	while (cap < b->n + extra)
		cap *= 2;
	b->p = realloc(b->p, cap);
	if (b->p == NULL) abort();
	b->cap = cap;
}

void by_append(bytes_t *b, const uint8_t *p, size_t n)
{
	by_reserve(b, n + 1);
	if (n) memcpy(b->p + b->n, p, n);
	b->n += n;
}

void by_free(bytes_t *b) { free(b->p); b->p = NULL; b->n = b->cap = 0; }

void st_printf(str_t *s, const char *fmt, ...)
{
	if (s == NULL) return;
	for (;;) {
		if (s->cap - s->n < 64) {
			s->cap = s->cap ? s->cap * 2 : 1024;
			s->p = realloc(s->p, s->cap);
			if (s->p == NULL) abort();
		}
		va_list ap;
		va_start(ap, fmt);
		int k = vsnprintf(s->p + s->n, s->cap - s->n, fmt, ap);
		va_end(ap);
		if (k < 0) abort();
		if ((size_t)k < s->cap - s->n) { s->n += (size_t)k; return; }
		s->cap = s->cap * 2 + (size_t)k;
		s->p = realloc(s->p, s->cap);
		if (s->p == NULL) abort();
	}
}

void st_free(str_t *s) { free(s->p); s->p = NULL; s->n = s->cap = 0; }

unsigned c12_check_size(unsigned check)
{
	static const unsigned sz[16] = {0, 4, 4, 4, 8, 8, 8, 16, 16, 16, 32, 32, 32, 64, 64, 64};
	return sz[check & 15];
}

// ---- chain specs ------------------------------------------------------------------------------------
static bool bcj_id(const char *s, lzma_vli *id)
{
	static const struct { const char *n; lzma_vli id; } t[] = {
		{"x86", LZMA_FILTER_X86}, {"powerpc", LZMA_FILTER_POWERPC}, {"ia64", LZMA_FILTER_IA64},
		{"arm", LZMA_FILTER_ARM}, {"armthumb", LZMA_FILTER_ARMTHUMB}, {"sparc", LZMA_FILTER_SPARC},
		{"arm64", LZMA_FILTER_ARM64}, {"riscv", LZMA_FILTER_RISCV} };
	for (size_t i = 0; i < sizeof(t) / sizeof(t[0]); ++i)
		if (!strcmp(s, t[i].n)) { *id = t[i].id; return true; }
	return false;
}

bool chain_parse(chain_t *c, const char *spec)
{
	memset(c, 0, sizeof(*c));
	char *dup = strdup(spec), *save = NULL;
	bool ok = true;
	for (char *ft = strtok_r(dup, "+", &save); ft != NULL && ok; ft = strtok_r(NULL, "+", &save)) {
		if (c->n >= C12_MAXF) { ok = false; break; }
		char *fld[10]; int nf = 0; char *s2 = NULL;
		for (char *t = strtok_r(ft, ":", &s2); t != NULL && nf < 10; t = strtok_r(NULL, ":", &s2))
			fld[nf++] = t;
		const int i = c->n;
		if ((!strcmp(fld[0], "L2") || !strcmp(fld[0], "L1")) && nf >= 8 && nf <= 10) {
			lzma_options_lzma *o = &c->lz[i];
			if (lzma_lzma_preset(o, (uint32_t)strtoul(fld[1], NULL, 10))) { ok = false; break; }
			o->lc = (uint32_t)strtoul(fld[2], NULL, 10);
			o->lp = (uint32_t)strtoul(fld[3], NULL, 10);
			o->pb = (uint32_t)strtoul(fld[4], NULL, 10);
			if (strtoul(fld[5], NULL, 10)) o->dict_size = (uint32_t)strtoul(fld[5], NULL, 10);
			if (strtoul(fld[6], NULL, 10)) o->mf = (lzma_match_finder)strtoul(fld[6], NULL, 10);
			if (strtoul(fld[7], NULL, 10)) o->nice_len = (uint32_t)strtoul(fld[7], NULL, 10);
			// optional: mode (1 fast, 2 normal; 0 = keep the preset's), depth
			if (nf >= 9 && strtoul(fld[8], NULL, 10)) o->mode = (lzma_mode)strtoul(fld[8], NULL, 10);
			if (nf >= 10) o->depth = (uint32_t)strtoul(fld[9], NULL, 10);
			c->f[i].id = fld[0][1] == '2' ? LZMA_FILTER_LZMA2 : LZMA_FILTER_LZMA1;
			c->f[i].options = o;
			if (fld[0][1] == '1') c->has_lzma1 = true;
		} else if (!strcmp(fld[0], "P") && nf == 2) {
			lzma_options_lzma *o = &c->lz[i];
			if (lzma_lzma_preset(o, (uint32_t)strtoul(fld[1], NULL, 10))) { ok = false; break; }
			c->f[i].id = LZMA_FILTER_LZMA2;
			c->f[i].options = o;
		} else if (!strcmp(fld[0], "D") && nf == 2) {
			c->dl[i].type = LZMA_DELTA_TYPE_BYTE;
			c->dl[i].dist = (uint32_t)strtoul(fld[1], NULL, 10);
			c->f[i].id = LZMA_FILTER_DELTA;
			c->f[i].options = &c->dl[i];
			c->has_delta = true;
		} else if (!strcmp(fld[0], "B") && nf == 3 && bcj_id(fld[1], &c->f[i].id)) {
			c->bc[i].start_offset = (uint32_t)strtoul(fld[2], NULL, 10);
			c->f[i].options = &c->bc[i];
			c->has_bcj = true;
		} else {
			ok = false;
			break;
		}
		c->n++;
	}
	free(dup);
	c->f[c->n].id = LZMA_VLI_UNKNOWN;
	c->f[c->n].options = NULL;
	c->last_is_lzma2 = c->n > 0 && c->f[c->n - 1].id == LZMA_FILTER_LZMA2;
	return ok && c->n > 0;
}

bool chain_header_string(const chain_t *c, char *buf, size_t n)
{
	size_t pos = 0;
	buf[0] = 0;
	for (int i = 0; i < c->n; ++i) {
		uint32_t psz = 0;
		uint8_t props[16];
		if (c->f[i].id >= (LZMA_VLI_C(1) << 62) || lzma_properties_size(&psz, &c->f[i]) != LZMA_OK || psz > sizeof(props)
				|| lzma_properties_encode(&c->f[i], props) != LZMA_OK)
			return false;
		int k = snprintf(buf + pos, n - pos, "%s%" PRIu64 ":", i ? "/" : "", (uint64_t)c->f[i].id);
		if (k < 0 || (size_t)k >= n - pos) return false;
		pos += (size_t)k;
		if (psz == 0) { if (pos + 2 > n) return false; buf[pos++] = '-'; buf[pos] = 0; }
		for (uint32_t j = 0; j < psz; ++j) {
			if (pos + 3 > n) return false;
			snprintf(buf + pos, n - pos, "%02x", props[j]);
			pos += 2;
		}
	}
	return true;
}

// ---- LZMA2 chunk framing ------------------------------------------------------------------------------
void lzma2_walk(const uint8_t *p, size_t n, lzma2_walk_t *w, str_t *s)
{
	memset(w, 0, sizeof(*w));
	size_t pos = 0;
	bool first = true;
	for (;;) {
		if (pos == n) { w->at_boundary = true; w->truncated = true; break; }
		const uint8_t c = p[pos];
		if (c == 0x00) { ++pos; w->end_marker = true; break; }
		size_t hdr, us, cs;
		bool props = false;
		if (c >= 0x80) {
			props = c >= 0xC0;
			hdr = props ? 6 : 5;
			if (n - pos < hdr) { w->truncated = true; break; }
			us = ((size_t)(c & 0x1F) << 16) + ((size_t)p[pos + 1] << 8) + p[pos + 2] + 1;
			cs = ((size_t)p[pos + 3] << 8) + p[pos + 4] + 1;
		} else if (c == 0x01 || c == 0x02) {
			hdr = 3;
			if (n - pos < hdr) { w->truncated = true; break; }
			us = ((size_t)p[pos + 1] << 8) + p[pos + 2] + 1;
			cs = us;
		} else {
			w->bad = true;
			break;
		}
		if (n - pos < hdr + cs) { w->truncated = true; break; }
		if (s != NULL) {
			st_printf(s, "%sc%u.%zu.%zu.", first ? "" : ",", (unsigned)c, us, cs);
			if (props) st_printf(s, "%u", (unsigned)p[pos + 5]); else st_printf(s, "-");
		}
		first = false;
		pos += hdr + cs;
		w->usize += us;
		w->nchunks++;
	}
	w->pos = pos;
}

// ---- .xz framing -----------------------------------------------------------------------------------------
static bool vli_get(const uint8_t *p, size_t n, size_t *pos, uint64_t *v)
{
	*v = 0;
	for (unsigned i = 0; i < 9; ++i) {
		if (*pos >= n) return false;
		const uint8_t b = p[(*pos)++];
		*v |= (uint64_t)(b & 0x7F) << (7 * i);
		if (!(b & 0x80))
			return !(b == 0 && i > 0);
	}
	return false;
}

void xz_walk_free(xz_walk_t *x) { free(x->blocks); x->blocks = NULL; }

void xz_walk(const uint8_t *p, size_t n, xz_walk_t *x, str_t *s)
{
	memset(x, 0, sizeof(*x));
	static const uint8_t magic[6] = {0xFD, '7', 'z', 'X', 'Z', 0x00};
	if (n < 12) {
		// a proper prefix of the Stream Header
		x->header_ok = false;
		x->why = "short-header";
		st_printf(s, "h%zu", n);
		return;
	}
	if (memcmp(p, magic, 6) != 0 || p[6] != 0 || (p[7] & 0xF0) != 0
			|| lzma_crc32(p + 6, 2, 0) != ((uint32_t)p[8] | (uint32_t)p[9] << 8 | (uint32_t)p[10] << 16 | (uint32_t)p[11] << 24)) {
		x->bad = true;
		x->why = "stream-header";
		st_printf(s, "BADHDR");
		return;
	}
	x->header_ok = true;
	x->check = p[7] & 0x0F;
	const unsigned csz = c12_check_size(x->check);
	st_printf(s, "H%u", x->check);
	size_t pos = 12;
	x->end_of_blocks = pos;
	size_t cap = 0;
	while (pos < n) {
		if (p[pos] == 0x00) { x->index_seen = true; break; }
		if (x->nblocks + 1 >= cap) {
			cap = cap ? cap * 2 : 8;
			x->blocks = realloc(x->blocks, cap * sizeof(xz_block_t));
			if (x->blocks == NULL) abort();
		}
		xz_block_t *b = &x->blocks[x->nblocks];
		memset(b, 0, sizeof(*b));
		b->hsize = ((uint64_t)p[pos] + 1) * 4;
		x->has_partial = true;
		if (n - pos < b->hsize) { st_printf(s, "|T:hdr%zu", n - pos); break; }
		x->partial_header_complete = true;
		const uint8_t *h = p + pos;
		const size_t hs = (size_t)b->hsize;
		const uint32_t crc = (uint32_t)h[hs - 4] | (uint32_t)h[hs - 3] << 8 | (uint32_t)h[hs - 2] << 16 | (uint32_t)h[hs - 1] << 24;
		if (lzma_crc32(h, hs - 4, 0) != crc || (h[1] & 0x3C)) { x->bad = true; x->why = "block-header-crc"; break; }
		size_t hp = 2;
		uint64_t v;
		st_printf(s, "|B;h=%zu", hs);
		if (h[1] & 0x40) { if (!vli_get(h, hs - 4, &hp, &v)) { x->bad = true; x->why = "block-header-vli"; break; } st_printf(s, ";cs=%" PRIu64, v); }
		else st_printf(s, ";cs=-");
		if (h[1] & 0x80) { if (!vli_get(h, hs - 4, &hp, &v)) { x->bad = true; x->why = "block-header-vli"; break; } st_printf(s, ";us=%" PRIu64, v); }
		else st_printf(s, ";us=-");
		st_printf(s, ";f=");
		const unsigned nf = (h[1] & 3) + 1;
		bool fbad = false;
		str_t fl = {0};
		for (unsigned i = 0; i < nf; ++i) {
			uint64_t id, psz;
			if (!vli_get(h, hs - 4, &hp, &id) || !vli_get(h, hs - 4, &hp, &psz) || psz > hs - 4 - hp) { fbad = true; break; }
			st_printf(&fl, "%s%" PRIu64 ":", i ? "/" : "", id);
			if (psz == 0) st_printf(&fl, "-");
			for (uint64_t k = 0; k < psz; ++k) st_printf(&fl, "%02x", h[hp + k]);
			hp += (size_t)psz;
		}
		if (fl.p != NULL) {
			st_printf(s, "%s", fl.p);
			snprintf(b->filters, sizeof(b->filters), "%s", fl.p);
		}
		st_free(&fl);
		if (fbad) { x->bad = true; x->why = "block-header-filters"; break; }
		for (; hp < hs - 4; ++hp) if (h[hp] != 0) { fbad = true; }
		if (fbad) { x->bad = true; x->why = "block-header-padding"; break; }
		// chunks
		st_printf(s, ";k=");
		lzma2_walk(p + pos + hs, n - pos - hs, &b->w, s);
		b->usize = b->w.usize;
		if (b->w.bad) { x->bad = true; x->why = "lzma2-control"; break; }
		if (!b->w.end_marker) {
			st_printf(s, ";T:%s%zu", b->w.at_boundary ? "boundary" : "midchunk", n - pos - hs - b->w.pos);
			break;
		}
		b->csize = b->w.pos;
		const uint64_t pad = (4 - (b->csize & 3)) & 3;
		b->total = b->hsize + b->csize + pad + csz;
		if (n - pos < b->total) { st_printf(s, ";T:tail%zu", n - pos - hs - b->w.pos); break; }
		for (uint64_t k = 0; k < pad; ++k)
			if (p[pos + hs + b->csize + k] != 0) { x->bad = true; x->why = "block-padding"; }
		if (x->bad) break;
		st_printf(s, ";e=1;u=%" PRIu64 ";c=%" PRIu64, b->usize, b->csize);
		b->complete = true;
		x->has_partial = false;
		x->partial_header_complete = false;
		x->nblocks++;
		pos += (size_t)b->total;
		x->end_of_blocks = pos;
	}
	if (x->bad)
		st_printf(s, "|BAD:%s", x->why);
}
