// Stage G probe for C12 (part 3): runs the real fill_window() of lz_encoder.c for every action.
#include "lz_encoder.c"
#include <stdio.h>

static uint32_t skipped;
static void stub_skip(lzma_mf *mf, uint32_t amount) { skipped += amount; mf->read_pos += amount; }

void gen_lz(void)
{
	printf("/-- fill_window() with no next filter, an empty window (keep_size_after = 4), 10 bytes of input of which `take`\n"
	       "    fit: (action, take, return value, mf.action afterwards, read_limit, write_pos). -/\n");
	printf("def fillWindow : List (Nat × Nat × Nat × Nat × Nat × Nat) := [");
	int first = 1;
	for (unsigned a = 0; a <= LZMA_ACTION_MAX; ++a)
	for (unsigned take = 10; take >= 7; take -= 3) {
		static lzma_coder c;
		memset(&c, 0, sizeof(c));
		c.next = LZMA_NEXT_CODER_INIT;
		c.mf.size = take;                      // room for `take` bytes only
		c.mf.buffer = calloc(1, 64 + LZMA_MEMCMPLEN_EXTRA);
		c.mf.keep_size_after = 4;
		c.mf.keep_size_before = 0;
		c.mf.action = LZMA_RUN;
		c.mf.skip = &stub_skip;
		const uint8_t in[10] = {1, 2, 3, 4, 5, 6, 7, 8, 9, 10};
		size_t in_pos = 0;
		const lzma_ret r = fill_window(&c, NULL, in, &in_pos, 10, (lzma_action)a);
		printf("%s\n  (%u, %u, %u, %u, %u, %u)", first ? "" : ",", a, take, (unsigned)r, (unsigned)c.mf.action,
				(unsigned)c.mf.read_limit, (unsigned)c.mf.write_pos);
		first = 0;
		free(c.mf.buffer);
	}
	printf("]\n\n");

	printf("/-- the `pending` replay of fill_window(): read_pos = 5 of which pending = 3, flush of 4 more bytes:\n"
	       "    (pending afterwards, bytes handed to mf->skip, read_pos afterwards). -/\n");
	{
		static lzma_coder c;
		memset(&c, 0, sizeof(c));
		c.next = LZMA_NEXT_CODER_INIT;
		c.mf.size = 64;
		c.mf.buffer = calloc(1, 64 + LZMA_MEMCMPLEN_EXTRA);
		c.mf.keep_size_after = 4;
		c.mf.read_pos = 5; c.mf.write_pos = 5; c.mf.read_limit = 5; c.mf.pending = 3;
		c.mf.skip = &stub_skip;
		skipped = 0;
		const uint8_t in[4] = {1, 2, 3, 4};
		size_t in_pos = 0;
		(void)fill_window(&c, NULL, in, &in_pos, 4, LZMA_SYNC_FLUSH);
		printf("def fillWindowPending : Nat × Nat × Nat := (%u, %u, %u)\n\n", (unsigned)c.mf.pending, (unsigned)skipped, (unsigned)c.mf.read_pos);
		free(c.mf.buffer);
	}
}
