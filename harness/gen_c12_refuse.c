// Stage G probe for C12 (part 4): which coders turn LZMA_SYNC_FLUSH down. Runs the real simple_code().
#include "simple_coder.c"
#include <stdio.h>

static size_t all_filtered(void *simple, uint32_t now_pos, bool is_encoder, uint8_t *buffer, size_t size)
{
	(void)simple; (void)now_pos; (void)is_encoder; (void)buffer;
	return size;
}

void gen_simple(void)
{
	printf("/-- simple_code() (BCJ encoder, last in the chain, nothing buffered) with 3 bytes of input: (action, return value, input bytes consumed). -/\n");
	printf("def simpleCode : List (Nat × Nat × Nat) := [");
	static const lzma_action acts[3] = {LZMA_RUN, LZMA_SYNC_FLUSH, LZMA_FINISH};
	for (unsigned ai = 0; ai < 3; ++ai) {
		lzma_simple_coder *c = calloc(1, sizeof(lzma_simple_coder) + 32);
		c->next = LZMA_NEXT_CODER_INIT;
		c->is_encoder = true;
		c->filter = &all_filtered;
		c->allocated = 32;
		const uint8_t in[3] = {1, 2, 3};
		uint8_t out[64];
		size_t in_pos = 0, out_pos = 0;
		const lzma_ret r = simple_code(c, NULL, in, &in_pos, 3, out, &out_pos, sizeof(out), acts[ai]);
		printf("%s(%u, %u, %zu)", ai ? ", " : "", (unsigned)acts[ai], (unsigned)r, in_pos);
		free(c);
	}
	printf("]\n\n");
}
