// Shared declarations of the C15 harness (BCJ + delta filters).
#ifndef VERIF_C15_H
#define VERIF_C15_H
#include "common.h"

#define H15_NFILTERS 8
extern const char *const h15_names[H15_NFILTERS];
extern const lzma_vli h15_ids[H15_NFILTERS];

size_t h15_code(int fid, bool enc, uint32_t now_pos, uint32_t *mask, uint32_t *ppos, uint8_t *buf, size_t size);
bool h15_oneshot(int fid, bool enc, uint32_t start, uint8_t *buf, size_t size, size_t *ret);
lzma_ret h15_simple_init(int fid, bool enc, lzma_next_coder *next, const lzma_filter_info *filters);
size_t h15_allocated(const lzma_next_coder *next);

// delta: the static loops of delta_encoder.c / delta_decoder.c on a caller-provided state
typedef struct { size_t distance; uint8_t pos; uint8_t history[256]; } h15_delta_state;
void h15_delta_copy_and_encode(h15_delta_state *s, const uint8_t *in, uint8_t *out, size_t size);
void h15_delta_encode_in_place(h15_delta_state *s, uint8_t *buf, size_t size);
void h15_delta_decode_buffer(h15_delta_state *s, uint8_t *buf, size_t size);
lzma_ret h15_delta_init(bool enc, lzma_next_coder *next, const lzma_filter_info *filters);

#endif
