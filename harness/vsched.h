// vsched.h -- controlled thread scheduler for the liblzma MT coders (shared by C07 decoder and C08 encoder).
//
// ============================================================================================
// INTERFACE (read this; the implementation is vsched.c; named vsched.* so that it never shadows the system <sched.h>)
// ============================================================================================
//
// WHAT IT DOES
//   liblzma reaches pthreads only through the static-inline wrappers of src/common/mythread.h:
//     pthread_mutex_init/destroy/lock/unlock, pthread_cond_init/destroy/wait/timedwait/signal,
//     pthread_create/join   (+ pthread_sigmask, pthread_condattr_*, clock_gettime: left alone).
//   vsched.c provides `__wrap_<sym>` for each of these (and trylock/broadcast for completeness). The harness is
//   linked with `-Wl,--wrap=<sym>` for every symbol in SCHED_WRAPPED (see tools/schedlib.py: WRAP_LDFLAGS), so every
//   reference from liblzma.a and from the harness objects is routed through the scheduler; libc's, ASan's and
//   TSan's own internal uses are NOT affected, and `__real_<sym>` still reaches the sanitizer's interceptor.
//
//   In a CONTROLLED run (between sched_begin and sched_end) the threads are serialised: exactly one logical
//   thread runs at any time (a baton passed through per-thread semaphores). At every synchronisation operation
//   (a "scheduling point": before lock, after unlock, before signal/broadcast, at wait/timedwait, at create,
//   at join, at thread exit, and at explicit sched_point() calls of the harness) the scheduler decides from a
//   seeded PRNG which enabled thread runs next. Mutexes and condition variables are MODELLED by the scheduler
//   (owner / waiter sets); the real pthread mutex is additionally locked/unlocked (always uncontended) so that
//   its state stays consistent for pthread_mutex_destroy; real condition variables are never waited on.
//   Assumed pthread semantics = DESIGN.md section 3: mutual exclusion, wait releases atomically, a signal wakes
//   at least one waiter if there is one (the scheduler picks WHICH one from the PRNG), spurious wake-ups allowed,
//   a timed wait may expire at any time.
//
//   Outside a controlled run, or for a thread the scheduler did not create (logical id -1), or in mode
//   SCHED_REAL, every wrapper forwards to the real function (optionally with a seeded random jitter:
//   sched_yield()/short nanosleep before the call, to help TSan see more interleavings).
//
// SCHEDULING STRATEGIES (cfg.mode)
//   SCHED_REAL      pass-through (OS scheduling). Used by the TSan variant. Deadlock detection is then only the
//                   caller's wall-clock timeout.
//   SCHED_RANDOM    uniform random choice among the enabled threads at every scheduling point; with probability
//                   cfg.sticky/256 the current thread simply continues if it is still enabled.
//   SCHED_PCT       PCT (Burckhardt et al.): random distinct initial priorities, always run the enabled thread with
//                   the highest priority; cfg.pct_depth-1 priority-change points at random steps in
//                   [1, cfg.pct_steps] at which the running thread drops to the lowest priority.
//   SCHED_NOPREEMPT run the current thread until it blocks, then pick at random (baseline / fast).
//   In all controlled modes: at each scheduling point every timed waiter expires with probability
//   cfg.p_timeout/256 (forced time-out, result ETIMEDOUT) and every untimed waiter gets a spurious wake-up with
//   probability cfg.p_spurious/256. If no thread is enabled and some thread is in a timed wait, one of them
//   expires (time passes). If no thread is enabled and none is in a timed wait: DEADLOCK.
//
// VERDICTS (the process exits; nothing can be resumed after these)
//   exit code SCHED_EXIT_DEADLOCK (86): all threads blocked. stderr gets one line
//       `SCHED-DEADLOCK seed=<s> mode=<m> step=<n> ...` followed by the state of each thread (what it is blocked on,
//       which mutexes it holds) and the last 64 scheduling decisions.
//   exit code SCHED_EXIT_BUDGET (87): more than cfg.max_steps scheduling points (livelock / unbounded waiting).
//   exit code SCHED_EXIT_MISUSE (88): unlock of a mutex not owned, destroy of a locked mutex or of a condvar with
//       waiters, use of a destroyed/never initialised object, wait with a mutex not owned, relock by owner,
//       sched_end with live threads.
//   The full schedule is appended to the file cfg.log_path (if set) as text lines `step tid op obj [-> next]`
//   (logical ids only: threads are numbered in creation order, thread 0 = the caller of sched_begin; mutexes
//   m<k> and condvars c<k> in order of initialisation/first use), so (seed, cfg, program input) is a complete
//   REPLAY: the run is deterministic given these.
//
// ENVIRONMENT (read by sched_config_from_env; the harness may override fields afterwards)
//   SCHED_MODE=real|random|pct|nopreempt   (default random)
//   SCHED_SEED=<u64>            (default 1)
//   SCHED_STICKY=<0..255>       (default 0)
//   SCHED_PCT_DEPTH=<n>         (default 3)      SCHED_PCT_STEPS=<n> (default 2000)
//   SCHED_P_TIMEOUT=<0..256>    (default 32)     SCHED_P_SPURIOUS=<0..256> (default 4)
//   SCHED_MAX_STEPS=<n>         (default 5000000)
//   SCHED_JITTER=<0..255>       (real mode only: probability/256 of a yield/sleep before each operation; default 0)
//   SCHED_LOG=<path>            (schedule log; default none)
//
// TYPICAL USE IN A HARNESS
//     sched_config cfg; sched_config_from_env(&cfg); cfg.seed = seed_of_this_case; cfg.mode = ...;
//     sched_begin(&cfg);                 // calling thread becomes logical thread 0
//     ... lzma_stream_decoder_mt(...); lzma_code(...) ...; lzma_end(...)      // every worker must be joined
//     sched_stats st; sched_end(&st);    // st.steps, st.threads, st.trace_hash, st.timeouts, st.spurious, ...
//   Several controlled runs per process are fine (all tables are reset by sched_begin).
//   Build: vlib.harness_build(name, [..., "vsched.c"], variant, libs=schedlib.WRAP_LDFLAGS)
//
// OBSERVER CALLBACK
//   sched_set_observer(fn, ctx): fn(ctx, step, tid, op, obj_id) is called (by the running thread, while it holds
//   the baton) at every scheduling point; used by harnesses to interleave their own protocol events with the schedule.
//
// ============================================================================================
#ifndef VERIF_VSCHED_H
#define VERIF_VSCHED_H
#include <stdint.h>
#include <stddef.h>

#define SCHED_EXIT_DEADLOCK 86
#define SCHED_EXIT_BUDGET   87
#define SCHED_EXIT_MISUSE   88

// Symbols that must be passed to the linker as -Wl,--wrap=<sym> (tools/schedlib.py mirrors this list).
#define SCHED_WRAPPED \
	"pthread_mutex_init pthread_mutex_destroy pthread_mutex_lock pthread_mutex_trylock pthread_mutex_unlock " \
	"pthread_cond_init pthread_cond_destroy pthread_cond_wait pthread_cond_timedwait pthread_cond_signal " \
	"pthread_cond_broadcast pthread_create pthread_join"

typedef enum { SCHED_REAL = 0, SCHED_RANDOM = 1, SCHED_PCT = 2, SCHED_NOPREEMPT = 3 } sched_mode;

typedef enum {
	SOP_LOCK = 0, SOP_UNLOCK, SOP_TRYLOCK, SOP_WAIT, SOP_TIMEDWAIT, SOP_SIGNAL, SOP_BROADCAST,
	SOP_CREATE, SOP_JOIN, SOP_EXIT, SOP_POINT, SOP_WAKE, SOP_TIMEOUT, SOP_SPURIOUS, SOP_START,
	SOP_MINIT, SOP_MDESTROY, SOP_CINIT, SOP_CDESTROY
} sched_op;

typedef struct {
	sched_mode mode;
	uint64_t seed;
	unsigned sticky;        // 0..255
	unsigned pct_depth;     // >= 1
	uint64_t pct_steps;     // estimated number of scheduling points of the run
	unsigned p_timeout;     // 0..256
	unsigned p_spurious;    // 0..256
	uint64_t max_steps;
	unsigned jitter;        // real mode only
	const char *log_path;   // NULL = no schedule log
} sched_config;

typedef struct {
	uint64_t steps;          // scheduling points taken
	uint64_t switches;       // points at which another thread was chosen
	uint64_t trace_hash;     // FNV-1a over (tid, op, obj) of every scheduling point: identifies the interleaving
	unsigned threads;        // logical threads created (incl. thread 0)
	unsigned max_live;       // maximum number of simultaneously live threads
	uint64_t timeouts;       // forced/natural expiries of timed waits
	uint64_t spurious;       // injected spurious wake-ups
	uint64_t waits;          // cond waits entered (timed + untimed)
	uint64_t signals_lost;   // signals/broadcasts that found no waiter (normal; reported for evidence)
	uint64_t contended;      // lock operations that found the mutex owned
} sched_stats;

void sched_config_from_env(sched_config *cfg);
void sched_begin(const sched_config *cfg);
void sched_end(sched_stats *out);            // out may be NULL
int  sched_self(void);                       // logical thread id, -1 if unmanaged / not in a controlled run
int  sched_active(void);                     // 1 inside a controlled run (mode != SCHED_REAL)
uint64_t sched_steps(void);
void sched_point(const char *label);         // explicit scheduling point (harness code)
void sched_note(const char *fmt, ...);       // free-form line into the schedule log (no scheduling point)
const char *sched_mode_name(sched_mode m);
const char *sched_op_name(sched_op op);

typedef void (*sched_observer)(void *ctx, uint64_t step, int tid, sched_op op, int obj);
void sched_set_observer(sched_observer fn, void *ctx);

#endif
