// Stage G probe for C15: prints lean/XzVerif/Gen/C15.lean by RUNNING the real code of the tree under test
// (linked with c15_codes.c / c15_delta.c which #include simple/*.c and delta/*.c):
//   * per filter: the alignment enforced by lzma_simple_coder_init and the buffer size it allocated (2 * unfiltered_max)
//   * delta: LZMA_DELTA_DIST_MIN / MAX and which distances the init function accepts
//   * IA-64: which slots are converted for each of the 32 templates (the BRANCH_TABLE, observed through ia64_code)
//   * x86: for which prev_mask values a candidate is converted, and which operand byte the inner loop inspects
//     (MASK_TO_BIT_NUMBER, observed through x86_code)
//   * ARM, ARM64, PowerPC, SPARC, ARM-Thumb: the per-word transform on a grid of instruction words and program counters
// The bridge theorems `gen_*` in Props/C15.lean state that these tables are what the model computes.
#include "c15.h"
#include <stdio.h>
#include <inttypes.h>

static lzma_ret pt_init(lzma_next_coder *next, const lzma_allocator *allocator, const lzma_filter_info *filters)
{
	(void)next; (void)allocator; (void)filters;
	return LZMA_OK;
}

static lzma_ret try_init(int fid, bool enc, uint32_t start, size_t *allocated)
{
	lzma_next_coder next = LZMA_NEXT_CODER_INIT;
	lzma_options_bcj opt = { .start_offset = start };
	lzma_filter_info f[2] = { { .id = h15_ids[fid], .init = NULL, .options = &opt }, { .id = LZMA_VLI_UNKNOWN, .init = NULL, .options = NULL } };
	const lzma_ret r = h15_simple_init(fid, enc, &next, f);
	if (allocated != NULL && next.coder != NULL)
		*allocated = h15_allocated(&next);
	next.init = (uintptr_t)&pt_init;
	lzma_next_end(&next, NULL);
	return r;
}

static uint32_t rd32le(const uint8_t *p) { return p[0] | ((uint32_t)p[1] << 8) | ((uint32_t)p[2] << 16) | ((uint32_t)p[3] << 24); }
static void wr32le(uint8_t *p, uint32_t v) { p[0] = (uint8_t)v; p[1] = (uint8_t)(v >> 8); p[2] = (uint8_t)(v >> 16); p[3] = (uint8_t)(v >> 24); }

// one word through a 4-byte filter
static uint32_t word(int fid, bool enc, uint32_t pc, uint32_t w)
{
	uint8_t b[4];
	uint32_t m = 0, p = 0;
	wr32le(b, w);
	h15_code(fid, enc, pc, &m, &p, b, 4);
	return rd32le(b);
}

static void grid(const char *name, int fid, const uint32_t *words, int nw, const uint32_t *pcs, int np)
{
	printf("/-- (pc, word, encoded, decoded) — little-endian value of the 4 buffer bytes -/\n");
	printf("def %sGrid : List (Nat × Nat × Nat × Nat) := [\n", name);
	for (int i = 0; i < np; ++i)
		for (int j = 0; j < nw; ++j)
			printf("  (%" PRIu32 ", %" PRIu32 ", %" PRIu32 ", %" PRIu32 ")%s\n", pcs[i], words[j],
					word(fid, true, pcs[i], words[j]), word(fid, false, pcs[i], words[j]),
					(i == np - 1 && j == nw - 1) ? "]" : ",");
	printf("\n");
}

int main(void)
{
	printf("/- REGENERATED on every check by harness/gen_c15.c from the tree under test (by running its code). Do not edit. -/\n");
	printf("namespace XzVerif.Gen.C15\n\n");

	printf("/-- per filter (x86 powerpc ia64 arm armthumb sparc arm64 riscv): (alignment of start_offset, allocated = 2 * unfiltered_max),\n"
			"    the same for encoder and decoder -/\n");
	printf("def filterParams : List (Nat × Nat × Nat × Nat) := [");
	for (int fid = 0; fid < H15_NFILTERS; ++fid) {
		unsigned al[2] = {0, 0};
		size_t allocated[2] = {0, 0};
		for (int enc = 0; enc < 2; ++enc) {
			for (unsigned a = 1; a <= 64; a *= 2)
				if (try_init(fid, enc, a, NULL) == LZMA_OK) { al[enc] = a; break; }
			try_init(fid, enc, 0, &allocated[enc]);
		}
		printf("%s(%u, %zu, %u, %zu)", fid ? ", " : "", al[1], allocated[1], al[0], allocated[0]);
	}
	printf("]\n\n");

	printf("def deltaDistMin : Nat := %u\ndef deltaDistMax : Nat := %u\n", (unsigned)LZMA_DELTA_DIST_MIN, (unsigned)LZMA_DELTA_DIST_MAX);
	printf("/-- distances 0..260 accepted by lzma_delta_coder_init (encoder and decoder agree) -/\n");
	printf("def deltaAccepted : List Nat := [");
	{
		bool first = true;
		for (unsigned d = 0; d <= 260; ++d) {
			bool ok[2];
			for (int enc = 0; enc < 2; ++enc) {
				lzma_next_coder next = LZMA_NEXT_CODER_INIT;
				lzma_options_delta opt = { .type = LZMA_DELTA_TYPE_BYTE, .dist = d };
				lzma_filter_info f[2] = { { .id = LZMA_FILTER_DELTA, .init = NULL, .options = &opt }, { .id = LZMA_VLI_UNKNOWN, .init = NULL, .options = NULL } };
				ok[enc] = h15_delta_init(enc, &next, f) == LZMA_OK;
				next.init = (uintptr_t)&pt_init;
				lzma_next_end(&next, NULL);
			}
			if (ok[0] != ok[1]) { fprintf(stderr, "delta encoder/decoder disagree on distance %u\n", d); return 1; }
			if (ok[0]) { printf("%s%u", first ? "" : ", ", d); first = false; }
		}
	}
	printf("]\n\n");

	// IA-64: all three slots carry a branch (opcode 5, btype 0) with different immediates; see which ones move.
	printf("/-- slot mask per template 0..31 (bit s set = slot s is converted) -/\n");
	printf("def ia64Masks : List Nat := [");
	for (unsigned t = 0; t < 32; ++t) {
		unsigned __int128 v = t;
		for (int s = 0; s < 3; ++s) {
			const uint64_t slot = ((uint64_t)5 << 37) | ((uint64_t)(0x111 * (s + 1)) << 13);
			v |= (unsigned __int128)slot << (5 + 41 * s);
		}
		uint8_t b[16], o[16];
		for (int i = 0; i < 16; ++i) b[i] = o[i] = (uint8_t)(v >> (8 * i));
		uint32_t m = 0, p = 0;
		h15_code(2, true, 0x12340, &m, &p, b, 16);
		unsigned __int128 w = 0;
		for (int i = 15; i >= 0; --i) w = (w << 8) | b[i];
		unsigned mask = 0;
		for (int s = 0; s < 3; ++s) {
			const uint64_t a = (uint64_t)(v >> (5 + 41 * s)) & ((1ULL << 41) - 1), c = (uint64_t)(w >> (5 + 41 * s)) & ((1ULL << 41) - 1);
			if (a != c) mask |= 1u << s;
		}
		printf("%s%u", t ? ", " : "", mask);
	}
	printf("]\n\n");

	// x86: candidate E8 11 22 33 00 with prev_pos == now_pos (offset 0, no shift): converted or not, for prev_mask 0, 2..255.
	// (prev_mask == 1 is not probed: MASK_TO_BIT_NUMBER[0] makes the C code shift by 32.)
	printf("/-- (prev_mask, converted?) for a candidate whose byte 4 is 00, no shift applied -/\n");
	printf("def x86Convertible : List (Nat × Bool) := [");
	for (unsigned m0 = 0; m0 < 256; ++m0) {
		if (m0 == 1) continue;
		uint8_t b[5] = { 0xE8, 0x11, 0x22, 0x33, 0x00 };
		uint32_t m = m0, p = 0x1000;
		const size_t r = h15_code(0, true, 0x1000, &m, &p, b, 5);
		printf("%s(%u, %s)", m0 ? ", " : "", m0, (r == 5 && b[1] != 0x11) ? "true" : "false");
	}
	printf("]\n\n");
	printf("/-- (prev_mask, k): the inner loop inspects operand byte k (1..3) of `dest` -/\n");
	printf("def x86Inspected : List (Nat × Nat) := [");
	{
		static const unsigned masks[] = { 2, 3, 4, 5, 8, 9 };
		// for k = 1,2,3: src (non-MS in byte k) and pc5 such that byte k of src + pc5 is 00 and the other low bytes are not 00/FF
		static const uint32_t src[4] = { 0, 0x003322EF, 0x0033EF11, 0x00EF2211 };
		static const uint32_t pc5[4] = { 0, 0x00000011, 0x00001100, 0x00110000 };
		bool first = true;
		for (unsigned i = 0; i < sizeof(masks) / sizeof(masks[0]); ++i) {
			int found = 0, count = 0;
			for (int k = 1; k <= 3; ++k) {
				uint8_t b[5] = { 0xE8, (uint8_t)src[k], (uint8_t)(src[k] >> 8), (uint8_t)(src[k] >> 16), (uint8_t)(src[k] >> 24) };
				uint32_t m = masks[i], p = pc5[k] - 5;
				h15_code(0, true, pc5[k] - 5, &m, &p, b, 5);
				const uint32_t plain = src[k] + pc5[k];
				if (b[1] != (uint8_t)plain || b[2] != (uint8_t)(plain >> 8) || b[3] != (uint8_t)(plain >> 16)) { found = k; ++count; }
			}
			if (count != 1) found = 0;
			printf("%s(%u, %d)", first ? "" : ", ", masks[i], found);
			first = false;
		}
	}
	printf("]\n\n");

	static const uint32_t pcs[] = { 0, 0x1000, 0xFFFFF000u, 0x7FFFFFF0u, 0x08000004u };
	{
		static const uint32_t w[] = { 0xEB000000u, 0xEBFFFFFFu, 0xEB000010u, 0xEB800000u, 0xEB7FFFFFu, 0xEA000010u, 0x12345678u, 0xEBEBEBEBu };
		grid("arm", 3, w, 8, pcs, 5);
	}
	{
		static const uint32_t w[] = { 0x94000000u, 0x97FFFFFFu, 0x94000001u, 0x96000000u, 0x95FFFFFFu, 0x90000000u, 0x9000001Fu,
				0xF0FFFFE0u, 0x90FFFFE0u, 0xB0000005u, 0x90400000u, 0x903FFFE0u, 0x90C00000u, 0x90BFFFE0u, 0x10000000u, 0x98000000u,
				0x90100000u, 0x901FFFE0u, 0x90E00000u, 0x90DFFFE0u, 0xF0200000u, 0xB0D00005u };
		grid("arm64", 6, w, 22, pcs, 5);
	}
	{
		// little-endian value of the buffer bytes: byte 0 (0x48..0x4B) is the low byte
		static const uint32_t w[] = { 0x01000048u, 0xFDFFFF4Bu, 0x01000049u, 0x0100004Au, 0x03000048u, 0x00000048u, 0x0100004Cu, 0x55443348u };
		grid("powerpc", 1, w, 8, pcs, 5);
	}
	{
		static const uint32_t w[] = { 0x00000040u, 0xFFFF3F40u, 0x0000C07Fu, 0xFFFFFF7Fu, 0x00004040u, 0x0000807Fu, 0x11223340u, 0x1122C17Fu };
		grid("sparc", 5, w, 8, pcs, 5);
	}
	{
		// ARM-Thumb: bytes b0 b1 b2 b3 = low..high; class: (b1 & F8) == F0 && (b3 & F8) == F8
		static const uint32_t w[] = { 0xF800F000u, 0xFFFFF7FFu, 0xF801F000u, 0xFC00F400u, 0xF000F800u, 0xF800E800u, 0xFB21F543u, 0xF8FFF000u };
		grid("armthumb", 4, w, 8, pcs, 5);
	}
	printf("end XzVerif.Gen.C15\n");
	return 0;
}
