// C15 harness main: line protocol (the model driver lean/Driver/C15.lean answers the same ops)
//   code <fid> <enc> <now_pos> <prev_mask> <prev_pos> <hex>        -> "<processed> <prev_mask> <prev_pos> <hex>"
//   codeseq <fid> <enc> <now_pos> <hex> <len,len,...|->            -> "<p:mask:pos>,... <hex>"
//   oneshot <fid> <enc> <start_offset> <hex>                       -> "<processed> <hex>" | "none"
//   stream <fid> <enc> <next> <start_offset> <hex> <in:out:act,..> -> "init=<ret> calls=<ret:consumed:produced>,... out=<hex>"
//   delta <enc> <dist> <hex> <len,len,...|->                       -> "<hex>"
//   dstream <enc> <next> <dist> <hex> <in:out:act,...>             -> like stream
//   deltax <enc> <dist> <hex>                                      -> "<hex>"
// Handle reuse (the model answers them exactly like the fresh-handle ops: its init never depends on earlier use):
//   rstream / rdstream ...                         -> like stream / dstream, but on ONE persistent next-coder object that is re-initialised
//                                                     in place (no end) when the previous case used the same init function
//   chain <reuse> <fid|delta> <enc> <param> <hex>  -> public API: lzma_raw_encoder / lzma_raw_decoder with {filter, LZMA2}; reuse=1 uses a
//                                                     persistent lzma_stream that is never lzma_end()ed between cases. enc=1 prints the bytes
//                                                     after the filter (LZMA2 layer undone by a fresh decoder); enc=0 filters <hex> backwards.
//                                                     "init=0 out=<hex>" | "init=<ret>"
//   mblock <reuse> <fid|delta> <param> <hex> <cut,..> -> lzma_stream_encoder, LZMA_FULL_FLUSH at every cut (one Block per piece), LZMA_FINISH;
//                                                     "rt=<1|0> blocks=<filtered bytes of block 1>,<block 2>,..." (fresh stream decoder for rt)
//   params                                         -> "<8 sizes> <8 sizes>": lzma_simple_coder buffer size per filter, encoder / decoder
//   dirty <fid|delta> <enc> <param> <hex>          -> leaves both persistent objects in the middle of a stream over <hex>; prints "ok"
// C only (property oracles evaluated on the implementation itself):
//   rt <fid> <next> <start_offset> <seed> <hex>    -> "1" iff sliced encode == single-call encode, and sliced decode of it == input
//   drt <next> <dist> <seed> <hex>                 -> same for delta
//   xzfile <hex of a .xz file with one block>      -> "<ret of full decode> <id:param,...> <bytes after LZMA2 only> <fully decoded bytes>"
#include "c15.h"
#include "hproto.h"

// ---- the pass-through "next coder": copies; LZMA_STREAM_END once LZMA_FINISH was given and all input is consumed ----
static lzma_ret pt_code(void *coder, const lzma_allocator *allocator, const uint8_t *restrict in, size_t *restrict in_pos,
		size_t in_size, uint8_t *restrict out, size_t *restrict out_pos, size_t out_size, lzma_action action)
{
	(void)coder; (void)allocator;
	lzma_bufcpy(in, in_pos, in_size, out, out_pos, out_size);
	return action == LZMA_FINISH && *in_pos == in_size ? LZMA_STREAM_END : LZMA_OK;
}

static lzma_ret pt_init(lzma_next_coder *next, const lzma_allocator *allocator, const lzma_filter_info *filters)
{
	(void)allocator; (void)filters;
	next->code = &pt_code;
	return LZMA_OK;
}

static int fid_of(const char *s)
{
	for (int i = 0; i < H15_NFILTERS; ++i)
		if (!strcmp(s, h15_names[i]))
			return i;
	return -1;
}

// ---- a coder under test: fid >= 0: BCJ via simple_coder.c; fid == -1: delta ----
typedef struct {
	lzma_next_coder next;
	lzma_options_bcj bcj;
	lzma_options_delta delta;
	lzma_filter_info f[2];
} coder_t;

static lzma_ret coder_setup(coder_t *c, int fid, bool enc, int nextmode, uint32_t param, bool fresh)
{
	if (fresh) {
		memset(c, 0, sizeof(*c));
		c->next = (lzma_next_coder)LZMA_NEXT_CODER_INIT;
	}
	c->f[1].id = LZMA_VLI_UNKNOWN;
	c->f[1].init = nextmode ? &pt_init : NULL;
	c->f[1].options = NULL;
	lzma_ret r;
	if (fid >= 0) {
		c->bcj.start_offset = param;
		c->f[0].id = h15_ids[fid];
		c->f[0].options = &c->bcj;
		r = h15_simple_init(fid, enc, &c->next, c->f);
	} else {
		c->delta.type = LZMA_DELTA_TYPE_BYTE;
		c->delta.dist = param;
		c->f[0].id = LZMA_FILTER_DELTA;
		c->f[0].options = &c->delta;
		r = h15_delta_init(enc, &c->next, c->f);
	}
	// lzma_next_end() only acts when next.init is set; we called the init function directly.
	c->next.init = (uintptr_t)&pt_init;
	return r;
}

static lzma_ret coder_init(coder_t *c, int fid, bool enc, int nextmode, uint32_t param)
{
	return coder_setup(c, fid, enc, nextmode, param, true);
}

static void coder_end(coder_t *c) { lzma_next_end(&c->next, NULL); }

// One call with exactly sized buffers (ASan sees any overrun). Appends the produced bytes to *acc.
typedef struct { uint8_t *p; size_t n, cap; } bytes_t;

static void bytes_add(bytes_t *b, const uint8_t *p, size_t n)
{
	if (b->n + n > b->cap) {
		b->cap = (b->n + n) * 2 + 64;
		b->p = realloc(b->p, b->cap);
		if (b->p == NULL) abort();
	}
	if (n) memcpy(b->p + b->n, p, n);
	b->n += n;
}

static lzma_ret call_once(coder_t *c, const uint8_t *in, size_t in_len, size_t out_cap, lzma_action action,
		size_t *consumed, size_t *produced, bytes_t *acc)
{
	uint8_t *ibuf = malloc(in_len ? in_len : 1);
	uint8_t *obuf = malloc(out_cap ? out_cap : 1);
	if (!ibuf || !obuf) abort();
	if (in_len) memcpy(ibuf, in, in_len);
	size_t ip = 0, op = 0;
	const lzma_ret r = c->next.code(c->next.coder, NULL, ibuf, &ip, in_len, obuf, &op, out_cap, action);
	if (ip > in_len || op > out_cap) { fprintf(stderr, "position beyond buffer\n"); abort(); }
	*consumed = ip;
	*produced = op;
	bytes_add(acc, obuf, op);
	free(ibuf);
	free(obuf);
	return r;
}

// ---- persistent objects (handle reuse) ----
// One next-coder object: re-initialised in place when the same init function is used again (this is what lzma_next_coder_init()
// does inside liblzma: it ends the old coder only if the init function differs).
static coder_t g_coder;
static bool g_coder_live = false;
static int g_coder_key = -1;

static lzma_ret persistent_init(int fid, bool enc, int nextmode, uint32_t param)
{
	const int key = (fid + 1) * 2 + (enc ? 1 : 0);
	if (g_coder_live && g_coder_key != key) {
		coder_end(&g_coder);
		g_coder_live = false;
	}
	const lzma_ret r = coder_setup(&g_coder, fid, enc, nextmode, param, !g_coder_live);
	g_coder_live = true;
	g_coder_key = key;
	return r;
}

// One lzma_stream for the public API, never lzma_end()ed between cases.
static lzma_stream g_strm = LZMA_STREAM_INIT;

typedef struct { lzma_options_bcj bcj; lzma_options_delta delta; lzma_options_lzma lzma2; lzma_filter f[3]; } chain_t;

// name: a BCJ filter name or "delta"; with_filter = false gives the plain {LZMA2} chain
static bool chain_make(chain_t *ch, const char *name, uint32_t param, bool with_filter)
{
	memset(ch, 0, sizeof(*ch));
	if (lzma_lzma_preset(&ch->lzma2, 0)) abort();
	int n = 0;
	if (with_filter) {
		if (!strcmp(name, "delta")) {
			ch->delta.type = LZMA_DELTA_TYPE_BYTE;
			ch->delta.dist = param;
			ch->f[0].id = LZMA_FILTER_DELTA;
			ch->f[0].options = &ch->delta;
		} else {
			const int fid = fid_of(name);
			if (fid < 0) return false;
			ch->bcj.start_offset = param;
			ch->f[0].id = h15_ids[fid];
			ch->f[0].options = &ch->bcj;
		}
		n = 1;
	}
	ch->f[n].id = LZMA_FILTER_LZMA2;
	ch->f[n].options = &ch->lzma2;
	ch->f[n + 1].id = LZMA_VLI_UNKNOWN;
	return true;
}

// Runs an initialised lzma_stream over data: the first half with LZMA_RUN in small pieces, the rest with `last`. Output appended to acc.
static lzma_ret strm_run(lzma_stream *strm, const uint8_t *data, size_t n, lzma_action last, bytes_t *acc)
{
	uint8_t obuf[4096];
	size_t fed = 0;
	lzma_ret r = LZMA_OK;
	const size_t half = n / 2;
	for (int guard = 0; guard < 1000000; ++guard) {
		const bool second = fed >= half;
		const size_t piece = second ? n - fed : (half - fed < 97 ? half - fed : 97);
		strm->next_in = data + fed;
		strm->avail_in = piece;
		strm->next_out = obuf;
		strm->avail_out = sizeof(obuf);
		r = lzma_code(strm, second ? last : LZMA_RUN);
		fed += piece - strm->avail_in;
		bytes_add(acc, obuf, sizeof(obuf) - strm->avail_out);
		if (r != LZMA_OK) return r;
		if (second && last == LZMA_RUN && fed == n && strm->avail_out != 0) return LZMA_OK;
	}
	return LZMA_PROG_ERROR;
}

// filter direction `enc` over data through the public raw API; returns the init code, output in acc
static lzma_ret chain_run(bool reuse, const char *name, bool enc, uint32_t param, const uint8_t *data, size_t n, bytes_t *out, bool *ok)
{
	chain_t with, plain;
	*ok = false;
	if (!chain_make(&with, name, param, true) || !chain_make(&plain, name, 0, false)) return LZMA_PROG_ERROR;
	lzma_stream local = LZMA_STREAM_INIT, other = LZMA_STREAM_INIT;
	lzma_stream *strm = reuse ? &g_strm : &local;
	bytes_t mid = {0};
	lzma_ret ri;
	if (enc) {
		ri = lzma_raw_encoder(strm, with.f);
		if (ri == LZMA_OK && strm_run(strm, data, n, LZMA_FINISH, &mid) == LZMA_STREAM_END
				&& lzma_raw_decoder(&other, plain.f) == LZMA_OK
				&& strm_run(&other, mid.p, mid.n, LZMA_FINISH, out) == LZMA_STREAM_END)
			*ok = true;
	} else {
		ri = lzma_raw_decoder(strm, with.f);
		if (ri == LZMA_OK && lzma_raw_encoder(&other, plain.f) == LZMA_OK
				&& strm_run(&other, data, n, LZMA_FINISH, &mid) == LZMA_STREAM_END
				&& strm_run(strm, mid.p, mid.n, LZMA_FINISH, out) == LZMA_STREAM_END)
			*ok = true;
	}
	free(mid.p);
	lzma_end(&other);
	if (!reuse) lzma_end(&local);
	return ri;
}

// mblock: one Block per piece through lzma_stream_encoder; prints rt and the per-Block bytes after the filter.
static void mblock(bool reuse, const char *name, uint32_t param, const uint8_t *data, size_t n, const char *cuts)
{
	chain_t with;
	if (!chain_make(&with, name, param, true)) { printf("bad-op\n"); return; }
	lzma_stream local = LZMA_STREAM_INIT;
	lzma_stream *strm = reuse ? &g_strm : &local;
	bytes_t xz = {0};
	const lzma_ret ri = lzma_stream_encoder(strm, with.f, LZMA_CHECK_CRC32);
	if (ri != LZMA_OK) { printf("init=%d\n", (int)ri); if (!reuse) lzma_end(&local); return; }
	size_t start = 0;
	bool fail = false;
	for (const char *s = cuts; !fail;) {
		size_t end = n;
		bool last = true;
		if (*s && *s != '-') {
			char *e; const size_t v = (size_t)strtoull(s, &e, 10);
			s = *e == ',' ? e + 1 : e;
			if (v < n) { end = v < start ? start : v; last = false; }
		}
		uint8_t obuf[4096];
		strm->next_in = data + start;
		strm->avail_in = end - start;
		for (int guard = 0; guard < 1000000; ++guard) {
			strm->next_out = obuf;
			strm->avail_out = sizeof(obuf);
			const lzma_ret r = lzma_code(strm, last ? LZMA_FINISH : LZMA_FULL_FLUSH);
			bytes_add(&xz, obuf, sizeof(obuf) - strm->avail_out);
			if (r == LZMA_STREAM_END) break;
			if (r != LZMA_OK) { fail = true; break; }
		}
		start = end;
		if (last) break;
	}
	if (!reuse) lzma_end(&local);
	// round trip with a fresh decoder
	bool rt = false;
	if (!fail) {
		uint8_t *dec = malloc(n + 16);
		uint64_t memlimit = UINT64_MAX;
		size_t ip = 0, op = 0;
		if (lzma_stream_buffer_decode(&memlimit, 0, NULL, xz.p, &ip, xz.n, dec, &op, n + 16) == LZMA_OK && op == n && (n == 0 || !memcmp(dec, data, n)))
			rt = true;
		free(dec);
	}
	printf("rt=%d blocks=", rt ? 1 : 0);
	// walk the Blocks: undo only the LZMA2 layer of each
	size_t pos = 12;
	bool first = true;
	while (!fail && pos < xz.n && xz.p[pos] != 0x00) {
		lzma_filter filters[LZMA_FILTERS_MAX + 1];
		lzma_block block;
		memset(&block, 0, sizeof(block));
		block.version = 1;
		block.check = LZMA_CHECK_CRC32;
		block.filters = filters;
		block.header_size = lzma_block_header_size_decode(xz.p[pos]);
		if (pos + block.header_size > xz.n || lzma_block_header_decode(&block, NULL, xz.p + pos) != LZMA_OK) { printf("!bad-block-header"); break; }
		pos += block.header_size;
		int nf = 0;
		while (filters[nf].id != LZMA_VLI_UNKNOWN) ++nf;
		lzma_filter lastf[2] = { filters[nf - 1], { .id = LZMA_VLI_UNKNOWN } };
		lzma_stream d = LZMA_STREAM_INIT;
		bytes_t f = {0};
		uint8_t obuf[4096];
		bool okd = lzma_raw_decoder(&d, lastf) == LZMA_OK;
		d.next_in = xz.p + pos;
		d.avail_in = xz.n - pos;
		while (okd) {
			d.next_out = obuf;
			d.avail_out = sizeof(obuf);
			const lzma_ret r = lzma_code(&d, LZMA_RUN);
			bytes_add(&f, obuf, sizeof(obuf) - d.avail_out);
			if (r == LZMA_STREAM_END) break;
			if (r != LZMA_OK) okd = false;
		}
		const size_t used = (size_t)d.total_in;
		lzma_end(&d);
		lzma_filters_free(filters, NULL);
		if (!okd) { printf("!bad-block-data"); free(f.p); break; }
		printf("%s", first ? "" : ",");
		hp_put_hex(f.p, f.n);
		first = false;
		free(f.p);
		pos += used;
		pos = (pos + 3) & ~(size_t)3;
		pos += 4;       // CRC32 of the Block
	}
	if (first) printf("-");
	printf("\n");
	free(xz.p);
}

// Explicit slices, then up to `drain` draining calls (all remaining input, 4096 output, LZMA_FINISH) while there is progress.
// With `log`, prints "ret:consumed:produced," per call. Returns the last ret.
static lzma_ret run_slices(coder_t *c, const uint8_t *data, size_t n, const char *slices, int drain, bool log, bytes_t *acc)
{
	size_t cur = 0;
	lzma_ret r = LZMA_OK;
	bool first = true;
	const char *s = slices;
	while (s && *s && *s != '-') {
		unsigned long long a, b, act;
		int used = 0;
		if (sscanf(s, "%llu:%llu:%llu%n", &a, &b, &act, &used) != 3) { fprintf(stderr, "bad slice\n"); exit(3); }
		s += used;
		if (*s == ',') ++s;
		size_t avail = n - cur < a ? n - cur : (size_t)a;
		size_t cons, prod;
		r = call_once(c, data + cur, avail, (size_t)b, (lzma_action)act, &cons, &prod, acc);
		cur += cons;
		if (log) printf("%s%d:%zu:%zu", first ? "" : ",", (int)r, cons, prod);
		first = false;
		if (r != LZMA_OK) return r;
	}
	for (int k = 0; k < drain; ++k) {
		size_t cons, prod;
		r = call_once(c, data + cur, n - cur, 4096, LZMA_FINISH, &cons, &prod, acc);
		cur += cons;
		if (log) printf("%s%d:%zu:%zu", first ? "" : ",", (int)r, cons, prod);
		first = false;
		if (r != LZMA_OK || (cons == 0 && prod == 0)) return r;
	}
	return r;
}

// Pseudo-random slicing (LCG), RUN only, then drain until LZMA_STREAM_END. Returns false if the end is not reached.
static bool run_random(coder_t *c, const uint8_t *data, size_t n, uint64_t *seed, bytes_t *acc)
{
	size_t cur = 0;
	const size_t max_calls = 3 * n / 8 + 20;
	for (size_t k = 0; k < max_calls && cur < n; ++k) {
		*seed = *seed * 6364136223846793005ULL + 1442695040888963407ULL;
		const size_t a = (size_t)((*seed >> 33) % 41), b = (size_t)((*seed >> 20) % 43);
		size_t avail = n - cur < a ? n - cur : a, cons, prod;
		const lzma_ret r = call_once(c, data + cur, avail, b, LZMA_RUN, &cons, &prod, acc);
		cur += cons;
		if (r != LZMA_OK) return false;
	}
	for (size_t k = 0; k < n / 64 + 1000; ++k) {
		*seed = *seed * 6364136223846793005ULL + 1442695040888963407ULL;
		const size_t b = (size_t)((*seed >> 20) % 300);
		size_t cons, prod;
		const lzma_ret r = call_once(c, data + cur, n - cur, b, LZMA_FINISH, &cons, &prod, acc);
		cur += cons;
		if (r == LZMA_STREAM_END) return cur == n;
		if (r != LZMA_OK) return false;
	}
	return false;
}

// rt / drt: the property itself, on the implementation.
static void roundtrip(int fid, int nextmode, uint32_t param, uint64_t seed, const uint8_t *data, size_t n)
{
	coder_t c;
	bytes_t one = {0}, enc = {0}, dec = {0};
	const char *why = NULL;
	// single call
	if (coder_init(&c, fid, true, 1, param) != LZMA_OK) { coder_end(&c); printf("0 init\n"); return; }
	char whole[64];
	snprintf(whole, sizeof(whole), "%zu:%zu:3", n, n);
	if (run_slices(&c, data, n, whole, 0, false, &one) != LZMA_STREAM_END) why = "single-call-not-finished";
	coder_end(&c);
	// sliced encode
	coder_init(&c, fid, true, nextmode, param);
	if (!run_random(&c, data, n, &seed, &enc) && !why) why = "sliced-encode-not-finished";
	coder_end(&c);
	if (!why && (one.n != n || enc.n != n)) why = "size-changed";
	if (!why && n && memcmp(one.p, enc.p, n)) why = "slicing-dependent";
	// sliced decode
	coder_init(&c, fid, false, 1, param);
	if (!run_random(&c, enc.p, enc.n, &seed, &dec) && !why) why = "sliced-decode-not-finished";
	coder_end(&c);
	if (!why && (dec.n != n || (n && memcmp(dec.p, data, n)))) why = "roundtrip-differs";
	if (!why) printf("1\n");
	else { printf("0 %s enc=", why); hp_put_hex(enc.p, enc.n); printf(" dec="); hp_put_hex(dec.p, dec.n); printf("\n"); }
	free(one.p); free(enc.p); free(dec.p);
}

// xzfile: one-block .xz file; decode fully, and decode only the LZMA2 layer.
static void xzfile(const uint8_t *file, size_t n)
{
	const size_t cap = 4u << 20;
	uint8_t *full = malloc(cap), *raw = malloc(cap);
	if (!full || !raw) abort();
	uint64_t memlimit = UINT64_MAX;
	size_t ip = 0, fp = 0;
	const lzma_ret rfull = lzma_stream_buffer_decode(&memlimit, 0, NULL, file, &ip, n, full, &fp, cap);
	lzma_stream_flags sf;
	lzma_filter filters[LZMA_FILTERS_MAX + 1];
	lzma_block block;
	memset(&block, 0, sizeof(block));
	if (n < 13 || lzma_stream_header_decode(&sf, file) != LZMA_OK) { printf("bad-file\n"); goto out; }
	block.version = 1;
	block.check = sf.check;
	block.filters = filters;
	block.header_size = lzma_block_header_size_decode(file[12]);
	if (12 + block.header_size > n || lzma_block_header_decode(&block, NULL, file + 12) != LZMA_OK) { printf("bad-file\n"); goto out; }
	int nf = 0;
	while (filters[nf].id != LZMA_VLI_UNKNOWN) ++nf;
	printf("%d ", (int)rfull);
	for (int i = 0; i + 1 < nf; ++i) {
		unsigned long long param = 0;
		if (filters[i].id == LZMA_FILTER_DELTA) param = ((lzma_options_delta *)filters[i].options)->dist;
		else if (filters[i].options) param = ((lzma_options_bcj *)filters[i].options)->start_offset;
		printf("%s%llu:%llu", i ? "," : "", (unsigned long long)filters[i].id, param);
	}
	if (nf < 2) printf("-");
	// LZMA2 layer only
	lzma_stream strm = LZMA_STREAM_INIT;
	lzma_filter last[2] = { filters[nf - 1], { .id = LZMA_VLI_UNKNOWN } };
	size_t rp = 0;
	if (lzma_raw_decoder(&strm, last) == LZMA_OK) {
		strm.next_in = file + 12 + block.header_size;
		strm.avail_in = n - 12 - block.header_size;
		strm.next_out = raw;
		strm.avail_out = cap;
		const lzma_ret r = lzma_code(&strm, LZMA_FINISH);
		rp = r == LZMA_STREAM_END ? cap - strm.avail_out : 0;
	}
	lzma_end(&strm);
	printf(" "); hp_put_hex(raw, rp);
	printf(" "); hp_put_hex(full, fp);
	printf("\n");
	lzma_filters_free(filters, NULL);
out:
	free(full); free(raw);
}

int main(void)
{
	hp_line l = {0};
	while (hp_next(&l)) {
		const char *op = l.tok[0];
		if (!strcmp(op, "code") && l.ntok == 7) {
			const int fid = fid_of(l.tok[1]);
			if (fid < 0) { printf("bad-op\n"); continue; }
			size_t n; uint8_t *p = hp_hex(l.tok[6], &n);
			uint32_t mask = (uint32_t)hp_u64(l.tok[4]), ppos = (uint32_t)hp_u64(l.tok[5]);
			const size_t r = h15_code(fid, l.tok[2][0] == '1', (uint32_t)hp_u64(l.tok[3]), &mask, &ppos, p, n);
			printf("%zu %" PRIu32 " %" PRIu32 " ", r, mask, ppos);
			hp_put_hex(p, n); printf("\n");
			free(p);
		} else if (!strcmp(op, "codeseq") && l.ntok == 6) {
			const int fid = fid_of(l.tok[1]);
			if (fid < 0) { printf("bad-op\n"); continue; }
			size_t n; uint8_t *p = hp_hex(l.tok[4], &n);
			uint32_t mask = 0, ppos = (uint32_t)(-5), now_pos = (uint32_t)hp_u64(l.tok[3]);
			size_t start = 0;
			bool first = true;
			for (const char *s = l.tok[5]; *s && *s != '-';) {
				char *e; const size_t len = (size_t)strtoull(s, &e, 10);
				s = *e == ',' ? e + 1 : e;
				const size_t w = n - start < len ? n - start : len;
				// an exactly sized copy of the window so that ASan sees reads past it
				uint8_t *win = malloc(w ? w : 1);
				if (w) memcpy(win, p + start, w);
				const size_t r = h15_code(fid, l.tok[2][0] == '1', now_pos, &mask, &ppos, win, w);
				if (w) memcpy(p + start, win, w);
				free(win);
				printf("%s%zu:%" PRIu32 ":%" PRIu32, first ? "" : ",", r, mask, ppos);
				first = false;
				start += r;
				now_pos += (uint32_t)r;
			}
			if (first) printf("-");
			printf(" "); hp_put_hex(p, n); printf("\n");
			free(p);
		} else if (!strcmp(op, "oneshot") && l.ntok == 5) {
			const int fid = fid_of(l.tok[1]);
			if (fid < 0) { printf("bad-op\n"); continue; }
			size_t n, r; uint8_t *p = hp_hex(l.tok[4], &n);
			if (h15_oneshot(fid, l.tok[2][0] == '1', (uint32_t)hp_u64(l.tok[3]), p, n, &r)) {
				printf("%zu ", r); hp_put_hex(p, n); printf("\n");
			} else {
				printf("none\n");
			}
			free(p);
		} else if (((!strcmp(op, "stream") || !strcmp(op, "rstream")) && l.ntok == 7)
				|| ((!strcmp(op, "dstream") || !strcmp(op, "rdstream")) && l.ntok == 6)) {
			const bool reuse = op[0] == 'r';
			const bool bcj = op[reuse ? 1 : 0] == 's';
			const int fid = bcj ? fid_of(l.tok[1]) : -1;
			if (bcj && fid < 0) { printf("bad-op\n"); continue; }
			const char **t = (const char **)l.tok + (bcj ? 2 : 1);   // enc next param hex slices
			size_t n; uint8_t *p = hp_hex(t[3], &n);
			coder_t c;
			bytes_t acc = {0};
			const lzma_ret ri = reuse ? persistent_init(fid, t[0][0] == '1', t[1][0] == '1', (uint32_t)hp_u64(t[2]))
					: coder_init(&c, fid, t[0][0] == '1', t[1][0] == '1', (uint32_t)hp_u64(t[2]));
			printf("init=%d", (int)ri);
			if (ri == LZMA_OK) {
				printf(" calls=");
				run_slices(reuse ? &g_coder : &c, p, n, t[4], 8, true, &acc);
				printf(" out="); hp_put_hex(acc.p, acc.n);
			}
			printf("\n");
			if (!reuse) coder_end(&c);
			free(acc.p); free(p);
		} else if (!strcmp(op, "chain") && l.ntok == 6) {
			size_t n; uint8_t *p = hp_hex(l.tok[5], &n);
			bytes_t out = {0};
			bool ok;
			const lzma_ret ri = chain_run(l.tok[1][0] == '1', l.tok[2], l.tok[3][0] == '1', (uint32_t)hp_u64(l.tok[4]), p, n, &out, &ok);
			if (ri != LZMA_OK) printf("init=%d\n", (int)ri);
			else if (!ok) printf("init=0 failed\n");
			else { printf("init=0 out="); hp_put_hex(out.p, out.n); printf("\n"); }
			free(out.p); free(p);
		} else if (!strcmp(op, "mblock") && l.ntok == 6) {
			size_t n; uint8_t *p = hp_hex(l.tok[4], &n);
			mblock(l.tok[1][0] == '1', l.tok[2], (uint32_t)hp_u64(l.tok[3]), p, n, l.tok[5]);
			free(p);
		} else if (!strcmp(op, "dirty") && l.ntok == 5) {
			size_t n; uint8_t *p = hp_hex(l.tok[4], &n);
			const bool enc = l.tok[2][0] == '1';
			const uint32_t param = (uint32_t)hp_u64(l.tok[3]);
			const int fid = strcmp(l.tok[1], "delta") ? fid_of(l.tok[1]) : -1;
			chain_t with;
			bytes_t junk = {0};
			if (chain_make(&with, l.tok[1], param, true)
					&& (enc ? lzma_raw_encoder(&g_strm, with.f) : lzma_raw_decoder(&g_strm, with.f)) == LZMA_OK)
				strm_run(&g_strm, p, n, LZMA_RUN, &junk);        // abandoned mid-stream (a decoder fed raw bytes may also end in an error)
			if (persistent_init(fid, enc, 1, param) == LZMA_OK) {
				size_t cons, prod;
				call_once(&g_coder, p, n, n, LZMA_RUN, &cons, &prod, &junk);
			}
			free(junk.p); free(p);
			printf("ok\n");
		} else if (!strcmp(op, "delta") && l.ntok == 5) {
			const bool enc = l.tok[1][0] == '1';
			size_t n; uint8_t *p = hp_hex(l.tok[3], &n);
			h15_delta_state st; memset(&st, 0, sizeof(st));
			st.distance = (size_t)hp_u64(l.tok[2]);
			size_t start = 0; int k = 0;
			const char *s = l.tok[4];
			while (start < n) {
				size_t len = n - start;
				if (*s && *s != '-') {
					char *e; const size_t v = (size_t)strtoull(s, &e, 10);
					s = *e == ',' ? e + 1 : e;
					if (v < len) len = v;
				}
				uint8_t *win = malloc(len ? len : 1), *dst = malloc(len ? len : 1);
				if (len) memcpy(win, p + start, len);
				if (!enc) { h15_delta_decode_buffer(&st, win, len); memcpy(p + start, win, len); }
				else if (k++ & 1) { h15_delta_encode_in_place(&st, win, len); memcpy(p + start, win, len); }
				else { h15_delta_copy_and_encode(&st, win, dst, len); memcpy(p + start, dst, len); }
				free(win); free(dst);
				start += len;
			}
			hp_put_hex(p, n); printf("\n");
			free(p);
		} else if (!strcmp(op, "deltax") && l.ntok == 4) {
			size_t n; uint8_t *p = hp_hex(l.tok[3], &n);
			h15_delta_state st; memset(&st, 0, sizeof(st));
			st.distance = (size_t)hp_u64(l.tok[2]);
			if (l.tok[1][0] == '1') h15_delta_encode_in_place(&st, p, n); else h15_delta_decode_buffer(&st, p, n);
			hp_put_hex(p, n); printf("\n");
			free(p);
		} else if (!strcmp(op, "params") && l.ntok == 1) {
			// size of lzma_simple_coder.buffer[] per filter, encoder list then decoder list (for the model's `setalloc`)
			for (int enc = 1; enc >= 0; --enc) {
				for (int fid = 0; fid < H15_NFILTERS; ++fid) {
					coder_t c;
					size_t a = 0;
					if (coder_init(&c, fid, enc, 0, 0) == LZMA_OK) a = h15_allocated(&c.next);
					coder_end(&c);
					printf("%s%zu", fid ? "," : "", a);
				}
				printf(enc ? " " : "\n");
			}
		} else if (!strcmp(op, "rt") && l.ntok == 6) {
			const int fid = fid_of(l.tok[1]);
			if (fid < 0) { printf("bad-op\n"); continue; }
			size_t n; uint8_t *p = hp_hex(l.tok[5], &n);
			roundtrip(fid, l.tok[2][0] == '1', (uint32_t)hp_u64(l.tok[3]), hp_u64(l.tok[4]), p, n);
			free(p);
		} else if (!strcmp(op, "drt") && l.ntok == 5) {
			size_t n; uint8_t *p = hp_hex(l.tok[4], &n);
			roundtrip(-1, l.tok[1][0] == '1', (uint32_t)hp_u64(l.tok[2]), hp_u64(l.tok[3]), p, n);
			free(p);
		} else if (!strcmp(op, "xzfile") && l.ntok == 2) {
			size_t n; uint8_t *p = hp_hex(l.tok[1], &n);
			xzfile(p, n);
			free(p);
		} else {
			printf("bad-op\n");
		}
	}
	if (g_coder_live) coder_end(&g_coder);
	lzma_end(&g_strm);
	hp_done(&l);
	return 0;
}
