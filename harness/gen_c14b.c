// Stage G probe for C14 (part 2): the CRC64 CLMUL constants (crc_x86_clmul.h can be included only once per TU).
#include <stdint.h>
#include <stdio.h>
#include <inttypes.h>
#include <stddef.h>
#include <string.h>

#if defined(__x86_64__) || defined(__i386__)
#include <immintrin.h>
static uint64_t rec[32];
static int nrec;
static inline __m128i rec_set(long long hi, long long lo)
{
	if (nrec + 2 <= 32) { rec[nrec++] = (uint64_t)hi; rec[nrec++] = (uint64_t)lo; }
	return (_mm_set_epi64x)(hi, lo);
}
#define _mm_set_epi64x(hi, lo) rec_set((hi), (lo))
#endif

#include "crc64_fast.c"

int main(void)
{
	printf("-- part 2: harness/gen_c14b.c\n");
	printf("/-- arguments (hi, lo) of the _mm_set_epi64x calls in crc64_arch_optimized: fold512, fold128, mu_p -/\n"
		"def clmul64 : List Nat := [");
#if defined(CRC_X86_CLMUL) && defined(CRC64_ARCH_OPTIMIZED)
	{
		int ok = 1;
#	ifdef CRC64_GENERIC
		ok = is_arch_extension_supported();
#	endif
		if (ok) {
			uint8_t one[1] = { 0 };
			nrec = 0;
			(void)crc64_arch_optimized(one, 1, 0);
			for (int i = 0; i < nrec; ++i)
				printf("%s%" PRIu64, i ? ", " : "", rec[i]);
		}
	}
#endif
	printf("]\n\n");
	return 0;
}
