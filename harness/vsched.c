// vsched.c -- controlled thread scheduler; interface and semantics are documented in vsched.h.
//
// Linked with -Wl,--wrap=<sym> for every symbol in SCHED_WRAPPED. In a controlled run exactly one logical thread
// runs at a time; all scheduler state is only touched by the thread that holds the baton, so it needs no lock.
#define _GNU_SOURCE
#include "vsched.h"
#include <pthread.h>
#include <semaphore.h>
#include <errno.h>
#include <sched.h>
#include <stdarg.h>
#include <stdio.h>
#include <stdlib.h>
#include <string.h>
#include <time.h>
#include <unistd.h>

int __real_pthread_mutex_init(pthread_mutex_t *, const pthread_mutexattr_t *);
int __real_pthread_mutex_destroy(pthread_mutex_t *);
int __real_pthread_mutex_lock(pthread_mutex_t *);
int __real_pthread_mutex_trylock(pthread_mutex_t *);
int __real_pthread_mutex_unlock(pthread_mutex_t *);
int __real_pthread_cond_init(pthread_cond_t *, const pthread_condattr_t *);
int __real_pthread_cond_destroy(pthread_cond_t *);
int __real_pthread_cond_wait(pthread_cond_t *, pthread_mutex_t *);
int __real_pthread_cond_timedwait(pthread_cond_t *, pthread_mutex_t *, const struct timespec *);
int __real_pthread_cond_signal(pthread_cond_t *);
int __real_pthread_cond_broadcast(pthread_cond_t *);
int __real_pthread_create(pthread_t *, const pthread_attr_t *, void *(*)(void *), void *);
int __real_pthread_join(pthread_t, void **);

#define MAXT 64
#define MAXOBJ 1024
#define RING 64
#define MAXCHG 32

typedef enum { T_UNUSED = 0, T_RUNNABLE, T_LOCK, T_COND, T_JOIN, T_FINISHED } tstate;

typedef struct {
	int id;
	tstate st;
	sem_t sem;
	pthread_t real;
	void *(*fn)(void *);
	void *arg;
	int want;         // mutex index (T_LOCK, and the mutex to re-acquire after T_COND)
	int cond;         // condvar index (T_COND)
	int timed;        // T_COND: timed wait
	int wake_result;  // 0 or ETIMEDOUT
	int join_target;
	int joined;
	uint64_t prio;
} sthread;

typedef struct { void *addr; int owner; int live; } smutex;
typedef struct { void *addr; int live; } scond;
typedef struct { uint64_t step; int tid; int op; int obj; int next; } sentry;

static struct {
	int active;            // controlled run in progress
	int begun;             // between sched_begin and sched_end (any mode)
	sched_config cfg;
	uint64_t rng;
	uint64_t step;
	int cur;
	sthread th[MAXT];
	int nth;
	smutex mx[MAXOBJ];
	int nmx;
	scond cv[MAXOBJ];
	int ncv;
	sched_stats st;
	unsigned live;
	FILE *log;
	sentry ring[RING];
	uint64_t nring;
	uint64_t chg[MAXCHG];
	unsigned nchg;
	sched_observer obs;
	void *obs_ctx;
} G;

static __thread int my_tid = -1;
static __thread uint64_t jrng;
static unsigned jctr;

static const char *const OPN[] = { "lock", "unlock", "trylock", "wait", "timedwait", "signal", "broadcast",
	"create", "join", "exit", "point", "wake", "timeout", "spurious", "start", "minit", "mdestroy", "cinit", "cdestroy" };
static const char *const MODEN[] = { "real", "random", "pct", "nopreempt" };

const char *sched_op_name(sched_op op) { return (unsigned)op < sizeof(OPN) / sizeof(OPN[0]) ? OPN[op] : "?"; }
const char *sched_mode_name(sched_mode m) { return (unsigned)m < 4 ? MODEN[m] : "?"; }

static uint64_t splitmix(uint64_t *s)
{
	uint64_t z = (*s += 0x9E3779B97F4A7C15ull);
	z = (z ^ (z >> 30)) * 0xBF58476D1CE4E5B9ull;
	z = (z ^ (z >> 27)) * 0x94D049BB133111EBull;
	return z ^ (z >> 31);
}
static uint64_t rnd(uint64_t n) { return n ? splitmix(&G.rng) % n : 0; }

static uint64_t envu(const char *name, uint64_t def)
{
	const char *v = getenv(name);
	return (v && *v) ? strtoull(v, NULL, 0) : def;
}

void sched_config_from_env(sched_config *c)
{
	memset(c, 0, sizeof(*c));
	const char *m = getenv("SCHED_MODE");
	c->mode = SCHED_RANDOM;
	if (m) {
		if (!strcmp(m, "real")) c->mode = SCHED_REAL;
		else if (!strcmp(m, "pct")) c->mode = SCHED_PCT;
		else if (!strcmp(m, "nopreempt")) c->mode = SCHED_NOPREEMPT;
		else if (!strcmp(m, "random")) c->mode = SCHED_RANDOM;
	}
	c->seed = envu("SCHED_SEED", 1);
	c->sticky = (unsigned)envu("SCHED_STICKY", 0);
	c->pct_depth = (unsigned)envu("SCHED_PCT_DEPTH", 3);
	c->pct_steps = envu("SCHED_PCT_STEPS", 2000);
	c->p_timeout = (unsigned)envu("SCHED_P_TIMEOUT", 32);
	c->p_spurious = (unsigned)envu("SCHED_P_SPURIOUS", 4);
	c->max_steps = envu("SCHED_MAX_STEPS", 5000000);
	c->jitter = (unsigned)envu("SCHED_JITTER", 0);
	const char *l = getenv("SCHED_LOG");
	c->log_path = (l && *l) ? l : NULL;
}

int sched_self(void) { return G.active ? my_tid : -1; }
int sched_active(void) { return G.active; }
uint64_t sched_steps(void) { return G.step; }
void sched_set_observer(sched_observer fn, void *ctx) { G.obs = fn; G.obs_ctx = ctx; }

static int controlled(void) { return G.active && my_tid >= 0; }

// ---------------------------------------------------------------------------------------------
// reporting
// ---------------------------------------------------------------------------------------------

static void record(int tid, sched_op op, int obj)
{
	sentry *e = &G.ring[G.nring++ % RING];
	e->step = G.step; e->tid = tid; e->op = op; e->obj = obj; e->next = -1;
	uint64_t h = G.st.trace_hash ? G.st.trace_hash : 0xcbf29ce484222325ull;
	h = (h ^ (uint64_t)(tid + 1)) * 0x100000001b3ull;
	h = (h ^ (uint64_t)(op + 1)) * 0x100000001b3ull;
	h = (h ^ (uint64_t)(obj + 2)) * 0x100000001b3ull;
	G.st.trace_hash = h;
	if (G.log)
		fprintf(G.log, "%llu t%d %s %d\n", (unsigned long long)G.step, tid, sched_op_name(op), obj);
	if (G.obs)
		G.obs(G.obs_ctx, G.step, tid, op, obj);
}

void sched_note(const char *fmt, ...)
{
	if (!G.log)
		return;
	va_list ap;
	va_start(ap, fmt);
	fputs("# ", G.log);
	vfprintf(G.log, fmt, ap);
	fputc('\n', G.log);
	va_end(ap);
}

static const char *tstate_name(tstate s)
{
	switch (s) {
	case T_RUNNABLE: return "runnable";
	case T_LOCK: return "blocked-on-mutex";
	case T_COND: return "waiting-on-cond";
	case T_JOIN: return "joining";
	case T_FINISHED: return "finished";
	default: return "unused";
	}
}

static void dump_state(FILE *f)
{
	for (int i = 0; i < G.nth; ++i) {
		sthread *t = &G.th[i];
		fprintf(f, "  t%d %s", i, tstate_name(t->st));
		if (t->st == T_LOCK)
			fprintf(f, " m%d(owner t%d)", t->want, G.mx[t->want].owner);
		if (t->st == T_COND)
			fprintf(f, " c%d%s (mutex m%d)", t->cond, t->timed ? " timed" : "", t->want);
		if (t->st == T_JOIN)
			fprintf(f, " t%d", t->join_target);
		fprintf(f, " holds:");
		for (int m = 0; m < G.nmx; ++m)
			if (G.mx[m].owner == i)
				fprintf(f, " m%d", m);
		fputc('\n', f);
	}
	fprintf(f, "  last scheduling points (step tid op obj):\n");
	uint64_t from = G.nring > RING ? G.nring - RING : 0;
	for (uint64_t k = from; k < G.nring; ++k) {
		sentry *e = &G.ring[k % RING];
		fprintf(f, "    %llu t%d %s %d\n", (unsigned long long)e->step, e->tid, sched_op_name(e->op), e->obj);
	}
}

static void verdict(int code, const char *what, const char *detail)
{
	fflush(stdout);
	fprintf(stderr, "%s seed=%llu mode=%s step=%llu threads=%d %s\n", what, (unsigned long long)G.cfg.seed,
		sched_mode_name(G.cfg.mode), (unsigned long long)G.step, G.nth, detail ? detail : "");
	dump_state(stderr);
	fflush(stderr);
	if (G.log) {
		fprintf(G.log, "# %s step=%llu %s\n", what, (unsigned long long)G.step, detail ? detail : "");
		dump_state(G.log);
		fclose(G.log);
	}
	_exit(code);
}

static void misuse(const char *detail) { verdict(SCHED_EXIT_MISUSE, "SCHED-MISUSE", detail); }

// ---------------------------------------------------------------------------------------------
// object tables
// ---------------------------------------------------------------------------------------------

static int mutex_find(void *a, int create)
{
	for (int i = 0; i < G.nmx; ++i)
		if (G.mx[i].addr == a)
			return i;
	if (!create)
		return -1;
	if (G.nmx >= MAXOBJ)
		misuse("too many mutexes");
	G.mx[G.nmx].addr = a; G.mx[G.nmx].owner = -1; G.mx[G.nmx].live = 1;
	return G.nmx++;
}

static int cond_find(void *a, int create)
{
	for (int i = 0; i < G.ncv; ++i)
		if (G.cv[i].addr == a)
			return i;
	if (!create)
		return -1;
	if (G.ncv >= MAXOBJ)
		misuse("too many condvars");
	G.cv[G.ncv].addr = a; G.cv[G.ncv].live = 1;
	return G.ncv++;
}

static int mutex_use(void *a)
{
	int i = mutex_find(a, 1);
	if (!G.mx[i].live)
		misuse("use of a destroyed mutex");
	return i;
}

static int cond_use(void *a)
{
	int i = cond_find(a, 1);
	if (!G.cv[i].live)
		misuse("use of a destroyed condition variable");
	return i;
}

// ---------------------------------------------------------------------------------------------
// the scheduler proper
// ---------------------------------------------------------------------------------------------

static int enabled(const sthread *t)
{
	switch (t->st) {
	case T_RUNNABLE: return 1;
	case T_LOCK: return G.mx[t->want].owner == -1;
	case T_JOIN: return G.th[t->join_target].st == T_FINISHED;
	default: return 0;
	}
}

static void wake(sthread *t, sched_op why, int result)
{
	t->st = T_LOCK;
	t->wake_result = result;
	record(t->id, why, t->cond);
	if (why == SOP_TIMEOUT) ++G.st.timeouts;
	if (why == SOP_SPURIOUS) ++G.st.spurious;
}

static void sem_wait_nointr(sem_t *s)
{
	while (sem_wait(s) != 0 && errno == EINTR) { }
}

// Called by the running thread after it has recorded its operation and updated its own state.
// Picks the next thread, hands over the baton and (unless the caller has finished) waits to be picked again.
static void reschedule(void)
{
	sthread *me = &G.th[my_tid];
	++G.step;
	++G.st.steps;
	if (G.step > G.cfg.max_steps)
		verdict(SCHED_EXIT_BUDGET, "SCHED-BUDGET", "step budget exhausted (livelock or unbounded waiting)");

	// forced time-outs and spurious wake-ups
	for (int i = 0; i < G.nth; ++i) {
		sthread *t = &G.th[i];
		if (t->st != T_COND)
			continue;
		if (t->timed) {
			if (G.cfg.p_timeout && rnd(256) < G.cfg.p_timeout)
				wake(t, SOP_TIMEOUT, ETIMEDOUT);
		} else if (G.cfg.p_spurious && rnd(256) < G.cfg.p_spurious) {
			wake(t, SOP_SPURIOUS, 0);
		}
	}

	// PCT priority-change point
	if (G.cfg.mode == SCHED_PCT)
		for (unsigned k = 0; k < G.nchg; ++k)
			if (G.chg[k] == G.step)
				me->prio = G.nchg - k;   // below every initial priority (those are > MAXCHG)

	int en[MAXT], nen;
	for (;;) {
		nen = 0;
		for (int i = 0; i < G.nth; ++i)
			if (enabled(&G.th[i]))
				en[nen++] = i;
		if (nen > 0)
			break;
		// nobody can run: let time pass for a timed waiter, else it is a deadlock
		int tw[MAXT], ntw = 0;
		for (int i = 0; i < G.nth; ++i)
			if (G.th[i].st == T_COND && G.th[i].timed)
				tw[ntw++] = i;
		if (ntw == 0)
			verdict(SCHED_EXIT_DEADLOCK, "SCHED-DEADLOCK", "every thread is blocked");
		wake(&G.th[tw[rnd((uint64_t)ntw)]], SOP_TIMEOUT, ETIMEDOUT);
	}

	int next = -1;
	const int me_en = enabled(me);
	switch (G.cfg.mode) {
	case SCHED_PCT: {
		uint64_t best = 0;
		for (int k = 0; k < nen; ++k)
			if (next < 0 || G.th[en[k]].prio > best) {
				next = en[k];
				best = G.th[en[k]].prio;
			}
		break;
	}
	case SCHED_NOPREEMPT:
		next = me_en ? my_tid : en[rnd((uint64_t)nen)];
		break;
	default:
		if (me_en && G.cfg.sticky && rnd(256) < G.cfg.sticky)
			next = my_tid;
		else
			next = en[rnd((uint64_t)nen)];
		break;
	}

	if (next == my_tid)
		return;
	++G.st.switches;
	G.ring[(G.nring - 1) % RING].next = next;
	if (G.log)
		fprintf(G.log, "  -> t%d\n", next);
	G.cur = next;
	const int finished = me->st == T_FINISHED;
	sem_post(&G.th[next].sem);
	if (!finished)
		sem_wait_nointr(&me->sem);
}

static void jitter(void)
{
	if (!G.begun || G.cfg.mode != SCHED_REAL || G.cfg.jitter == 0)
		return;
	if (jrng == 0)
		jrng = G.cfg.seed * 0x9E3779B97F4A7C15ull + __atomic_add_fetch(&jctr, 1, __ATOMIC_RELAXED);
	uint64_t r = splitmix(&jrng);
	if ((r & 255) < G.cfg.jitter) {
		if (r & 256) {
			sched_yield();
		} else {
			struct timespec ts = { 0, (long)((r >> 16) % 50000) };
			nanosleep(&ts, NULL);
		}
	}
}

static void assign_prio(sthread *t)
{
	t->prio = (splitmix(&G.rng) >> 8) + 2 * MAXCHG;
}

void sched_begin(const sched_config *cfg)
{
	if (G.begun)
		misuse("sched_begin called twice");
	sched_observer obs = G.obs;
	void *octx = G.obs_ctx;
	for (int i = 0; i < G.nth; ++i)
		if (G.th[i].st != T_UNUSED)
			sem_destroy(&G.th[i].sem);
	memset(&G, 0, sizeof(G));
	G.obs = obs; G.obs_ctx = octx;
	G.cfg = *cfg;
	G.begun = 1;
	G.rng = cfg->seed * 0x2545F4914F6CDD1Dull + 0x1234567;
	jctr = 0;
	if (cfg->max_steps == 0)
		G.cfg.max_steps = 5000000;
	if (cfg->log_path) {
		G.log = fopen(cfg->log_path, "a");
		if (G.log)
			fprintf(G.log, "# sched_begin seed=%llu mode=%s sticky=%u pct_depth=%u pct_steps=%llu p_timeout=%u p_spurious=%u\n",
				(unsigned long long)cfg->seed, sched_mode_name(cfg->mode), cfg->sticky, cfg->pct_depth,
				(unsigned long long)cfg->pct_steps, cfg->p_timeout, cfg->p_spurious);
	}
	if (cfg->mode == SCHED_REAL)
		return;
	G.active = 1;
	sthread *t = &G.th[0];
	t->id = 0; t->st = T_RUNNABLE; t->real = pthread_self();
	sem_init(&t->sem, 0, 0);
	assign_prio(t);
	G.nth = 1; G.live = 1; G.st.threads = 1; G.st.max_live = 1;
	G.cur = 0;
	my_tid = 0;
	if (cfg->mode == SCHED_PCT) {
		unsigned d = cfg->pct_depth ? cfg->pct_depth : 1;
		G.nchg = d - 1 > MAXCHG ? MAXCHG : d - 1;
		uint64_t k = cfg->pct_steps ? cfg->pct_steps : 1;
		for (unsigned i = 0; i < G.nchg; ++i)
			G.chg[i] = 1 + rnd(k);
	}
}

void sched_end(sched_stats *out)
{
	if (!G.begun)
		misuse("sched_end without sched_begin");
	if (G.active) {
		if (my_tid != 0)
			misuse("sched_end called by a thread other than logical thread 0");
		for (int i = 1; i < G.nth; ++i)
			if (G.th[i].st != T_FINISHED || !G.th[i].joined)
				misuse("sched_end with live or unjoined threads");
		for (int m = 0; m < G.nmx; ++m)
			if (G.mx[m].owner != -1)
				misuse("sched_end with a locked mutex");
	}
	if (out)
		*out = G.st;
	if (G.log) {
		fprintf(G.log, "# sched_end steps=%llu switches=%llu hash=%016llx\n", (unsigned long long)G.st.steps,
			(unsigned long long)G.st.switches, (unsigned long long)G.st.trace_hash);
		fclose(G.log);
		G.log = NULL;
	}
	G.active = 0;
	G.begun = 0;
	my_tid = -1;
}

void sched_point(const char *label)
{
	(void)label;
	if (!controlled())
		return;
	record(my_tid, SOP_POINT, -1);
	reschedule();
}

// ---------------------------------------------------------------------------------------------
// wrappers
// ---------------------------------------------------------------------------------------------

int __wrap_pthread_mutex_init(pthread_mutex_t *m, const pthread_mutexattr_t *a)
{
	int r = __real_pthread_mutex_init(m, a);
	if (controlled() && r == 0) {
		int i = mutex_find(m, 1);
		if (G.mx[i].live && G.mx[i].owner != -1)
			misuse("pthread_mutex_init of a locked mutex");
		G.mx[i].live = 1; G.mx[i].owner = -1;
		record(my_tid, SOP_MINIT, i);
	}
	return r;
}

int __wrap_pthread_mutex_destroy(pthread_mutex_t *m)
{
	if (controlled()) {
		int i = mutex_find(m, 1);
		if (!G.mx[i].live)
			misuse("pthread_mutex_destroy of a destroyed mutex");
		if (G.mx[i].owner != -1)
			misuse("pthread_mutex_destroy of a locked mutex");
		for (int t = 0; t < G.nth; ++t)
			if ((G.th[t].st == T_LOCK || G.th[t].st == T_COND) && G.th[t].want == i)
				misuse("pthread_mutex_destroy of a mutex another thread is waiting for");
		G.mx[i].live = 0;
		record(my_tid, SOP_MDESTROY, i);
	}
	return __real_pthread_mutex_destroy(m);
}

int __wrap_pthread_mutex_lock(pthread_mutex_t *m)
{
	if (!controlled()) {
		jitter();
		return __real_pthread_mutex_lock(m);
	}
	sthread *me = &G.th[my_tid];
	int i = mutex_use(m);
	if (G.mx[i].owner == my_tid)
		misuse("pthread_mutex_lock of a mutex the caller already owns");
	if (G.mx[i].owner != -1)
		++G.st.contended;
	record(my_tid, SOP_LOCK, i);
	me->st = T_LOCK;
	me->want = i;
	reschedule();
	if (G.mx[i].owner != -1 || !G.mx[i].live)
		misuse("internal: scheduled a thread whose mutex is not free");
	me->st = T_RUNNABLE;
	G.mx[i].owner = my_tid;
	return __real_pthread_mutex_lock(m);
}

int __wrap_pthread_mutex_trylock(pthread_mutex_t *m)
{
	if (!controlled()) {
		jitter();
		return __real_pthread_mutex_trylock(m);
	}
	int i = mutex_use(m);
	record(my_tid, SOP_TRYLOCK, i);
	reschedule();
	if (G.mx[i].owner != -1)
		return EBUSY;
	G.mx[i].owner = my_tid;
	return __real_pthread_mutex_trylock(m);
}

int __wrap_pthread_mutex_unlock(pthread_mutex_t *m)
{
	if (!controlled())
		return __real_pthread_mutex_unlock(m);
	int i = mutex_use(m);
	if (G.mx[i].owner != my_tid)
		misuse("pthread_mutex_unlock of a mutex the caller does not own");
	int r = __real_pthread_mutex_unlock(m);
	G.mx[i].owner = -1;
	record(my_tid, SOP_UNLOCK, i);
	reschedule();
	return r;
}

int __wrap_pthread_cond_init(pthread_cond_t *c, const pthread_condattr_t *a)
{
	int r = __real_pthread_cond_init(c, a);
	if (controlled() && r == 0) {
		int i = cond_find(c, 1);
		G.cv[i].live = 1;
		record(my_tid, SOP_CINIT, i);
	}
	return r;
}

int __wrap_pthread_cond_destroy(pthread_cond_t *c)
{
	if (controlled()) {
		int i = cond_find(c, 1);
		if (!G.cv[i].live)
			misuse("pthread_cond_destroy of a destroyed condition variable");
		for (int t = 0; t < G.nth; ++t)
			if (G.th[t].st == T_COND && G.th[t].cond == i)
				misuse("pthread_cond_destroy of a condition variable with a waiter");
		G.cv[i].live = 0;
		record(my_tid, SOP_CDESTROY, i);
	}
	return __real_pthread_cond_destroy(c);
}

static int cond_wait_common(pthread_cond_t *c, pthread_mutex_t *m, int timed)
{
	sthread *me = &G.th[my_tid];
	int ci = cond_use(c);
	int mi = mutex_use(m);
	if (G.mx[mi].owner != my_tid)
		misuse("pthread_cond_wait with a mutex the caller does not own");
	__real_pthread_mutex_unlock(m);
	G.mx[mi].owner = -1;
	++G.st.waits;
	record(my_tid, timed ? SOP_TIMEDWAIT : SOP_WAIT, ci);
	me->st = T_COND;
	me->cond = ci;
	me->want = mi;
	me->timed = timed;
	me->wake_result = 0;
	reschedule();
	if (me->st != T_LOCK || G.mx[mi].owner != -1)
		misuse("internal: waiter resumed without wake-up or with the mutex taken");
	me->st = T_RUNNABLE;
	G.mx[mi].owner = my_tid;
	__real_pthread_mutex_lock(m);
	return me->wake_result;
}

int __wrap_pthread_cond_wait(pthread_cond_t *c, pthread_mutex_t *m)
{
	if (!controlled()) {
		jitter();
		return __real_pthread_cond_wait(c, m);
	}
	return cond_wait_common(c, m, 0);
}

int __wrap_pthread_cond_timedwait(pthread_cond_t *c, pthread_mutex_t *m, const struct timespec *ts)
{
	if (!controlled()) {
		jitter();
		return __real_pthread_cond_timedwait(c, m, ts);
	}
	return cond_wait_common(c, m, 1);
}

static void signal_common(pthread_cond_t *c, int all)
{
	int ci = cond_use(c);
	record(my_tid, all ? SOP_BROADCAST : SOP_SIGNAL, ci);
	int w[MAXT], nw = 0;
	for (int t = 0; t < G.nth; ++t)
		if (G.th[t].st == T_COND && G.th[t].cond == ci)
			w[nw++] = t;
	if (nw == 0) {
		++G.st.signals_lost;
	} else if (all) {
		for (int k = 0; k < nw; ++k)
			wake(&G.th[w[k]], SOP_WAKE, 0);
	} else {
		wake(&G.th[w[rnd((uint64_t)nw)]], SOP_WAKE, 0);
	}
	reschedule();
}

int __wrap_pthread_cond_signal(pthread_cond_t *c)
{
	if (!controlled()) {
		jitter();
		return __real_pthread_cond_signal(c);
	}
	signal_common(c, 0);
	return 0;
}

int __wrap_pthread_cond_broadcast(pthread_cond_t *c)
{
	if (!controlled()) {
		jitter();
		return __real_pthread_cond_broadcast(c);
	}
	signal_common(c, 1);
	return 0;
}

static void *trampoline(void *p)
{
	sthread *t = p;
	my_tid = t->id;
	sem_wait_nointr(&t->sem);       // wait until the scheduler picks this thread for the first time
	record(my_tid, SOP_START, -1);
	void *ret = t->fn(t->arg);
	t->st = T_FINISHED;
	--G.live;
	record(my_tid, SOP_EXIT, -1);
	reschedule();                    // hands the baton over and does not wait
	return ret;
}

int __wrap_pthread_create(pthread_t *th, const pthread_attr_t *attr, void *(*fn)(void *), void *arg)
{
	if (!controlled()) {
		jitter();
		return __real_pthread_create(th, attr, fn, arg);
	}
	if (G.nth >= MAXT)
		misuse("too many threads");
	sthread *t = &G.th[G.nth];
	memset(t, 0, sizeof(*t));
	t->id = G.nth;
	t->fn = fn;
	t->arg = arg;
	sem_init(&t->sem, 0, 0);
	int r = __real_pthread_create(&t->real, attr, trampoline, t);
	if (r != 0) {
		sem_destroy(&t->sem);
		return r;
	}
	*th = t->real;
	t->st = T_RUNNABLE;
	assign_prio(t);
	++G.nth;
	++G.live;
	++G.st.threads;
	if (G.live > G.st.max_live)
		G.st.max_live = G.live;
	record(my_tid, SOP_CREATE, t->id);
	reschedule();
	return 0;
}

int __wrap_pthread_join(pthread_t th, void **ret)
{
	if (!controlled())
		return __real_pthread_join(th, ret);
	int target = -1;
	for (int i = 1; i < G.nth; ++i)
		if (!G.th[i].joined && pthread_equal(G.th[i].real, th)) {
			target = i;
			break;
		}
	if (target < 0)
		return __real_pthread_join(th, ret);
	sthread *me = &G.th[my_tid];
	record(my_tid, SOP_JOIN, target);
	me->st = T_JOIN;
	me->join_target = target;
	reschedule();
	me->st = T_RUNNABLE;
	G.th[target].joined = 1;
	return __real_pthread_join(th, ret);
}
