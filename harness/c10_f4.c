// Watch item F4 (outside C10's quantifier: a pthread primitive fails, not the allocator).
// Link with  -Wl,--wrap=pthread_mutex_init -Wl,--wrap=pthread_cond_init : the first mutex / condition variable
// initialisation inside the lzma_stream_{de,en}coder_mt() call is made to fail with ENOMEM.
// Input line: dec-mutex | dec-cond | enc-mutex | enc-cond.  Output: ret=<lzma_ret> double_free=<n> unknown_free=<n> live=<n> T=<trace>
#include "c10_alloc.h"
#include <errno.h>

static int armed_mutex, armed_cond;

int __real_pthread_mutex_init(pthread_mutex_t *m, const pthread_mutexattr_t *a);
int __real_pthread_cond_init(pthread_cond_t *c, const pthread_condattr_t *a);

int __wrap_pthread_mutex_init(pthread_mutex_t *m, const pthread_mutexattr_t *a)
{
	if (armed_mutex) { armed_mutex = 0; return ENOMEM; }
	return __real_pthread_mutex_init(m, a);
}

int __wrap_pthread_cond_init(pthread_cond_t *c, const pthread_condattr_t *a)
{
	if (armed_cond) { --armed_cond; return ENOMEM; }
	return __real_pthread_cond_init(c, a);
}

int main(void)
{
	char line[64];
	while (fgets(line, sizeof line, stdin)) {
		ta_reset();
		lzma_stream strm = LZMA_STREAM_INIT;
		strm.allocator = &TA_ALLOC;
		lzma_mt mt;
		memset(&mt, 0, sizeof mt);
		mt.threads = 2;
		mt.memlimit_threading = UINT64_MAX;
		mt.memlimit_stop = UINT64_MAX;
		mt.check = LZMA_CHECK_CRC32;
		mt.preset = 0;
		bool dec = !strncmp(line, "dec", 3);
		// mythread_cond_init() retries with CLOCK_REALTIME when the CLOCK_MONOTONIC attempt fails: fail both
		if (strstr(line, "mutex")) armed_mutex = 1; else armed_cond = 2;
		lzma_ret r = dec ? lzma_stream_decoder_mt(&strm, &mt) : lzma_stream_encoder_mt(&strm, &mt);
		armed_mutex = armed_cond = 0;
		lzma_end(&strm);
		printf("ret=%d double_free=%ld unknown_free=%ld live=%zu T=%s\n", (int)r, TA.double_free, TA.unknown_free, TA.nlive,
				TA.tr ? TA.tr : "");
		fflush(stdout);
	}
	return 0;
}
