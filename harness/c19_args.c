// C19 harness, translation unit 5: the REAL src/xz/args.c (args_parse, parse_real, parse_environment and the globals
// opt_stdout / opt_force / opt_keep_original it defines), included textually.
// c19_probe_args() tabulates, for every program name x environment variant x two command-line option slots, what the real
// args_parse() leaves in opt_mode / opt_stdout / opt_keep_original / opt_force / opt_format: the rule "--stdout (however it
// was selected: -c, --stdout, the program name xzcat/lzcat, XZ_DEFAULTS, XZ_OPT) and --test imply keep_original" lives there.
#include "sysdefs.h"
#include <stdlib.h>
#include <string.h>
#include <setjmp.h>
#include "c19.h"

#include "args.c"

static const char *const c19_progs[] = { "xz", "xzcat", "unxz", "lzcat", "unlzma", "lzma", "/usr/bin/frobnicate" };
// environment variants: which variable carries which option
static const struct { const char *defaults; const char *opt; } c19_envs[] = {
	{ NULL, NULL }, { "-c", NULL }, { NULL, "--stdout" }, { NULL, "-k" }, { "-k", "-d" }, { "--stdout", "-z" },
};
static const char *const c19_opts[] = { NULL, "-c", "-k", "-f", "-d", "-z", "-t", "--stdout" };

void
c19_args_reset(void)
{
	unsetenv("XZ_DEFAULTS");
	unsetenv("XZ_OPT");
	opt_stdout = false;
	opt_force = false;
	opt_keep_original = false;
	opt_synchronous = true;
	opt_robot = false;
	opt_ignore_check = false;
	opt_mode = MODE_COMPRESS;
	opt_format = FORMAT_AUTO;
	c19_set_suffix(NULL);
	optind = 0;             // GNU getopt: full re-initialisation
}

int
c19_args_run(const char *prog, const char *env_defaults, const char *env_opt, const char *o1, const char *o2)
{
	if (env_defaults != NULL) setenv("XZ_DEFAULTS", env_defaults, 1); else unsetenv("XZ_DEFAULTS");
	if (env_opt != NULL) setenv("XZ_OPT", env_opt, 1); else unsetenv("XZ_OPT");
	// the state a fresh process starts with (initialisers of args.c / coder.c)
	opt_stdout = false;
	opt_force = false;
	opt_keep_original = false;
	opt_synchronous = true;
	opt_robot = false;
	opt_ignore_check = false;
	opt_mode = MODE_COMPRESS;
	opt_format = FORMAT_AUTO;
	c19_set_suffix(NULL);
	char a0[64], a1[16], a2[16], a3[8];
	char *argv[5];
	int argc = 0;
	snprintf(a0, sizeof(a0), "%s", prog);
	argv[argc++] = a0;
	if (o1 != NULL) { snprintf(a1, sizeof(a1), "%s", o1); argv[argc++] = a1; }
	if (o2 != NULL) { snprintf(a2, sizeof(a2), "%s", o2); argv[argc++] = a2; }
	snprintf(a3, sizeof(a3), "file");
	argv[argc++] = a3;
	argv[argc] = NULL;
	optind = 0;             // GNU getopt: full re-initialisation
	args_info args;
	c19_fatal_armed = true;
	if (setjmp(c19_fatal_jmp) != 0) {
		c19_fatal_armed = false;
		return 9999;
	}
	args_parse(&args, argc, argv);
	c19_fatal_armed = false;
	unsetenv("XZ_DEFAULTS");
	unsetenv("XZ_OPT");
	const int r = (int)opt_mode + 4 * (int)opt_stdout + 8 * (int)opt_keep_original + 16 * (int)opt_force + 32 * (int)opt_format;
	opt_stdout = opt_force = opt_keep_original = false;
	opt_mode = MODE_COMPRESS;
	opt_format = FORMAT_XZ;
	return r;
}

int
c19_args_code(int prog, int env, int o1, int o2)
{
	return c19_args_run(c19_progs[prog], c19_envs[env].defaults, c19_envs[env].opt, c19_opts[o1], c19_opts[o2]);
}

void
c19_probe_args(FILE *f)
{
	fprintf(f, "/-- args_parse() run for program name p (0 xz, 1 xzcat, 2 unxz, 3 lzcat, 4 unlzma, 5 lzma, 6 some other name),\n"
		"    environment variant e (0 none, 1 XZ_DEFAULTS=-c, 2 XZ_OPT=--stdout, 3 XZ_OPT=-k, 4 XZ_DEFAULTS=-k XZ_OPT=-d,\n"
		"    5 XZ_DEFAULTS=--stdout XZ_OPT=-z) and command line `prog o1 o2 file`, o in (0 nothing, 1 -c, 2 -k, 3 -f, 4 -d, 5 -z, 6 -t,\n"
		"    7 --stdout). argsRows[6*p + e][8*o1 + o2] = opt_mode + 4*opt_stdout + 8*opt_keep_original + 16*opt_force + 32*opt_format. -/\n");
	int chunk = 0;
	for (int p = 0; p < 7; ++p)
	for (int e = 0; e < 6; ++e) {
		fprintf(f, "def argsRows%d : List Nat := [", chunk++);
		for (int o1 = 0; o1 < 8; ++o1)
		for (int o2 = 0; o2 < 8; ++o2)
			fprintf(f, "%s%s%d", (o1 || o2) ? "," : "", o2 ? " " : "\n  ", c19_args_code(p, e, o1, o2));
		fprintf(f, "]\n");
	}
	fprintf(f, "def argsRows : List (List Nat) := [");
	for (int i = 0; i < chunk; ++i)
		fprintf(f, "%sargsRows%d", i ? ", " : "", i);
	fprintf(f, "]\n\n");
}
