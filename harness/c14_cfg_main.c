// C14 harness for other BUILD CONFIGURATIONS of the check code: this main is linked with c14_crc32.c, c14_crc64.c,
// c14_small32.c, c14_small64.c compiled with different flags (tools/props/c14.py):
//   c14nc    -UHAVE_FUNC_ATTRIBUTE_CONSTRUCTOR   first-call dispatch (crc32_dispatch/crc64_dispatch), mythread_once in *_small.c
//   c14gen   -UHAVE_USABLE_CLMUL                 table-driven code only, no dispatch
//   c14clmul -mssse3 -msse4.1 -mpclmul           CLMUL code only, no tables, no dispatch
// The driver script starts a FRESH process per op line, so the first CRC call of the process is the one under test:
//   cfg32 <init> <hex> <hex> ...      -> "<pieces chained from init: the very first calls of the process> <one call over
//   cfg64 ...                              the concatenation from init> <the same call again>"
//   cfgsmall32 / cfgsmall64 ...       -> the same through crc32_small.c / crc64_small.c
// Batch ops (many per process), used for the sweeps over lengths x alignments x high-bit contents:
//   cfga32 <align> <init> <hex>       -> "<generic entry (or public if absent)> <arch entry (or public)> <public>
//   cfga64 ...                             <public over two pieces split at size/2>"
#include "c14_util.h"

uint32_t h_crc32_generic(const uint8_t *, size_t, uint32_t);
uint32_t h_crc32_arch(const uint8_t *, size_t, uint32_t);
uint64_t h_crc64_generic(const uint8_t *, size_t, uint64_t);
uint64_t h_crc64_arch(const uint8_t *, size_t, uint64_t);
uint32_t h_crc32_public(const uint8_t *, size_t, uint32_t);
uint64_t h_crc64_public(const uint8_t *, size_t, uint64_t);
uint32_t h_small32(const uint8_t *, size_t, uint32_t);
uint64_t h_small64(const uint8_t *, size_t, uint64_t);

static uint64_t call(int small, int w64, const uint8_t *p, size_t n, uint64_t c)
{
	if (small)
		return w64 ? h_small64(p, n, c) : h_small32(p, n, (uint32_t)c);
	return w64 ? h_crc64_public(p, n, c) : h_crc32_public(p, n, (uint32_t)c);
}

int main(void)
{
	hp_line l = {0};
	while (hp_next(&l)) {
		const char *op = l.tok[0];
		if ((!strcmp(op, "cfga32") || !strcmp(op, "cfga64")) && l.ntok == 4) {
			size_t n; void *base;
			uint8_t *p = hex_aligned_exact(l.tok[3], &n, (size_t)hp_u64(l.tok[1]), &base);
			uint64_t init = hp_u64(l.tok[2]);
			size_t h = n / 2;
			if (op[4] == '3') {
				uint32_t pc = h_crc32_public(p + h, n - h, h_crc32_public(p, h, (uint32_t)init));
				printf("%" PRIu32 " %" PRIu32 " %" PRIu32 " %" PRIu32 "\n", h_crc32_generic(p, n, (uint32_t)init),
						h_crc32_arch(p, n, (uint32_t)init), h_crc32_public(p, n, (uint32_t)init), pc);
			} else {
				uint64_t pc = h_crc64_public(p + h, n - h, h_crc64_public(p, h, init));
				printf("%" PRIu64 " %" PRIu64 " %" PRIu64 " %" PRIu64 "\n", h_crc64_generic(p, n, init),
						h_crc64_arch(p, n, init), h_crc64_public(p, n, init), pc);
			}
			free(base);
			continue;
		}
		int small = !strncmp(op, "cfgsmall", 8);
		const char *wd = small ? op + 8 : (!strncmp(op, "cfg", 3) ? op + 3 : "");
		if ((strcmp(wd, "32") && strcmp(wd, "64")) || l.ntok < 2) { printf("bad-op\n"); continue; }
		int w64 = wd[0] == '6';
		uint64_t init = hp_u64(l.tok[1]);
		// concatenation (built before any CRC call)
		size_t total = 0, lens[HP_MAXTOK];
		uint8_t *ps[HP_MAXTOK];
		for (int i = 2; i < l.ntok; ++i) { ps[i] = hp_hex(l.tok[i], &lens[i]); total += lens[i]; }
		uint8_t *all = malloc(total ? total : 1);
		size_t pos = 0;
		for (int i = 2; i < l.ntok; ++i) { memcpy(all + pos, ps[i], lens[i]); pos += lens[i]; }
		uint64_t c = init;
		if (l.ntok == 2)
			c = call(small, w64, all, 0, c);          // a first call with size 0
		for (int i = 2; i < l.ntok; ++i)
			c = call(small, w64, ps[i], lens[i], c);   // i == 2 is the first CRC call of this process
		uint64_t one = call(small, w64, all, total, init);
		uint64_t again = call(small, w64, all, total, init);
		printf("%" PRIu64 " %" PRIu64 " %" PRIu64 "\n", c, one, again);
		for (int i = 2; i < l.ntok; ++i) free(ps[i]);
		free(all);
	}
	hp_done(&l);
	return 0;
}
