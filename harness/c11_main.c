// C11 harness: drives the REAL lzma_code()/lzma_strm_init()/lzma_end() of /repo through scripted call histories.
//
// Line protocol (one result line per op; "<comparable part> # <extras>"; the model driver xzm_c11 prints the
// comparable part only):
//   new stub <mask> <flags>      fresh LZMA_STREAM_INIT + stub coder through the real lzma_next_strm_init path;
//                                supported_actions = mask bits; flags: 1 = coder has memconfig, 2 = has get_progress
//   new uninit                   LZMA_STREAM_INIT only (internal == NULL)
//   new nocode <mask>            lzma_strm_init() only (internal allocated, next.code == NULL)
//   new real <api> <variant> <datalen> <insz> <outsz> <corrupt|-1>
//                                a real coder initialised through its public init function; its code function is
//                                wrapped by a recording shim (extras: inner=c,p,r)
//   reinit stub <mask> <flags>   initialise again WITHOUT lzma_end (lzma_strm_init on a live handle)
//   reinit real <api> ...        the same with a real coder (any of the 18 public init functions); the application
//                                resets next_in/avail_in/next_out/avail_out (the buffer regions are replaced)
//   call <action> <in> <out> <resv> <tot> <c> <p> <r>
//        in/out: k | s:<off>:<len> | n:<len> | d:+<x> | d:-<x> | z:<len> (in only: seek to strm->seek_pos)
//                | b:<off>:<len> (in only: inside a 4 GiB + 1 MiB read-only mapping; offsets reported as 2^40 + off)
//        resv:   - | <idx 0..8>:<value>      (all reserved members default except that one)
//        tot:    - | <total_in>:<total_out>  (application overwrites the totals)
//        c p r:  script of the stub for this call (ignored by real coders)
//     -> <ret> nin= ain= tin= nout= aout= tout= seq= abe= sav= args=  # guard=ok|BAD law=ok|BAD inner=c,p,r|- pre=nin,ain,nout,aout
//   end | progress | memusage | memlimit_get | memlimit_set <n>
#include "c11_stub.h"
#include "hproto.h"
#include <sys/mman.h>

#define GUARD 32

typedef struct {
	uint8_t *alloc;     // GUARD + size + GUARD bytes
	uint8_t *data;      // alloc + GUARD
	uint8_t *shadow;    // copy of alloc taken before each call
	size_t size;
} region;

static region rin, rout;
static lzma_stream strm = LZMA_STREAM_INIT;
static c11_stub *stub = NULL;
static enum { K_NONE, K_STUB, K_UNINIT, K_NOCODE, K_REAL } kind = K_NONE;
static size_t file_size = 0;
static lzma_index *fi_index = NULL, *enc_index = NULL;
static lzma_options_lzma opt_lzma;
static lzma_filter filters[2];
static lzma_mt mt_opts;

// ---- recording shim around a real coder's code function ----
static lzma_code_function real_code = NULL;
static struct {
	unsigned calls;
	const uint8_t *in; uint8_t *out;
	size_t in_pos0, in_size, out_pos0, out_size, c, p;
	lzma_action action;
	lzma_ret r;
	bool law_ok;
} rec;

static lzma_ret
shim_code(void *coder, const lzma_allocator *allocator, const uint8_t *restrict in, size_t *restrict in_pos,
		size_t in_size, uint8_t *restrict out, size_t *restrict out_pos, size_t out_size, lzma_action action)
{
	++rec.calls;
	rec.in = in; rec.out = out; rec.in_pos0 = *in_pos; rec.in_size = in_size;
	rec.out_pos0 = *out_pos; rec.out_size = out_size; rec.action = action;
	const lzma_ret r = real_code(coder, allocator, in, in_pos, in_size, out, out_pos, out_size, action);
	rec.law_ok = *in_pos >= rec.in_pos0 && *in_pos <= in_size && *out_pos >= rec.out_pos0 && *out_pos <= out_size;
	rec.c = *in_pos - rec.in_pos0;
	rec.p = *out_pos - rec.out_pos0;
	rec.r = r;
	return r;
}

// ---- optional callbacks of the stub ----
static uint64_t stub_memlimit = 5000, stub_mc_last = 0;
static unsigned stub_mc_calls = 0, stub_gp_calls = 0;

static lzma_ret
stub_memconfig(void *coder, uint64_t *memusage, uint64_t *old_memlimit, uint64_t new_memlimit)
{
	(void)coder;
	++stub_mc_calls;
	stub_mc_last = new_memlimit;
	*memusage = 1234;
	*old_memlimit = stub_memlimit;
	if (new_memlimit != 0) {
		if (new_memlimit < 1234)
			return LZMA_MEMLIMIT_ERROR;
		stub_memlimit = new_memlimit;
	}
	return LZMA_OK;
}

static void
stub_get_progress(void *coder, uint64_t *progress_in, uint64_t *progress_out)
{
	(void)coder;
	++stub_gp_calls;
	*progress_in = 777;
	*progress_out = 888;
}

// Reads a bool as a byte, so that an uninitialised/invalid value is REPORTED (and flagged by the checker) instead of
// tripping UBSan inside the harness.
static unsigned bool_byte(const bool *p) { unsigned char b; memcpy(&b, p, 1); return b; }

// ---- a 4 GiB + 1 MiB read-only input mapping for size_t-wide avail_in values (spec b:<off>:<len>) ----
// Never written, never backed by memory (reads see the shared zero page). Offsets into it are reported as
// C11_BIGBASE + off so that they cannot be confused with offsets into the ordinary input region.
#define C11_BIGSIZE ((((size_t)1) << 32) + (((size_t)1) << 20))
#define C11_BIGBASE (((uint64_t)1) << 40)
static uint8_t *bigmap = NULL;

static uint8_t *big_get(void)
{
	if (bigmap == NULL) {
		void *m = mmap(NULL, C11_BIGSIZE, PROT_READ, MAP_PRIVATE | MAP_ANONYMOUS | MAP_NORESERVE, -1, 0);
		if (m == MAP_FAILED) { perror("mmap"); exit(3); }
		bigmap = m;
	}
	return bigmap;
}

static bool in_big(const uint8_t *p)
{
	return bigmap != NULL && p >= bigmap && p <= bigmap + C11_BIGSIZE;
}

// ---- regions ----
static void region_free(region *r) { free(r->alloc); free(r->shadow); memset(r, 0, sizeof(*r)); }

static void region_make(region *r, size_t size, uint8_t guard)
{
	region_free(r);
	r->size = size;
	r->alloc = malloc(size + 2 * GUARD);
	r->shadow = malloc(size + 2 * GUARD);
	if (r->alloc == NULL || r->shadow == NULL) abort();
	memset(r->alloc, guard, size + 2 * GUARD);
	r->data = r->alloc + GUARD;
}

static void fill_pattern(uint8_t *p, size_t n)
{
	uint32_t x = 12345;
	for (size_t i = 0; i < n; ++i) {
		x = x * 1103515245u + 12345u;
		// mildly compressible: runs and a small alphabet
		p[i] = (i % 97 < 40) ? (uint8_t)('a' + (i / 7) % 5) : (uint8_t)(x >> 24);
	}
}

static void end_stream(void)
{
	lzma_end(&strm);
	lzma_index_end(fi_index, NULL); fi_index = NULL;
	lzma_index_end(enc_index, NULL); enc_index = NULL;
	real_code = NULL;
	stub = NULL;
}

static void print_new(const char *op, lzma_ret ret)
{
	printf("%s %u", op, (unsigned)ret);
	if (strm.internal == NULL) {
		printf(" seq=- abe=- tin=%" PRIu64 " tout=%" PRIu64 " sup=-", strm.total_in, strm.total_out);
	} else {
		unsigned m = 0;
		for (unsigned a = 0; a <= C11_ACTION_MAX; ++a)
			if (bool_byte(&strm.internal->supported_actions[a])) m |= 1u << a;
		const unsigned sq = c11_seq_index(&strm);
		printf(" seq=%s abe=%u tin=%" PRIu64 " tout=%" PRIu64 " sup=%u", sq < C11_NSEQ ? c11_seq_names[sq] : "UNKNOWN",
				bool_byte(&strm.internal->allow_buf_error), strm.total_in, strm.total_out, m);
	}
}

static void set_mask(unsigned mask)
{
	for (unsigned a = 0; a <= C11_ACTION_MAX; ++a)
		if ((mask >> a) & 1)
			strm.internal->supported_actions[a] = true;
}

static lzma_ret do_stub_init(unsigned mask, unsigned flags)
{
	const lzma_ret ret = c11_stub_init(&strm, &stub, mask);
	if (ret == LZMA_OK) {
		strm.internal->next.memconfig = (flags & 1) ? &stub_memconfig : NULL;
		strm.internal->next.get_progress = (flags & 2) ? &stub_get_progress : NULL;
		stub_memlimit = 5000;
	}
	return ret;
}

// Runs an encoder handle to completion over data (setup only).
static size_t run_to_end(lzma_stream *s, const uint8_t *data, size_t n, uint8_t *out, size_t cap)
{
	s->next_in = data; s->avail_in = n; s->next_out = out; s->avail_out = cap;
	lzma_ret r;
	do { r = lzma_code(s, LZMA_FINISH); } while (r == LZMA_OK);
	if (r != LZMA_STREAM_END) { fprintf(stderr, "setup encode failed %d\n", (int)r); exit(3); }
	const size_t produced = cap - s->avail_out;
	lzma_end(s);
	return produced;
}

static lzma_index *make_index(void)
{
	lzma_index *i = lzma_index_init(NULL);
	if (i == NULL) abort();
	for (unsigned k = 0; k < 40; ++k)
		if (lzma_index_append(i, NULL, 100 + 4 * k, 1000 + k) != LZMA_OK) abort();
	return i;
}

// Builds one lzip member around a raw LZMA1 stream (lc3 lp0 pb2, 64 KiB dictionary, end marker).
static size_t make_lzip(const uint8_t *plain, size_t n, uint8_t *out, size_t cap)
{
	if (cap < 64) { fprintf(stderr, "lzip cap\n"); exit(3); }
	lzma_options_lzma o;
	if (lzma_lzma_preset(&o, 0)) abort();
	o.dict_size = 1u << 16; o.lc = 3; o.lp = 0; o.pb = 2;
	lzma_filter f[2] = { { .id = LZMA_FILTER_LZMA1, .options = &o }, { .id = LZMA_VLI_UNKNOWN, .options = NULL } };
	memcpy(out, "LZIP", 4); out[4] = 1; out[5] = 0x10;
	lzma_stream t = LZMA_STREAM_INIT;
	if (lzma_raw_encoder(&t, f) != LZMA_OK) abort();
	size_t pos = 6 + run_to_end(&t, plain, n, out + 6, cap - 26);
	const uint32_t crc = lzma_crc32(plain, n, 0);
	for (unsigned i = 0; i < 4; ++i) out[pos++] = (uint8_t)(crc >> (8 * i));
	for (unsigned i = 0; i < 8; ++i) out[pos++] = (uint8_t)((uint64_t)n >> (8 * i));
	const uint64_t member = pos + 8;
	for (unsigned i = 0; i < 8; ++i) out[pos++] = (uint8_t)(member >> (8 * i));
	return pos;
}

static lzma_block blk_enc, blk_dec;

// new|reinit real <api> <variant> <datalen> <insz> <outsz> <corrupt>
// fresh: the handle is LZMA_STREAM_INIT. Otherwise the LIVE handle is initialised again for this coder without
// lzma_end() (allowed by the API); the application also resets its four buffer members because the regions change.
static bool new_real(bool fresh, const char *api, unsigned variant, size_t datalen, size_t insz, size_t outsz, long corrupt, lzma_ret *retp)
{
	if (!fresh) {
		// undo the recording shim so that the library sees its own function pointer again
		if (strm.internal != NULL && real_code != NULL)
			strm.internal->next.code = real_code;
		strm.next_in = NULL; strm.avail_in = 0;
		strm.next_out = NULL; strm.avail_out = 0;
	}
	real_code = NULL;
	stub = NULL;
	lzma_index *const old_enc_index = enc_index;
	enc_index = NULL;
	lzma_index_end(fi_index, NULL);
	fi_index = NULL;
	region_make(&rin, insz, 0xC3);
	region_make(&rout, outsz, 0x3C);
	memset(rin.data, 0, insz);
	memset(rout.data, 0x55, outsz);
	if (datalen > insz) return false;
	uint8_t *plain = malloc(datalen ? datalen : 1);
	if (plain == NULL) abort();
	fill_pattern(plain, datalen);
	if (lzma_lzma_preset(&opt_lzma, 0)) abort();
	opt_lzma.dict_size = 1u << 16;
	filters[0].id = LZMA_FILTER_LZMA2; filters[0].options = &opt_lzma;
	filters[1].id = LZMA_VLI_UNKNOWN; filters[1].options = NULL;
	mt_opts = (lzma_mt){ .flags = 0, .threads = 2, .block_size = 256, .timeout = 1, .preset = 0, .filters = filters,
			.check = LZMA_CHECK_CRC32, .memlimit_threading = UINT64_MAX, .memlimit_stop = UINT64_MAX };
	if (fresh)
		strm = (lzma_stream)LZMA_STREAM_INIT;
	size_t enc = 0;        // size of the encoded input placed in rin (decoders)
	lzma_ret ret = LZMA_PROG_ERROR;
	bool is_dec = false;
	lzma_stream tmp = LZMA_STREAM_INIT;

	if (!strcmp(api, "lzma_easy_encoder")) {
		memcpy(rin.data, plain, datalen);
		ret = lzma_easy_encoder(&strm, 0, LZMA_CHECK_CRC32);
	} else if (!strcmp(api, "lzma_stream_encoder")) {
		memcpy(rin.data, plain, datalen);
		ret = lzma_stream_encoder(&strm, filters, LZMA_CHECK_CRC64);
	} else if (!strcmp(api, "lzma_stream_encoder_mt")) {
		memcpy(rin.data, plain, datalen);
		ret = lzma_stream_encoder_mt(&strm, &mt_opts);
	} else if (!strcmp(api, "lzma_alone_encoder")) {
		memcpy(rin.data, plain, datalen);
		ret = lzma_alone_encoder(&strm, &opt_lzma);
	} else if (!strcmp(api, "lzma_raw_encoder")) {
		memcpy(rin.data, plain, datalen);
		ret = lzma_raw_encoder(&strm, filters);
	} else if (!strcmp(api, "lzma_microlzma_encoder")) {
		memcpy(rin.data, plain, datalen);
		ret = lzma_microlzma_encoder(&strm, &opt_lzma);
	} else if (!strcmp(api, "lzma_block_encoder")) {
		memcpy(rin.data, plain, datalen);
		blk_enc = (lzma_block){ .version = 0, .check = LZMA_CHECK_CRC32, .filters = filters };
		ret = lzma_block_encoder(&strm, &blk_enc);
	} else if (!strcmp(api, "lzma_index_encoder")) {
		enc_index = make_index();
		ret = lzma_index_encoder(&strm, enc_index);
	} else {
		is_dec = true;
		if (!strcmp(api, "lzma_alone_decoder")) {
			if (lzma_alone_encoder(&tmp, &opt_lzma) != LZMA_OK) abort();
			enc = run_to_end(&tmp, plain, datalen, rin.data, insz);
			ret = lzma_alone_decoder(&strm, UINT64_MAX);
		} else if (!strcmp(api, "lzma_raw_decoder")) {
			if (lzma_raw_encoder(&tmp, filters) != LZMA_OK) abort();
			enc = run_to_end(&tmp, plain, datalen, rin.data, insz);
			ret = lzma_raw_decoder(&strm, filters);
		} else if (!strcmp(api, "lzma_block_decoder")) {
			uint8_t *tmpbuf = malloc(insz + 64);
			if (tmpbuf == NULL) abort();
			size_t pos = 0;
			blk_dec = (lzma_block){ .version = 0, .check = LZMA_CHECK_CRC32, .filters = filters };
			if (lzma_block_buffer_encode(&blk_dec, NULL, plain, datalen, tmpbuf, &pos, insz + 64) != LZMA_OK) { fprintf(stderr, "block encode\n"); exit(3); }
			enc = pos - blk_dec.header_size;
			if (enc > insz) { fprintf(stderr, "block too big\n"); exit(3); }
			memcpy(rin.data, tmpbuf + blk_dec.header_size, enc);
			free(tmpbuf);
			ret = lzma_block_decoder(&strm, &blk_dec);
		} else if (!strcmp(api, "lzma_microlzma_decoder")) {
			if (datalen == 0) { free(plain); return false; }
			if (lzma_microlzma_encoder(&tmp, &opt_lzma) != LZMA_OK) abort();
			enc = run_to_end(&tmp, plain, datalen, rin.data, insz);
			ret = lzma_microlzma_decoder(&strm, enc, datalen, true, 1u << 16);
		} else if (!strcmp(api, "lzma_lzip_decoder")) {
			enc = make_lzip(plain, datalen, rin.data, insz);
			ret = lzma_lzip_decoder(&strm, UINT64_MAX, 0);
		} else if (!strcmp(api, "lzma_index_decoder")) {
			lzma_index *i = make_index();
			if (lzma_index_buffer_encode(i, rin.data, &enc, insz) != LZMA_OK) { fprintf(stderr, "index encode\n"); exit(3); }
			lzma_index_end(i, NULL);
			ret = lzma_index_decoder(&strm, &fi_index, UINT64_MAX);
		} else {
			// .xz input: one multi-block stream (the rest of the region is zero = stream padding)
			if (lzma_stream_encoder_mt(&tmp, &(lzma_mt){ .threads = 1, .block_size = 300, .preset = 0,
					.check = LZMA_CHECK_CRC32 }) != LZMA_OK) abort();
			enc = run_to_end(&tmp, plain, datalen, rin.data, insz);
			if (!strcmp(api, "lzma_stream_decoder")) {
				const uint32_t flags = variant == 1 ? (LZMA_TELL_ANY_CHECK | LZMA_CONCATENATED) : 0;
				ret = lzma_stream_decoder(&strm, variant == 2 ? 1 : UINT64_MAX, flags);
			} else if (!strcmp(api, "lzma_stream_decoder_mt")) {
				mt_opts.flags = variant == 1 ? (LZMA_TELL_ANY_CHECK | LZMA_CONCATENATED) : 0;
				mt_opts.filters = NULL;
				ret = lzma_stream_decoder_mt(&strm, &mt_opts);
			} else if (!strcmp(api, "lzma_auto_decoder")) {
				ret = lzma_auto_decoder(&strm, UINT64_MAX, variant == 1 ? LZMA_CONCATENATED : 0);
			} else if (!strcmp(api, "lzma_file_info_decoder")) {
				ret = lzma_file_info_decoder(&strm, &fi_index, UINT64_MAX, enc);
			} else {
				free(plain);
				return false;
			}
		}
	}
	free(plain);
	lzma_index_end(old_enc_index, NULL);
	file_size = enc;
	if (is_dec && corrupt >= 0 && (size_t)corrupt < enc)
		rin.data[corrupt] ^= 0x5A;
	*retp = ret;
	if (ret == LZMA_OK) {
		real_code = strm.internal->next.code;
		strm.internal->next.code = &shim_code;
		memset(&rec, 0, sizeof(rec));
	}
	return true;
}

// ---- buffer specs ----
// Returns false on a malformed/infeasible spec.
static bool apply_spec(const char *spec, bool is_in)
{
	region *r = is_in ? &rin : &rout;
	const uint8_t *cur = is_in ? strm.next_in : strm.next_out;
	size_t avail = is_in ? strm.avail_in : strm.avail_out;
	const uint8_t *np = cur;
	if (!strcmp(spec, "k")) {
		return true;
	} else if (spec[0] == 's' && spec[1] == ':') {
		char *e; const size_t off = strtoull(spec + 2, &e, 10);
		if (*e != ':') return false;
		const size_t len = strtoull(e + 1, NULL, 10);
		if (off > r->size || len > r->size - off) return false;
		np = r->data + off; avail = len;
	} else if (spec[0] == 'n' && spec[1] == ':') {
		np = NULL; avail = strtoull(spec + 2, NULL, 10);
	} else if (is_in && spec[0] == 'b' && spec[1] == ':') {
		char *e; const size_t off = strtoull(spec + 2, &e, 10);
		if (*e != ':') return false;
		const size_t len = strtoull(e + 1, NULL, 10);
		if (off > C11_BIGSIZE || len > C11_BIGSIZE - off) return false;
		np = big_get() + off; avail = len;
	} else if (spec[0] == 'd' && spec[1] == ':' && spec[2] == '+') {
		avail += strtoull(spec + 3, NULL, 10);
		if (cur != NULL && in_big(cur)) {
			if ((size_t)(cur - bigmap) + avail > C11_BIGSIZE) return false;
		} else if (cur != NULL && (size_t)(cur - r->data) + avail > r->size) return false;
	} else if (spec[0] == 'd' && spec[1] == ':' && spec[2] == '-') {
		const size_t x = strtoull(spec + 3, NULL, 10);
		avail = avail >= x ? avail - x : 0;
	} else if (is_in && spec[0] == 'z' && spec[1] == ':') {
		size_t len = strtoull(spec + 2, NULL, 10);
		if (strm.seek_pos > file_size) return false;
		if (len > file_size - strm.seek_pos) len = file_size - strm.seek_pos;
		np = r->data + strm.seek_pos; avail = len;
	} else {
		return false;
	}
	if (is_in) { strm.next_in = np; strm.avail_in = avail; }
	else { strm.next_out = (uint8_t *)np; strm.avail_out = avail; }
	return true;
}

static bool apply_reserved(const char *spec)
{
	strm.reserved_ptr1 = strm.reserved_ptr2 = strm.reserved_ptr3 = strm.reserved_ptr4 = NULL;
	strm.reserved_int2 = 0; strm.reserved_int3 = 0; strm.reserved_int4 = 0;
	strm.reserved_enum1 = LZMA_RESERVED_ENUM; strm.reserved_enum2 = LZMA_RESERVED_ENUM;
	if (!strcmp(spec, "-")) return true;
	char *e; const unsigned idx = (unsigned)strtoul(spec, &e, 10);
	if (*e != ':') return false;
	const unsigned long long v = strtoull(e + 1, NULL, 10);
	switch (idx) {
	case 0: strm.reserved_ptr1 = (void *)(uintptr_t)v; break;
	case 1: strm.reserved_ptr2 = (void *)(uintptr_t)v; break;
	case 2: strm.reserved_ptr3 = (void *)(uintptr_t)v; break;
	case 3: strm.reserved_ptr4 = (void *)(uintptr_t)v; break;
	case 4: strm.reserved_int2 = v; break;
	case 5: strm.reserved_int3 = (size_t)v; break;
	case 6: strm.reserved_int4 = (size_t)v; break;
	case 7: strm.reserved_enum1 = (lzma_reserved_enum)(unsigned)v; break;
	case 8: strm.reserved_enum2 = (lzma_reserved_enum)(unsigned)v; break;
	default: return false;
	}
	return true;
}

static void put_off(const char *name, const uint8_t *p, const region *r)
{
	if (p == NULL) printf(" %s=N", name);
	else if (in_big(p)) printf(" %s=%" PRIu64, name, C11_BIGBASE + (uint64_t)(p - bigmap));
	else printf(" %s=%td", name, p - r->data);
}

static void put_off_bare(const uint8_t *p, const region *r)
{
	if (p == NULL) printf("N");
	else if (in_big(p)) printf("%" PRIu64, C11_BIGBASE + (uint64_t)(p - bigmap));
	else printf("%td", p - r->data);
}

static void do_call(hp_line *l)
{
	if (kind == K_NONE || l->ntok != 9) { printf("bad-op call\n"); return; }
	const unsigned action = (unsigned)strtoul(l->tok[1], NULL, 10);
	if (!apply_spec(l->tok[2], true) || !apply_spec(l->tok[3], false) || !apply_reserved(l->tok[4])) {
		printf("bad-op spec\n");
		return;
	}
	if (strcmp(l->tok[5], "-")) {
		char *e; strm.total_in = strtoull(l->tok[5], &e, 10);
		if (*e != ':') { printf("bad-op tot\n"); return; }
		strm.total_out = strtoull(e + 1, NULL, 10);
	}
	unsigned calls0 = 0;
	if (kind == K_STUB && stub != NULL) {
		stub->want_c = (size_t)hp_u64(l->tok[6]);
		stub->want_p = (size_t)hp_u64(l->tok[7]);
		stub->want_ret = (lzma_ret)(unsigned)hp_u64(l->tok[8]);
		calls0 = stub->calls;
	} else if (kind == K_REAL) {
		calls0 = rec.calls;
	}
	const lzma_stream pre = strm;
	memcpy(rin.shadow, rin.alloc, rin.size + 2 * GUARD);
	memcpy(rout.shadow, rout.alloc, rout.size + 2 * GUARD);

	// Real coders get every slice as an EXACT-SIZE heap block (ASan sees any access past the slice the application
	// supplied, also when more data follows in the region); positions are translated back to region offsets afterwards.
	uint8_t *xin = NULL, *xout = NULL;
	if (kind == K_REAL) {
		if (pre.next_in != NULL) {
			xin = malloc(pre.avail_in ? pre.avail_in : 1);
			if (xin == NULL) abort();
			memcpy(xin, pre.next_in, pre.avail_in);
			strm.next_in = xin;
		}
		if (pre.next_out != NULL) {
			xout = malloc(pre.avail_out ? pre.avail_out : 1);
			if (xout == NULL) abort();
			memset(xout, 0xEE, pre.avail_out);
			strm.next_out = xout;
		}
	}

	const lzma_ret ret = lzma_code(&strm, (lzma_action)action);

	if (xin != NULL) {
		const uintptr_t adv = (uintptr_t)strm.next_in - (uintptr_t)xin;
		strm.next_in = (const uint8_t *)((uintptr_t)pre.next_in + adv);
		if (rec.in == xin) rec.in = pre.next_in;
		free(xin);
	}
	if (xout != NULL) {
		const uintptr_t adv = (uintptr_t)strm.next_out - (uintptr_t)xout;
		if (adv <= pre.avail_out)
			memcpy(pre.next_out, xout, adv);
		strm.next_out = (uint8_t *)((uintptr_t)pre.next_out + adv);
		if (rec.out == xout) rec.out = pre.next_out;
		free(xout);
	}

	bool called = false, law_ok = true;
	if (kind == K_STUB && strm.internal != NULL && stub != NULL && stub->calls != calls0) {
		called = true;
		rec.in = stub->in; rec.out = stub->out; rec.in_pos0 = stub->in_pos0; rec.in_size = stub->in_size;
		rec.out_pos0 = stub->out_pos0; rec.out_size = stub->out_size; rec.action = stub->action;
		rec.c = stub->did_c; rec.p = stub->did_p; rec.r = stub->want_ret;
		if (stub->calls != calls0 + 1) law_ok = false;   // called more than once by one lzma_code
	} else if (kind == K_REAL && rec.calls != calls0) {
		called = true;
		law_ok = rec.law_ok && rec.calls == calls0 + 1;
	}
	// memory outside the output window that the inner coder reported must be untouched; input never written
	bool guard_ok = memcmp(rin.shadow, rin.alloc, rin.size + 2 * GUARD) == 0;
	{
		size_t w0 = 0, w1 = 0;   // window in alloc coordinates
		if (called && pre.next_out != NULL && rec.p > 0) {
			w0 = (size_t)(pre.next_out - rout.alloc);
			w1 = w0 + rec.p;
		}
		const size_t total = rout.size + 2 * GUARD;
		if (w1 > total) guard_ok = false;
		else if (memcmp(rout.shadow, rout.alloc, w0) != 0
				|| memcmp(rout.shadow + w1, rout.alloc + w1, total - w1) != 0) guard_ok = false;
	}

	printf("%u", (unsigned)ret);
	put_off("nin", strm.next_in, &rin);
	printf(" ain=%zu tin=%" PRIu64, strm.avail_in, strm.total_in);
	put_off("nout", strm.next_out, &rout);
	printf(" aout=%zu tout=%" PRIu64, strm.avail_out, strm.total_out);
	if (strm.internal == NULL) {
		printf(" seq=- abe=- sav=-");
	} else {
		const unsigned sq = c11_seq_index(&strm);   // symbolic, see c11_stub.h
		printf(" seq=%s abe=%u", sq < C11_NSEQ ? c11_seq_names[sq] : "UNKNOWN", bool_byte(&strm.internal->allow_buf_error));
		if (sq >= 1 && sq <= 4) printf(" sav=%zu", strm.internal->avail_in);
		else printf(" sav=-");
	}
	if (called) {
		printf(" args=");
		put_off_bare(rec.in, &rin);
		printf(",%zu,", rec.in_size);
		put_off_bare(rec.out, &rout);
		printf(",%zu,%u,%zu,%zu", rec.out_size, (unsigned)rec.action, rec.in_pos0, rec.out_pos0);
	} else {
		printf(" args=-");
	}
	// the reserved members and the allocator pointer are never written by lzma_code
	const bool resv_same = strm.reserved_ptr1 == pre.reserved_ptr1 && strm.reserved_ptr2 == pre.reserved_ptr2
			&& strm.reserved_ptr3 == pre.reserved_ptr3 && strm.reserved_ptr4 == pre.reserved_ptr4
			&& strm.reserved_int2 == pre.reserved_int2 && strm.reserved_int3 == pre.reserved_int3
			&& strm.reserved_int4 == pre.reserved_int4 && strm.reserved_enum1 == pre.reserved_enum1
			&& strm.reserved_enum2 == pre.reserved_enum2 && strm.allocator == pre.allocator
			&& ((strm.internal == NULL) == (pre.internal == NULL));   // (the address itself is the library's business)
	printf(" # guard=%s law=%s", (guard_ok && resv_same) ? "ok" : "BAD", law_ok ? "ok" : "BAD");
	if (called) printf(" inner=%zu,%zu,%u", rec.c, rec.p, (unsigned)rec.r);
	else printf(" inner=-");
	printf(" pre=");
	put_off_bare(pre.next_in, &rin);
	printf(",%zu,", pre.avail_in);
	put_off_bare(pre.next_out, &rout);
	printf(",%zu\n", pre.avail_out);
}

int main(int argc, char **argv)
{
	(void)argv;
	// with an argument: flush after every answer (interactive sessions driven by tools/props/c11.py)
	const bool interactive = argc > 1;
	hp_line l = {0};
	while ((interactive ? fflush(stdout) : 0), hp_next(&l)) {
		const char *op = l.tok[0];
		if (!strcmp(op, "call")) {
			do_call(&l);
		} else if ((!strcmp(op, "new") || !strcmp(op, "reinit")) && l.ntok >= 2) {
			const bool fresh = !strcmp(op, "new");
			const char *k = l.tok[1];
			if (fresh) {
				end_stream();
				strm = (lzma_stream)LZMA_STREAM_INIT;
				kind = K_NONE;
			} else if (kind == K_NONE || (strcmp(k, "stub") && strcmp(k, "real"))) {
				printf("bad-op reinit\n");
				continue;
			}
			if (!strcmp(k, "stub") && l.ntok == 4) {
				if (fresh) {
					region_make(&rin, 64, 0xC3);
					region_make(&rout, 64, 0x3C);
					for (size_t i = 0; i < 64; ++i) rin.data[i] = (uint8_t)(i * 131 + 7);
					memset(rout.data, 0x55, 64);
				}
				if (strm.internal != NULL && real_code != NULL)
					strm.internal->next.code = real_code;   // undo the recording shim first
				real_code = NULL;
				const lzma_ret ret = do_stub_init((unsigned)hp_u64(l.tok[2]), (unsigned)hp_u64(l.tok[3]));
				kind = K_STUB;
				print_new(op, ret);
				printf("\n");
			} else if (!strcmp(k, "uninit") && l.ntok == 2) {
				region_make(&rin, 64, 0xC3);
				region_make(&rout, 64, 0x3C);
				kind = K_UNINIT;
				print_new(op, LZMA_OK);
				printf("\n");
			} else if (!strcmp(k, "nocode") && l.ntok == 3) {
				region_make(&rin, 64, 0xC3);
				region_make(&rout, 64, 0x3C);
				const lzma_ret ret = lzma_strm_init(&strm);
				if (ret == LZMA_OK) set_mask((unsigned)hp_u64(l.tok[2]));
				kind = K_NOCODE;
				print_new(op, ret);
				printf("\n");
			} else if (!strcmp(k, "real") && l.ntok == 8) {
				lzma_ret ret = LZMA_PROG_ERROR;
				if (!new_real(fresh, l.tok[2], (unsigned)hp_u64(l.tok[3]), (size_t)hp_u64(l.tok[4]), (size_t)hp_u64(l.tok[5]),
						(size_t)hp_u64(l.tok[6]), strtol(l.tok[7], NULL, 10), &ret)) {
					printf("bad-op real\n");
					continue;
				}
				kind = K_REAL;
				print_new(op, ret);
				printf(" # enc=%zu\n", file_size);
			} else {
				printf("bad-op new\n");
			}
		} else if (!strcmp(op, "end")) {
			const unsigned e0 = c11_stub_ends;
			const bool had = kind == K_STUB && strm.internal != NULL;
			end_stream();
			printf("end # stub_end_calls=%u expected=%u\n", c11_stub_ends - e0, had ? 1u : 0u);
		} else if (!strcmp(op, "progress") && kind != K_NONE) {
			if (strm.internal == NULL) { printf("bad-op progress\n"); continue; }
			uint64_t a = 0, b = 0;
			lzma_get_progress(&strm, &a, &b);
			printf("progress %" PRIu64 " %" PRIu64 "\n", a, b);
		} else if (!strcmp(op, "memusage") && kind != K_NONE) {
			printf(kind == K_REAL ? "memusage # v=%" PRIu64 "\n" : "memusage %" PRIu64 "\n", lzma_memusage(&strm));
		} else if (!strcmp(op, "memlimit_get") && kind != K_NONE) {
			printf(kind == K_REAL ? "memlimit_get # v=%" PRIu64 "\n" : "memlimit_get %" PRIu64 "\n", lzma_memlimit_get(&strm));
		} else if (!strcmp(op, "memlimit_set") && l.ntok == 2 && kind != K_NONE) {
			const unsigned c0 = stub_mc_calls;
			const lzma_ret ret = lzma_memlimit_set(&strm, hp_u64(l.tok[1]));
			if (kind == K_REAL) {
				printf("memlimit_set # ret=%u\n", (unsigned)ret);
			} else {
				printf("memlimit_set %u ", (unsigned)ret);
				if (stub_mc_calls != c0) printf("%" PRIu64 "\n", stub_mc_last);
				else printf("-\n");
			}
		} else {
			printf("bad-op\n");
		}
	}
	end_stream();
	region_free(&rin);
	region_free(&rout);
	hp_done(&l);
	return 0;
}
