// C19 harness, translation unit 2: the REAL src/xz/file_io.c, included textually (io_open_src_real, io_open_dest_real,
// io_copy_attrs, io_unlink, io_close are static or use static state).
//
// fchown/fchmod/futimens are routed through wrappers so that (a) io_copy_attrs() can be evaluated as a pure function of
// the source mode over ALL 4096 mode values x {group settable, not settable} without touching the file system, and
// (b) the "cannot set the group" branch can be forced on the real file system although the harness runs as root.
// POSIX build: the TUKLIB_DOSLIKE / __DJGPP__ / __VMS / _MSC_VER branches of file_io.c are compiled out.
#include "sysdefs.h"
#include <sys/types.h>
#include <sys/stat.h>
#include <sys/socket.h>
#include <sys/un.h>
#include <fcntl.h>
#include <unistd.h>
#include <poll.h>
#include <libgen.h>
#include <errno.h>
#include <string.h>

#include "c19.h"

static bool c19_sim;            // true: no system call, just record
static bool c19_group_fail;     // fchown(fd, -1, gid) fails with EPERM
static bool c19_owner_fail;     // fchown(fd, uid, -1) fails with EPERM
static unsigned c19_seen_mode;
static int c19_fchmod_calls;

static int
c19_fchown(int fd, uid_t u, gid_t g)
{
	if (u == (uid_t)(-1) && g != (gid_t)(-1) && c19_group_fail) {
		errno = EPERM;
		return -1;
	}
	if (u != (uid_t)(-1) && g == (gid_t)(-1) && c19_owner_fail) {
		errno = EPERM;
		return -1;
	}
	return c19_sim ? 0 : (fchown)(fd, u, g);
}

static int
c19_fchmod(int fd, mode_t m)
{
	c19_seen_mode = (unsigned)m;
	++c19_fchmod_calls;
	return c19_sim ? 0 : (fchmod)(fd, m);
}

static int
c19_futimens(int fd, const struct timespec tv[2])
{
	return c19_sim ? 0 : (futimens)(fd, tv);
}

#define fchown c19_fchown
#define fchmod c19_fchmod
#define futimens c19_futimens
#include "file_io.c"
#undef fchown
#undef fchmod
#undef futimens


void
c19_io_init(void)
{
	io_init();
}


unsigned
c19_copy_attrs_mode(unsigned src_mode, bool gid_same, bool group_fail, bool owner_fail, bool as_root)
{
	static char dn[] = "(dest)";
	file_pair pair;
	memset(&pair, 0, sizeof(pair));
	pair.src_name = "(src)";
	pair.dest_name = dn;
	pair.src_fd = -1;
	pair.dest_fd = -1;
	pair.dir_fd = -1;
	pair.src_st.st_mode = (mode_t)(S_IFREG | src_mode);
	pair.src_st.st_uid = 1000;
	pair.src_st.st_gid = 1000;
	pair.dest_st.st_mode = S_IFREG | 0600;
	pair.dest_st.st_gid = gid_same ? 1000 : 2000;
	const bool saved = warn_fchown;
	warn_fchown = as_root;
	c19_sim = true;
	c19_group_fail = group_fail;
	c19_owner_fail = owner_fail;
	c19_seen_mode = 0xFFFFFFFFu;
	c19_fchmod_calls = 0;
	io_copy_attrs(&pair);
	c19_sim = false;
	c19_group_fail = false;
	c19_owner_fail = false;
	warn_fchown = saved;
	return c19_fchmod_calls == 1 ? c19_seen_mode : 0xFFFFFFFFu;
}


static int
classify(void)
{
	if (c19_n_warn + c19_n_err == 0)
		return C19_OK;
	return c19_first_code;
}


int
c19_open_src(const char *name, bool opt_c, bool opt_f, bool opt_k)
{
	opt_stdout = opt_c;
	opt_force = opt_f;
	opt_keep_original = opt_k;
	opt_mode = MODE_COMPRESS;
	c19_msg_reset();
	file_pair *pair = io_open_src(name);
	if (pair == NULL)
		return classify() == C19_OK ? C19_E_OTHER : classify();
	(void)close(pair->src_fd);
	return classify();
}


int
c19_cycle(int mode, int format, const char *name, bool opt_c, bool opt_f, bool opt_k,
		bool group_fail, bool owner_fail, const void *payload, size_t payload_size,
		int *stage, char **dest_name_out)
{
	opt_stdout = opt_c;
	opt_force = opt_f;
	opt_keep_original = opt_k;
	opt_synchronous = false;
	opt_mode = (enum operation_mode)mode;
	opt_format = (enum format_type)format;
	*dest_name_out = NULL;
	c19_msg_reset();

	file_pair *pair = io_open_src(name);
	if (pair == NULL) {
		*stage = 0;
		return classify() == C19_OK ? C19_E_OTHER : classify();
	}

	if (io_open_dest(pair)) {
		*stage = 1;
		const int code = classify() == C19_OK ? C19_E_OTHER : classify();
		io_close(pair, false);
		return code;
	}

	if (pair->dest_fd != STDOUT_FILENO) {
		*dest_name_out = strdup(pair->dest_name);
		if (payload_size > 0 && write(pair->dest_fd, payload, payload_size) != (ssize_t)payload_size)
			abort();
	}

	c19_msg_reset();
	c19_group_fail = group_fail;
	c19_owner_fail = owner_fail;
	io_close(pair, true);
	c19_group_fail = false;
	c19_owner_fail = false;
	*stage = 2;
	return classify();
}


// ---- stage G: tabulate the refusal rules by running the real functions on real file-system objects ------------

enum { K_REG = 0, K_DIR = 1, K_FIFO = 2, K_SOCK = 3, K_MISSING = 4 };

static void
rm_all(void)
{
	(void)unlink("l");
	(void)unlink("h");
	(void)unlink("o.xz");
	(void)unlink("t");
	(void)rmdir("o.xz");
	if (unlink("o") != 0)
		(void)rmdir("o");
}

static int
mk_object(int kind, unsigned bits, bool multi, bool sym)
{
	int keep_fd = -1;
	const mode_t m = (mode_t)(0644 | (bits << 9));
	switch (kind) {
	case K_REG: {
		int fd = open("o", O_WRONLY | O_CREAT | O_EXCL, 0600);
		if (fd < 0 || write(fd, "data", 4) != 4)
			abort();
		close(fd);
		break;
	}
	case K_DIR:
		if (mkdir("o", 0700))
			abort();
		break;
	case K_FIFO:
		if (mkfifo("o", 0600))
			abort();
		// hold a writer and one byte of data so that io_wait() (reached with --stdout) returns at once
		keep_fd = open("o", O_RDWR | O_NONBLOCK);
		if (keep_fd < 0 || write(keep_fd, "x", 1) != 1)
			abort();
		break;
	case K_SOCK: {
		int s = socket(AF_UNIX, SOCK_STREAM, 0);
		struct sockaddr_un a;
		memset(&a, 0, sizeof(a));
		a.sun_family = AF_UNIX;
		strcpy(a.sun_path, "o");
		if (s < 0 || bind(s, (struct sockaddr *)&a, sizeof(a)))
			abort();
		close(s);
		break;
	}
	default:
		break;
	}
	if (kind != K_MISSING && chmod("o", m))
		abort();
	if (multi && link("o", "h"))
		abort();
	if (sym && symlink("o", "l"))
		abort();
	return keep_fd;
}

static int
src_code(int code)
{
	if (code != C19_E_ERRNO)
		return code;
	switch (c19_last_errno) {
	case ENOENT: return 21;
	case ENXIO: return 22;
	case ELOOP: return 23;
	default: return 29;
	}
}

void
c19_probe_files(FILE *f, const char *scratch_dir)
{
	if (chdir(scratch_dir))
		abort();
	rm_all();

	fprintf(f, "/-- io_open_src() run on real file-system objects, over the whole finite domain.\n"
		"    srcRows[2*kind + symlink] (kind: 0 reg, 1 dir, 2 fifo, 3 socket, 4 missing; symlink: the path is a symlink to it)\n"
		"    lists the result for index i = 16*bits + 8*multi + flags, bits = 4*setuid + 2*setgid + sticky, multi = second hard link,\n"
		"    flags = 4*stdout + 2*force + keep. Result: 0 opened; warnings (file skipped) 1 symlink, 2 directory, 3 not regular,\n"
		"    4 setuid/setgid, 5 sticky, 6 hard links; errors 21 ENOENT, 22 ENXIO, 23 ELOOP, 29 other; 99 = combination that cannot\n"
		"    be constructed (hard-linked directory, mode bits of a missing file). -/\n");
	int chunk = 0;
	for (int kind = 0; kind <= K_MISSING; ++kind)
	for (int sym = 0; sym <= 1; ++sym) {
		fprintf(f, "def srcRows%d : List Nat := [", chunk++);
		for (unsigned bits = 0; bits < 8; ++bits)
		for (int multi = 0; multi <= 1; ++multi)
		for (unsigned fl = 0; fl < 8; ++fl) {
			const unsigned idx = 16 * bits + 8 * (unsigned)multi + fl;
			int code = 99;
			if (!((kind == K_MISSING && (bits != 0 || multi)) || (kind == K_DIR && multi))) {
				const int keep_fd = mk_object(kind, bits, multi, sym);
				code = src_code(c19_open_src(sym ? "l" : "o", (fl & 4) != 0, (fl & 2) != 0, (fl & 1) != 0));
				if (keep_fd >= 0)
					close(keep_fd);
				rm_all();
			}
			fprintf(f, "%s%s%d", idx ? "," : "", (idx % 16) ? " " : "\n  ", code);
		}
		fprintf(f, "]\n");
	}
	fprintf(f, "def srcRows : List (List Nat) := [");
	for (int i = 0; i < chunk; ++i)
		fprintf(f, "%ssrcRows%d", i ? ", " : "", i);
	fprintf(f, "]\n\n");

	// Destination rules: a regular source "o" (mode 0644, one link), compressing to "o.xz"; what already sits at "o.xz"?
	fprintf(f, "/-- io_open_src + io_open_dest + io_close(success) run on a regular source `o` with something already at `o.xz`:\n"
		"    row = [what is at the target (0 nothing, 1 regular file, 2 directory, 3 symlink to a file, 4 dangling symlink),\n"
		"    --stdout, --force, --keep, stage (1 destination refused, 2 done), message (0 none, 20 errno EEXIST, 21 cannot remove),\n"
		"    old target object untouched (1) or gone/replaced (0) (1 when there was none), a new regular file exists at the target,\n"
		"    source removed]. -/\n");
	fprintf(f, "def destRows : List (List Nat) := [");
	bool first = true;
	for (int dk = 0; dk <= 4; ++dk)
	for (unsigned fl = 0; fl < 8; ++fl) {
		(void)mk_object(K_REG, 0, false, false);
		struct stat old_st;
		memset(&old_st, 0, sizeof(old_st));
		switch (dk) {
		case 1: { int fd = open("o.xz", O_WRONLY | O_CREAT | O_EXCL, 0600); if (fd < 0 || write(fd, "old", 3) != 3) abort(); close(fd); break; }
		case 2: if (mkdir("o.xz", 0700)) abort(); break;
		case 3: { int fd = open("t", O_WRONLY | O_CREAT | O_EXCL, 0600); if (fd < 0 || write(fd, "old", 3) != 3) abort(); close(fd);
			  if (symlink("t", "o.xz")) abort(); break; }
		case 4: if (symlink("nonexistent", "o.xz")) abort(); break;
		default: break;
		}
		if (dk != 0 && lstat("o.xz", &old_st))
			abort();
		c19_set_suffix(NULL);
		int stage = -1;
		char *dn = NULL;
		const int code = c19_cycle(MODE_COMPRESS, FORMAT_XZ, "o", (fl & 4) != 0, (fl & 2) != 0, (fl & 1) != 0,
				false, false, "new", 3, &stage, &dn);
		free(dn);
		int mcode = code == C19_E_ERRNO ? (c19_last_errno == EEXIST ? 20 : 29) : code == C19_E_REMOVE ? 21 : code;
		struct stat now;
		int untouched = 1;
		if (dk != 0) {
			// identity by content / link text (a freed inode number may be reused by the new file)
			char buf[64];
			ssize_t n;
			untouched = lstat("o.xz", &now) == 0 && (now.st_mode & S_IFMT) == (old_st.st_mode & S_IFMT);
			if (untouched && dk == 1) {
				int fd = open("o.xz", O_RDONLY);
				n = fd < 0 ? -1 : read(fd, buf, sizeof(buf));
				if (fd >= 0) close(fd);
				untouched = n == 3 && memcmp(buf, "old", 3) == 0;
			}
			if (untouched && (dk == 3 || dk == 4)) {
				n = readlink("o.xz", buf, sizeof(buf));
				untouched = dk == 3 ? (n == 1 && buf[0] == 't') : (n == 11 && memcmp(buf, "nonexistent", 11) == 0);
			}
			if (dk == 3) {
				// the file the symlink points to must never be written through or removed
				int fd = open("t", O_RDONLY | O_NOFOLLOW);
				n = fd < 0 ? -1 : read(fd, buf, sizeof(buf));
				if (fd >= 0) close(fd);
				if (!(n == 3 && memcmp(buf, "old", 3) == 0))
					untouched = 2;
			}
		}
		int newreg = 0;
		if (lstat("o.xz", &now) == 0 && S_ISREG(now.st_mode)) {
			char buf[64];
			int fd = open("o.xz", O_RDONLY | O_NOFOLLOW);
			ssize_t n = fd < 0 ? -1 : read(fd, buf, sizeof(buf));
			if (fd >= 0) close(fd);
			newreg = n == 3 && memcmp(buf, "new", 3) == 0;
		}
		int src_removed = lstat("o", &now) != 0;
		rm_all();
		fprintf(f, "%s\n  [%d,%u,%u,%u,%d,%d,%d,%d,%d]", first ? "" : ",", dk, (fl >> 2) & 1, (fl >> 1) & 1, fl & 1,
				stage, mcode, untouched, newreg, src_removed);
		first = false;
	}
	fprintf(f, "]\n\n");

	// io_copy_attrs(): the mode handed to fchmod for all 4096 mode values, group settable / not settable.
	static const char *const nm[3] = { "modeSameGid", "modeGroupSet", "modeGroupFail" };
	for (int sc = 0; sc < 3; ++sc) {
		fprintf(f, "/-- mode passed to fchmod() by io_copy_attrs() for source modes 0..07777 (16 chunks of 256): %s -/\n",
				sc == 0 ? "target already has the source's group (no fchown call)"
				: sc == 1 ? "fchown(group) succeeds" : "fchown(group) fails");
		for (int c = 0; c < 16; ++c) {
			fprintf(f, "def %s%d : List Nat := [", nm[sc], c);
			for (int i = 0; i < 256; ++i)
				fprintf(f, "%s%s%u", i ? "," : "", (i % 16) ? " " : "\n  ",
						c19_copy_attrs_mode((unsigned)(c * 256 + i), sc == 0, sc == 2, false, true));
			fprintf(f, "]\n");
		}
		fprintf(f, "def %s : List (List Nat) := [", nm[sc]);
		for (int c = 0; c < 16; ++c)
			fprintf(f, "%s%s%d", c ? ", " : "", nm[sc], c);
		fprintf(f, "]\n\n");
	}
}
