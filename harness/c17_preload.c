// C17 LD_PRELOAD interposer: observes and perturbs the system calls xz makes on its file pair.
//
//   C17_LOG   path of the log file (opened once in the constructor, before any sandbox is enabled)
//   C17_PLAN  comma separated entries "<k>:<action>"; k counts the RECORDED calls of the process from 1
//       E<errno>   the k-th call fails with errno (the call is not performed; close() is performed, then fails)
//       S<count>   read/write: the k-th call is performed with its count cut to <count> (>= 1)
//       G<sig>     raise(sig) before the k-th call, then perform it
//       J<sig>     raise(sig) and fail the k-th call with EINTR without performing it (read/write/poll)
//       P          write to a broken pipe: raise(SIGPIPE) (a no-op when SIGPIPE is ignored), then fail with EPIPE
//       X          _exit(99) before the k-th call            K   kill(self, SIGKILL) before the k-th call
//       Ms / Md    before the k-th call another "process" replaces the source / target name:
//                  rename(name, name.moved) and create a new file "foreign\n" under the name
//                  (names from C17_SRC / C17_DST)
//   C17_NOFSYNC=1  fsync()/fdatasync() are recorded and succeed (or fail per plan) without reaching the disk
//
// Recorded = every interposed call made through the PLT by the program with a path argument, or on a file
// descriptor that came from a recorded open(), or on fd 0/1 (read/write/lseek/fstat/poll only). libc-internal
// calls (stdio, fclose(stdout), locale) do not pass through the PLT and are not seen. One line per call:
//   <k> <op> <fd:NAME|path:NAME> <arg1> <arg2> = <ret> <errno> <dev>:<ino> <injected> b<mask>
// <mask>: which of the signals xz hooks are blocked in the calling thread when the call returns
// (bit 0 INT, 1 TERM, 2 HUP, 3 PIPE, 4 XCPU, 5 XFSZ) -- xz blocks them exactly inside io_open_*/io_close/messages.
#define _GNU_SOURCE
#include <dlfcn.h>
#include <errno.h>
#include <fcntl.h>
#include <poll.h>
#include <signal.h>
#include <stdarg.h>
#include <stdio.h>
#include <stdlib.h>
#include <string.h>
#include <sys/stat.h>
#include <sys/syscall.h>
#include <sys/types.h>
#include <unistd.h>

#define MAXFD 4096
#define MAXPLAN 512

static int log_fd = -1;
static long counter = 0;
static char *fdname[MAXFD];
static int nofsync = 0;
static const char *mv_src, *mv_dst;

struct entry { long k; char act; long arg; char sub; };
static struct entry plan[MAXPLAN];
static int nplan = 0;

static int (*r_open)(const char *, int, ...);
static int (*r_openat)(int, const char *, int, ...);
static ssize_t (*r_read)(int, void *, size_t);
static ssize_t (*r_write)(int, const void *, size_t);
static off_t (*r_lseek)(int, off_t, int);
static int (*r_fsync)(int);
static int (*r_fdatasync)(int);
static int (*r_close)(int);
static int (*r_unlink)(const char *);
static int (*r_unlinkat)(int, const char *, int);
static int (*r_fchown)(int, uid_t, gid_t);
static int (*r_fchmod)(int, mode_t);
static int (*r_futimens)(int, const struct timespec *);
static int (*r_fstat)(int, struct stat *);
static int (*r_lstat)(const char *, struct stat *);
static int (*r_stat)(const char *, struct stat *);
static int (*r_poll)(struct pollfd *, nfds_t, int);
static int (*r_rename)(const char *, const char *);

static void resolve(void)
{
	r_open = dlsym(RTLD_NEXT, "open");
	r_openat = dlsym(RTLD_NEXT, "openat");
	r_read = dlsym(RTLD_NEXT, "read");
	r_write = dlsym(RTLD_NEXT, "write");
	r_lseek = dlsym(RTLD_NEXT, "lseek");
	r_fsync = dlsym(RTLD_NEXT, "fsync");
	r_fdatasync = dlsym(RTLD_NEXT, "fdatasync");
	r_close = dlsym(RTLD_NEXT, "close");
	r_unlink = dlsym(RTLD_NEXT, "unlink");
	r_unlinkat = dlsym(RTLD_NEXT, "unlinkat");
	r_fchown = dlsym(RTLD_NEXT, "fchown");
	r_fchmod = dlsym(RTLD_NEXT, "fchmod");
	r_futimens = dlsym(RTLD_NEXT, "futimens");
	r_fstat = dlsym(RTLD_NEXT, "fstat");
	r_lstat = dlsym(RTLD_NEXT, "lstat");
	r_stat = dlsym(RTLD_NEXT, "stat");
	r_poll = dlsym(RTLD_NEXT, "poll");
	r_rename = dlsym(RTLD_NEXT, "rename");
}

__attribute__((constructor)) static void c17_init(void)
{
	resolve();
	const char *lp = getenv("C17_LOG");
	if (lp != NULL) {
		int fd = r_open(lp, O_WRONLY | O_CREAT | O_APPEND | O_CLOEXEC, 0644);
		if (fd >= 0) {
			log_fd = fcntl(fd, F_DUPFD_CLOEXEC, 900);
			r_close(fd);
		}
	}
	const char *p = getenv("C17_PLAN");
	while (p != NULL && *p != '\0' && nplan < MAXPLAN) {
		char *end;
		long k = strtol(p, &end, 10);
		if (*end != ':')
			break;
		struct entry e = { k, end[1], 0, 0 };
		p = end + 2;
		if (e.act == 'M') {
			e.sub = *p;
			if (*p != '\0')
				++p;
		} else {
			e.arg = strtol(p, &end, 10);
			p = end;
		}
		plan[nplan++] = e;
		if (*p == ',')
			++p;
	}
	nofsync = getenv("C17_NOFSYNC") != NULL;
	mv_src = getenv("C17_SRC");
	mv_dst = getenv("C17_DST");
	fdname[0] = (char *)"<stdin>";
	fdname[1] = (char *)"<stdout>";
}

static void logline(const char *s, size_t n)
{
	if (log_fd >= 0)
		(void)syscall(SYS_write, log_fd, s, n);
}

static int tracked(int fd)
{
	return fd >= 0 && fd < MAXFD && fdname[fd] != NULL;
}

// What the plan says about call number k.
struct verdict { int fail; int err; long shortc; char inj[64]; };

static void replace_name(const char *name)
{
	if (name == NULL)
		return;
	char buf[4096];
	snprintf(buf, sizeof(buf), "%s.moved", name);
	r_rename(name, buf);
	int fd = r_open(name, O_WRONLY | O_CREAT | O_EXCL, 0644);
	if (fd >= 0) {
		(void)syscall(SYS_write, fd, "foreign\n", 8);
		r_close(fd);
	}
}

// Called at the start of every recorded call. Performs the pre-actions (signal, move, crash) and tells
// whether the call must fail or be shortened.
static long begin(struct verdict *v, const char *what)
{
	long k = __atomic_add_fetch(&counter, 1, __ATOMIC_SEQ_CST);
	v->fail = 0; v->err = 0; v->shortc = -1; v->inj[0] = '-'; v->inj[1] = '\0';
	size_t w = 0;
	for (int i = 0; i < nplan; ++i) {
		if (plan[i].k != k)
			continue;
		const struct entry *e = &plan[i];
		if (w < sizeof(v->inj) - 24) {
			if (e->act == 'M')
				w += (size_t)snprintf(v->inj + w, sizeof(v->inj) - w, "%sM%c", w ? "+" : "", e->sub);
			else
				w += (size_t)snprintf(v->inj + w, sizeof(v->inj) - w, "%s%c%ld", w ? "+" : "", e->act, e->arg);
		}
		switch (e->act) {
		case 'E': v->fail = 1; v->err = (int)e->arg; break;
		case 'S': v->shortc = e->arg < 1 ? 1 : e->arg; break;
		case 'G': raise((int)e->arg); break;
		case 'J': raise((int)e->arg); v->fail = 1; v->err = EINTR; break;
		case 'P': raise(SIGPIPE); v->fail = 1; v->err = EPIPE; break;
		case 'M': replace_name(e->sub == 's' ? mv_src : mv_dst); break;
		case 'X': case 'K': {
			char b[160];
			int n = snprintf(b, sizeof(b), "%ld CRASH %s %c\n", k, what, e->act);
			logline(b, (size_t)n);
			if (e->act == 'X')
				_exit(99);
			kill(getpid(), SIGKILL);
			for (;;)
				pause();
		}
		default: break;
		}
	}
	return k;
}

static void rec(long k, const char *op, const char *kind, const char *name, long a1, long a2, long ret, int err,
		const struct stat *st, const struct verdict *v)
{
	char b[4400];
	static const int hooked[6] = { SIGINT, SIGTERM, SIGHUP, SIGPIPE, SIGXCPU, SIGXFSZ };
	sigset_t cur;
	unsigned mask = 0;
	if (sigprocmask(SIG_BLOCK, NULL, &cur) == 0)
		for (int i = 0; i < 6; ++i)
			if (sigismember(&cur, hooked[i]) == 1)
				mask |= 1u << i;
	int n = snprintf(b, sizeof(b), "%ld %s %s:%s %ld %ld = %ld %d %lu:%lu %s b%x\n", k, op, kind, name, a1, a2, ret,
			ret < 0 ? err : 0, st ? (unsigned long)st->st_dev : 0UL, st ? (unsigned long)st->st_ino : 0UL, v->inj, mask);
	if (n > 0)
		logline(b, (size_t)n < sizeof(b) ? (size_t)n : sizeof(b) - 1);
}

static void remember(int fd, const char *path)
{
	if (fd >= 0 && fd < MAXFD)
		fdname[fd] = strdup(path);
}

static int do_open(const char *op, int dirfd, const char *path, int flags, mode_t mode)
{
	struct verdict v;
	long k = begin(&v, op);
	int ret, err;
	if (v.fail) {
		ret = -1; err = v.err;
	} else {
		ret = dirfd == AT_FDCWD ? r_open(path, flags, mode) : r_openat(dirfd, path, flags, mode);
		err = errno;
		if (ret >= 0)
			remember(ret, path);
	}
	rec(k, op, "path", path, flags, (flags & O_CREAT) ? (long)mode : 0, ret, err, NULL, &v);
	errno = err;
	return ret;
}

static mode_t get_mode(int flags, va_list ap)
{
#ifdef O_TMPFILE
	if ((flags & O_CREAT) || (flags & O_TMPFILE) == O_TMPFILE)
#else
	if (flags & O_CREAT)
#endif
		return (mode_t)va_arg(ap, int);
	return 0;
}

int open(const char *path, int flags, ...)
{
	va_list ap; va_start(ap, flags); mode_t m = get_mode(flags, ap); va_end(ap);
	if (r_open == NULL) resolve();
	return do_open("open", AT_FDCWD, path, flags, m);
}

int open64(const char *path, int flags, ...)
{
	va_list ap; va_start(ap, flags); mode_t m = get_mode(flags, ap); va_end(ap);
	if (r_open == NULL) resolve();
	return do_open("open", AT_FDCWD, path, flags | O_LARGEFILE, m);
}

int openat(int dirfd, const char *path, int flags, ...)
{
	va_list ap; va_start(ap, flags); mode_t m = get_mode(flags, ap); va_end(ap);
	if (r_open == NULL) resolve();
	return do_open("open", dirfd, path, flags, m);
}

int openat64(int dirfd, const char *path, int flags, ...)
{
	va_list ap; va_start(ap, flags); mode_t m = get_mode(flags, ap); va_end(ap);
	if (r_open == NULL) resolve();
	return do_open("open", dirfd, path, flags | O_LARGEFILE, m);
}

ssize_t read(int fd, void *buf, size_t count)
{
	if (r_read == NULL) resolve();
	if (!tracked(fd))
		return r_read(fd, buf, count);
	struct verdict v;
	long k = begin(&v, "read");
	ssize_t ret; int err;
	if (v.fail) {
		ret = -1; err = v.err;
	} else {
		size_t c = (v.shortc >= 0 && (size_t)v.shortc < count) ? (size_t)v.shortc : count;
		ret = r_read(fd, buf, c);
		err = errno;
	}
	rec(k, "read", "fd", fdname[fd], (long)count, 0, ret, err, NULL, &v);
	errno = err;
	return ret;
}

ssize_t write(int fd, const void *buf, size_t count)
{
	if (r_write == NULL) resolve();
	if (!tracked(fd))
		return r_write(fd, buf, count);
	struct verdict v;
	long k = begin(&v, "write");
	ssize_t ret; int err;
	if (v.fail) {
		ret = -1; err = v.err;
	} else {
		size_t c = (v.shortc >= 0 && (size_t)v.shortc < count) ? (size_t)v.shortc : count;
		ret = r_write(fd, buf, c);
		err = errno;
	}
	rec(k, "write", "fd", fdname[fd], (long)count, 0, ret, err, NULL, &v);
	errno = err;
	return ret;
}

static off_t do_lseek(int fd, off_t off, int whence)
{
	if (r_lseek == NULL) resolve();
	if (!tracked(fd))
		return r_lseek(fd, off, whence);
	struct verdict v;
	long k = begin(&v, "lseek");
	off_t ret; int err;
	if (v.fail) {
		ret = -1; err = v.err;
	} else {
		ret = r_lseek(fd, off, whence);
		err = errno;
	}
	rec(k, "lseek", "fd", fdname[fd], (long)off, whence, ret < 0 ? -1 : 0, err, NULL, &v);
	errno = err;
	return ret;
}

off_t lseek(int fd, off_t off, int whence) { return do_lseek(fd, off, whence); }
off_t lseek64(int fd, off_t off, int whence) { return do_lseek(fd, off, whence); }

static int do_sync(const char *op, int fd, int (*real)(int))
{
	if (!tracked(fd))
		return real(fd);
	struct verdict v;
	long k = begin(&v, op);
	int ret, err;
	if (v.fail) {
		ret = -1; err = v.err;
	} else if (nofsync) {
		ret = 0; err = 0;
	} else {
		ret = real(fd);
		err = errno;
	}
	rec(k, op, "fd", fdname[fd], 0, 0, ret, err, NULL, &v);
	errno = err;
	return ret;
}

int fsync(int fd) { if (r_fsync == NULL) resolve(); return do_sync("fsync", fd, r_fsync); }
int fdatasync(int fd) { if (r_fsync == NULL) resolve(); return do_sync("fdatasync", fd, r_fdatasync); }

int close(int fd)
{
	if (r_close == NULL) resolve();
	if (!tracked(fd) || fd <= 2)
		return r_close(fd);
	struct verdict v;
	long k = begin(&v, "close");
	int ret = r_close(fd);
	int err = errno;
	if (v.fail) {
		ret = -1; err = v.err;
	}
	rec(k, "close", "fd", fdname[fd], 0, 0, ret, err, NULL, &v);
	free(fdname[fd]);
	fdname[fd] = NULL;
	errno = err;
	return ret;
}

int unlink(const char *path)
{
	if (r_unlink == NULL) resolve();
	struct verdict v;
	long k = begin(&v, "unlink");
	int ret, err;
	if (v.fail) {
		ret = -1; err = v.err;
	} else {
		ret = r_unlink(path);
		err = errno;
	}
	rec(k, "unlink", "path", path, 0, 0, ret, err, NULL, &v);
	errno = err;
	return ret;
}

int unlinkat(int dirfd, const char *path, int flags)
{
	if (r_unlink == NULL) resolve();
	struct verdict v;
	long k = begin(&v, "unlink");
	int ret, err;
	if (v.fail) {
		ret = -1; err = v.err;
	} else {
		ret = r_unlinkat(dirfd, path, flags);
		err = errno;
	}
	rec(k, "unlink", "path", path, flags, 0, ret, err, NULL, &v);
	errno = err;
	return ret;
}

int fchown(int fd, uid_t u, gid_t g)
{
	if (r_fchown == NULL) resolve();
	if (!tracked(fd))
		return r_fchown(fd, u, g);
	struct verdict v;
	long k = begin(&v, "fchown");
	int ret, err;
	if (v.fail) {
		ret = -1; err = v.err;
	} else {
		ret = r_fchown(fd, u, g);
		err = errno;
	}
	// arg1: 1 = owner is being set, arg2: 1 = group is being set
	rec(k, "fchown", "fd", fdname[fd], u != (uid_t)-1, g != (gid_t)-1, ret, err, NULL, &v);
	errno = err;
	return ret;
}

int fchmod(int fd, mode_t m)
{
	if (r_fchmod == NULL) resolve();
	if (!tracked(fd))
		return r_fchmod(fd, m);
	struct verdict v;
	long k = begin(&v, "fchmod");
	int ret, err;
	if (v.fail) {
		ret = -1; err = v.err;
	} else {
		ret = r_fchmod(fd, m);
		err = errno;
	}
	rec(k, "fchmod", "fd", fdname[fd], (long)m, 0, ret, err, NULL, &v);
	errno = err;
	return ret;
}

int futimens(int fd, const struct timespec ts[2])
{
	if (r_futimens == NULL) resolve();
	if (!tracked(fd))
		return r_futimens(fd, ts);
	struct verdict v;
	long k = begin(&v, "futimens");
	int ret, err;
	if (v.fail) {
		ret = -1; err = v.err;
	} else {
		ret = r_futimens(fd, ts);
		err = errno;
	}
	rec(k, "futimens", "fd", fdname[fd], 0, 0, ret, err, NULL, &v);
	errno = err;
	return ret;
}

static int do_fstat(int fd, struct stat *st)
{
	if (r_fstat == NULL) resolve();
	if (!tracked(fd))
		return r_fstat(fd, st);
	struct verdict v;
	long k = begin(&v, "fstat");
	int ret, err;
	if (v.fail) {
		ret = -1; err = v.err;
	} else {
		ret = r_fstat(fd, st);
		err = errno;
	}
	rec(k, "fstat", "fd", fdname[fd], 0, 0, ret, err, ret == 0 ? st : NULL, &v);
	errno = err;
	return ret;
}

int fstat(int fd, struct stat *st) { return do_fstat(fd, st); }
int fstat64(int fd, struct stat64 *st) { return do_fstat(fd, (struct stat *)st); }
int __fxstat(int ver, int fd, struct stat *st) { (void)ver; return do_fstat(fd, st); }
int __fxstat64(int ver, int fd, struct stat64 *st) { (void)ver; return do_fstat(fd, (struct stat *)st); }

static int do_pstat(const char *op, const char *path, struct stat *st, int (*real)(const char *, struct stat *))
{
	struct verdict v;
	long k = begin(&v, op);
	int ret, err;
	if (v.fail) {
		ret = -1; err = v.err;
	} else {
		ret = real(path, st);
		err = errno;
	}
	rec(k, op, "path", path, 0, 0, ret, err, ret == 0 ? st : NULL, &v);
	errno = err;
	return ret;
}

int lstat(const char *p, struct stat *st) { if (r_lstat == NULL) resolve(); return do_pstat("lstat", p, st, r_lstat); }
int lstat64(const char *p, struct stat64 *st) { if (r_lstat == NULL) resolve(); return do_pstat("lstat", p, (struct stat *)st, r_lstat); }
int __lxstat(int ver, const char *p, struct stat *st) { (void)ver; if (r_lstat == NULL) resolve(); return do_pstat("lstat", p, st, r_lstat); }
int __lxstat64(int ver, const char *p, struct stat64 *st) { (void)ver; if (r_lstat == NULL) resolve(); return do_pstat("lstat", p, (struct stat *)st, r_lstat); }
int stat(const char *p, struct stat *st) { if (r_stat == NULL) resolve(); return do_pstat("stat", p, st, r_stat); }
int stat64(const char *p, struct stat64 *st) { if (r_stat == NULL) resolve(); return do_pstat("stat", p, (struct stat *)st, r_stat); }
int __xstat(int ver, const char *p, struct stat *st) { (void)ver; if (r_stat == NULL) resolve(); return do_pstat("stat", p, st, r_stat); }
int __xstat64(int ver, const char *p, struct stat64 *st) { (void)ver; if (r_stat == NULL) resolve(); return do_pstat("stat", p, (struct stat *)st, r_stat); }

int poll(struct pollfd *fds, nfds_t n, int timeout)
{
	if (r_poll == NULL) resolve();
	if (n < 1 || !tracked(fds[0].fd))
		return r_poll(fds, n, timeout);
	struct verdict v;
	long k = begin(&v, "poll");
	int ret, err;
	if (v.fail) {
		ret = -1; err = v.err;
	} else {
		ret = r_poll(fds, n, timeout);
		err = errno;
	}
	rec(k, "poll", "fd", fdname[fds[0].fd], fds[0].events, timeout, ret < 0 ? -1 : 0, err, NULL, &v);
	errno = err;
	return ret;
}
