// C19 harness, translation unit 3: the REAL src/xz/main.c (set_exit_status, set_exit_no_warn and the static exit_status),
// with main() renamed so that it is never entered. The --no-warn mapping at the end of main() is exercised with the real
// binary (tools/props/c19.py, end-to-end part); here the state machine of set_exit_status() is tabulated.
#include "sysdefs.h"
#include "c19.h"

#define main c19_xz_main
#include "main.c"
#undef main

void
c19_exit_reset(void)
{
	exit_status = E_SUCCESS;
	no_warn = false;
}

int
c19_exit_get(void)
{
	return (int)exit_status;
}

void
c19_exit_set(int status)
{
	set_exit_status((enum exit_status_type)status);
}

void
c19_probe_exit(FILE *f)
{
	fprintf(f, "/-- set_exit_status(): rows [old exit_status, new_status argument, resulting exit_status] -/\n");
	fprintf(f, "def exitRows : List (List Nat) := [");
	static const int olds[3] = { E_SUCCESS, E_ERROR, E_WARNING };
	static const int news[2] = { E_ERROR, E_WARNING };
	for (int i = 0; i < 3; ++i)
		for (int j = 0; j < 2; ++j) {
			exit_status = (enum exit_status_type)olds[i];
			set_exit_status((enum exit_status_type)news[j]);
			fprintf(f, "%s[%d,%d,%d]", (i || j) ? ", " : "", olds[i], news[j], (int)exit_status);
		}
	fprintf(f, "]\n\n");
	exit_status = E_SUCCESS;
}
