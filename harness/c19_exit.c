// C19 harness, translation unit 3: the REAL src/xz/main.c (set_exit_status, set_exit_no_warn and the static exit_status),
// with main() renamed so that it is never entered. The --no-warn mapping at the end of main() is exercised with the real
// binary (tools/props/c19.py, end-to-end part); here the state machine of set_exit_status() is tabulated.
#include "sysdefs.h"
#include <string.h>
#include <unistd.h>
#include "c19.h"

#define main c19_xz_main
#include "main.c"
#undef main

void
c19_exit_reset(void)
{
	exit_status = E_SUCCESS;
	no_warn = false;
}

int
c19_exit_get(void)
{
	return (int)exit_status;
}

void
c19_exit_set(int status)
{
	set_exit_status((enum exit_status_type)status);
}

void
c19_probe_exit(FILE *f)
{
	fprintf(f, "/-- set_exit_status(): rows [old exit_status, new_status argument, resulting exit_status] -/\n");
	fprintf(f, "def exitRows : List (List Nat) := [");
	static const int olds[3] = { E_SUCCESS, E_ERROR, E_WARNING };
	static const int news[2] = { E_ERROR, E_WARNING };
	for (int i = 0; i < 3; ++i)
		for (int j = 0; j < 2; ++j) {
			exit_status = (enum exit_status_type)olds[i];
			set_exit_status((enum exit_status_type)news[j]);
			fprintf(f, "%s[%d,%d,%d]", (i || j) ? ", " : "", olds[i], news[j], (int)exit_status);
		}
	fprintf(f, "]\n\n");
	exit_status = E_SUCCESS;
}


// ---- the real main(): which names reach coder_run(), and which of them as standard input -----------------------------------

int
c19_run_main(int argc, char **argv)
{
	c19_args_reset();
	c19_exit_reset();
	c19_plan_reset();
	c19_exit_code = -1;
	c19_exit_armed = true;
	c19_fatal_armed = true;
	if (setjmp(c19_fatal_jmp) != 0) {
		c19_exit_code = 1000;           // message_fatal
	} else if (setjmp(c19_exit_jmp) == 0) {
		(void)c19_xz_main(argc, argv);
	}
	c19_exit_armed = false;
	c19_fatal_armed = false;
	const int code = c19_exit_code;
	c19_args_reset();
	opt_format = FORMAT_XZ;
	return code;
}

static void
put_bytes(FILE *f, const char *s, size_t n)
{
	fputc('[', f);
	for (size_t i = 0; i < n; ++i)
		fprintf(f, "%s%u", i ? ", " : "", (unsigned)(unsigned char)s[i]);
	fputc(']', f);
}

void
c19_probe_main(FILE *f, const char *scratch_dir)
{
	if (chdir(scratch_dir))
		abort();
	// command-line operands (given after "--")
	static const char *const cmds[][3] = { { NULL }, { "-", NULL }, { "a", NULL }, { "a", "-", NULL }, { "-", "-x", NULL } };
	// raw contents of the list; '|' stands for the delimiter (newline for --files, NUL for --files0)
	static const char *const lists[] = { "-|", "a|-|b|", "-|-|", "--help|-c|--|", "", "||a||-||", "a|-", "-", "a~b|c|" };
	fprintf(f, "/-- The real main() of xz (args_parse, the two loops over names, read_name) with coder_run() replaced by a recorder.\n"
		"    row = (operands after `--`, list mode: 0 none, 1 --files=FILE, 2 --files0=FILE, 3 --files (list on stdin), 4 --files0 (stdin),\n"
		"    raw bytes of the list, what reached coder_run() in order). In the last component [1, 83] = standard input,\n"
		"    [1, 82] = refused (\"Cannot read data from standard input when reading filenames from standard input\"),\n"
		"    [1, 69] = error while reading the list (unexpected end of input / NUL in --files). -/\n");
	fprintf(f, "def mainRows : List (List (List UInt8) × Nat × List UInt8 × List (List UInt8)) := [");
	bool first = true;
	for (int lm = 0; lm <= 4; ++lm)
	for (size_t ci = 0; ci < 5; ++ci)
	for (size_t li = 0; li < 9; ++li) {
		if (lm == 0 && li != 0)
			continue;
		char raw[64];
		size_t rawn = 0;
		if (lm != 0) {
			rawn = strlen(lists[li]);
			memcpy(raw, lists[li], rawn);
			for (size_t i = 0; i < rawn; ++i)
				if (raw[i] == '|')
					raw[i] = (lm == 1 || lm == 3) ? '\n' : '\0';
				else if (raw[i] == '~')
					raw[i] = '\0';
			FILE *lf = fopen("list", "wb");
			if (lf == NULL || fwrite(raw, 1, rawn, lf) != rawn)
				abort();
			fclose(lf);
			if ((lm == 3 || lm == 4) && freopen("list", "rb", stdin) == NULL)
				abort();
		}
		char a0[] = "xz", a1[32], dd[] = "--";
		char names[3][8];
		char *argv[8];
		int argc = 0;
		argv[argc++] = a0;
		if (lm != 0) {
			snprintf(a1, sizeof(a1), "%s", lm == 1 ? "--files=list" : lm == 2 ? "--files0=list" : lm == 3 ? "--files" : "--files0");
			argv[argc++] = a1;
		}
		argv[argc++] = dd;
		for (int k = 0; cmds[ci][k] != NULL; ++k) {
			snprintf(names[k], sizeof(names[k]), "%s", cmds[ci][k]);
			argv[argc++] = names[k];
		}
		argv[argc] = NULL;
		(void)c19_run_main(argc, argv);
		fprintf(f, "%s\n  ([", first ? "" : ",");
		first = false;
		for (int k = 0; cmds[ci][k] != NULL; ++k) {
			fprintf(f, "%s", k ? ", " : "");
			put_bytes(f, cmds[ci][k], strlen(cmds[ci][k]));
		}
		fprintf(f, "], %d, ", lm);
		put_bytes(f, raw, rawn);
		fprintf(f, ", [");
		for (int k = 0; k < c19_plan_n; ++k) {
			fprintf(f, "%s", k ? ", " : "");
			put_bytes(f, c19_plan[k], strlen(c19_plan[k]));
		}
		fprintf(f, "])");
	}
	fprintf(f, "]\n\n");
	c19_plan_reset();
	(void)unlink("list");
}
