// Wrapper probe for tools/c2lean.py (stage G, scalar kernels): gives the state/length macros of lzma_common.h and the
// static inline get_dist_slot() of fastpos.h a function the clang AST filter can find. One line per macro; the
// macro bodies themselves come from the real header.
#include "lzma_common.h"
#include "fastpos.h"

lzma_lzma_state kw_update_literal(lzma_lzma_state state) { update_literal(state); return state; }
lzma_lzma_state kw_update_literal_normal(lzma_lzma_state state) { update_literal_normal(state); return state; }
lzma_lzma_state kw_update_literal_matched(lzma_lzma_state state) { update_literal_matched(state); return state; }
lzma_lzma_state kw_update_match(lzma_lzma_state state) { update_match(state); return state; }
lzma_lzma_state kw_update_long_rep(lzma_lzma_state state) { update_long_rep(state); return state; }
lzma_lzma_state kw_update_short_rep(lzma_lzma_state state) { update_short_rep(state); return state; }
bool kw_is_literal_state(lzma_lzma_state state) { return is_literal_state(state); }
uint32_t kw_get_dist_state(uint32_t len) { return get_dist_state(len); }
uint32_t kw_literal_mask_calc(uint32_t lc, uint32_t lp) { return literal_mask_calc(lc, lp); }
