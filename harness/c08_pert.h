// C08 perturbation layer (see c08_pert.c).
#ifndef VERIF_C08_PERT_H
#define VERIF_C08_PERT_H
#include <stdint.h>
#define C08_PERT_WRAPPED "pthread_mutex_lock pthread_mutex_unlock pthread_cond_wait pthread_cond_timedwait pthread_cond_signal pthread_create pthread_join"
extern int c08_pert_mode;
extern uint64_t c08_pert_seed;
extern unsigned c08_pert_usec;
extern uint64_t c08_pert_ops;
extern uint64_t c08_pert_threads;
#define C08_PERT_SET(mode, seed, usec) do { __atomic_store_n(&c08_pert_seed, (seed), __ATOMIC_RELAXED); \
	__atomic_store_n(&c08_pert_usec, (usec), __ATOMIC_RELAXED); __atomic_store_n(&c08_pert_mode, (mode), __ATOMIC_RELAXED); } while (0)
#endif
