// C08 perturbation layer (see c08_pert.c).
#ifndef VERIF_C08_PERT_H
#define VERIF_C08_PERT_H
#include <stdint.h>
#define C08_PERT_WRAPPED "pthread_mutex_lock pthread_mutex_unlock pthread_cond_wait pthread_cond_timedwait pthread_cond_signal pthread_create pthread_join"
extern volatile int c08_pert_mode;
extern volatile uint64_t c08_pert_seed;
extern volatile unsigned c08_pert_usec;
extern volatile uint64_t c08_pert_ops;
extern volatile uint64_t c08_pert_threads;
#endif
