// C07 harness: runs lzma_stream_decoder_mt on a file under the controlled scheduler (vsched.c) and, in the same
// process, lzma_stream_decoder (single-threaded) on the same bytes as the direct property oracle.
//
// Line protocol (one op per line, one result line per op; tokens are key=value, any order):
//   run file=<path> threads=<1..> mlt=<u64> mls=<u64> timeout=<ms> flags=<dec> in=<a|f|r>:<n> out=<a|f|r>:<n>
//       fin=<0|1> slice=<seed> endat=<-1|call index> maxcalls=<n> prog=<0|1> mlraise=<0|1>
//       mode=<real|random|pct|nopreempt> seed=<u64> sticky=<n> pctd=<n> pcts=<n> ptime=<n> pspur=<n> maxsteps=<n>
//       jitter=<n> log=<path|-> stin=<a|f|r>:<n> stout=<...>
//   result:
//   mt_ret=<lzma_ret> mt_len=<n> mt_hash=<fnv64 hex> mt_info=<code@total_out,..|-> mt_in=<total_in> calls=<n>
//   st_ret=.. st_len=.. st_hash=.. st_info=.. st_in=..  same=<1|0 (byte-identical outputs)> prefix=<1|0 (mt output is a
//   prefix of st output)> ended=<0|1> steps= switches= thr= maxlive= to= spur= waits= cont= shash=<hex> mem=<memusage>
//   bufloop=<number of consecutive no-progress calls before the final status> hook=<0|1> ev=<events|->
// Any sanitizer report / assertion / scheduler verdict aborts the process (the Python side reports it with the op line).
#include "hproto.h"
#include "vsched.h"
#include "lzma.h"
#include <assert.h>

// H3 hook (hooks/h3-mtdec.patch). Weak: resolves to NULL when liblzma was built without the hook.
extern void (*lzma_verif_mt_event)(unsigned ev, const void *p, uint64_t a, uint64_t b, uint64_t c) __attribute__((weak));

typedef struct { uint8_t *p; size_t n, cap; } vec;

static void vec_put(vec *v, const void *d, size_t n)
{
	if (v->n + n > v->cap) {
		size_t c = v->cap ? v->cap * 2 : 4096;
		while (c < v->n + n) c *= 2;
		v->p = realloc(v->p, c);
		if (!v->p) abort();
		v->cap = c;
	}
	if (n) memcpy(v->p + v->n, d, n);
	v->n += n;
}

static uint64_t fnv(const uint8_t *p, size_t n)
{
	uint64_t h = 0xcbf29ce484222325ull;
	for (size_t i = 0; i < n; ++i) h = (h ^ p[i]) * 0x100000001b3ull;
	return h;
}

static uint64_t sm(uint64_t *s)
{
	uint64_t z = (*s += 0x9E3779B97F4A7C15ull);
	z = (z ^ (z >> 30)) * 0xBF58476D1CE4E5B9ull;
	z = (z ^ (z >> 27)) * 0x94D049BB133111EBull;
	return z ^ (z >> 31);
}

typedef struct { char kind; size_t n; } slicing;   // a = everything, f = fixed n, r = random 0..n (zero-length slices allowed),
                                                   // p = chunks of n, but inside a window (placed by the slice seed, half of the time at the end of the
                                                   //     input) one byte at a time with a zero-length "poll" call after each byte

static slicing parse_slicing(const char *s)
{
	slicing r = { 'a', 0 };
	if (s && s[0]) {
		r.kind = s[0];
		if (s[1] == ':') r.n = (size_t)strtoull(s + 2, NULL, 10);
	}
	if (r.kind != 'a' && r.n == 0) r.n = 1;
	return r;
}

static size_t next_slice(const slicing *sl, uint64_t *rng, size_t remaining, size_t all)
{
	size_t k;
	switch (sl->kind) {
	case 'f': k = sl->n; break;
	case 'r': k = (size_t)(sm(rng) % (sl->n + 1)); break;
	default: k = all; break;
	}
	return k < remaining ? k : remaining;
}

// ---- events (H3) ---------------------------------------------------------------------------
static vec evbuf;
static const void *ev_ptrs[4096];
static int ev_nptrs;

static int ev_id(const void *p)
{
	if (p == NULL) return -1;
	for (int i = 0; i < ev_nptrs; ++i) if (ev_ptrs[i] == p) return i;
	if (ev_nptrs < 4096) ev_ptrs[ev_nptrs] = p;
	return ev_nptrs++;
}

static int ev_on;

// Event record: "<ev>.<logical thread>.<pointer id>.<a>.<b>.<c>", comma separated.
static void ev_cb(unsigned ev, const void *p, uint64_t a, uint64_t b, uint64_t c)
{
	if (!ev_on) return;
	char tmp[128];
	int n = snprintf(tmp, sizeof tmp, "%s%u.%d.%d.%" PRIu64 ".%" PRIu64 ".%" PRIu64, evbuf.n ? "," : "", ev, sched_self(), ev_id(p), a, b, c);
	vec_put(&evbuf, tmp, (size_t)n);
}

// ---- tracking allocator -------------------------------------------------------------------
// Fills fresh memory with 0xA5 (so that a field the library forgot to initialise is a wild pointer / huge size, not an
// accidental zero), keeps the set of live allocations and validates every free, can make the N-th allocation fail, and is
// checked for leaks after lzma_end. Threads are serialised by the scheduler in controlled runs; the spin lock is for the
// real-scheduling (TSan) runs.
#define AT_CAP (1u << 12)
static struct { void *p; size_t n; } at_tab[AT_CAP];
static size_t at_live;
static uint64_t at_count, at_failat;      // at_failat: 1-based index of the allocation that fails (0 = none)
static int at_lock_flag, at_overflow;

static void at_lock(void) { while (__atomic_test_and_set(&at_lock_flag, __ATOMIC_ACQUIRE)) {} }
static void at_unlock(void) { __atomic_clear(&at_lock_flag, __ATOMIC_RELEASE); }
static size_t at_slot(const void *p) { return (size_t)(((uintptr_t)p >> 4) * 0x9E3779B97F4A7C15ull >> 40) & (AT_CAP - 1); }

static void *at_alloc(void *opaque, size_t nmemb, size_t size)
{
	(void)opaque;
	at_lock();
	const uint64_t k = ++at_count;
	at_unlock();
	if (at_failat != 0 && k == at_failat) return NULL;
	size_t n = nmemb * size;
	void *p = malloc(n ? n : 1);
	if (!p) return NULL;
	memset(p, 0xA5, n);
	at_lock();
	size_t i = at_slot(p);
	for (size_t probe = 0; probe < AT_CAP; ++probe, i = (i + 1) & (AT_CAP - 1))
		if (at_tab[i].p == NULL || at_tab[i].p == (void *)1) { at_tab[i].p = p; at_tab[i].n = n; ++at_live; i = AT_CAP; break; }
	if (i != AT_CAP) at_overflow = 1;      // table full: this pointer is not tracked, validation is off from here on
	at_unlock();
	return p;
}

static void at_free(void *opaque, void *p)
{
	(void)opaque;
	if (p == NULL) return;
	at_lock();
	size_t i = at_slot(p), n = 0;
	int found = 0;
	for (size_t probe = 0; probe < AT_CAP && at_tab[i].p != NULL; ++probe, i = (i + 1) & (AT_CAP - 1))
		if (at_tab[i].p == p) { found = 1; n = at_tab[i].n; at_tab[i].p = (void *)1; --at_live; break; }
	at_unlock();
	if (!found && at_overflow) { free(p); return; }
	if (!found) {
		fprintf(stderr, "C07-ALLOC: lzma_free of %p, which is not a live allocation of this stream's allocator\n", p);
		fflush(stderr);
		abort();
	}
	memset(p, 0x5A, n);
	free(p);
}

static lzma_allocator at_allocator = { at_alloc, at_free, NULL };

static void at_reset(void)
{
	memset(at_tab, 0, sizeof at_tab);
	at_live = 0; at_count = 0; at_failat = 0; at_overflow = 0;
}

// total output capacity the application offers (SIZE_MAX = unlimited): once used up, avail_out stays 0
static size_t g_outcap = (size_t)-1;

// ---- one decode ----------------------------------------------------------------------------
typedef struct {
	lzma_ret ret;
	vec out;
	vec info;        // "code@total_out,..."
	uint64_t total_in;
	uint64_t calls;
	uint64_t bufloop;
	int ended_early;
	uint64_t memusage;
	int progress_bad;
	int trace;       // emit harness-level events 1 (call) / 2 (return) into the H3 event buffer
} result;

static void info_put(result *r, lzma_ret code, uint64_t total_out)
{
	char tmp[64];
	int n = snprintf(tmp, sizeof tmp, "%s%d@%" PRIu64, r->info.n ? "," : "", (int)code, total_out);
	vec_put(&r->info, tmp, (size_t)n);
}

// Generic application loop around an initialised stream.
// Zero-length input/output slices are handed out only directly after a call that made progress, so that the
// application itself never provokes LZMA_BUF_ERROR (two consecutive calls without progress) on a decodable prefix.
static void app_loop(lzma_stream *strm, const uint8_t *data, size_t len, slicing ins, slicing outs, uint64_t slice_seed,
		int fin, long endat, uint64_t maxcalls, int prog, int mlraise, result *r)
{
	uint64_t rng = slice_seed * 77 + 5;
	size_t pos = 0;                 // bytes handed to the decoder so far (end of the current input slice)
	// pause window of the 'p' input slicing
	size_t win_len = 64 + (size_t)(sm(&rng) % 512), win_start = 0;
	int poll_next = 0;
	if (ins.kind == 'p') {
		if (win_len > len) win_len = len;
		win_start = (sm(&rng) & 1) ? len - win_len : (size_t)(sm(&rng) % (len - win_len + 1));
	}
	size_t ocap = 1 << 16;
	uint8_t *obuf = malloc(ocap);
	uint64_t noprog = 0;
	int last_progress = 1;
	uint64_t last_pin = 0, last_pout = 0;
	strm->next_in = data;
	strm->avail_in = 0;
	strm->next_out = obuf;
	strm->avail_out = 0;
	r->ret = LZMA_OK;
	for (;;) {
		if (strm->avail_in == 0 && pos < len) {
			size_t k;
			if (ins.kind == 'p') {
				if (pos >= win_start && pos < win_start + win_len) {
					k = poll_next ? 0 : 1;
					poll_next = !poll_next;
				} else {
					k = ins.n;
					if (pos < win_start && pos + k > win_start) k = win_start - pos;
				}
				if (k > len - pos) k = len - pos;
			} else {
				k = next_slice(&ins, &rng, len - pos, len);
			}
			if (k == 0 && !last_progress) k = 1;
			strm->next_in = data + pos;
			strm->avail_in = k;
			pos += k;
		}
		if (strm->avail_out == 0) {
			size_t k = next_slice(&outs, &rng, (size_t)-1, 1 << 16);
			if (k == 0 && !last_progress) k = 1;
			if (g_outcap != (size_t)-1) {
				const size_t left = g_outcap > r->out.n ? g_outcap - r->out.n : 0;
				if (k > left) k = left;
			}
			if (k > ocap) { obuf = realloc(obuf, k); ocap = k; if (!obuf) abort(); }
			strm->next_out = obuf;
			strm->avail_out = k;
		}
		lzma_action act = (fin && pos == len) ? LZMA_FINISH : LZMA_RUN;
		const size_t in_before = strm->avail_in, out_before = strm->avail_out;
		const uint8_t *out_start = strm->next_out;
		if (r->trace) ev_cb(1, NULL, act == LZMA_FINISH, strm->avail_in, strm->avail_out);
		lzma_ret ret = lzma_code(strm, act);
		if (r->trace) ev_cb(2, NULL, ret, in_before - strm->avail_in, out_before - strm->avail_out);
		++r->calls;
		vec_put(&r->out, out_start, out_before - strm->avail_out);
		last_progress = in_before != strm->avail_in || out_before != strm->avail_out;
		if (prog) {
			uint64_t pin = 0, pout = 0;
			lzma_get_progress(strm, &pin, &pout);
			if (pin < last_pin || pout < last_pout) r->progress_bad = 1;
			last_pin = pin; last_pout = pout;
			if ((r->calls & 3) == 0) (void)lzma_memusage(strm);
		}
		if (endat >= 0 && (long)r->calls > endat) {
			r->ended_early = 1;
			r->ret = ret;
			break;
		}
		if (ret == LZMA_OK) {
			if (!last_progress) ++noprog; else noprog = 0;
			if (r->calls >= maxcalls) { r->ret = (lzma_ret)100; break; }   // 100 = call budget exhausted
			continue;
		}
		if (ret == LZMA_NO_CHECK || ret == LZMA_UNSUPPORTED_CHECK || ret == LZMA_GET_CHECK) {
			info_put(r, ret, strm->total_out);
			noprog = 0;
			last_progress = 1;
			continue;
		}
		if (ret == LZMA_MEMLIMIT_ERROR && mlraise) {
			info_put(r, ret, strm->total_out);
			mlraise = 0;
			if (lzma_memlimit_set(strm, UINT64_MAX) == LZMA_OK) { noprog = 0; last_progress = 1; continue; }
		}
		r->ret = ret;
		break;
	}
	r->bufloop = noprog;
	r->total_in = strm->total_in;
	r->memusage = lzma_memusage(strm);
	free(obuf);
}

static const char *arg(hp_line *l, const char *key, const char *def)
{
	size_t k = strlen(key);
	for (int i = 1; i < l->ntok; ++i)
		if (!strncmp(l->tok[i], key, k) && l->tok[i][k] == '=')
			return l->tok[i] + k + 1;
	return def;
}

static uint8_t *read_file(const char *path, size_t *len)
{
	FILE *f = fopen(path, "rb");
	if (!f) return NULL;
	fseek(f, 0, SEEK_END);
	long n = ftell(f);
	fseek(f, 0, SEEK_SET);
	uint8_t *p = malloc(n > 0 ? (size_t)n : 1);   // exactly sized: ASan sees overreads
	if (n > 0 && fread(p, 1, (size_t)n, f) != (size_t)n) { fclose(f); free(p); return NULL; }
	fclose(f);
	*len = (size_t)n;
	return p;
}

static void print_vec(const vec *v)
{
	if (v->n == 0) { putchar('-'); return; }
	fwrite(v->p, 1, v->n, stdout);
}

int main(void)
{
	hp_line l = {0};
	const int have_hook = &lzma_verif_mt_event != NULL;
	while (hp_next(&l)) {
		if (strcmp(l.tok[0], "run") != 0) { printf("bad-op\n"); continue; }
		size_t len = 0;
		uint8_t *data = read_file(arg(&l, "file", ""), &len);
		if (!data) { printf("no-file\n"); continue; }

		lzma_mt mt;
		memset(&mt, 0, sizeof mt);
		mt.threads = (uint32_t)strtoul(arg(&l, "threads", "2"), NULL, 10);
		mt.memlimit_threading = strtoull(arg(&l, "mlt", "18446744073709551615"), NULL, 10);
		mt.memlimit_stop = strtoull(arg(&l, "mls", "18446744073709551615"), NULL, 10);
		mt.timeout = (uint32_t)strtoul(arg(&l, "timeout", "0"), NULL, 10);
		mt.flags = (uint32_t)strtoul(arg(&l, "flags", "0"), NULL, 10);
		slicing ins = parse_slicing(arg(&l, "in", "a")), outs = parse_slicing(arg(&l, "out", "a"));
		slicing stins = parse_slicing(arg(&l, "stin", "a")), stouts = parse_slicing(arg(&l, "stout", "a"));
		const uint64_t slice_seed = strtoull(arg(&l, "slice", "1"), NULL, 10);
		const int fin = atoi(arg(&l, "fin", "1"));
		const long endat = atol(arg(&l, "endat", "-1"));
		const uint64_t maxcalls = strtoull(arg(&l, "maxcalls", "2000000"), NULL, 10);
		const int prog = atoi(arg(&l, "prog", "0"));
		const int mlraise = atoi(arg(&l, "mlraise", "0"));
		const int use_alloc = atoi(arg(&l, "alloc", "0"));
		const uint64_t failat = strtoull(arg(&l, "failat", "0"), NULL, 10);
		{
			const char *oc = arg(&l, "outcap", "-1");
			g_outcap = oc[0] == '-' ? (size_t)-1 : (size_t)strtoull(oc, NULL, 10);
		}

		sched_config cfg;
		sched_config_from_env(&cfg);
		const char *m = arg(&l, "mode", NULL);
		if (m) cfg.mode = !strcmp(m, "real") ? SCHED_REAL : !strcmp(m, "pct") ? SCHED_PCT : !strcmp(m, "nopreempt") ? SCHED_NOPREEMPT : SCHED_RANDOM;
		const char *v;
		if ((v = arg(&l, "seed", NULL))) cfg.seed = strtoull(v, NULL, 10);
		if ((v = arg(&l, "sticky", NULL))) cfg.sticky = (unsigned)atoi(v);
		if ((v = arg(&l, "pctd", NULL))) cfg.pct_depth = (unsigned)atoi(v);
		if ((v = arg(&l, "pcts", NULL))) cfg.pct_steps = strtoull(v, NULL, 10);
		if ((v = arg(&l, "ptime", NULL))) cfg.p_timeout = (unsigned)atoi(v);
		if ((v = arg(&l, "pspur", NULL))) cfg.p_spurious = (unsigned)atoi(v);
		if ((v = arg(&l, "maxsteps", NULL))) cfg.max_steps = strtoull(v, NULL, 10);
		if ((v = arg(&l, "jitter", NULL))) cfg.jitter = (unsigned)atoi(v);
		if ((v = arg(&l, "log", NULL)) && strcmp(v, "-")) cfg.log_path = v;

		// ---- threaded decoder under the scheduler
		result mtr;
		memset(&mtr, 0, sizeof mtr);
		evbuf.n = 0;
		ev_nptrs = 0;
		// the event buffer is not thread safe: traces are recorded only when the scheduler serialises the threads
		// (allocation failures are not part of the model: a decode with an injected failure is not traced)
		{
			const char *pre0 = arg(&l, "pre", NULL);
			const int has_pre = pre0 != NULL && strcmp(pre0, "-") != 0;
			ev_on = have_hook && cfg.mode != SCHED_REAL && !(use_alloc && failat != 0 && !has_pre);
		}
		if (have_hook) lzma_verif_mt_event = ev_cb;
		mtr.trace = ev_on;
		sched_stats st;
		memset(&st, 0, sizeof st);
		sched_begin(&cfg);
		lzma_stream strm = LZMA_STREAM_INIT;
		lzma_ret ir;
		at_reset();
		if (use_alloc) {
			strm.allocator = &at_allocator;
			at_failat = failat;      // applies to the first decode on this handle (the abandoned one if there is one)
		}
		const char *pre = arg(&l, "pre", NULL);
		if (pre != NULL && strcmp(pre, "-") != 0) {
			// abandon a first decode after `precalls` calls (queue possibly partly read), then re-initialise the SAME handle
			size_t plen = 0;
			uint8_t *pdata = read_file(pre, &plen);
			if (pdata != NULL) {
				result pr;
				memset(&pr, 0, sizeof pr);
				const int saved = ev_on;
				ev_on = 0;
				// the abandoned decode may use a different (e.g. larger) thread count than the decode that follows
				lzma_mt mtpre = mt;
				const uint32_t prethreads = (uint32_t)strtoul(arg(&l, "prethreads", "0"), NULL, 10);
				if (prethreads != 0) mtpre.threads = prethreads;
				if (lzma_stream_decoder_mt(&strm, &mtpre) == LZMA_OK)
					app_loop(&strm, pdata, plen, ins, outs, slice_seed + 7, fin, atol(arg(&l, "precalls", "3")), maxcalls, prog, 0, &pr);
				free(pr.out.p); free(pr.info.p);
				// the input buffer of the abandoned decode must stay valid until the re-initialisation has joined the workers
				at_failat = 0;
				ir = lzma_stream_decoder_mt(&strm, &mt);
				free(pdata);
				ev_on = saved;
				evbuf.n = 0;
				ev_nptrs = 0;
				goto inited;
			}
		}
		ir = lzma_stream_decoder_mt(&strm, &mt);
inited:
		if (ir != LZMA_OK) {
			mtr.ret = ir;
		} else {
			app_loop(&strm, data, len, ins, outs, slice_seed, fin, endat, maxcalls, prog, mlraise, &mtr);
		}
		if (mtr.trace) ev_cb(3, NULL, 0, 0, 0);
		lzma_end(&strm);
		sched_end(&st);
		if (use_alloc && at_live != 0 && !at_overflow) {
			fprintf(stderr, "C07-ALLOC: %zu allocation(s) of the stream's allocator still live after lzma_end\n", at_live);
			fflush(stderr);
			abort();
		}
		ev_on = 0;
		if (have_hook) lzma_verif_mt_event = NULL;

		// ---- single-threaded oracle on the same bytes (no scheduler involved: it creates no threads).
		// The single-threaded decoder's output in front of an error can itself depend on the buffer slicing (that is
		// C06's subject, not C07's): for rejected input the reference is therefore the SET of single-threaded results
		// under three slicings (stin/stout [default everything at once]; 1-byte output slices; this case's own slicing),
		// and the threaded result must equal one of them. For accepted input there is exactly one reference.
		result str;
		int st_var = -1, st_variants = 0, st_dep = 0, same = 0, prefix = 0;
		size_t v0_len = 0;
		lzma_ret v0_ret = LZMA_OK;
		memset(&str, 0, sizeof str);
		for (int var = 0; var < 3; ++var) {
			result cur;
			memset(&cur, 0, sizeof cur);
			slicing vi = var == 0 ? stins : var == 1 ? parse_slicing("a") : ins;
			slicing vo = var == 0 ? stouts : var == 1 ? parse_slicing("f:1") : outs;
			lzma_stream s2 = LZMA_STREAM_INIT;
			ir = lzma_stream_decoder(&s2, mt.memlimit_stop ? mt.memlimit_stop : 1, mt.flags & ~(uint32_t)LZMA_FAIL_FAST);
			if (ir != LZMA_OK)
				cur.ret = ir;
			else
				app_loop(&s2, data, len, vi, vo, slice_seed + (uint64_t)var, fin, -1, maxcalls, 0, mlraise, &cur);
			lzma_end(&s2);
			++st_variants;
			const int eq = mtr.out.n == cur.out.n && (mtr.out.n == 0 || memcmp(mtr.out.p, cur.out.p, mtr.out.n) == 0);
			const int pre = mtr.out.n <= cur.out.n && (mtr.out.n == 0 || memcmp(mtr.out.p, cur.out.p, mtr.out.n) == 0);
			if (pre) prefix = 1;
			if (var == 0) {
				str = cur;
				v0_len = cur.out.n;
				v0_ret = cur.ret;
				same = eq;
				if (eq && cur.ret == mtr.ret) st_var = 0;
			} else {
				if (cur.out.n != v0_len || cur.ret != v0_ret) st_dep = 1;
				if (st_var < 0 && eq && cur.ret == mtr.ret) {
					free(str.out.p); free(str.info.p);
					str = cur;
					same = 1;
					st_var = var;
				} else {
					free(cur.out.p); free(cur.info.p);
				}
			}
			// accepted input has exactly one reference; a rejected one is settled as soon as a variant matches
			if (v0_ret == LZMA_STREAM_END || st_var >= 0 || mtr.ended_early)
				break;
		}

		printf("mt_ret=%d mt_len=%zu mt_hash=%016" PRIx64 " mt_info=", (int)mtr.ret, mtr.out.n, fnv(mtr.out.p, mtr.out.n));
		print_vec(&mtr.info);
		printf(" mt_in=%" PRIu64 " calls=%" PRIu64 " st_ret=%d st_len=%zu st_hash=%016" PRIx64 " st_info=", mtr.total_in, mtr.calls,
			(int)str.ret, str.out.n, fnv(str.out.p, str.out.n));
		print_vec(&str.info);
		printf(" st_in=%" PRIu64 " same=%d prefix=%d ended=%d steps=%" PRIu64 " switches=%" PRIu64 " thr=%u maxlive=%u to=%" PRIu64
			" spur=%" PRIu64 " waits=%" PRIu64 " cont=%" PRIu64 " shash=%016" PRIx64 " mem=%" PRIu64 " bufloop=%" PRIu64
			" progbad=%d st_var=%d st_variants=%d st_dep=%d hook=%d ev=",
			str.total_in, same, prefix, mtr.ended_early, st.steps, st.switches, st.threads, st.max_live, st.timeouts, st.spurious,
			st.waits, st.contended, st.trace_hash, mtr.memusage, mtr.bufloop, mtr.progress_bad, st_var, st_variants, st_dep, have_hook);
		if (have_hook && evbuf.n) print_vec(&evbuf); else putchar('-');
		putchar('\n');
		fflush(stdout);
		free(mtr.out.p); free(mtr.info.p); free(str.out.p); free(str.info.p);
		free(data);
	}
	free(evbuf.p);
	hp_done(&l);
	return 0;
}
