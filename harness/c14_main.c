// C14 harness main: line protocol
//   crc32 <align> <init> <hex>          -> "<generic> <arch> <public>"
//   crc64 <align> <init> <hex>          -> "<generic> <arch> <public>"
//   crc32s <init> <hex> <hex> ...       -> public API over consecutive pieces
//   crc64s <init> <hex> <hex> ...
//   sha256 <hex>                        -> "<digest via lzma_check_*(LZMA_CHECK_SHA256)> <digest via lzma_sha256_*>"
//   sha256s <hex> <hex> ...             -> same, the message given in consecutive pieces
//   check <id> <hex> <hex> ...          -> "<lzma_check_size(id)> <lzma_check_is_supported(id)> <first size bytes of
//                                           check.buffer after init/update*/finish>", state pre-filled with 0xAA
//   small32 <init> <hex> / small64 ...  -> HAVE_SMALL implementation (crc32_small.c / crc64_small.c)
//   smalltab32 / smalltab64             -> the 256 table entries those files generate at run time
#include "hproto.h"
#include "check.h"

uint32_t h_crc32_generic(const uint8_t *, size_t, uint32_t);
uint32_t h_crc32_arch(const uint8_t *, size_t, uint32_t);
uint32_t h_crc32_public(const uint8_t *, size_t, uint32_t);
uint64_t h_crc64_generic(const uint8_t *, size_t, uint64_t);
uint64_t h_crc64_arch(const uint8_t *, size_t, uint64_t);
uint64_t h_crc64_public(const uint8_t *, size_t, uint64_t);
uint32_t h_small32(const uint8_t *, size_t, uint32_t);
uint64_t h_small64(const uint8_t *, size_t, uint64_t);
uint32_t h_small32_tab(unsigned);
uint64_t h_small64_tab(unsigned);

static void do_sha(hp_line *l)
{
	lzma_check_state a, b;
	memset(&a, 0xAA, sizeof(a));
	memset(&b, 0x55, sizeof(b));
	lzma_check_init(&a, LZMA_CHECK_SHA256);
	lzma_sha256_init(&b);
	for (int i = 1; i < l->ntok; ++i) {
		size_t n; uint8_t *p = hp_hex(l->tok[i], &n);
		lzma_check_update(&a, LZMA_CHECK_SHA256, p, n);
		lzma_sha256_update(p, n, &b);
		free(p);
	}
	lzma_check_finish(&a, LZMA_CHECK_SHA256);
	lzma_sha256_finish(&b);
	hp_put_hex(a.buffer.u8, 32);
	putchar(' ');
	hp_put_hex(b.buffer.u8, 32);
	putchar('\n');
}

static void do_check(hp_line *l)
{
	// the id is passed through as an integer: ids above LZMA_CHECK_ID_MAX must be harmless
	unsigned long long idv = hp_u64(l->tok[1]);
	lzma_check id = (lzma_check)(unsigned int)idv;
	lzma_check_state s;
	memset(&s, 0xAA, sizeof(s));
	lzma_check_init(&s, id);
	for (int i = 2; i < l->ntok; ++i) {
		size_t n; uint8_t *p = hp_hex(l->tok[i], &n);
		lzma_check_update(&s, id, p, n);
		free(p);
	}
	lzma_check_finish(&s, id);
	uint32_t size = lzma_check_size(id);
	printf("%" PRIu32 " %d ", size, (int)lzma_check_is_supported(id));
	hp_put_hex(s.buffer.u8, size <= 64 ? size : 0);
	putchar('\n');
}

int main(void)
{
	hp_line l = {0};
	while (hp_next(&l)) {
		const char *op = l.tok[0];
		if ((!strcmp(op, "crc32") || !strcmp(op, "crc64")) && l.ntok == 4) {
			size_t n; void *base;
			uint8_t *p = hp_hex_aligned(l.tok[3], &n, (size_t)hp_u64(l.tok[1]), &base);
			uint64_t init = hp_u64(l.tok[2]);
			if (op[3] == '3')
				printf("%" PRIu32 " %" PRIu32 " %" PRIu32 "\n", h_crc32_generic(p, n, (uint32_t)init),
						h_crc32_arch(p, n, (uint32_t)init), h_crc32_public(p, n, (uint32_t)init));
			else
				printf("%" PRIu64 " %" PRIu64 " %" PRIu64 "\n", h_crc64_generic(p, n, init),
						h_crc64_arch(p, n, init), h_crc64_public(p, n, init));
			free(base);
		} else if ((!strcmp(op, "crc32s") || !strcmp(op, "crc64s")) && l.ntok >= 2) {
			uint64_t c = hp_u64(l.tok[1]);
			for (int i = 2; i < l.ntok; ++i) {
				size_t n; uint8_t *p = hp_hex(l.tok[i], &n);
				c = op[3] == '3' ? h_crc32_public(p, n, (uint32_t)c) : h_crc64_public(p, n, c);
				free(p);
			}
			printf("%" PRIu64 "\n", c);
		} else if (!strcmp(op, "sha256") && l.ntok == 2) {
			do_sha(&l);
		} else if (!strcmp(op, "sha256s") && l.ntok >= 1) {
			do_sha(&l);
		} else if (!strcmp(op, "check") && l.ntok >= 2) {
			do_check(&l);
		} else if ((!strcmp(op, "small32") || !strcmp(op, "small64")) && l.ntok == 3) {
			size_t n; uint8_t *p = hp_hex(l.tok[2], &n);
			uint64_t init = hp_u64(l.tok[1]);
			if (op[5] == '3')
				printf("%" PRIu32 "\n", h_small32(p, n, (uint32_t)init));
			else
				printf("%" PRIu64 "\n", h_small64(p, n, init));
			free(p);
		} else if (!strcmp(op, "smalltab32") && l.ntok == 1) {
			for (unsigned i = 0; i < 256; ++i)
				printf("%s%" PRIu32, i ? "," : "", h_small32_tab(i));
			putchar('\n');
		} else if (!strcmp(op, "smalltab64") && l.ntok == 1) {
			for (unsigned i = 0; i < 256; ++i)
				printf("%s%" PRIu64, i ? "," : "", h_small64_tab(i));
			putchar('\n');
		} else {
			printf("bad-op\n");
		}
	}
	hp_done(&l);
	return 0;
}
