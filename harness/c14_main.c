// C14 harness main: line protocol
//   crc32 <align> <init> <hex>          -> "<generic> <arch> <public>"
//   crc64 <align> <init> <hex>          -> "<generic> <arch> <public>"
//   crc32s <init> <hex> <hex> ...       -> public API over consecutive pieces
//   crc64s <init> <hex> <hex> ...
//   sha256 <hex>                        -> "<digest via lzma_check_*(LZMA_CHECK_SHA256)> <digest via lzma_sha256_*>"
//   sha256s <hex> <hex> ...             -> same, the message given in consecutive pieces
//   check <id> <hex> <hex> ...          -> "<lzma_check_size(id)> <lzma_check_is_supported(id)> <first size bytes of
//                                           check.buffer after init/update*/finish>", state pre-filled with 0xAA
//   small32 <init> <hex> / small64 ...  -> HAVE_SMALL implementation (crc32_small.c / crc64_small.c)
//   smalltab32 / smalltab64             -> the 256 table entries those files generate at run time
//   crc32g <init> <hex> / crc64g ...    -> as crc32/crc64, the buffer ending at a page end followed by a PROT_NONE page
//   huge <fn> <size> <seed>             -> "<one call over the whole buffer> <same buffer in ~1 GiB pieces>" for
//                                           fn = crc32pub|crc32arch|crc32gen|crc64pub|crc64arch|crc64gen|check1|check4|sha256 (one call only)|
//                                           sha256p (lzma_sha256_update in 64 MiB pieces only):
//                                           a (4 GiB + 16 KiB) MAP_NORESERVE mapping, 8 KiB of xorshift bytes at the
//                                           start and at the end of the first <size> bytes, zeros in between
#include "c14_util.h"
#include "check.h"

uint32_t h_crc32_generic(const uint8_t *, size_t, uint32_t);
uint32_t h_crc32_arch(const uint8_t *, size_t, uint32_t);
uint32_t h_crc32_public(const uint8_t *, size_t, uint32_t);
uint64_t h_crc64_generic(const uint8_t *, size_t, uint64_t);
uint64_t h_crc64_arch(const uint8_t *, size_t, uint64_t);
uint64_t h_crc64_public(const uint8_t *, size_t, uint64_t);
uint32_t h_small32(const uint8_t *, size_t, uint32_t);
uint64_t h_small64(const uint8_t *, size_t, uint64_t);
uint32_t h_small32_tab(unsigned);
uint64_t h_small64_tab(unsigned);

#define HUGE_MAP ((size_t)4 * 1024 * 1024 * 1024 + 16384)
#define HUGE_EDGE 8192
#define HUGE_PIECE ((size_t)1024 * 1024 * 1024 + 4097)

static uint64_t xs_state;
static uint8_t xs_next(void)
{
	xs_state ^= xs_state << 13;
	xs_state ^= xs_state >> 7;
	xs_state ^= xs_state << 17;
	return (uint8_t)(xs_state >> 32);
}

static void do_huge(hp_line *l)
{
#if SIZE_MAX > UINT32_MAX
	const char *fn = l->tok[1];
	size_t size = (size_t)hp_u64(l->tok[2]);
	if (size > HUGE_MAP || size < 2 * HUGE_EDGE) { printf("bad-op\n"); return; }
	uint8_t *m = mmap(NULL, HUGE_MAP, PROT_READ | PROT_WRITE, MAP_PRIVATE | MAP_ANONYMOUS | MAP_NORESERVE, -1, 0);
	if (m == MAP_FAILED) { printf("mmap-failed\n"); return; }
	xs_state = hp_u64(l->tok[3]) * 2 + 1;
	for (size_t i = 0; i < HUGE_EDGE; ++i) m[i] = xs_next();
	for (size_t i = 0; i < HUGE_EDGE; ++i) m[size - HUGE_EDGE + i] = xs_next();
	if (!strncmp(fn, "crc32", 5) || !strncmp(fn, "crc64", 5)) {
		int w64 = fn[3] == '6';
		const char *k = fn + 5;
		uint64_t one, pcs = 0;
		if (!strcmp(k, "pub")) one = w64 ? h_crc64_public(m, size, 0) : h_crc32_public(m, size, 0);
		else if (!strcmp(k, "arch")) one = w64 ? h_crc64_arch(m, size, 0) : h_crc32_arch(m, size, 0);
		else if (!strcmp(k, "gen")) one = w64 ? h_crc64_generic(m, size, 0) : h_crc32_generic(m, size, 0);
		else { munmap(m, HUGE_MAP); printf("bad-op\n"); return; }
		for (size_t pos = 0; pos < size; ) {
			size_t n = size - pos < HUGE_PIECE ? size - pos : HUGE_PIECE;
			pcs = w64 ? h_crc64_public(m + pos, n, pcs) : h_crc32_public(m + pos, n, (uint32_t)pcs);
			pos += n;
		}
		printf("%" PRIu64 " %" PRIu64 "\n", one, pcs);
	} else if (!strcmp(fn, "sha256p")) {
		// streamed: lzma_sha256_update in (64 MiB + 4097)-byte pieces (the bit-length field of the padding depends on
		// the total only; lengths around 2^29 and 2^32 exercise the carry between its 32-bit halves)
		lzma_check_state a;
		memset(&a, 0xAA, sizeof(a));
		lzma_sha256_init(&a);
		const size_t piece = (size_t)64 * 1024 * 1024 + 4097;
		for (size_t pos = 0; pos < size; ) {
			size_t n = size - pos < piece ? size - pos : piece;
			lzma_sha256_update(m + pos, n, &a);
			pos += n;
		}
		lzma_sha256_finish(&a);
		hp_put_hex(a.buffer.u8, 32);
		putchar('\n');
	} else if (!strcmp(fn, "sha256") || !strcmp(fn, "check1") || !strcmp(fn, "check4") || !strcmp(fn, "check10")) {
		lzma_check id = !strcmp(fn, "check1") ? LZMA_CHECK_CRC32 : !strcmp(fn, "check4") ? LZMA_CHECK_CRC64 : LZMA_CHECK_SHA256;
		lzma_check_state a, b;
		memset(&a, 0xAA, sizeof(a));
		memset(&b, 0x55, sizeof(b));
		lzma_check_init(&a, id);
		lzma_check_update(&a, id, m, size);
		lzma_check_finish(&a, id);
		hp_put_hex(a.buffer.u8, lzma_check_size(id));
		if (id != LZMA_CHECK_SHA256) {
			// (SHA-256 over 4 GiB takes ~20 s per pass: one call only, compared with hashlib by the driver script)
			lzma_check_init(&b, id);
			for (size_t pos = 0; pos < size; ) {
				size_t n = size - pos < HUGE_PIECE ? size - pos : HUGE_PIECE;
				lzma_check_update(&b, id, m + pos, n);
				pos += n;
			}
			lzma_check_finish(&b, id);
			putchar(' ');
			hp_put_hex(b.buffer.u8, lzma_check_size(id));
		}
		putchar('\n');
	} else {
		printf("bad-op\n");
	}
	munmap(m, HUGE_MAP);
#else
	(void)l;
	printf("unsupported-32-bit-size_t\n");
#endif
}

static void do_sha(hp_line *l)
{
	lzma_check_state a, b;
	memset(&a, 0xAA, sizeof(a));
	memset(&b, 0x55, sizeof(b));
	lzma_check_init(&a, LZMA_CHECK_SHA256);
	lzma_sha256_init(&b);
	for (int i = 1; i < l->ntok; ++i) {
		size_t n; uint8_t *p = hp_hex(l->tok[i], &n);
		lzma_check_update(&a, LZMA_CHECK_SHA256, p, n);
		lzma_sha256_update(p, n, &b);
		free(p);
	}
	lzma_check_finish(&a, LZMA_CHECK_SHA256);
	lzma_sha256_finish(&b);
	hp_put_hex(a.buffer.u8, 32);
	putchar(' ');
	hp_put_hex(b.buffer.u8, 32);
	putchar('\n');
}

static void do_check(hp_line *l)
{
	// the id is passed through as an integer: ids above LZMA_CHECK_ID_MAX must be harmless
	unsigned long long idv = hp_u64(l->tok[1]);
	lzma_check id = (lzma_check)(unsigned int)idv;
	lzma_check_state s;
	memset(&s, 0xAA, sizeof(s));
	lzma_check_init(&s, id);
	for (int i = 2; i < l->ntok; ++i) {
		size_t n; uint8_t *p = hp_hex(l->tok[i], &n);
		lzma_check_update(&s, id, p, n);
		free(p);
	}
	lzma_check_finish(&s, id);
	uint32_t size = lzma_check_size(id);
	printf("%" PRIu32 " %d ", size, (int)lzma_check_is_supported(id));
	hp_put_hex(s.buffer.u8, size <= 64 ? size : 0);
	putchar('\n');
}

int main(void)
{
	hp_line l = {0};
	while (hp_next(&l)) {
		const char *op = l.tok[0];
		if ((!strcmp(op, "crc32") || !strcmp(op, "crc64")) && l.ntok == 4) {
			size_t n; void *base;
			uint8_t *p = hex_aligned_exact(l.tok[3], &n, (size_t)hp_u64(l.tok[1]), &base);
			uint64_t init = hp_u64(l.tok[2]);
			if (op[3] == '3')
				printf("%" PRIu32 " %" PRIu32 " %" PRIu32 "\n", h_crc32_generic(p, n, (uint32_t)init),
						h_crc32_arch(p, n, (uint32_t)init), h_crc32_public(p, n, (uint32_t)init));
			else
				printf("%" PRIu64 " %" PRIu64 " %" PRIu64 "\n", h_crc64_generic(p, n, init),
						h_crc64_arch(p, n, init), h_crc64_public(p, n, init));
			free(base);
		} else if ((!strcmp(op, "crc32g") || !strcmp(op, "crc64g")) && l.ntok == 3) {
			size_t n, maplen; void *base;
			uint8_t *p = hex_page_end(l.tok[2], &n, &base, &maplen);
			uint64_t init = hp_u64(l.tok[1]);
			if (op[3] == '3')
				printf("%" PRIu32 " %" PRIu32 " %" PRIu32 "\n", h_crc32_generic(p, n, (uint32_t)init),
						h_crc32_arch(p, n, (uint32_t)init), h_crc32_public(p, n, (uint32_t)init));
			else
				printf("%" PRIu64 " %" PRIu64 " %" PRIu64 "\n", h_crc64_generic(p, n, init),
						h_crc64_arch(p, n, init), h_crc64_public(p, n, init));
			munmap(base, maplen);
		} else if ((!strcmp(op, "crc32s") || !strcmp(op, "crc64s")) && l.ntok >= 2) {
			uint64_t c = hp_u64(l.tok[1]);
			for (int i = 2; i < l.ntok; ++i) {
				size_t n; uint8_t *p = hp_hex(l.tok[i], &n);
				c = op[3] == '3' ? h_crc32_public(p, n, (uint32_t)c) : h_crc64_public(p, n, c);
				free(p);
			}
			printf("%" PRIu64 "\n", c);
		} else if (!strcmp(op, "huge") && l.ntok == 4) {
			do_huge(&l);
		} else if (!strcmp(op, "sha256") && l.ntok == 2) {
			do_sha(&l);
		} else if (!strcmp(op, "sha256s") && l.ntok >= 1) {
			do_sha(&l);
		} else if (!strcmp(op, "check") && l.ntok >= 2) {
			do_check(&l);
		} else if ((!strcmp(op, "small32") || !strcmp(op, "small64")) && l.ntok == 3) {
			size_t n; uint8_t *p = hp_hex(l.tok[2], &n);
			uint64_t init = hp_u64(l.tok[1]);
			if (op[5] == '3')
				printf("%" PRIu32 "\n", h_small32(p, n, (uint32_t)init));
			else
				printf("%" PRIu64 "\n", h_small64(p, n, init));
			free(p);
		} else if (!strcmp(op, "smalltab32") && l.ntok == 1) {
			for (unsigned i = 0; i < 256; ++i)
				printf("%s%" PRIu32, i ? "," : "", h_small32_tab(i));
			putchar('\n');
		} else if (!strcmp(op, "smalltab64") && l.ntok == 1) {
			for (unsigned i = 0; i < 256; ++i)
				printf("%s%" PRIu64, i ? "," : "", h_small64_tab(i));
			putchar('\n');
		} else {
			printf("bad-op\n");
		}
	}
	hp_done(&l);
	return 0;
}
