// C14 harness main: line protocol
//   crc32 <align> <init> <hex>          -> "<generic> <arch> <public>"
//   crc64 <align> <init> <hex>          -> "<generic> <arch> <public>"
//   crc32s <init> <hex> <hex> ...       -> public API over consecutive pieces
//   crc64s <init> <hex> <hex> ...
#include "hproto.h"

uint32_t h_crc32_generic(const uint8_t *, size_t, uint32_t);
uint32_t h_crc32_arch(const uint8_t *, size_t, uint32_t);
uint32_t h_crc32_public(const uint8_t *, size_t, uint32_t);
uint64_t h_crc64_generic(const uint8_t *, size_t, uint64_t);
uint64_t h_crc64_arch(const uint8_t *, size_t, uint64_t);
uint64_t h_crc64_public(const uint8_t *, size_t, uint64_t);

int main(void)
{
	hp_line l = {0};
	while (hp_next(&l)) {
		const char *op = l.tok[0];
		if ((!strcmp(op, "crc32") || !strcmp(op, "crc64")) && l.ntok == 4) {
			size_t n; void *base;
			uint8_t *p = hp_hex_aligned(l.tok[3], &n, (size_t)hp_u64(l.tok[1]), &base);
			uint64_t init = hp_u64(l.tok[2]);
			if (op[3] == '3')
				printf("%" PRIu32 " %" PRIu32 " %" PRIu32 "\n", h_crc32_generic(p, n, (uint32_t)init),
						h_crc32_arch(p, n, (uint32_t)init), h_crc32_public(p, n, (uint32_t)init));
			else
				printf("%" PRIu64 " %" PRIu64 " %" PRIu64 "\n", h_crc64_generic(p, n, init),
						h_crc64_arch(p, n, init), h_crc64_public(p, n, init));
			free(base);
		} else if ((!strcmp(op, "crc32s") || !strcmp(op, "crc64s")) && l.ntok >= 2) {
			uint64_t c = hp_u64(l.tok[1]);
			for (int i = 2; i < l.ntok; ++i) {
				size_t n; uint8_t *p = hp_hex(l.tok[i], &n);
				c = op[3] == '3' ? h_crc32_public(p, n, (uint32_t)c) : h_crc64_public(p, n, c);
				free(p);
			}
			printf("%" PRIu64 "\n", c);
		} else {
			printf("bad-op\n");
		}
	}
	hp_done(&l);
	return 0;
}
