// see c03_variant.c: lz_decoder.c compiled into the harness with the variant's LZMA_LZ_DECODER_CONFIG
#include "lz_decoder.c"
