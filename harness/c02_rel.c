// C02 harness, relational ops: run the REAL encoders of liblzma on (configuration, data), print the produced
// bytes and the verdict of a round trip through the REAL decoder. The model then validates the container
// structure of the produced bytes field by field (see lean/Driver/C02.lean `valxz`, `valblock`, `valalone`).
//
//   easy  <preset> <check> <extra> <hex>            lzma_easy_buffer_encode,  out_size = bound(n) + extra
//   sbe   <check> <extra> <hex> RF...               lzma_stream_buffer_encode
//   bbe   <check> <extra> <hex> RF...               lzma_block_buffer_encode        -> also prints hs cs us
//   bue   <check> <extra> <hex>                     lzma_block_uncomp_encode        -> also prints hs cs us
//   strm  <check> <seed> <flushmode> <hex> RF...    lzma_stream_encoder, multi-call with random slicing
//   mt    <check> <threads> <blocksize> <seed> <flushmode> <hex> RF...   lzma_stream_encoder_mt
//   alone <seed> <hex> L1:...                       lzma_alone_encoder
//   xbound <api> <check> <n> <kind> <seed> RF...    single-call encoders with out_size == bound(n) exactly,
//                                                   data generated here (kind 0 random, 1 zeros, 2 text, 3 mixed)
//   relchain RF...                                  prints the chain as the functional filter tokens of c02_func.c / Driver/C02.lean
//                                                   (lzma2:<dict> lzma1:<id>:<lc>:<lp>:<pb>:<dict> bcj:<id>:<off> bcjn:<id> delta:<dist>):
//                                                   what lzma_lzma_preset() makes of the preset numbers, nothing else is resolved here
// RF tokens: L2:<preset>:<dict>:<lc>:<lp>:<pb>:<mode>:<nice>:<mf>:<depth>  (-1 keeps the preset's value), L1:... same,
//            X86 PPC IA64 ARM ARMT SPARC ARM64 RISCV [:<start_offset>], DELTA:<dist>
#include "c02_common.h"

typedef struct {
	lzma_filter f[LZMA_FILTERS_MAX + 1];
	lzma_options_lzma lzma[LZMA_FILTERS_MAX];
	lzma_options_bcj bcj[LZMA_FILTERS_MAX];
	lzma_options_delta delta[LZMA_FILTERS_MAX];
} rel_chain;

static bool rel_parse_one(const char *tok, rel_chain *c, int i)
{
	char name[16];
	const char *p = strchr(tok, ':');
	size_t n = p ? (size_t)(p - tok) : strlen(tok);
	if (n >= sizeof(name)) return false;
	memcpy(name, tok, n); name[n] = '\0';
	long long f[10]; int k = 0;
	while (p != NULL && k < 10) { ++p; f[k++] = strtoll(p, NULL, 10); p = strchr(p, ':'); }
	static const struct { const char *nm; lzma_vli id; } bcjs[] = {
		{"X86", LZMA_FILTER_X86}, {"PPC", LZMA_FILTER_POWERPC}, {"IA64", LZMA_FILTER_IA64}, {"ARM", LZMA_FILTER_ARM},
		{"ARMT", LZMA_FILTER_ARMTHUMB}, {"SPARC", LZMA_FILTER_SPARC}, {"ARM64", LZMA_FILTER_ARM64}, {"RISCV", LZMA_FILTER_RISCV} };
	if (!strcmp(name, "L2") || !strcmp(name, "L1")) {
		if (k != 9) return false;
		lzma_options_lzma *o = &c->lzma[i];
		if (lzma_lzma_preset(o, (uint32_t)f[0])) return false;
		if (f[1] >= 0) o->dict_size = (uint32_t)f[1];
		if (f[2] >= 0) o->lc = (uint32_t)f[2];
		if (f[3] >= 0) o->lp = (uint32_t)f[3];
		if (f[4] >= 0) o->pb = (uint32_t)f[4];
		if (f[5] >= 0) o->mode = (lzma_mode)f[5];
		if (f[6] >= 0) o->nice_len = (uint32_t)f[6];
		if (f[7] >= 0) o->mf = (lzma_match_finder)f[7];
		if (f[8] >= 0) o->depth = (uint32_t)f[8];
		c->f[i].id = name[1] == '2' ? LZMA_FILTER_LZMA2 : LZMA_FILTER_LZMA1;
		c->f[i].options = o;
		return true;
	}
	if (!strcmp(name, "DELTA") && k == 1) {
		c->delta[i].type = LZMA_DELTA_TYPE_BYTE; c->delta[i].dist = (uint32_t)f[0];
		c->f[i].id = LZMA_FILTER_DELTA; c->f[i].options = &c->delta[i];
		return true;
	}
	for (size_t j = 0; j < sizeof(bcjs) / sizeof(bcjs[0]); ++j)
		if (!strcmp(name, bcjs[j].nm)) {
			c->f[i].id = bcjs[j].id;
			if (k >= 1) { c->bcj[i].start_offset = (uint32_t)f[0]; c->f[i].options = &c->bcj[i]; }
			else c->f[i].options = NULL;
			return true;
		}
	return false;
}

static bool rel_parse_chain(hp_line *l, int from, rel_chain *c)
{
	memset(c, 0, sizeof(*c));
	int n = 0;
	for (int i = from; i < l->ntok; ++i, ++n) {
		if (n >= LZMA_FILTERS_MAX) return false;
		if (!rel_parse_one(l->tok[i], c, n)) return false;
	}
	c->f[n].id = LZMA_VLI_UNKNOWN;
	c->f[n].options = NULL;
	return n > 0;
}

static uint64_t xs64(uint64_t *s) { *s ^= *s << 13; *s ^= *s >> 7; *s ^= *s << 17; return *s; }

static uint8_t *gen_data(size_t n, int kind, uint64_t seed)
{
	uint8_t *d = malloc(n ? n : 1);
	uint64_t s = seed * 0x9E3779B97F4A7C15ull + 0x1234567ull;
	if (s == 0) s = 1;
	static const char *words[] = { "the ", "quick ", "brown ", "fox ", "jumps ", "over ", "lazy ", "dog ", "lzma ", "xz ", "\n", "0123456789 " };
	size_t i = 0;
	switch (kind) {
	case 1: memset(d, 0, n); break;
	case 2:
		while (i < n) { const char *w = words[xs64(&s) % 12]; for (; *w && i < n; ++w) d[i++] = (uint8_t)*w; }
		break;
	case 3:
		while (i < n) {
			uint64_t r = xs64(&s);
			size_t len = 1 + (size_t)(r >> 8) % 5000;
			if (len > n - i) len = n - i;
			if ((r & 3) == 0 && i > 0) { size_t back = 1 + (size_t)(xs64(&s) % i); for (size_t j = 0; j < len; ++j) d[i + j] = d[i + j - back]; }
			else if ((r & 3) == 1) memset(d + i, (int)(r >> 40), len);
			else for (size_t j = 0; j < len; ++j) d[i + j] = (uint8_t)(xs64(&s) >> 32);
			i += len;
		}
		break;
	default:
		for (; i + 8 <= n; i += 8) { uint64_t r = xs64(&s); memcpy(d + i, &r, 8); }
		for (; i < n; ++i) d[i] = (uint8_t)(xs64(&s) >> 24);
	}
	return d;
}

// Round trip of a complete .xz Stream through the real decoder. Prints "ok" or "fail:...".
static void rt_stream(const uint8_t *xz, size_t xz_len, const uint8_t *data, size_t n)
{
	uint8_t *buf = malloc(n + 16);
	uint64_t memlimit = UINT64_MAX;
	size_t in_pos = 0, out_pos = 0;
	const lzma_ret r = lzma_stream_buffer_decode(&memlimit, 0, NULL, xz, &in_pos, xz_len, buf, &out_pos, n + 16);
	if (r != LZMA_OK) printf("fail:ret=%d", (int)r);
	else if (in_pos != xz_len) printf("fail:trailing=%zu", xz_len - in_pos);
	else if (out_pos != n || memcmp(buf, data, n) != 0) printf("fail:data-differs(len=%zu)", out_pos);
	else printf("ok");
	free(buf);
}

static void rt_block(const uint8_t *blk, size_t blk_len, lzma_check check, const uint8_t *data, size_t n)
{
	lzma_filter filters[LZMA_FILTERS_MAX + 1];
	lzma_block b = { .version = 1, .check = check, .filters = filters };
	if (blk_len < 8) { printf("fail:short"); return; }
	b.header_size = lzma_block_header_size_decode(blk[0]);
	lzma_ret r = lzma_block_header_decode(&b, NULL, blk);
	if (r != LZMA_OK) { printf("fail:header=%d", (int)r); return; }
	uint8_t *buf = malloc(n + 16);
	size_t in_pos = b.header_size, out_pos = 0;
	r = lzma_block_buffer_decode(&b, NULL, blk, &in_pos, blk_len, buf, &out_pos, n + 16);
	if (r != LZMA_OK) printf("fail:ret=%d", (int)r);
	else if (in_pos != blk_len) printf("fail:trailing=%zu", blk_len - in_pos);
	else if (out_pos != n || memcmp(buf, data, n) != 0) printf("fail:data-differs(len=%zu)", out_pos);
	else printf("ok");
	lzma_filters_free(filters, NULL);
	free(buf);
}

static void rt_alone(const uint8_t *lz, size_t len, const uint8_t *data, size_t n)
{
	lzma_stream s = LZMA_STREAM_INIT;
	lzma_ret r = lzma_alone_decoder(&s, UINT64_MAX);
	if (r != LZMA_OK) { printf("fail:init=%d", (int)r); return; }
	uint8_t *buf = malloc(n + 16);
	s.next_in = lz; s.avail_in = len; s.next_out = buf; s.avail_out = n + 16;
	r = lzma_code(&s, LZMA_FINISH);
	if (r != LZMA_STREAM_END) printf("fail:ret=%d", (int)r);
	else if (s.avail_in != 0) printf("fail:trailing=%zu", s.avail_in);
	else if (s.total_out != n || memcmp(buf, data, n) != 0) printf("fail:data-differs(len=%" PRIu64 ")", s.total_out);
	else printf("ok");
	lzma_end(&s);
	free(buf);
}

// Drives an initialised encoder stream over `data` with random input/output slicing and optional flushes.
// flushmode: 0 none, 1 LZMA_SYNC_FLUSH, 2 LZMA_FULL_FLUSH, 3 LZMA_FULL_BARRIER (at random points).
static lzma_ret drive_ex(lzma_stream *s, const uint8_t *data, size_t n, uint64_t seed, int flushmode,
		uint8_t **out_p, size_t *out_len, unsigned *flushes, bool finish);

static lzma_ret drive(lzma_stream *s, const uint8_t *data, size_t n, uint64_t seed, int flushmode,
		uint8_t **out_p, size_t *out_len, unsigned *flushes)
{
	return drive_ex(s, data, n, seed, flushmode, out_p, out_len, flushes, true);
}

// finish == false: stop (LZMA_OK) once all of `data` has been handed over with LZMA_RUN, without LZMA_FINISH:
// the Stream is left unfinished (abandoned).
static lzma_ret drive_ex(lzma_stream *s, const uint8_t *data, size_t n, uint64_t seed, int flushmode,
		uint8_t **out_p, size_t *out_len, unsigned *flushes, bool finish)
{
	uint64_t st = seed * 0x9E3779B97F4A7C15ull + 99;
	if (st == 0) st = 1;
	size_t cap = n + n / 2 + (1u << 16);
	uint8_t *out = malloc(cap);
	size_t in_given = 0, out_used = 0;
	const size_t maxin = (xs64(&st) & 1) ? 97 : 70001, maxout = (xs64(&st) & 1) ? 61 : 50021;
	s->next_in = data; s->avail_in = 0;
	s->next_out = out; s->avail_out = 0;
	lzma_action action = LZMA_RUN;
	*flushes = 0;
	lzma_ret r = LZMA_OK;
	for (unsigned long iter = 0; iter < 100000000ul; ++iter) {
		if (action == LZMA_RUN && s->avail_in == 0) {
			if (in_given == n) {
				if (!finish) { r = LZMA_OK; break; }
				action = LZMA_FINISH;
			} else {
				size_t c = 1 + (size_t)(xs64(&st) % maxin);
				if (c > n - in_given) c = n - in_given;
				s->next_in = data + in_given; s->avail_in = c; in_given += c;
				if (flushmode != 0 && (xs64(&st) % 7) == 0) {
					action = flushmode == 1 ? LZMA_SYNC_FLUSH : flushmode == 2 ? LZMA_FULL_FLUSH : LZMA_FULL_BARRIER;
					++*flushes;
				}
			}
		}
		if (s->avail_out == 0) {
			if (cap - out_used < (1u << 16)) {
				cap = cap * 2;
				out = realloc(out, cap);
			}
			size_t c = 1 + (size_t)(xs64(&st) % maxout);
			s->next_out = out + out_used; s->avail_out = c;
		}
		const size_t before = s->avail_out;
		r = lzma_code(s, action);
		out_used += before - s->avail_out;
		if (r == LZMA_STREAM_END) {
			if (action == LZMA_FINISH) { r = LZMA_OK; break; }
			action = LZMA_RUN;   // flush finished
			continue;
		}
		if (r != LZMA_OK) break;
	}
	*out_p = out; *out_len = out_used;
	return r;
}

// `upd` op: like drive(), but after every completed flush the filter chain is changed with lzma_filters_update():
// after LZMA_SYNC_FLUSH only lc/lp/pb of the LZMA2 options (next triple of `trip`), after LZMA_FULL_FLUSH /
// LZMA_FULL_BARRIER the whole chain (next of `chains`). flushmode: 1 sync, 2 full flush, 3 full barrier, 4 sync/full mixed.
// Every change is logged as "<total_in>:<S|F|I>:<chain index>:<lc/lp/pb byte now in force>:<ret of lzma_filters_update>".
typedef struct { uint64_t off; char kind; int idx; unsigned props; int ret; } upd_event;

static unsigned chain_props(const rel_chain *c)
{
	int i = 0;
	while (c->f[i + 1].id != LZMA_VLI_UNKNOWN) ++i;
	const lzma_options_lzma *o = c->f[i].options;
	return (o->pb * 5 + o->lp) * 9 + o->lc;
}

static void chain_copy(rel_chain *dst, const rel_chain *src)
{
	*dst = *src;
	for (int i = 0; i < LZMA_FILTERS_MAX; ++i) {
		if (src->f[i].options == &src->lzma[i]) dst->f[i].options = &dst->lzma[i];
		else if (src->f[i].options == &src->bcj[i]) dst->f[i].options = &dst->bcj[i];
		else if (src->f[i].options == &src->delta[i]) dst->f[i].options = &dst->delta[i];
	}
}

static lzma_ret drive_upd(lzma_stream *s, const uint8_t *data, size_t n, uint64_t seed, int flushmode,
		const rel_chain *chains, int nch, const unsigned (*trip)[3], int ntrip,
		uint8_t **out_p, size_t *out_len, upd_event *ev, int *nev, int maxev)
{
	uint64_t st = seed * 0x9E3779B97F4A7C15ull + 1234577;
	if (st == 0) st = 1;
	size_t cap = n + n / 2 + (1u << 16);
	uint8_t *out = malloc(cap);
	size_t in_given = 0, out_used = 0;
	// pieces sized so that a handful of flushes happen whatever the input size
	const size_t maxin = 1 + n / (3 + (size_t)(xs64(&st) % 14)), maxout = (xs64(&st) & 1) ? 61 : 50021;
	s->next_in = data; s->avail_in = 0;
	s->next_out = out; s->avail_out = 0;
	lzma_action action = LZMA_RUN;
	rel_chain cur;
	chain_copy(&cur, &chains[0]);
	int k = 0, kt = 0;
	*nev = 0;
	ev[(*nev)++] = (upd_event){ 0, 'I', 0, chain_props(&cur), 0 };
	if (flushmode != 1 && nch > 1 && (xs64(&st) & 3) == 0) {
		// change the whole chain before any input has been given
		k = 1;
		chain_copy(&cur, &chains[k % nch]);
		const lzma_ret ur = lzma_filters_update(s, cur.f);
		ev[(*nev)++] = (upd_event){ 0, 'F', k % nch, chain_props(&cur), (int)ur };
	}
	lzma_ret r = LZMA_OK;
	for (unsigned long iter = 0; iter < 100000000ul; ++iter) {
		if (action == LZMA_RUN && s->avail_in == 0) {
			if (in_given == n) {
				action = LZMA_FINISH;
			} else {
				size_t c = 1 + (size_t)(xs64(&st) % maxin);
				if (c > n - in_given) c = n - in_given;
				s->next_in = data + in_given; s->avail_in = c; in_given += c;
				if (*nev < maxev - 1 && (xs64(&st) % 3) == 0) {
					const int m = flushmode == 4 ? ((xs64(&st) & 1) ? 1 : 2) : flushmode;
					action = m == 1 ? LZMA_SYNC_FLUSH : m == 2 ? LZMA_FULL_FLUSH : LZMA_FULL_BARRIER;
				}
			}
		}
		if (s->avail_out == 0) {
			if (cap - out_used < (1u << 16)) {
				cap = cap * 2;
				out = realloc(out, cap);
			}
			size_t c = 1 + (size_t)(xs64(&st) % maxout);
			s->next_out = out + out_used; s->avail_out = c;
		}
		const size_t before = s->avail_out;
		r = lzma_code(s, action);
		out_used += before - s->avail_out;
		if (r == LZMA_STREAM_END) {
			if (action == LZMA_FINISH) { r = LZMA_OK; break; }
			// the flush is complete: change the options
			if (action == LZMA_SYNC_FLUSH) {
				if (ntrip > 0) {
					int i = 0;
					while (cur.f[i + 1].id != LZMA_VLI_UNKNOWN) ++i;
					lzma_options_lzma *o = cur.f[i].options;
					o->lc = trip[kt % ntrip][0]; o->lp = trip[kt % ntrip][1]; o->pb = trip[kt % ntrip][2];
					++kt;
					const lzma_ret ur = lzma_filters_update(s, cur.f);
					ev[(*nev)++] = (upd_event){ s->total_in, 'S', k % nch, chain_props(&cur), (int)ur };
				}
			} else if (nch > 1) {
				++k;
				chain_copy(&cur, &chains[k % nch]);
				const lzma_ret ur = lzma_filters_update(s, cur.f);
				ev[(*nev)++] = (upd_event){ s->total_in, 'F', k % nch, chain_props(&cur), (int)ur };
			}
			action = LZMA_RUN;
			continue;
		}
		if (r != LZMA_OK) break;
	}
	*out_p = out; *out_len = out_used;
	return r;
}

static void rt_raw(const uint8_t *raw, size_t len, const lzma_filter *filters, const uint8_t *data, size_t n)
{
	uint8_t *buf = malloc(n + 16);
	size_t in_pos = 0, out_pos = 0;
	const lzma_ret r = lzma_raw_buffer_decode(filters, NULL, raw, &in_pos, len, buf, &out_pos, n + 16);
	if (r != LZMA_OK) printf("fail:ret=%d", (int)r);
	else if (in_pos != len) printf("fail:trailing=%zu", len - in_pos);
	else if (out_pos != n || memcmp(buf, data, n) != 0) printf("fail:data-differs(len=%zu)", out_pos);
	else printf("ok");
	free(buf);
}

// `reuse` op: several encodings one after the other on ONE lzma_stream handle, without lzma_end() in between.
//   reuse <seed> <hex> <spec> <chain...> / <spec> <chain...> / ...
//   spec = <kind>:<check>:<threads>:<blocksize>:<flushmode>:<end>:<percent>
//     kind: st (lzma_stream_encoder), easy (lzma_easy_encoder, chain = E:<preset>), mt, alone, raw
//     end:  f = run to LZMA_STREAM_END; a = abandon after the input was given (no LZMA_FINISH);
//           e = provoke LZMA_PROG_ERROR (LZMA_FINISH followed by LZMA_RUN with new input) and leave it
//     percent: this encoding uses the first percent% of the data
// Answer: one token per encoding "<kind><end>:<init ret>:<ret>:<hex or ->:<round trip or ->".
static void reuse_op(hp_line *l)
{
	const uint64_t seed = hp_u64(l->tok[1]);
	size_t n_all; uint8_t *data = hp_hex(l->tok[2], &n_all);
	lzma_stream s = LZMA_STREAM_INIT;
	int i = 3, idx = 0;
	bool first = true;
	while (i < l->ntok) {
		char kind[8] = {0}, end = 'f';
		unsigned check = 0, threads = 1, fm = 0, pct = 100;
		unsigned long long bs = 0;
		if (sscanf(l->tok[i], "%7[a-z]:%u:%u:%llu:%u:%c:%u", kind, &check, &threads, &bs, &fm, &end, &pct) != 7) { printf("bad-op\n"); goto done; }
		int j = i + 1;
		while (j < l->ntok && strcmp(l->tok[j], "/") != 0) ++j;
		rel_chain c;
		unsigned long preset = 0;
		const bool easy = !strcmp(kind, "easy");
		if (easy) {
			if (j != i + 2 || sscanf(l->tok[i + 1], "E:%lu", &preset) != 1) { printf("bad-op\n"); goto done; }
		} else {
			hp_line sub = *l;
			sub.ntok = j;
			if (!rel_parse_chain(&sub, i + 1, &c)) { printf("bad-op\n"); goto done; }
		}
		const size_t n = (size_t)((unsigned long long)n_all * pct / 100);
		lzma_ret ir;
		if (!strcmp(kind, "st")) ir = lzma_stream_encoder(&s, c.f, (lzma_check)check);
		else if (easy) ir = lzma_easy_encoder(&s, (uint32_t)preset, (lzma_check)check);
		else if (!strcmp(kind, "mt")) {
			lzma_mt o = { .flags = 0, .threads = threads, .block_size = bs, .timeout = 0, .filters = c.f, .check = (lzma_check)check };
			ir = lzma_stream_encoder_mt(&s, &o);
		} else if (!strcmp(kind, "alone")) ir = lzma_alone_encoder(&s, c.f[0].options);
		else if (!strcmp(kind, "raw")) ir = lzma_raw_encoder(&s, c.f);
		else { printf("bad-op\n"); goto done; }
		printf("%s%s%c:%d:", first ? "" : " ", kind, end, (int)ir);
		first = false;
		if (ir != LZMA_OK) {
			printf("-:-:-");
		} else {
			uint8_t *out = NULL; size_t out_len = 0; unsigned flushes = 0;
			lzma_ret r = drive_ex(&s, data, n, seed + 977 * (uint64_t)idx, (int)fm, &out, &out_len, &flushes, end == 'f');
			if (end == 'e' && r == LZMA_OK) {
				uint8_t tmp[64];
				s.next_in = data; s.avail_in = 0; s.next_out = tmp; s.avail_out = 1;
				(void)lzma_code(&s, LZMA_FINISH);
				s.next_in = data; s.avail_in = n_all > 7 ? 7 : n_all; s.next_out = tmp; s.avail_out = sizeof(tmp);
				r = lzma_code(&s, LZMA_RUN);
			}
			printf("%d:", (int)r);
			if (end == 'f' && r == LZMA_OK) {
				hp_put_hex(out, out_len);
				putchar(':');
				if (!strcmp(kind, "alone")) rt_alone(out, out_len, data, n);
				else if (!strcmp(kind, "raw")) rt_raw(out, out_len, c.f, data, n);
				else rt_stream(out, out_len, data, n);
			} else printf("-:-");
			free(out);
		}
		++idx;
		i = j + 1;
	}
	putchar('\n');
done:
	lzma_end(&s);
	free(data);
}

bool c02_rel(hp_line *l)
{
	const char *op = l->tok[0];
	const int nt = l->ntok;

	if (!strcmp(op, "easy") && nt == 5) {
		const uint32_t preset = (uint32_t)hp_u64(l->tok[1]);
		const lzma_check check = (lzma_check)hp_u64(l->tok[2]);
		size_t n; uint8_t *data = hp_hex(l->tok[4], &n);
		const size_t cap = lzma_stream_buffer_bound(n) + (size_t)hp_u64(l->tok[3]);
		uint8_t *out = malloc(cap);
		size_t out_pos = 0;
		const lzma_ret r = lzma_easy_buffer_encode(preset, check, NULL, data, n, out, &out_pos, cap);
		printf("%d ", (int)r);
		if (r == LZMA_OK) { hp_put_hex(out, out_pos); putchar(' '); rt_stream(out, out_pos, data, n); } else printf("- -");
		putchar('\n');
		free(out); free(data);

	} else if (!strcmp(op, "sbe") && nt >= 5) {
		const lzma_check check = (lzma_check)hp_u64(l->tok[1]);
		rel_chain c;
		if (!rel_parse_chain(l, 4, &c)) { printf("bad-op\n"); return true; }
		size_t n; uint8_t *data = hp_hex(l->tok[3], &n);
		const size_t cap = lzma_stream_buffer_bound(n) + (size_t)hp_u64(l->tok[2]);
		uint8_t *out = malloc(cap);
		size_t out_pos = 0;
		const lzma_ret r = lzma_stream_buffer_encode(c.f, check, NULL, data, n, out, &out_pos, cap);
		printf("%d ", (int)r);
		if (r == LZMA_OK) { hp_put_hex(out, out_pos); putchar(' '); rt_stream(out, out_pos, data, n); } else printf("- -");
		putchar('\n');
		free(out); free(data);

	} else if ((!strcmp(op, "bbe") && nt >= 5) || (!strcmp(op, "bue") && nt == 4)) {
		const bool comp = op[1] == 'b';
		const lzma_check check = (lzma_check)hp_u64(l->tok[1]);
		rel_chain c;
		if (comp && !rel_parse_chain(l, 4, &c)) { printf("bad-op\n"); return true; }
		size_t n; uint8_t *data = hp_hex(l->tok[3], &n);
		const size_t cap = lzma_block_buffer_bound(n) + (size_t)hp_u64(l->tok[2]);
		uint8_t *out = malloc(cap);
		size_t out_pos = 0;
		lzma_block b = { .version = 0, .check = check, .filters = comp ? c.f : NULL };
		const lzma_ret r = comp ? lzma_block_buffer_encode(&b, NULL, data, n, out, &out_pos, cap)
				: lzma_block_uncomp_encode(&b, data, n, out, &out_pos, cap);
		printf("%d ", (int)r);
		if (r == LZMA_OK) {
			hp_put_hex(out, out_pos); putchar(' ');
			rt_block(out, out_pos, check, data, n);
			printf(" %" PRIu32 " %" PRIu64 " %" PRIu64, b.header_size, b.compressed_size, b.uncompressed_size);
		} else printf("- - 0 0 0");
		putchar('\n');
		free(out); free(data);

	} else if ((!strcmp(op, "strm") && nt >= 6) || (!strcmp(op, "mt") && nt >= 8)) {
		const bool mt = op[0] == 'm';
		const lzma_check check = (lzma_check)hp_u64(l->tok[1]);
		const int base = mt ? 4 : 2;
		const uint64_t seed = hp_u64(l->tok[base]);
		const int flushmode = (int)hp_u64(l->tok[base + 1]);
		rel_chain c;
		if (!rel_parse_chain(l, base + 3, &c)) { printf("bad-op\n"); return true; }
		size_t n; uint8_t *data = hp_hex(l->tok[base + 2], &n);
		lzma_stream s = LZMA_STREAM_INIT;
		lzma_ret r;
		if (mt) {
			lzma_mt o = { .flags = 0, .threads = (uint32_t)hp_u64(l->tok[2]), .block_size = hp_u64(l->tok[3]),
					.timeout = 0, .filters = c.f, .check = check };
			r = lzma_stream_encoder_mt(&s, &o);
		} else {
			r = lzma_stream_encoder(&s, c.f, check);
		}
		if (r != LZMA_OK) { printf("%d - - 0\n", (int)r); free(data); return true; }
		uint8_t *out = NULL; size_t out_len = 0; unsigned flushes = 0;
		r = drive(&s, data, n, seed, flushmode, &out, &out_len, &flushes);
		lzma_end(&s);
		printf("%d ", (int)r);
		if (r == LZMA_OK) { hp_put_hex(out, out_len); putchar(' '); rt_stream(out, out_len, data, n); printf(" %u", flushes); } else printf("- - 0");
		putchar('\n');
		free(out); free(data);

	} else if (!strcmp(op, "upd") && nt >= 9) {
		// upd <st|mt> <check> <threads> <blocksize> <seed> <flushmode> <hex> <chain0...> / <chain1...> ... [= P:lc:lp:pb ...]
		const bool mt = l->tok[1][0] == 'm';
		const lzma_check check = (lzma_check)hp_u64(l->tok[2]);
		const uint64_t seed = hp_u64(l->tok[5]);
		const int flushmode = (int)hp_u64(l->tok[6]);
		static rel_chain chains[6];
		unsigned trip[8][3];
		int nch = 0, ntrip = 0, i = 8;
		bool okp = true;
		while (i < nt && okp && strcmp(l->tok[i], "=") != 0) {
			int j = i;
			while (j < nt && strcmp(l->tok[j], "/") != 0 && strcmp(l->tok[j], "=") != 0) ++j;
			if (nch >= 6 || j == i) { okp = false; break; }
			hp_line sub = *l;
			sub.ntok = j;
			okp = rel_parse_chain(&sub, i, &chains[nch++]);
			i = (j < nt && !strcmp(l->tok[j], "/")) ? j + 1 : j;
		}
		if (okp && i < nt && !strcmp(l->tok[i], "="))
			for (++i; i < nt && ntrip < 8; ++i, ++ntrip)
				if (sscanf(l->tok[i], "P:%u:%u:%u", &trip[ntrip][0], &trip[ntrip][1], &trip[ntrip][2]) != 3) okp = false;
		if (!okp || nch == 0) { printf("bad-op\n"); return true; }
		size_t n; uint8_t *data = hp_hex(l->tok[7], &n);
		lzma_stream s = LZMA_STREAM_INIT;
		lzma_ret r;
		if (mt) {
			lzma_mt o = { .flags = 0, .threads = (uint32_t)hp_u64(l->tok[3]), .block_size = hp_u64(l->tok[4]),
					.timeout = 0, .filters = chains[0].f, .check = check };
			r = lzma_stream_encoder_mt(&s, &o);
		} else {
			r = lzma_stream_encoder(&s, chains[0].f, check);
		}
		if (r != LZMA_OK) { printf("%d - - -\n", (int)r); free(data); return true; }
		uint8_t *out = NULL; size_t out_len = 0;
		upd_event ev[64]; int nev = 0;
		r = drive_upd(&s, data, n, seed, flushmode, chains, nch, (const unsigned (*)[3])trip, ntrip, &out, &out_len, ev, &nev, 64);
		lzma_end(&s);
		printf("%d ", (int)r);
		if (r == LZMA_OK) { hp_put_hex(out, out_len); putchar(' '); rt_stream(out, out_len, data, n); } else printf("- -");
		putchar(' ');
		for (int e = 0; e < nev; ++e)
			printf("%s%" PRIu64 ":%c:%d:%u:%d", e ? "," : "", ev[e].off, ev[e].kind, ev[e].idx, ev[e].props, ev[e].ret);
		putchar('\n');
		free(out); free(data);

	} else if (!strcmp(op, "reuse") && nt >= 5) {
		reuse_op(l);

	} else if (!strcmp(op, "alone") && nt == 4) {
		rel_chain c;
		if (!rel_parse_chain(l, 3, &c) || c.f[0].id != LZMA_FILTER_LZMA1) { printf("bad-op\n"); return true; }
		size_t n; uint8_t *data = hp_hex(l->tok[2], &n);
		lzma_stream s = LZMA_STREAM_INIT;
		lzma_ret r = lzma_alone_encoder(&s, c.f[0].options);
		if (r != LZMA_OK) { printf("%d - -\n", (int)r); free(data); return true; }
		uint8_t *out = NULL; size_t out_len = 0; unsigned flushes = 0;
		r = drive(&s, data, n, hp_u64(l->tok[1]), 0, &out, &out_len, &flushes);
		lzma_end(&s);
		printf("%d ", (int)r);
		if (r == LZMA_OK) { hp_put_hex(out, out_len); putchar(' '); rt_alone(out, out_len, data, n); } else printf("- -");
		putchar('\n');
		free(out); free(data);

	} else if (!strcmp(op, "relchain") && nt >= 2) {
		rel_chain c;
		if (!rel_parse_chain(l, 1, &c)) { printf("bad-op\n"); return true; }
		for (int i = 0; c.f[i].id != LZMA_VLI_UNKNOWN; ++i) {
			if (i > 0) putchar(' ');
			if (c.f[i].id == LZMA_FILTER_LZMA2) {
				printf("lzma2:%" PRIu32, ((const lzma_options_lzma *)c.f[i].options)->dict_size);
			} else if (c.f[i].id == LZMA_FILTER_LZMA1) {
				const lzma_options_lzma *o = c.f[i].options;
				printf("lzma1:%" PRIu64 ":%" PRIu32 ":%" PRIu32 ":%" PRIu32 ":%" PRIu32, (uint64_t)c.f[i].id, o->lc, o->lp, o->pb, o->dict_size);
			} else if (c.f[i].id == LZMA_FILTER_DELTA) {
				printf("delta:%" PRIu32, ((const lzma_options_delta *)c.f[i].options)->dist);
			} else if (c.f[i].options == NULL) {
				printf("bcjn:%" PRIu64, (uint64_t)c.f[i].id);
			} else {
				printf("bcj:%" PRIu64 ":%" PRIu32, (uint64_t)c.f[i].id, ((const lzma_options_bcj *)c.f[i].options)->start_offset);
			}
		}
		putchar('\n');

	} else if (!strcmp(op, "xbound") && nt >= 6) {
		// xbound <api> <check> <n> <kind> <seed> RF...
		const char *api = l->tok[1];
		const lzma_check check = (lzma_check)hp_u64(l->tok[2]);
		const size_t n = (size_t)hp_u64(l->tok[3]);
		rel_chain c;
		const bool need_chain = !strcmp(api, "sbe") || !strcmp(api, "bbe");
		if (need_chain && !rel_parse_chain(l, 6, &c)) { printf("bad-op\n"); return true; }
		uint8_t *data = gen_data(n, (int)hp_u64(l->tok[4]), hp_u64(l->tok[5]));
		const bool block = api[0] == 'b';
		const size_t cap = block ? lzma_block_buffer_bound(n) : lzma_stream_buffer_bound(n);
		if (cap == 0) { printf("nobound\n"); free(data); return true; }
		// exactly `cap` bytes so that ASan sees any write past the promised bound
		uint8_t *out = malloc(cap);
		size_t out_pos = 0;
		lzma_ret r;
		lzma_block b = { .version = 0, .check = check, .filters = need_chain ? c.f : NULL };
		if (!strncmp(api, "easy", 4)) r = lzma_easy_buffer_encode((uint32_t)strtoul(api + 4, NULL, 10), check, NULL, data, n, out, &out_pos, cap);
		else if (!strcmp(api, "sbe")) r = lzma_stream_buffer_encode(c.f, check, NULL, data, n, out, &out_pos, cap);
		else if (!strcmp(api, "bbe")) r = lzma_block_buffer_encode(&b, NULL, data, n, out, &out_pos, cap);
		else if (!strcmp(api, "bue")) r = lzma_block_uncomp_encode(&b, data, n, out, &out_pos, cap);
		else { printf("bad-op\n"); free(out); free(data); return true; }
		printf("%d %zu %zu ", (int)r, cap, out_pos);
		if (r == LZMA_OK) { if (block) rt_block(out, out_pos, check, data, n); else rt_stream(out, out_pos, data, n); } else putchar('-');
		putchar('\n');
		free(out); free(data);

	} else {
		return false;
	}
	return true;
}
