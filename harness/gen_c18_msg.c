// Third translation unit of the C18 stage-G probe: the real src/xz/message.c, so that message_warning() /
// message_error() and the static `verbosity` are reachable. Everything message.c needs from the rest of xz that is
// reachable from those two functions is stubbed (progress display is never active in the probe).
#include "message.c"

int gen_c18_set_exit(int old_status, int new_status);   // gen_c18_main.c (real main.c)
int gen_c18_get_exit(void);

uint64_t mytime_get_elapsed(void) { return 0; }
const char *uint64_to_nicestr(uint64_t value, enum nicestr_unit unit_min, enum nicestr_unit unit_max, bool always_also_bytes, uint32_t slot)
{ (void)value; (void)unit_min; (void)unit_max; (void)always_also_bytes; (void)slot; return ""; }
const char *uint64_to_str(uint64_t value, uint32_t slot) { (void)value; (void)slot; return ""; }
uint64_t round_up_to_mib(uint64_t n) { return n >> 20; }
void my_snprintf(char **pos, size_t *left, const char *fmt, ...) { (void)pos; (void)left; (void)fmt; }
void lzma_get_progress(lzma_stream *strm, uint64_t *progress_in, uint64_t *progress_out) { (void)strm; *progress_in = 0; *progress_out = 0; }
size_t tuklib_mbstr_width(const char *str, size_t *bytes) { if (bytes) *bytes = strlen(str); return strlen(str); }
int tuklib_mbstr_fw(const char *str, int columns_min) { (void)str; return columns_min; }
uint64_t hardware_memlimit_get(enum operation_mode mode) { (void)mode; return UINT64_MAX; }
bool is_tty(int fd) { (void)fd; return false; }
bool opt_robot = false;
void tuklib_exit(int status, int err_status, int show_error) { (void)err_status; (void)show_error; exit(status); }

// Exit status after ONE message_warning() (which = 0) or message_error() (which = 1) issued at verbosity level `verb`
// (0 = V_SILENT … 4 = V_DEBUG), starting from E_SUCCESS.
int gen_c18_msg_exit(int verb, int which)
{
	verbosity = (enum message_verbosity)verb;
	(void)gen_c18_set_exit(0, 0);      // see gen_c18_main.c: (0, 0) just resets to E_SUCCESS
	if (which == 0)
		message_warning("%s", "probe warning");
	else
		message_error("%s", "probe error");
	return gen_c18_get_exit();
}

int gen_c18_v(int which) { return which == 0 ? V_SILENT : which == 1 ? V_ERROR : which == 2 ? V_WARNING : which == 3 ? V_VERBOSE : V_DEBUG; }
