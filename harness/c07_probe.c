// C07 stage G probe: evaluates the protocol constants of the threaded decoder with the compiler instead of reading them from
// the source text. stream_decoder_mt.c is included so that its file-local enums are in scope (the archive member of the same
// name is then not pulled in by the linker); the output-queue limit is obtained by calling lzma_outq_init().
// Each value is printed on its own line as name=value; a constant that no longer exists makes this file fail to compile, and
// tools/props/c07.py then falls back to the regex extraction.
#include "stream_decoder_mt.c"
#include <stdio.h>

int
main(void)
{
	lzma_outq q;
	memset(&q, 0, sizeof q);
	const uint32_t threads = 3;
	if (lzma_outq_init(&q, NULL, threads) != LZMA_OK || q.bufs_limit % threads != 0)
		return 2;
	printf("bufs_limit_factor=%u\n", (unsigned)(q.bufs_limit / threads));
	lzma_outq_end(&q, NULL);

#define P(x) printf(#x "=%d\n", (int)(x))
	P(THR_IDLE); P(THR_RUN); P(THR_EXIT);
	P(PARTIAL_DISABLED); P(PARTIAL_START); P(PARTIAL_ENABLED);
	P(SEQ_STREAM_HEADER); P(SEQ_BLOCK_HEADER); P(SEQ_BLOCK_INIT); P(SEQ_BLOCK_THR_INIT); P(SEQ_BLOCK_THR_RUN);
	P(SEQ_BLOCK_DIRECT_INIT); P(SEQ_BLOCK_DIRECT_RUN); P(SEQ_INDEX_WAIT_OUTPUT); P(SEQ_INDEX_DECODE);
	P(SEQ_STREAM_FOOTER); P(SEQ_STREAM_PADDING); P(SEQ_ERROR);
	P(LZMA_OK); P(LZMA_STREAM_END); P(LZMA_DATA_ERROR); P(LZMA_PROG_ERROR); P(LZMA_MEMLIMIT_ERROR); P(LZMA_TIMED_OUT);
	return 0;
}
