// C14 harness TU 4: the size-optimised CRC32 (crc32_small.c, HAVE_SMALL) compiled under other names, so that it
// can live next to the fast implementation. Its table is generated at load time (constructor) or on first call.
#define HAVE_SMALL 1
#define lzma_crc32 h_small_crc32
#define lzma_crc32_table h_small_crc32_table
#define lzma_crc32_init h_small_crc32_init
#define lzma_crc64 h_small_crc64_unused_decl
#include "crc32_small.c"

uint32_t h_small32(const uint8_t *b, size_t n, uint32_t c) { return h_small_crc32(b, n, c); }

uint32_t h_small32_tab(unsigned i)
{
#ifndef HAVE_FUNC_ATTRIBUTE_CONSTRUCTOR
	h_small_crc32_init();
#endif
	return h_small_crc32_table[0][i & 0xFF];
}
