#!/bin/sh
# Run once after a fresh restore (offline): builds the Lean library + model drivers and the
# instrumented builds of /repo into /verif/.cache. Checks rebuild incrementally afterwards.
cd "$(dirname "$0")"
mkdir -p .cache evidence replays
exes=$(sed -n 's/^name = "\(xzm_[a-z0-9_]*\)"/\1/p' lean/lakefile.toml | tr '\n' ' ')
# A failure here is not fatal: every check builds what it needs itself (and reports a broken proof obligation).
(cd lean && lake build XzVerif $exes 2>&1 | tail -15) || true
python3 - <<'PY'
import sys, os
sys.path.insert(0, os.path.join(os.getcwd(), "tools"))
import vlib
rc = 0
for v in ("asan", "rel", "dbg"):
    ok, log, bd = vlib.c_build(v)
    print("build", v, "ok" if ok else "FAILED")
    if not ok:
        print(log[-3000:])
        rc = 1
sys.exit(rc)
PY
echo setup done
