"""Python list-of-records reference for property C13 (independent of the Lean model).

An index is a list of Streams; a Stream is {flags, padding, blocks=[(unpadded, uncompressed), ...]}. Every getter of the
lzma_index_* API is computed from scratch from those lists (unbounded Python integers), every failure rule is the one
stated in src/liblzma/api/lzma/index.h / index.c, and `Ref.op(line)` returns the exact line harness/c13_main.c must print.
Used by tools/props/c13.py (a) to steer the generator and (b) as the search-stage / direct oracle on the C outputs.
"""
import re, zlib

VLI_MAX = (1 << 63) - 1
VLI_UNKNOWN = (1 << 64) - 1
UNPADDED_MIN = 5
UNPADDED_MAX = VLI_MAX & ~3
BACKWARD_MIN = 4
BACKWARD_MAX = 1 << 34
HDR = 12
ALLOC_MAX = 1 << 28
U64 = 1 << 64
OK, STREAM_END, MEM_ERROR, MEMLIMIT_ERROR, FORMAT_ERROR, OPTIONS_ERROR, DATA_ERROR, BUF_ERROR, PROG_ERROR = 0, 1, 5, 6, 7, 8, 9, 10, 11
HEADER_MAGIC = bytes([0xFD, 0x37, 0x7A, 0x58, 0x5A, 0x00])
FOOTER_MAGIC = b"YZ"

# sizeof values of the x86-64 build; overwritten from Gen/C13.lean (regenerated from the source) by load_constants()
K = {"indexGroupSize": 512, "sizeofIndexStream": 168, "sizeofIndexGroup": 64, "sizeofIndexRecord": 16,
     "sizeofLzmaIndex": 80, "sizeofVoidPtr": 8, "preallocMax": ((1 << 64) - 1 - 64) // 16}


def load_constants(gen_path):
    try:
        src = open(gen_path).read()
    except OSError:
        return
    for m in re.finditer(r"^def (\w+) : Nat := (\d+)$", src, re.M):
        if m.group(1) in K:
            K[m.group(1)] = int(m.group(2))


def vli_size(v):
    if v > VLI_MAX:
        return 0
    n = 1
    while v >= 128:
        v >>= 7
        n += 1
    return n


def vli_bytes(v):
    out = bytearray()
    while v >= 128:
        out.append((v & 0x7F) | 0x80)
        v >>= 7
    out.append(v)
    return bytes(out)


def ceil4(v):
    return (v + 3) & ~3


def index_size_unpadded(count, lsize):
    return 1 + vli_size(count) + lsize + 4


def index_size(count, lsize):
    return ceil4(index_size_unpadded(count, lsize))


def memusage(streams, blocks):
    ov = 4 * K["sizeofVoidPtr"]
    stream_base = K["sizeofIndexStream"] + K["sizeofIndexGroup"] + 2 * ov
    group_base = K["sizeofIndexGroup"] + K["indexGroupSize"] * K["sizeofIndexRecord"] + ov
    index_base = K["sizeofLzmaIndex"] + ov
    if streams == 0 or streams > 0xFFFFFFFF or blocks > VLI_MAX:
        return U64 - 1
    groups = (blocks + K["indexGroupSize"] - 1) // K["indexGroupSize"]
    total = index_base + streams * stream_base + groups * group_base
    return total if total <= U64 - 1 else U64 - 1


class Stream:
    __slots__ = ("flags", "padding", "blocks", "bsize", "usize", "lsize")

    def __init__(self):
        self.flags = None
        self.padding = 0
        self.blocks = []
        self.bsize = 0    # sum of ceil4(unpadded)
        self.usize = 0    # sum of uncompressed
        self.lsize = 0    # sum of vli sizes

    def add(self, u, c):
        self.blocks.append((u, c))
        self.bsize += ceil4(u)
        self.usize += c
        self.lsize += vli_size(u) + vli_size(c)

    def copy(self):
        s = Stream()
        s.flags, s.padding, s.blocks = self.flags, self.padding, list(self.blocks)
        s.bsize, s.usize, s.lsize = self.bsize, self.usize, self.lsize
        return s

    def csize(self):
        """Stream Header + Blocks + Index + Stream Footer"""
        return 2 * HDR + self.bsize + index_size(len(self.blocks), self.lsize)


def new_index():
    return [Stream()]


def block_count(ix):
    return sum(len(s.blocks) for s in ix)


def list_size(ix):
    return sum(s.lsize for s in ix)


def total_size(ix):
    return sum(s.bsize for s in ix)


def uncompressed_size(ix):
    return sum(s.usize for s in ix)


def file_size(ix):
    return sum(s.csize() + s.padding for s in ix)


def checks(ix):
    m = 0
    for s in ix:
        if s.flags is not None:
            m |= 1 << s.flags[2]
    return m


def summary(ix):
    if ix is None:
        return "null"
    bc, ls = block_count(ix), list_size(ix)
    isz = index_size(bc, ls)
    fs = file_size(ix)
    return "S %d %d %d %d %d %d %d %d %d %d" % (
        len(ix), bc, isz, 2 * HDR + total_size(ix) + isz, total_size(ix), fs if fs <= VLI_MAX else VLI_UNKNOWN,
        uncompressed_size(ix), checks(ix), memusage(len(ix), bc), (4 - index_size_unpadded(bc, ls)) & 3)


# ---------------------------------------------------------------------------------------------
# operations (return lzma_ret; the index is modified only on LZMA_OK)
# ---------------------------------------------------------------------------------------------

def append_check(ix, u, c):
    """The failure rules of lzma_index_append(), evaluated on the list-of-records state. Returns lzma_ret."""
    if u < UNPADDED_MIN or u > UNPADDED_MAX or c > VLI_MAX:
        return PROG_ERROR
    s = ix[-1]
    if s.usize + c > VLI_MAX or uncompressed_size(ix) + c > VLI_MAX:
        return DATA_ERROR
    if s.bsize + u > UNPADDED_MAX:
        return DATA_ERROR
    add = vli_size(u) + vli_size(c)
    base = sum(t.csize() + t.padding for t in ix[:-1])
    fs = base + 2 * HDR + s.padding + ceil4(s.bsize + u)
    if fs > VLI_MAX:
        return DATA_ERROR
    if fs + index_size(len(s.blocks) + 1, s.lsize + add) > VLI_MAX:
        return DATA_ERROR
    if index_size(block_count(ix) + 1, list_size(ix) + add) > BACKWARD_MAX:
        return DATA_ERROR
    return OK


def op_append(ix, u, c):
    r = append_check(ix, u, c)
    if r == OK:
        ix[-1].add(u, c)
    return r


def flags_check(ver, bsz, chk):
    """lzma_stream_flags_compare(f, f)"""
    if ver != 0:
        return OPTIONS_ERROR
    if chk > 15:
        return PROG_ERROR
    if bsz != VLI_UNKNOWN and not (BACKWARD_MIN <= bsz <= BACKWARD_MAX and bsz % 4 == 0):
        return PROG_ERROR
    return OK


def op_flags(ix, ver, bsz, chk):
    r = flags_check(ver, bsz, chk)
    if r == OK:
        ix[-1].flags = (ver, bsz, chk)
    return r


def op_padding(ix, p):
    if p > VLI_MAX or p % 4 != 0:
        return PROG_ERROR
    s = ix[-1]
    if file_size(ix) - s.padding + p > VLI_MAX:
        return DATA_ERROR
    s.padding = p
    return OK


def cat_check(d, s):
    if file_size(d) + file_size(s) > VLI_MAX or uncompressed_size(d) + uncompressed_size(s) > VLI_MAX:
        return DATA_ERROR
    if ceil4(index_size_unpadded(block_count(d), list_size(d)) + index_size_unpadded(block_count(s), list_size(s))) > BACKWARD_MAX:
        return DATA_ERROR
    return OK


# ---------------------------------------------------------------------------------------------
# iteration
# ---------------------------------------------------------------------------------------------

def fmt_item(ix, si, bi, bases=None):
    """The canonical text of the iterator fields when it points to Stream si / Block bi (bi None: Stream without Blocks)."""
    if bases is None:
        coff = sum(t.csize() + t.padding for t in ix[:si])
        uoff = sum(t.usize for t in ix[:si])
        nb = sum(len(t.blocks) for t in ix[:si])
    else:
        coff, uoff, nb = bases[si]
    s = ix[si]
    fl = "-" if s.flags is None else "%d/%d/%d" % s.flags
    out = "s:%d,%d,%d,%d,%d,%d,%d,%s" % (si + 1, len(s.blocks), coff, uoff, s.csize(), s.usize, s.padding, fl)
    if s.blocks:
        if bi is None:
            bi = 0
        cso = HDR + sum(ceil4(u) for u, _ in s.blocks[:bi]) if bases is None or len(bases) <= len(ix) else None
        if cso is None:
            cso = bases[len(ix)][si][bi][0]
            uso = bases[len(ix)][si][bi][1]
        else:
            uso = sum(c for _, c in s.blocks[:bi])
        u, c = s.blocks[bi]
        out += ";b:%d,%d,%d,%d,%d,%d,%d,%d,%d" % (nb + bi + 1, coff + cso, uoff + uso, bi + 1, cso, uso, c, u, ceil4(u))
    return out


def make_bases(ix):
    """Prefix sums for a whole-index iteration (so that printing n items is O(n))."""
    bases, coff, uoff, nb = [], 0, 0, 0
    per_block = []
    for s in ix:
        bases.append((coff, uoff, nb))
        coff += s.csize() + s.padding
        uoff += s.usize
        nb += len(s.blocks)
        cso, uso, lst = HDR, 0, []
        for u, c in s.blocks:
            lst.append((cso, uso))
            cso += ceil4(u)
            uso += c
        per_block.append(lst)
    bases.append(per_block)
    return bases


def iter_next(ix, pos, mode, quirk=None):
    """Returns the new position (si, bi) or None at the end (position unchanged). pos None = rewound."""
    if mode > 3:
        return None
    n = len(ix)
    while True:
        if pos is None:
            si = 0
            if mode >= 2:
                while si < n and not ix[si].blocks:
                    si += 1
                if si == n:
                    return None
            pos = (si, 0 if ix[si].blocks else None)
        else:
            si, bi = pos
            nb = len(ix[si].blocks)
            if bi is None and nb > 0 and mode != 1 and quirk is not None:
                # F6b: the iterator visited this Stream while it had no Blocks; the implementation then behaves
                # as if Block 0 had been returned already.
                quirk.append(1)
            eff = 0 if bi is None else bi
            if mode != 1 and nb > 0 and eff + 1 < nb:
                pos = (si, eff + 1)
            else:
                si += 1
                if mode >= 2:
                    while si < n and not ix[si].blocks:
                        si += 1
                if si >= n:
                    return None
                pos = (si, 0 if ix[si].blocks else None)
        if mode == 3 and ix[pos[0]].blocks[pos[1]][1] == 0:
            continue
        return pos


def locate(ix, target):
    if uncompressed_size(ix) <= target:
        return None
    off = 0
    for si, s in enumerate(ix):
        if target < off + s.usize:
            o = off
            for bi, (u, c) in enumerate(s.blocks):
                if target < o + c:
                    return (si, bi)
                o += c
        off += s.usize
    return None


# ---------------------------------------------------------------------------------------------
# Index field codec
# ---------------------------------------------------------------------------------------------

def index_encode(ix):
    body = bytearray([0])
    body += vli_bytes(block_count(ix))
    for s in ix:
        for u, c in s.blocks:
            body += vli_bytes(u) + vli_bytes(c)
    body += b"\0" * ((4 - len(body)) & 3)
    return bytes(body) + (zlib.crc32(bytes(body)) & 0xFFFFFFFF).to_bytes(4, "little")


def vli_decode(data, pos):
    """Returns (value, newpos, status) with status 'ok' | 'trunc' | 'bad' (newpos is after the last byte looked at)."""
    v, n = 0, 0
    while True:
        if pos >= len(data):
            return v, pos, "trunc"
        b = data[pos]
        pos += 1
        v += (b & 0x7F) << (7 * n)
        n += 1
        if not b & 0x80:
            if b == 0 and n > 1:
                return v, pos, "bad"
            return v, pos, "ok"
        if n == 9:
            return v, pos, "bad"


def index_decode(data, memlimit):
    """Returns (ret, consumed, index or None, memusage_needed). ret OK means: more input needed (truncated)."""
    memlimit = max(1, memlimit)
    if len(data) == 0:
        return OK, 0, None, 0
    if data[0] != 0:
        return DATA_ERROR, 1, None, 0
    count, pos, st = vli_decode(data, 1)
    if st == "trunc":
        return OK, pos, None, 0
    if st == "bad":
        return DATA_ERROR, pos, None, 0
    need = memusage(1, count)
    if need > memlimit:
        return MEMLIMIT_ERROR, pos, None, need
    ix = new_index()
    prealloc = min(count, K["preallocMax"])
    for k in range(count):
        u, pos, st = vli_decode(data, pos)
        if st == "trunc":
            return OK, pos, None, 0
        if st == "bad" or u < UNPADDED_MIN or u > UNPADDED_MAX:
            return DATA_ERROR, pos, None, 0
        c, pos, st = vli_decode(data, pos)
        if st == "trunc":
            return OK, pos, None, 0
        if st == "bad":
            return DATA_ERROR, pos, None, 0
        r = append_check(ix, u, c)
        if r != OK:
            return r, pos, None, 0
        if k == 0 and K["sizeofIndexGroup"] + prealloc * K["sizeofIndexRecord"] > ALLOC_MAX:
            return MEM_ERROR, pos, None, 0
        ix[-1].add(u, c)
    pad = (4 - index_size_unpadded(count, ix[0].lsize)) & 3
    for _ in range(pad):
        if pos >= len(data):
            return OK, pos, None, 0
        pos += 1
        if data[pos - 1] != 0:
            return DATA_ERROR, pos, None, 0
    crc = (zlib.crc32(bytes(data[:pos])) & 0xFFFFFFFF).to_bytes(4, "little")
    for k in range(4):
        if pos >= len(data):
            return OK, pos, None, 0
        pos += 1
        if data[pos - 1] != crc[k]:
            return DATA_ERROR, pos, None, 0
    return STREAM_END, pos, ix, 0


# ---------------------------------------------------------------------------------------------
# .xz container pieces needed to build files for the file-info decoder
# ---------------------------------------------------------------------------------------------

def stream_header(check):
    fl = bytes([0, check])
    return HEADER_MAGIC + fl + (zlib.crc32(fl) & 0xFFFFFFFF).to_bytes(4, "little")


def stream_footer(check, backward_size):
    body = (backward_size // 4 - 1).to_bytes(4, "little") + bytes([0, check])
    return (zlib.crc32(body) & 0xFFFFFFFF).to_bytes(4, "little") + body + FOOTER_MAGIC


def build_file(ix, rng):
    """A file whose Stream Headers, Indexes, Footers and Stream Padding describe `ix` (Block contents are noise:
    the file-info decoder never looks at them). Every Stream must have flags (version 0, check)."""
    out = bytearray()
    for s in ix:
        chk = s.flags[2]
        out += stream_header(chk)
        for u, _ in s.blocks:
            out += bytes(rng.getrandbits(8) for _ in range(ceil4(u)))
        idx = index_encode([s])
        out += idx
        out += stream_footer(chk, len(idx))
        out += b"\0" * s.padding
    return bytes(out)


# ---------------------------------------------------------------------------------------------
# index hash
# ---------------------------------------------------------------------------------------------

class Hash:
    def __init__(self):
        self.blocks = []        # pairs given with lzma_index_hash_append
        self.dead = False       # an append failed with DATA_ERROR or decoding started: stop predicting details
        self.b_bsize = self.b_usize = self.b_lsize = 0
        self.decoding = False
        self.buf = bytearray()
        self.done = None        # final (ret, consumed) once decoding has finished

    def size(self):
        return index_size(len(self.blocks), self.b_lsize)

    def append(self, u, c):
        if self.decoding or u < UNPADDED_MIN or u > UNPADDED_MAX or c > VLI_MAX:
            return PROG_ERROR
        self.blocks.append((u, c))
        self.b_bsize += ceil4(u)
        self.b_usize += c
        self.b_lsize += vli_size(u) + vli_size(c)
        if (self.b_bsize > VLI_MAX or self.b_usize > VLI_MAX or self.size() > BACKWARD_MAX
                or 2 * HDR + self.b_bsize + self.size() > VLI_MAX):
            return DATA_ERROR
        return OK

    def decode_all(self, data):
        """Decode the Index field `data` (all bytes given so far) against the appended Blocks: (ret, consumed)."""
        if len(data) == 0:
            return OK, 0
        if data[0] != 0:
            return DATA_ERROR, 1
        count, pos, st = vli_decode(data, 1)
        if st == "trunc":
            return OK, pos
        if st == "bad" or count != len(self.blocks):
            return DATA_ERROR, pos
        r_b = r_u = r_l = 0
        recs = []
        for _ in range(count):
            u, pos, st = vli_decode(data, pos)
            if st == "trunc":
                return OK, pos
            if st == "bad" or u < UNPADDED_MIN or u > UNPADDED_MAX:
                return DATA_ERROR, pos
            c, pos, st = vli_decode(data, pos)
            if st == "trunc":
                return OK, pos
            if st == "bad":
                return DATA_ERROR, pos
            recs.append((u, c))
            r_b += ceil4(u)
            r_u += c
            r_l += vli_size(u) + vli_size(c)
            if self.b_bsize < r_b or self.b_usize < r_u or self.b_lsize < r_l:
                return DATA_ERROR, pos
        pad = (4 - index_size_unpadded(count, r_l)) & 3
        for _ in range(pad):
            if pos >= len(data):
                return OK, pos
            pos += 1
            if data[pos - 1] != 0:
                return DATA_ERROR, pos
        # sizes and the hash of the pairs are compared when the padding is complete (needs one more byte of input
        # to be looked at only if there is input left: the C code does it before reading the first CRC32 byte)
        if pos >= len(data):
            return OK, pos
        if (self.b_bsize, self.b_usize, self.b_lsize) != (r_b, r_u, r_l) or recs != self.blocks:
            return DATA_ERROR, pos
        crc = (zlib.crc32(bytes(data[:pos])) & 0xFFFFFFFF).to_bytes(4, "little")
        for k in range(4):
            if pos >= len(data):
                return OK, pos
            pos += 1
            if data[pos - 1] != crc[k]:
                return DATA_ERROR, pos
        return STREAM_END, pos


# ---------------------------------------------------------------------------------------------
# the protocol: expected output line of every op
# ---------------------------------------------------------------------------------------------

def hexb(s):
    return b"" if s == "-" else bytes.fromhex(s)


def hexs(b):
    return b.hex() if len(b) else "-"


class Ref:
    NSLOT, NITER = 8, 4

    def __init__(self):
        self.reset()
        self.quirks = []
        self.finfo_expect = {}     # line -> expected index for generated valid files (set by the generator)

    def reset(self):
        self.idx = [None] * self.NSLOT
        self.gen = [0] * self.NSLOT
        self.iters = [None] * self.NITER      # (slot, gen, pos)
        self.hash = None

    def drop(self, k):
        self.idx[k] = None
        self.gen[k] += 1

    def op(self, line):
        t = line.split()
        o = t[0]
        if o == "reset":
            self.reset()
            return "ok"
        if o == "reuse":
            return "ok"       # handle reuse must not change any answer
        if o == "init":
            k = int(t[1])
            self.drop(k)
            self.idx[k] = new_index()
            return "ok " + summary(self.idx[k])
        if o == "end":
            self.drop(int(t[1]))
            return "ok"
        if o == "sum":
            return summary(self.idx[int(t[1])])
        if o in ("append", "appendn", "flags", "padding", "encode", "encodes", "iter", "locate"):
            k = int(t[1])
            ix = self.idx[k]
            if ix is None:
                return "null"
            if o == "append":
                r = op_append(ix, int(t[2]), int(t[3]))
                return "%d %s" % (r, summary(ix))
            if o == "appendn":
                cnt, u, c = int(t[2]), int(t[3]), int(t[4])
                done, r = 0, OK
                while done < cnt:
                    r = op_append(ix, u, c)
                    if r != OK:
                        break
                    done += 1
                return "%d %d %s" % (r, done, summary(ix))
            if o == "flags":
                r = op_flags(ix, int(t[2]), int(t[3]), int(t[4]))
                return "%d %s" % (r, summary(ix))
            if o == "padding":
                r = op_padding(ix, int(t[2]))
                return "%d %s" % (r, summary(ix))
            if o == "encode":
                enc = index_encode(ix)
                if int(t[2]) < 0:
                    return "%d 0 -" % BUF_ERROR
                return "0 %d %s" % (len(enc), hexs(enc))
            if o == "encodes":
                enc = index_encode(ix)
                return "1 %d %s" % (len(enc), hexs(enc))
            if o == "iter":
                mode = int(t[2])
                bases = make_bases(ix)
                items, pos = [], None
                while True:
                    pos = iter_next(ix, pos, mode)
                    if pos is None:
                        break
                    items.append(fmt_item(ix, pos[0], pos[1], bases))
                return " | ".join(items) if items else "empty"
            if o == "locate":
                pos = locate(ix, int(t[2]))
                return "miss" if pos is None else fmt_item(ix, pos[0], pos[1])
        if o == "cat":
            d, s = int(t[1]), int(t[2])
            if d == s or self.idx[d] is None or self.idx[s] is None:
                return "null"
            r = cat_check(self.idx[d], self.idx[s])
            if r == OK:
                self.idx[d].extend(self.idx[s])
                self.idx[s] = None
                self.gen[s] += 1
            return "%d %s" % (r, summary(self.idx[d]))
        if o == "dup":
            d, s = int(t[1]), int(t[2])
            if self.idx[s] is None:
                return "null"
            c = [x.copy() for x in self.idx[s]]
            self.drop(d)
            self.idx[d] = c
            return "ok " + summary(c)
        if o == "decode":
            k, memlimit, data = int(t[1]), int(t[2]), hexb(t[3])
            r, pos, ix, need = index_decode(data, memlimit)
            self.drop(k)
            if r == STREAM_END:
                self.idx[k] = ix
                return "0 %d %d %s" % (pos, memlimit, summary(ix))
            if r == OK:
                r = DATA_ERROR
            return "%d 0 %d null" % (r, need if r == MEMLIMIT_ERROR else memlimit)
        if o == "decodes":
            k, memlimit, data = int(t[1]), int(t[2]), hexb(t[4])
            r, pos, ix, need = index_decode(data, memlimit)
            self.drop(k)
            if r == STREAM_END:
                self.idx[k] = ix
            return "%d %d %s %s" % (r, pos, str(need) if r == MEMLIMIT_ERROR else "-", summary(self.idx[k]))
        if o == "memusage":
            return str(memusage(int(t[1]), int(t[2])))
        if o == "iinit":
            ti, k = int(t[1]), int(t[2])
            if self.idx[k] is None:
                self.iters[ti] = None
                return "null"
            self.iters[ti] = [k, self.gen[k], None]
            return "ok"
        if o in ("irewind", "inext", "ilocate"):
            ti = int(t[1])
            it = self.iters[ti]
            if it is None or self.idx[it[0]] is None or self.gen[it[0]] != it[1]:
                self.iters[ti] = None
                return "stale"
            ix = self.idx[it[0]]
            if o == "irewind":
                it[2] = None
                return "ok"
            if o == "inext":
                pos = iter_next(ix, it[2], int(t[2]), self.quirks)
                if pos is None:
                    return "end"
                it[2] = pos
                return fmt_item(ix, pos[0], pos[1])
            pos = locate(ix, int(t[2]))
            if pos is None:
                return "miss"
            it[2] = pos
            return fmt_item(ix, pos[0], pos[1])
        if o == "finfoa":
            self.drop(int(t[1]))
            return "ok"
        if o in ("finfo", "finfof", "finfog"):
            k = int(t[1])
            self.drop(k)
            exp = self.finfo_expect.get(line)
            if exp == "invalid":
                return "9 0 null"  # a file that is corrupt by construction (misaligned Stream Padding): LZMA_DATA_ERROR
            if exp is None:
                return None        # not predicted by this reference (malformed file): see judge_finfo()
            self.idx[k] = [x.copy() for x in exp]
            return "1 0 " + summary(self.idx[k])
        if o == "hinit":
            self.hash = Hash()
            return "ok %d" % self.hash.size()
        if o in ("happend", "hsize", "hdecode"):
            h = self.hash
            if h is None:
                return "null"
            if o == "hsize":
                return str(h.size())
            if o == "happend":
                r = h.append(int(t[1]), int(t[2]))
                return "%d %d" % (r, h.size())
            if h.done is not None:
                return None
            data = hexb(t[2])
            before = len(h.buf)
            if len(data) == 0:
                return "0 0"
            h.buf += data
            # the sequence leaves SEQ_BLOCK only when a correct Index Indicator has been read
            h.decoding = h.buf[0] == 0
            r, pos = h.decode_all(h.buf)
            if r != OK:
                h.done = (r, pos)
            return "%d %d" % (r, pos - before)
        return "bad-op"

    def set_slot_from_impl(self, k, ix):
        self.idx[k] = ix


def strip_note(line):
    """Output lines may carry a ' # ...' note that is not compared (e.g. number of seeks)."""
    i = line.find(" #")
    return line if i < 0 else line[:i]
