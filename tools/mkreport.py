#!/usr/bin/env python3
"""Regenerates the machine-derived tables of DESIGN.md (between the BEGIN/END GENERATED markers) from
evidence/*.json, seeded/*/meta.json, known_findings.json and the Props files."""
import glob, json, os, re, sys
HERE = os.path.dirname(os.path.abspath(__file__)); ROOT = os.path.dirname(HERE)
sys.path.insert(0, HERE)
import vlib

def props_table():
    rows = []
    ids = [json.loads(l)["id"] for l in open(os.path.join(ROOT, "properties.jsonl"))]
    for pid in ids:
        files = sorted(glob.glob(os.path.join(ROOT, "lean", "XzVerif", "Props", pid + "*.lean")))
        nthm = sum(len(vlib.theorems_in(f)) for f in files)
        stm = 0
        for f in files:
            stm += len(re.findall(r"^\s*def\s+\S+_statement\b", vlib.strip_lean_comments(open(f).read()), re.M))
        ev = {}
        try:
            ev = json.load(open(os.path.join(ROOT, "evidence", pid + ".json")))
        except Exception:
            pass
        cov = ev.get("coverage", {})
        rows.append("| %s | %d | %s/%s | %d | %s | %s | %s |" % (
            pid, nthm, cov.get("discharged", "-"), cov.get("obligations", "-"), stm,
            cov.get("evaluations", "-"), ev.get("tier", "-"), ev.get("wall_s", "-")))
    hdr = "| id | theorems in Props/%s*.lean | discharged/obligations (last run) | unproved `_statement` defs | evaluations (last run) | tier | wall s |\n|---|---|---|---|---|---|---|\n" % "Cnn"
    return hdr + "\n".join(rows)

def seeded_table():
    rows = []
    for f in sorted(glob.glob(os.path.join(ROOT, "seeded", "*", "meta.json"))):
        name = f.split("/")[-2]
        m = json.load(open(f)); c = m.get("coordinator_confirmation", {})
        ch = c.get("check", {}) or {}
        first = "caught (%s)" % next((t for t, v in ch.items() if v.get("exit") == 1 and v.get("n_violation_lines")), "?") if c.get("caught") else "MISSED (quick+thorough)"
        if c.get("caught") and any(v.get("no_failing_input_found_only") for v in ch.values()):
            first += ", no-failing-input-found"
        if c.get("first_run_invalid"):
            first += " †"
        after = c.get("caught_after_strengthening")
        cross = []
        for r in c.get("rechecks", []):
            for k, v in (r.get("cross_checks") or {}).items():
                if v.get("exit") == 1 and v.get("n_violation_lines"):
                    cross.append(k)
        summ = (m.get("summary") or m.get("what") or "")
        if isinstance(summ, list): summ = " ".join(summ)
        summ = re.sub(r"\s+", " ", str(summ))[:150]
        conf = "yes" if (c.get("tests_pass_with_change") and c.get("demo_fails_with_change") and c.get("demo_passes_without_change")) else "partly"
        rows.append("| %s | %s | %s | %s | %s | %s |" % (name, summ.replace("|", "/"), conf, first,
                    {True: "caught", False: "still missed", None: "-"}[after], ", ".join(sorted(set(cross))) or "-"))
    hdr = "| seeded change | what it does | confirmed (tests pass, demo fails/passes) | first run of the property's check | after strengthening | also caught by |\n|---|---|---|---|---|---|\n"
    return hdr + "\n".join(rows)

def benign_table():
    rows = []
    for f in sorted(glob.glob(os.path.join(ROOT, "benign", "*", "meta.json"))):
        name = f.split("/")[-2]
        m = json.load(open(f))
        first, last = {}, {}
        for r in m.get("runs", []):
            for c, v in r.get("checks", {}).items():
                first.setdefault(c, v["outcome"]); last[c] = v["outcome"]
        summ = re.sub(r"\s+", " ", str(m.get("summary") or ""))[:170].replace("|", "/")
        def fmt(d):
            bad = ["%s: %s" % (c, o) for c, o in d.items() if o != "quiet"]
            return ("all quiet (%s)" % ", ".join(d)) if not bad else "; ".join(bad) + " (quiet: %s)" % (", ".join(c for c, o in d.items() if o == "quiet") or "-")
        rows.append("| %s | %s | %s | %s | %s |" % (name, m.get("kind", "-"), summ, fmt(first), fmt(last) if last != first else "same"))
    hdr = "| behaviour-preserving change | kind | what it does | first run (checks run against it) | latest run |\n|---|---|---|---|---|\n"
    return hdr + "\n".join(rows)

def findings_table():
    d = json.load(open(os.path.join(ROOT, "known_findings.json")))
    out = ["**Known findings (listed, not fixed):**", ""]
    for f in d["findings"]:
        out.append("* `%s` — %s: %s" % (f.get("key") or f.get("key_prefix") + "*", f["property"], f["what"]))
    out += ["", "**Fixed in /repo (`fix:` commits):**", ""]
    for s in d["fixed"]:
        out.append("* " + s)
    return "\n".join(out)

def asbuilt():
    import importlib
    out = []
    ids = [json.loads(l) for l in open(os.path.join(ROOT, "properties.jsonl"))]
    for pr in ids:
        pid = pr["id"]
        try:
            m = importlib.import_module("props." + pid.lower()); meta = m.META
        except Exception:
            out.append("### %s — %s\n\n(not built)\n" % (pid, pr["title"])); continue
        out.append("### %s — %s\n\n**Claim (level: %s).** %s\n\n**Assumed / trusted / not shown.** %s\n" % (
            pid, pr["title"], meta.get("category", "proof"), meta["text"], meta["note"]))
    return "\n".join(out)

def main():
    p = os.path.join(ROOT, "DESIGN.md"); s = open(p).read()
    for tag, fn in (("PROPS", props_table), ("ASBUILT", asbuilt), ("SEEDED", seeded_table), ("BENIGN", benign_table), ("FINDINGS", findings_table)):
        b, e = "<!-- BEGIN GENERATED %s -->" % tag, "<!-- END GENERATED %s -->" % tag
        if b in s and e in s:
            s = s[:s.index(b) + len(b)] + "\n" + fn() + "\n" + s[s.index(e):]
    open(p, "w").write(s)
    print("DESIGN.md tables regenerated")

if __name__ == "__main__":
    main()
