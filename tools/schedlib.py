"""Helpers for harnesses that use the controlled thread scheduler harness/vsched.c (C07, C08).

Build:   vlib.harness_build(name, [..., "vsched.c"], variant, libs=schedlib.WRAP_LDFLAGS)
Run:     env from schedlib.env(mode=..., seed=..., ...) or set the fields through the harness' own op line.
Verdict: schedlib.classify(rc, stderr) -> None | "deadlock" | "budget" | "misuse"
"""
import re

# must mirror SCHED_WRAPPED in harness/vsched.h
WRAPPED = ("pthread_mutex_init pthread_mutex_destroy pthread_mutex_lock pthread_mutex_trylock pthread_mutex_unlock "
           "pthread_cond_init pthread_cond_destroy pthread_cond_wait pthread_cond_timedwait pthread_cond_signal "
           "pthread_cond_broadcast pthread_create pthread_join").split()
WRAP_LDFLAGS = ["-Wl,--wrap=" + s for s in WRAPPED]

EXIT_DEADLOCK, EXIT_BUDGET, EXIT_MISUSE = 86, 87, 88
MODES = {"real": 0, "random": 1, "pct": 2, "nopreempt": 3}


def env(mode="random", seed=1, sticky=0, pct_depth=3, pct_steps=2000, p_timeout=32, p_spurious=4,
        max_steps=5000000, jitter=0, log=None):
    e = {"SCHED_MODE": mode, "SCHED_SEED": str(seed), "SCHED_STICKY": str(sticky), "SCHED_PCT_DEPTH": str(pct_depth),
         "SCHED_PCT_STEPS": str(pct_steps), "SCHED_P_TIMEOUT": str(p_timeout), "SCHED_P_SPURIOUS": str(p_spurious),
         "SCHED_MAX_STEPS": str(max_steps), "SCHED_JITTER": str(jitter)}
    if log:
        e["SCHED_LOG"] = log
    return e


def classify(rc, stderr):
    """Map a harness exit to a scheduler verdict."""
    if rc == EXIT_DEADLOCK or "SCHED-DEADLOCK" in stderr:
        return "deadlock"
    if rc == EXIT_BUDGET or "SCHED-BUDGET" in stderr:
        return "budget"
    if rc == EXIT_MISUSE or "SCHED-MISUSE" in stderr:
        return "misuse"
    return None


def check_header_in_sync(root):
    """True iff WRAPPED equals the SCHED_WRAPPED list of harness/vsched.h."""
    import os
    src = open(os.path.join(root, "harness", "vsched.h")).read()
    m = re.search(r"#define SCHED_WRAPPED((?:\s*\\\n\s*\"[^\"]*\")+)", src)
    if not m:
        return False
    syms = " ".join(re.findall(r"\"([^\"]*)\"", m.group(1))).split()
    return syms == WRAPPED
