#!/usr/bin/env python3
"""False-alarm test: run checks against a behaviour-PRESERVING change (the property still holds).
   tools/benigntest.py C10 1 --src /tmp/benign-C10/out/1 [--checks C10,C04] [--tier quick]
Scratch worktree of /repo HEAD + patch -> build + ctest -> VERIF_REPO=<worktree> ./check Cnn for each listed check ->
record in /verif/benign/<id>-<k>/meta.json.  Outcome per check: quiet (exit 0) | alarm-no-input (only
no-failing-input-found lines: allowed by the brief, the proof/correspondence no longer checks) | alarm-with-input
(a concrete replay on code where the property holds = FALSE ALARM, the machinery must be corrected)."""
import argparse, hashlib, json, os, shutil, subprocess, sys, time
ROOT = os.path.dirname(os.path.dirname(os.path.abspath(__file__)))
sys.path.insert(0, os.path.join(ROOT, "tools"))
from seedtest import sh, build

def main():
    ap = argparse.ArgumentParser()
    ap.add_argument("pid"); ap.add_argument("k"); ap.add_argument("--src", default=None)
    ap.add_argument("--checks", default=""); ap.add_argument("--tier", default="quick")
    ap.add_argument("--skip-confirm", action="store_true")
    a = ap.parse_args()
    pid = a.pid.upper()
    dest = os.path.join(ROOT, "benign", "%s-%s" % (pid, a.k)); os.makedirs(dest, exist_ok=True)
    src = a.src
    for f in (os.listdir(src) if src and os.path.isdir(src) else []):
        if f == "meta.json" and os.path.exists(os.path.join(dest, f)): continue
        if os.path.isfile(os.path.join(src, f)) and os.path.getsize(os.path.join(src, f)) < 2_000_000:
            shutil.copy(os.path.join(src, f), dest)
    patch = os.path.join(dest, "patch.diff")
    wt = "/tmp/bt-%s-%s" % (pid, a.k)
    sh("git -C /repo worktree remove --force %s" % wt); shutil.rmtree(wt, ignore_errors=True)
    head = subprocess.check_output("git -C /repo rev-parse --short HEAD", shell=True).decode().strip()
    sh("git -C /repo worktree add --detach %s HEAD" % wt)
    try: meta = json.load(open(os.path.join(dest, "meta.json")))
    except Exception: meta = {}
    res = {"repo_head": head, "when": time.strftime("%Y-%m-%d %H:%M:%S")}
    try:
        rc, out = sh("git -C %s apply %s" % (wt, patch))
        if rc != 0:
            rc, out2 = sh("patch -p1 -F3 --no-backup-if-mismatch -d %s < %s" % (wt, patch)); out += out2
        res["patch_applies"] = rc == 0
        if rc != 0:
            res["apply_log"] = out[-1000:]; raise SystemExit
        if not a.skip_confirm:
            ok, out = build(wt, wt + "/_b"); res["builds"] = ok
            rc, out = sh("ctest --test-dir %s/_b -j8 --timeout 900 2>&1 | tail -4" % wt)
            res["tests_pass_with_change"] = "100% tests passed" in out
            shutil.rmtree(wt + "/_b", ignore_errors=True)
        res["checks"] = {}
        for c in ([pid] + [x for x in a.checks.split(",") if x and x != pid]):
            t0 = time.time()
            rc, out = sh([os.path.join(ROOT, "check"), c, "--tier", a.tier], env=dict(os.environ, VERIF_REPO=wt), cwd=ROOT, timeout=7200)
            viol = [l for l in out.split("\n") if l.startswith("VIOLATION")]
            noinp = bool(viol) and all("no-failing-input-found" in v for v in viol)
            outcome = "quiet" if rc == 0 and not viol else ("machinery-error" if rc not in (0, 1) else ("alarm-no-input" if noinp else "alarm-with-input"))
            res["checks"][c] = {"exit": rc, "outcome": outcome, "n_violation_lines": len(viol), "violation_lines": viol[:6],
                                "wall_s": round(time.time() - t0, 1), "log_tail": out[-1500:] if outcome != "quiet" else ""}
    except SystemExit:
        pass
    finally:
        alt = os.path.join(ROOT, ".cache", "alt-" + hashlib.sha1(os.path.abspath(wt).encode()).hexdigest()[:10])
        keep = os.path.join(dest, "replays")
        for c, v in res.get("checks", {}).items():   # keep the replays of alarms for diagnosis
            if v["outcome"] == "alarm-with-input":
                os.makedirs(keep, exist_ok=True)
                for l in v["violation_lines"][:3]:
                    p = l.split("replay=")[-1].split()[0]
                    if os.path.exists(p) and os.path.getsize(p) < 3_000_000: shutil.copy(p, keep)
        shutil.rmtree(alt, ignore_errors=True)
        sh("git -C /repo worktree remove --force %s" % wt); shutil.rmtree(wt, ignore_errors=True)
    meta.setdefault("runs", []).append(res); meta.setdefault("property", pid)
    json.dump(meta, open(os.path.join(dest, "meta.json"), "w"), indent=1)
    print(json.dumps(res, indent=1)[:3000])

if __name__ == "__main__":
    main()
