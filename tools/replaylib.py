"""Shared pieces of the `./check Cnn --replay FILE` interface (used by tools/props/cnn.py: replay()).

Contract of --replay (what audit/REPLAY.md validates for every property):
  * FILE records a failing input  -> the input is re-run on the tree under test (VERIF_REPO, default /repo):
        exit 1 + `VIOLATION property=Cnn replay=FILE` if the property still fails on it, exit 0 + "replay passes" otherwise;
  * FILE names obligations / correspondences that no longer checked and no failing input (`no-failing-input-found`):
        there is nothing to re-run, so the check itself is run again with the recorded seed and tier:
        exit 1 + `VIOLATION ... no-failing-input-found` if anything still does not check, exit 0 otherwise;
  * FILE records an input whose key is an OPEN entry of known_findings.json (a genuine defect of the unchanged tree that the
    check itself reports as KNOWN-FINDING, not as a violation) and the input still fails in exactly that way
        -> `KNOWN-FINDING: property=Cnn <what>` and exit 0, as `./check Cnn` does;
  * FILE unreadable / not a replay file -> one-line error, exit 2 (never a verdict).
"""
import json, os, re
import vlib


def no_recording(ctx):
    """A replay never overwrites recorded replay files. Judges shared with run() call ctx.violation(), which would write
    <tag>-1.json, <tag>-2.json ... again (a fresh process numbers from 1), i.e. on top of the very files being replayed:
    while replaying, such records go to a scratch directory under the C cache instead."""
    d = os.path.join(vlib.CACHE, "replays", "_during-replay", ctx.pid)

    def replay_path(tag):
        os.makedirs(d, exist_ok=True)
        ctx.replay_n += 1
        return os.path.join(d, "%s-seed%d-%s-%d.json" % (ctx.pid, ctx.seed, re.sub(r"[^\w.-]", "_", tag)[:60], ctx.replay_n))
    ctx.replay_path = replay_path
    return ctx


def load(ctx, path):
    """Read a replay file; an unreadable or malformed file is a usage error (exit 2), not a crash and not a verdict.
    Also switches `ctx` to scratch recording (see no_recording)."""
    pid = ctx.pid
    no_recording(ctx)
    try:
        with open(path) as f:
            r = json.load(f)
        if not isinstance(r, dict):
            raise ValueError("not a JSON object")
    except (OSError, ValueError) as e:
        print("[%s] cannot read replay file %s: %s (usage error, not a verdict)" % (pid, path, e))
        raise SystemExit(2)
    if r.get("property") not in (None, pid):
        print("[%s] note: %s was recorded for property %s" % (pid, path, r.get("property")))
    return r


def obligations(pid, run, r, path):
    """Replay of a `no-failing-input-found` record: say what no longer checked, then run the check again on the tree
    under test with the recorded seed and tier. Returns the exit code."""
    names = [str(b.get("name", "?")) for b in r.get("no_longer_checks", []) if isinstance(b, dict)]
    tier, seed = r.get("tier", "quick"), r.get("seed", 1)
    print("[%s] %s records no failing input; it names %d obligation(s)/correspondence(s) that no longer checked:" % (pid, path, len(names)))
    for n in names:
        print("  - " + n[:300])
    print("[%s] nothing to re-run directly: running the check again on %s (seed %s, tier %s)" % (pid, vlib.REPO, seed, tier), flush=True)
    c2 = no_recording(vlib.Check(pid, tier, seed))
    run(c2)
    for b in c2.broken:
        print("  still does not check: " + str(b.get("name"))[:300])
    for p, found in c2.violations:
        print("  this run recorded: " + p + ("" if found else " (no failing input)"))
    if c2.broken or c2.violations:
        print("VIOLATION property=%s replay=%s no-failing-input-found" % (pid, path))
        return 1
    print("replay passes (every obligation and correspondence of %s checks on %s)" % (pid, vlib.REPO))
    return 0


def failed(ctx, pid, r, path, keys=None):
    """Exit code + verdict line for a recorded input that still fails. `keys` = the known-finding keys of the failures
    seen now (default: the key recorded in the file); if every one of them is an open entry of known_findings.json the
    replay is reported the way the check reports it (KNOWN-FINDING, exit 0), otherwise as a violation (exit 1)."""
    keys = [r.get("key")] if keys is None else list(keys)
    hits = [ctx.known_match(k) if k else None for k in keys]
    if hits and all(h is not None for h in hits):
        seen = []
        for k, h in zip(keys, hits):
            if k not in seen:
                seen.append(k)
                print("KNOWN-FINDING: property=%s %s" % (pid, h.get("what", k)))
        print("replay reproduces a listed known finding of the unchanged tree (known_findings.json); not a new violation")
        return 0
    print("VIOLATION property=%s replay=%s" % (pid, path))
    return 1
