"""C09 helpers: hand-crafted .xz / .lzma / .lz files whose headers declare arbitrary dictionary sizes
(payloads come from Python's own lzma module, i.e. the system liblzma, never from /repo), filter-chain
tokens for the harness / model line protocol, and a Python reference of the liblzma memory-usage
formulas used by the search stage (written from the format documentation and the API comments, with the
sizeof table read from the probe output)."""
import lzma, struct, zlib, hashlib

UINT64_MAX = (1 << 64) - 1
CHECK_SIZES = [0, 4, 4, 4, 8, 8, 8, 16, 16, 16, 32, 32, 32, 64, 64, 64]
BCJ_IDS = {4: "x86", 5: "powerpc", 6: "ia64", 7: "arm", 8: "armthumb", 9: "sparc", 10: "arm64", 11: "riscv"}
BCJ_ALIGN = {4: 1, 5: 4, 6: 16, 7: 4, 8: 2, 9: 4, 10: 4, 11: 2}
PY_BCJ = {4: lzma.FILTER_X86, 5: lzma.FILTER_POWERPC, 6: lzma.FILTER_IA64, 7: lzma.FILTER_ARM,
          8: lzma.FILTER_ARMTHUMB, 9: lzma.FILTER_SPARC}


def vli(n):
    out = bytearray()
    while n >= 0x80:
        out.append((n & 0x7F) | 0x80)
        n >>= 7
    out.append(n)
    return bytes(out)


def crc64(data):
    c = 0xFFFFFFFFFFFFFFFF
    for b in data:
        c ^= b
        for _ in range(8):
            c = (c >> 1) ^ 0xC96C5795D7870F42 if c & 1 else c >> 1
    return c ^ 0xFFFFFFFFFFFFFFFF


def check_bytes(check, data):
    if check == 0:
        return b""
    if check == 1:
        return struct.pack("<I", zlib.crc32(data) & 0xFFFFFFFF)
    if check == 4:
        return struct.pack("<Q", crc64(data))
    if check == 10:
        return hashlib.sha256(data).digest()
    raise ValueError(check)


def lzma2_dict_byte(d):
    """Smallest LZMA2 dictionary-size byte whose size is >= d (40 = 4 GiB - 1)."""
    for b in range(40):
        if ((2 | (b & 1)) << (b // 2 + 11)) >= d:
            return b
    return 40


def lzma2_dict_of_byte(b):
    return 0xFFFFFFFF if b == 40 else (2 | (b & 1)) << (b // 2 + 11)


# A filter is a tuple:  ("lzma2", dict_byte) | ("delta", dist) | ("bcj", id, start_offset or None) | ("raw", id, props)
def filter_flags(f):
    if f[0] == "lzma2":
        return vli(0x21) + vli(1) + bytes([f[1]])
    if f[0] == "delta":
        return vli(3) + vli(1) + bytes([(f[1] - 1) & 0xFF])
    if f[0] == "bcj":
        if f[2] is None:
            return vli(f[1]) + vli(0)
        return vli(f[1]) + vli(4) + struct.pack("<I", f[2])
    if f[0] == "raw":
        return vli(f[1]) + vli(len(f[2])) + f[2]
    raise ValueError(f)


def py_filters(chain, real_dict):
    """Python lzma filter specs to produce the payload of a Block with this chain (real_dict = dictionary really used)."""
    out = []
    for f in chain:
        if f[0] == "lzma2":
            out.append({"id": lzma.FILTER_LZMA2, "dict_size": real_dict, "lc": 3, "lp": 0, "pb": 2})
        elif f[0] == "delta":
            out.append({"id": lzma.FILTER_DELTA, "dist": f[1]})
        elif f[0] == "bcj":
            d = {"id": PY_BCJ[f[1]]}
            if f[2]:
                d["start_offset"] = f[2]
            out.append(d)
        else:
            raise ValueError(f)
    return out


def block(chain, data, check, with_sizes=True, real_dict=4096, payload=None):
    """One .xz Block: header (declaring `chain`), payload, padding, check. Returns (bytes, unpadded_size, uncompressed_size)."""
    if payload is None:
        payload = lzma.compress(data, format=lzma.FORMAT_RAW, filters=py_filters(chain, max(real_dict, 4096)))
    flags = (len(chain) - 1) | (0xC0 if with_sizes else 0)
    body = bytes([flags])
    if with_sizes:
        body += vli(len(payload)) + vli(len(data))
    for f in chain:
        body += filter_flags(f)
    size = 1 + len(body) + 4
    hsize = (size + 3) // 4 * 4
    hdr = bytes([hsize // 4 - 1]) + body + b"\0" * (hsize - size)
    hdr += struct.pack("<I", zlib.crc32(hdr) & 0xFFFFFFFF)
    pad = b"\0" * ((4 - len(payload) % 4) % 4)
    chk = check_bytes(check, data)
    unpadded = len(hdr) + len(payload) + len(chk)
    return hdr + payload + pad + chk, unpadded, len(data)


def index_field(records):
    body = b"\0" + vli(len(records))
    for up, uc in records:
        body += vli(up) + vli(uc)
    body += b"\0" * ((4 - len(body) % 4) % 4)
    return body + struct.pack("<I", zlib.crc32(body) & 0xFFFFFFFF)


def stream(blocks, check):
    """blocks = list of (bytes, unpadded, uncompressed) as returned by block()."""
    sf = bytes([0, check])
    hdr = b"\xFD7zXZ\0" + sf + struct.pack("<I", zlib.crc32(sf) & 0xFFFFFFFF)
    idx = index_field([(b[1], b[2]) for b in blocks])
    back = struct.pack("<I", len(idx) // 4 - 1) + sf
    ftr = struct.pack("<I", zlib.crc32(back) & 0xFFFFFFFF) + back + b"YZ"
    return hdr + b"".join(b[0] for b in blocks) + idx + ftr


def alone_file(data, dict_decl, lc=3, lp=0, pb=2, known_size=True, real_dict=4096):
    raw = lzma.compress(data, format=lzma.FORMAT_RAW,
                        filters=[{"id": lzma.FILTER_LZMA1, "dict_size": max(real_dict, 4096), "lc": lc, "lp": lp, "pb": pb}])
    props = (pb * 5 + lp) * 9 + lc
    size = len(data) if known_size else UINT64_MAX
    return bytes([props]) + struct.pack("<I", dict_decl) + struct.pack("<Q", size) + raw


def lzip_dict_byte(b2log, frac):
    return (frac << 5) | b2log


def lzip_dict_of_byte(ds):
    b2log, frac = ds & 0x1F, ds >> 5
    return (1 << b2log) - (frac << (b2log - 4))


def lzip_file(data, dict_byte, version=1):
    raw = lzma.compress(data, format=lzma.FORMAT_RAW,
                        filters=[{"id": lzma.FILTER_LZMA1, "dict_size": 4096, "lc": 3, "lp": 0, "pb": 2}])
    body = b"LZIP" + bytes([version, dict_byte]) + raw + struct.pack("<I", zlib.crc32(data) & 0xFFFFFFFF) + struct.pack("<Q", len(data))
    if version == 1:
        body += struct.pack("<Q", len(body) + 8)
    return body


def chain_token(chain, lz=None):
    """Harness/model token of a chain given as crafted-file filters (decoder view)."""
    toks = []
    for f in chain:
        if f[0] == "lzma2":
            toks.append("l2:%d:3:0:2:2:64:20:0" % lzma2_dict_of_byte(f[1]))
        elif f[0] == "delta":
            toks.append("delta:%d" % f[1])
        elif f[0] == "bcj":
            toks.append("bcj%d:%s" % (f[1], "-" if f[2] is None else str(f[2])))
        elif f[0] == "raw":
            toks.append("raw%d" % f[1])
    return "+".join(toks)


def lz_token(kind, dict_size, lc=3, lp=0, pb=2, mode=2, nice=64, mf=20, depth=0):
    return "%s:%d:%d:%d:%d:%d:%d:%d:%d" % (kind, dict_size, lc, lp, pb, mode, nice, mf, depth)


def fake_stream(records, check=1, filler=0x5A):
    """A Stream whose Blocks are NOT decodable (filler bytes of the right total size): enough for everything that only
    reads Stream Header / Footer and the Index (lzma_file_info_decoder, xz --list).  records = [(unpadded, uncompressed)]."""
    sf = bytes([0, check])
    hdr = b"\xFD7zXZ\0" + sf + struct.pack("<I", zlib.crc32(sf) & 0xFFFFFFFF)
    body = bytes([filler]) * sum((up + 3) // 4 * 4 for up, _ in records)
    idx = index_field(records)
    back = struct.pack("<I", len(idx) // 4 - 1) + sf
    ftr = struct.pack("<I", zlib.crc32(back) & 0xFFFFFFFF) + back + b"YZ"
    return hdr + body + idx + ftr
