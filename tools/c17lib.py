"""C17 machinery: run the built xz under the LD_PRELOAD interposer (harness/c17_preload.c) with a fault / signal /
crash plan, canonicalise the recorded system calls, derive the coder schedule from a fault-free run, judge a run
directly against the property (oracle independent of the Lean model) and phrase the run as an op line for xzm_c17."""
import lzma, os, shutil, signal, subprocess, threading
import vlib

PRE = b"PRE-EXISTING TARGET, NOT WRITTEN BY XZ\n"
FOREIGN = b"foreign\n"
IOBUF = 8192     # IO_BUFFER_SIZE; overwritten from Gen/C17.lean (regenerated from src/xz/file_io.h) on every run
SIGS = {2: "INT", 15: "TERM", 1: "HUP", 13: "PIPE"}                 # delivered in every mode
SIGS_ALL = {2: "INT", 15: "TERM", 1: "HUP", 13: "PIPE", 24: "XCPU", 25: "XFSZ"}   # every signal xz hooks (signals.c)
RETRY = (4, 11)


LAUNCH = [None]


def build_preload():
    """interposer (shared object) and launcher (resets the inherited process environment before exec'ing xz)"""
    out = os.path.join(vlib.CACHE, "harness-rel")
    os.makedirs(out, exist_ok=True)
    so = os.path.join(out, "c17_preload.so")
    src = os.path.join(vlib.ROOT, "harness", "c17_preload.c")
    la = os.path.join(out, "c17_launch")
    lsrc = os.path.join(vlib.ROOT, "harness", "c17_launch.c")
    with vlib.Lock("h-rel-c17"):
        if not os.path.exists(so) or os.path.getmtime(so) < os.path.getmtime(src):
            rc, log = vlib.sh(["cc", "-shared", "-fPIC", "-O2", "-w", "-o", so + ".tmp", src, "-ldl"])
            if rc != 0:
                return False, log, so
            os.replace(so + ".tmp", so)
        if not os.path.exists(la) or os.path.getmtime(la) < os.path.getmtime(lsrc):
            rc, log = vlib.sh(["cc", "-O2", "-w", "-o", la + ".tmp", lsrc])
            if rc != 0:
                return False, log, so
            os.replace(la + ".tmp", la)
    LAUNCH[0] = la
    return True, "", so


class Mode:
    """One way of invoking xz on a file pair (or several)."""
    def __init__(self, name, args, files, direction="c", keep=False, force=False, stdout=False, stdin=False, sync=True,
                 pre_target=False, valid=True, init_ok=True, skip=False, gid=False, threads="-T1", lifted=False,
                 hardlink=False, files_from=False, sigpipe_ignored=False, ignored_sig=None, env=None):
        self.name, self.args, self.files, self.direction = name, list(args), files, direction
        self.keep, self.force, self.stdout, self.stdin, self.sync = keep, force, stdout, stdin, sync
        self.pre_target, self.valid, self.init_ok, self.skip, self.gid = pre_target, valid, init_ok, skip, gid
        self.threads, self.lifted, self.hardlink, self.files_from = threads, lifted, hardlink, files_from
        # xz inherits this signal as SIG_IGN: signals_init() installs no handler for it (and only for it)
        self.ignored_sig = 13 if sigpipe_ignored else ignored_sig
        self.sigpipe_ignored = self.ignored_sig == 13
        self.env = dict(env or {})     # extra environment of xz (XZ_OPT, XZ_DEFAULTS)
        # files: list of dict(src=name, dst=name or None, data=bytes written as the source, plain=uncompressed bytes)

    @property
    def keep_eff(self):
        return self.keep or self.stdout or self.direction == "t"

    @property
    def file_dest(self):
        return not (self.stdout or self.stdin or self.direction == "t")

    def flags(self):
        return "mode=%s k=%d f=%d c=%d i=%d sync=%d root=%d" % (self.direction, self.keep, self.force, self.stdout, self.stdin,
                                                                 self.sync, 1 if os.geteuid() == 0 else 0)


class Plan:
    """faults: {k: ('E', errno) | ('S', count)};  sig: (k, signo, eintr) ; move: (k, 's'|'d') ; crash: (k, 'X'|'K')"""
    def __init__(self, faults=None, sig=None, move=None, crash=None, tag="", epipe=None, close_out=None):
        self.faults, self.sig, self.move, self.crash, self.tag = dict(faults or {}), sig, move, crash, tag
        self.close_out = close_out   # errno: the final close of standard output (fclose in tuklib_exit) fails (seccomp)
        self.epipe = epipe   # k: the k-th call (a write) hits a broken pipe: SIGPIPE is raised and the call fails with EPIPE

    def sig_eff(self, mode):
        """the signal the model sees: a broken pipe delivers SIGPIPE unless it is ignored"""
        if self.epipe is not None and not mode.sigpipe_ignored:
            return (self.epipe, 13, False)
        if self.sig and self.sig[1] == mode.ignored_sig:
            return None     # raise() of an ignored signal does nothing
        return self.sig

    def env(self):
        ent = []
        if self.move:
            ent.append("%d:M%s" % self.move)
        if self.sig:
            k, s, eintr = self.sig
            ent.append("%d:%s%d" % (k, "J" if eintr else "G", s))
        for k, (a, v) in sorted(self.faults.items()):
            ent.append("%d:%s%d" % (k, a, v))
        if self.epipe is not None:
            ent.append("%d:P0" % self.epipe)
        if self.crash:
            ent.append("%d:%s" % self.crash)
        return ",".join(ent)

    def model_faults(self):
        f = dict(self.faults)
        if self.sig and self.sig[2]:
            f[self.sig[0]] = ("E", 4)
        if self.epipe is not None:
            f[self.epipe] = ("E", 32)
        return f

    def model_args(self, mode):
        f = self.model_faults()
        sg = self.sig_eff(mode)
        return ("closeout=1 " if self.close_out else "") + "plan=%s sig=%s move=%s crash=%s" % (
            ",".join("%d:%s%d" % (k, a, v) for k, (a, v) in sorted(f.items())) or "-",
            sg[0] if sg else "-", ("%d%s" % self.move) if self.move else "-",
            self.crash[0] if self.crash else "-")

    def desc(self):
        return (self.env() or "none") + (" close(stdout)=E%d" % self.close_out if self.close_out else "")


_scratch_n = [0]
_scratch_lock = threading.Lock()


def scratch_root():
    d = os.path.join(vlib.CACHE, "c17-scratch", "p%d" % os.getpid())
    os.makedirs(d, exist_ok=True)
    return d


def run_case(xz, so, mode, plan, keep_dir=False, timeout=60):
    """Run xz once in a fresh directory. Returns dict(rc, log=[raw records], files={name: bytes}, stderr, inos)."""
    with _scratch_lock:
        _scratch_n[0] += 1
        d = os.path.join(scratch_root(), "c%d" % _scratch_n[0])
    shutil.rmtree(d, ignore_errors=True)
    os.makedirs(d)
    inos = {}
    for f in mode.files:
        p = os.path.join(d, f["src"])
        with open(p, "wb") as fh:
            fh.write(f["data"])
        os.chmod(p, 0o644)
        if mode.gid:
            os.chown(p, -1, 1)
        if mode.hardlink:
            os.link(p, p + ".hl")
        inos[f["src"]] = os.stat(p).st_ino
        if mode.pre_target and f["dst"]:
            with open(os.path.join(d, f["dst"]), "wb") as fh:
                fh.write(PRE)
            inos[f["dst"]] = os.stat(os.path.join(d, f["dst"])).st_ino
    log = os.path.join(d, "_log")
    env = {"PATH": "/usr/bin:/bin", "LD_PRELOAD": so, "C17_LOG": log, "C17_NOFSYNC": "1", "LC_ALL": "C"}
    env.update(mode.env)
    pe = plan.env()
    if pe:
        env["C17_PLAN"] = pe
    if plan.move:
        # the move concerns the first file of the run
        env["C17_SRC"] = mode.files[0]["src"]
        if mode.files[0]["dst"]:
            env["C17_DST"] = mode.files[0]["dst"]
    argv = [xz, mode.threads] + mode.args
    sin = subprocess.DEVNULL
    sout = subprocess.DEVNULL
    fin = fout = None
    if mode.files_from:
        with open(os.path.join(d, "_list"), "wb") as fh:
            fh.write(b"".join(f["src"].encode() + b"\n" for f in mode.files))
        argv += ["--files=_list"]
    elif mode.stdin:
        fin = open(os.path.join(d, mode.files[0]["src"]), "rb")
        sin = fin
    else:
        argv += [f["src"] for f in mode.files]
    if mode.stdout or mode.stdin:
        fout = open(os.path.join(d, "_out"), "wb")
        sout = fout
    # xz must not inherit whatever dispositions / mask / umask ./check was started with: the launcher resets them and
    # then installs exactly the inherited-SIG_IGN scenario of this mode (no preexec_fn: we run in threads; the launcher
    # itself is not under LD_PRELOAD's influence in any way that matters: it makes no recorded call)
    launch = ([LAUNCH[0]] + (["-i", str(mode.ignored_sig)] if mode.ignored_sig else [])
              + (["-c", str(plan.close_out)] if plan.close_out else []) + ["--"] + argv)
    try:
        p = subprocess.run(launch, cwd=d, env=env, stdin=sin, stdout=sout, stderr=subprocess.PIPE, timeout=timeout)
        rc, err = p.returncode, p.stderr.decode("utf-8", "replace")
    except subprocess.TimeoutExpired:
        rc, err = "timeout", "[timeout]"
    finally:
        if fin:
            fin.close()
        if fout:
            fout.close()
    files = {}
    for nm in os.listdir(d):
        if nm == "_log" or nm == "_list":
            continue
        pth = os.path.join(d, nm)
        st = os.lstat(pth)
        with open(pth, "rb") as fh:
            files[nm] = (fh.read(), st.st_ino)
    recs = []
    try:
        with open(log) as fh:
            for ln in fh:
                recs.append(ln.rstrip("\n"))
    except FileNotFoundError:
        pass
    if not keep_dir:
        shutil.rmtree(d, ignore_errors=True)
    return {"rc": rc, "log": recs, "files": files, "stderr": err[-600:], "inos": inos, "dir": d, "argv": argv}


# ---------------------------------------------------------------------------------------------------------------
# canonical events
# ---------------------------------------------------------------------------------------------------------------

def parse_rec(ln):
    """-> dict(k, op, kind, name, a1, a2, ret, errno, dev, ino, inj) or a CRASH marker"""
    t = ln.split(" ")
    if len(t) >= 2 and t[1] == "CRASH":
        return {"k": int(t[0]), "op": "CRASH"}
    kind, name = t[2].split(":", 1)
    dev, ino = t[8].split(":")
    return {"k": int(t[0]), "op": t[1], "kind": kind, "name": name, "a1": int(t[3]), "a2": int(t[4]), "ret": int(t[6]),
            "errno": int(t[7]), "ino": int(ino), "inj": t[9], "blk": int(t[10][1:], 16) if len(t) > 10 else None}


def open_flags(fl, mode):
    parts = [("rd", "wr", "rdwr", "acc3")[fl & 3]]
    for bit, nm in ((0o100, "creat"), (0o200, "excl"), (0o1000, "trunc"), (0o2000, "append"), (0o400000, "nofollow"), (0o200000, "dir")):
        if fl & bit:
            parts.append(nm)
    if fl & 0o100:
        parts.append("%04o" % mode)
    return "+".join(parts)


def canon(res, mode):
    """Split the recorded calls into per-file event lists. Event = dict(k, s=canonical string, op, role, req, ret)."""
    roles = {}
    for i, f in enumerate(mode.files):
        roles[f["src"]] = ("SRC", i)
        if f["dst"]:
            roles[f["dst"]] = ("DST", i)
    roles["<stdin>"] = ("SRC", 0)
    roles["<stdout>"] = ("DST", None)
    roles["."] = ("DIR", None)
    per = [[] for _ in mode.files]
    cur = 0
    own_ino = {}
    pre_gone = set()     # inode numbers are reused: once the old target is unlinked (-f) its number means nothing
    for ln in res["log"]:
        r = parse_rec(ln)
        if r["op"] == "CRASH":
            continue
        role, idx = roles.get(r["name"], ("OTHER:" + r["name"], None))
        if idx is not None and role == "SRC" and r["op"] == "open":
            cur = idx
        ok = r["ret"] >= 0
        rs = "ok" if ok else "E%d" % r["errno"]
        op = r["op"]
        if op == "open":
            s = "open %s %s -> %s" % (role, open_flags(r["a1"], r["a2"]), rs)
        elif op in ("read", "write"):
            s = "%s %s %d -> %s" % (op, role, r["a1"], r["ret"] if ok else rs)
        elif op == "lseek":
            s = "lseek %s %d%s -> %s" % (role, r["a1"], "" if r["a2"] == 1 else " whence=%d" % r["a2"], rs)
        elif op == "fchown":
            s = "fchown %s %s -> %s" % (role, "+".join(x for x, b in (("uid", r["a1"]), ("gid", r["a2"])) if b) or "none", rs)
        elif op in ("stat", "lstat"):
            cls = ""
            if ok:
                f = mode.files[cur]
                if r["ino"] == res["inos"].get(f["src"]):
                    cls = "1"
                elif f["dst"] and r["ino"] == res["inos"].get(f["dst"]) and cur not in pre_gone:
                    cls = "2"
                elif r["ino"] == own_ino.get(cur):
                    cls = "3"
                else:
                    cls = "?"
            s = "%s %s -> %s%s" % (op, role, rs, cls)
        else:
            s = "%s %s -> %s" % (op, role, rs)
            if op == "fstat" and role == "DST" and ok and mode.file_dest:
                own_ino[cur] = r["ino"]
            if op == "unlink" and role == "DST" and ok:
                pre_gone.add(cur)
        b = r.get("blk")
        s += " B?" if b is None else (" B1" if b == 0x3f else " B0" if b == 0 else " B?%x" % b)
        per[cur].append({"k": r["k"], "s": s, "op": op, "role": role, "req": r["a1"], "ret": r["ret"], "errno": r["errno"],
                         "ino": r["ino"], "inj": r["inj"], "blk": r.get("blk")})
    # resolve '?' inode classes: the target created by this run (when its fstat was faulted) or a foreign file
    for i, evs in enumerate(per):
        for e in evs:
            if "ok? B" in e["s"]:
                known_own = own_ino.get(i)
                e["s"] = e["s"].replace("ok? B", "ok%s B" % ("4" if known_own is not None else _classify_unknown(res, mode, i, e["ino"])))
    return per


def _classify_unknown(res, mode, i, ino):
    # fstat of the target failed, so the run never told us the inode of its own file: look at what is left on disk
    for nm, (data, fino) in res["files"].items():
        if fino == ino:
            return "4" if data == FOREIGN else "3"
    return "3"


# ---------------------------------------------------------------------------------------------------------------
# coder schedule from a trace
# ---------------------------------------------------------------------------------------------------------------

def derive_ops(evs, mode, f=None):
    """From the events of one file: (ops list without ticks, call->op index map, outreg flag).
    ops entries: 'R<n>' 'W<n>' 'Z<n>' 'F<n>' 'I0' 'I1'.  Reads and writes interrupted by injected faults are merged
    (used for the fault-free reference and, for threaded modes, for lifting the observed trace itself)."""
    ops, owner = [], {}
    outreg = False
    init_done = False
    rd_rem = wr_rem = 0

    def init(ok):
        nonlocal init_done
        if not init_done:
            ops.append("I0" if ok else "I1")
            init_done = True

    i, n = 0, len(evs)
    if mode.direction == "c":
        init(True)
    seen_dest_fstat = False
    while i < n:
        e = evs[i]
        op, role = e["op"], e["role"]
        if op == "read" and role == "SRC":
            if rd_rem == 0:
                if mode.direction != "c" and any(o.startswith("R") for o in ops):
                    init(True)
                ops.append("R%d" % e["req"])
                rd_rem = e["req"]
            owner[e["k"]] = len(ops) - 1
            if e["ret"] > 0:
                rd_rem -= e["ret"]
            elif e["ret"] == 0:
                rd_rem = 0
            elif e["errno"] not in RETRY:
                rd_rem = 0
        elif op == "poll":
            owner[e["k"]] = len(ops) - 1
        elif op == "write" and role == "DST":
            init(True)
            if wr_rem == 0:
                ops.append("W%d" % e["req"])
                wr_rem = e["req"]
            owner[e["k"]] = len(ops) - 1
            if e["ret"] > 0:
                wr_rem -= e["ret"]
            elif e["errno"] not in RETRY:
                wr_rem = 0
        elif op == "lseek" and role == "DST":
            if not mode.file_dest and e["req"] == 0 and not any(o[0] in "WZ" for o in ops):
                outreg = True
            else:
                init(True)
                off = e["req"]
                nxt = evs[i + 1] if i + 1 < n else None
                if off % IOBUF == IOBUF - 1:
                    # io_close: seek pending-1, then write one zero byte
                    cnt = (off + 1) // IOBUF
                    first = len(ops)
                    ops.extend(["Z%d" % IOBUF] * cnt)
                    owner[e["k"]] = first + cnt - 1
                    if nxt is not None and nxt["op"] == "write" and nxt["req"] == 1:
                        owner[nxt["k"]] = first + cnt - 1
                        i += 1
                else:
                    cnt = off // IOBUF
                    ops.extend(["Z%d" % IOBUF] * cnt)
                    owner[e["k"]] = len(ops)   # belongs to the write that follows
        elif op == "lseek" and role == "SRC":
            init(True)
            ops.append("F%d" % (-e["req"]))
            owner[e["k"]] = len(ops) - 1
        elif op == "open" and role in ("DIR", "DST") or (op == "fstat" and role == "DST"):
            init(True)
        i += 1
    if not init_done:
        init(mode.init_ok if f is None else f.get("init_ok", mode.init_ok))
    return ops, owner, outreg


def with_ticks(ops, skip=()):
    """Insert the loop-head check before every request after coder_init and before the end, except at `skip`
    (indices into ops; len(ops) = the check before the end)."""
    out, main = [], False
    for i, o in enumerate(ops):
        if main and i not in skip:
            out.append("T")
        out.append(o)
        if o in ("I0", "I1"):
            main = True
    if len(ops) not in skip:
        out.append("T")
    return out


def file_spec(mode, f, ops, outreg):
    return "%d:%d:%d:%d:%d:%s:%s" % (len(f["data"]), mode.skip, mode.gid, outreg, mode.pre_target and bool(f["dst"]),
                                     "ok" if f.get("valid", mode.valid) else "err", ".".join(ops) or "-")


# ---------------------------------------------------------------------------------------------------------------
# observed end state, in the vocabulary of the model
# ---------------------------------------------------------------------------------------------------------------

def target_complete(mode, f, data):
    if mode.direction == "c":
        try:
            return lzma.decompress(data) == f["plain"]
        except Exception:
            return False
    return data == f["plain"]


def observed_fs(res, mode, idx, moved):
    """dict with the keys of the model's fs line for file idx"""
    f = mode.files[idx]
    files = res["files"]

    def cls_of(nm, is_src):
        if nm not in files:
            return "-"
        d = files[nm][0]
        if d == FOREIGN:
            return "4"
        if is_src:
            return "1" if d == f["data"] else "?"
        if mode.pre_target and d == PRE:
            return "2"
        return "3"

    o = {}
    o["src"] = "1" if mode.stdin else cls_of(f["src"], True)
    o["dst"] = cls_of(f["dst"], False) if f["dst"] else "-"
    cand_src = [f["src"], f["src"] + ".moved"]
    o["srcL"] = "1" if mode.stdin or any(n in files and files[n][0] == f["data"] for n in cand_src) else "0"
    own = None
    if f["dst"]:
        cand = [f["dst"], f["dst"] + ".moved"]
        o["preL"] = "1" if (not mode.pre_target) or any(n in files and files[n][0] == PRE for n in cand) else "0"
        for nm in cand:
            if nm in files and files[nm][0] != FOREIGN and not (mode.pre_target and files[nm][0] == PRE):
                own = files[nm][0]
    else:
        o["preL"] = "1"
    o["ownL"] = "1" if own is not None else "0"
    o["own"] = own
    if moved:
        nm = f["src"] if moved == "s" else f["dst"]
        o["forL"] = "1" if nm in files and files[nm][0] == FOREIGN else "0"
    else:
        o["forL"] = "1"
    o["outsz"] = str(len(files["_out"][0])) if "_out" in files else "0"
    return o


def observed_exit(res, plan, mode=None):
    rc = res["rc"]
    if plan.epipe is not None and mode is not None and not mode.sigpipe_ignored and rc == -13:
        return "sig"
    if plan.crash and ((plan.crash[1] == "X" and rc == 99) or (plan.crash[1] == "K" and rc == -9)):
        return "crash"
    if isinstance(rc, int) and rc < 0:
        sg = plan.sig_eff(mode) if mode is not None else plan.sig
        return "sig" if sg and rc == -sg[1] else "killed%d" % -rc
    return str(rc)
