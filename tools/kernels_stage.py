#!/usr/bin/env python3
"""Stage G for the scalar kernels: regenerate lean/XzVerif/Gen/Kernels.lean (C -> Lean translation of the size / bound /
memusage arithmetic by tools/c2lean.py) and lean/XzVerif/Gen/KernelsGrid.lean (the compiled C code evaluated on a
boundary grid, each point an `example … := by decide` against the translated definition) from vlib.REPO.

    run_stage(ctx) -> list of Lean modules to add to ctx.lean_stage([...])      (used by c02.py, c09.py, c13.py)

A kernel that leaves the translator's subset is reported through ctx.obligation_broken("stage G: …") and left out of
Gen/Kernels.lean, so its bridge theorem in Props/Kernels.lean breaks at stage P as well.
`vlib.c_build("asan")` must have run (the -I/-D flags come from the build's compile_commands.json).
Stand-alone:  python3 tools/kernels_stage.py   (prints what was translated and the timings)."""
import os, sys, time
import vlib
import c2lean

GEN_MODULE = "XzVerif.Gen.Kernels"
TABLES_MODULE = "XzVerif.Gen.KernelsTables"
GRID_MODULE = "XzVerif.Gen.KernelsGrid"
PROP_MODULES = ["XzVerif.Props.Kernels"]
# which bridge module each property builds at stage P (a kernel without `props` belongs to DEFAULT_PROPS)
PROP_MODULES_BY_PID = {"C15": ["XzVerif.Props.KernelsBcj"], "C09": ["XzVerif.Props.Kernels", "XzVerif.Props.KernelsC09"]}
DEFAULT_PROPS = ("C02", "C09", "C13")

L = "src/liblzma/"
# Order matters: a kernel may only call kernels listed before it.
#   name     C function            src   file that defines it or (for static inline functions of a header) includes it;
#   lean     Lean name (default: the C name)            fuel  iteration bounds of its loops, in order
#   domain   {lean parameter: (lo, hi)} restriction of the boundary grid to where the C code has defined behaviour
KERNELS = [
    dict(name="lzma_vli_size", src=L + "common/vli_size.c", fuel=[10]),
    dict(name="vli_ceil4", src=L + "common/index.c"),
    dict(name="index_size_unpadded", src=L + "common/index.c"),
    dict(name="index_size", src=L + "common/index.c"),
    dict(name="index_stream_size", src=L + "common/index.c"),
    dict(name="index_file_size", src=L + "common/index.c"),
    dict(name="lzma_index_memusage", src=L + "common/index.c"),
    dict(name="lzma_check_size", src=L + "check/check.c"),
    dict(name="lzma_block_unpadded_size", src=L + "common/block_util.c"),
    dict(name="lzma_block_total_size", src=L + "common/block_util.c"),
    dict(name="lzma2_bound", src=L + "common/block_buffer_encoder.c"),
    dict(name="lzma_block_buffer_bound64", src=L + "common/block_buffer_encoder.c"),
    dict(name="lzma_block_buffer_bound", src=L + "common/block_buffer_encoder.c"),
    dict(name="lzma_stream_buffer_bound", src=L + "common/stream_buffer_encoder.c"),
    dict(name="is_backward_size_valid", src=L + "common/stream_flags_common.c"),
    dict(name="lzma_lz_decoder_memusage", src=L + "lz/lz_decoder.c"),
    dict(name="lzma_lzma_decoder_memusage_nocheck", src=L + "lzma/lzma_decoder.c"),
    dict(name="lzma_lzma2_decoder_memusage", src=L + "lzma/lzma2_decoder.c"),
    dict(name="lzma_outq_outbuf_memusage", src=L + "common/outqueue.c"),
    dict(name="lzma_outq_memusage", src=L + "common/outqueue.c"),
    dict(name="lzma_lzma_lclppb_decode", src=L + "lzma/lzma_decoder.c"),
    dict(name="is_lclppb_valid", src=L + "lzma/lzma_encoder.c"),
    dict(name="lzma_lzma_lclppb_encode", src=L + "lzma/lzma_encoder.c"),
    dict(name="lzma_lzma2_props_decode", src=L + "lzma/lzma2_decoder.c", domain={"props_0": (0, 255), "props_size": (0, 3)},
         fresh_expr={"opt": "((lzma_options_lzma *)obj_0[0])"}, probe_cleanup=["free(obj_0[0]);"]),
    # the dictionary-size byte of a .lz header: a fragment of the SEQ_DICT_SIZE case of lzip_decode (cannot be called on its own,
    # so it has no grid; Props/Kernels.lean checks it against the table Gen/C16.lean obtains by RUNNING the decoder)
    dict(name="lzip_decode", lean="lzip_dict_size", src=L + "common/lzip_decoder.c", fragment=dict(first_decl="b2log", last_assign="options.pb")),
    dict(name="kw_update_literal", lean="update_literal", src="harness/kern_wrap_lzma_common.c", domain={"state": (0, 11)}),
    dict(name="kw_update_literal_normal", lean="update_literal_normal", src="harness/kern_wrap_lzma_common.c", domain={"state": (0, 11)}),
    dict(name="kw_update_literal_matched", lean="update_literal_matched", src="harness/kern_wrap_lzma_common.c", domain={"state": (0, 11)}),
    dict(name="kw_update_match", lean="update_match", src="harness/kern_wrap_lzma_common.c", domain={"state": (0, 11)}),
    dict(name="kw_update_long_rep", lean="update_long_rep", src="harness/kern_wrap_lzma_common.c", domain={"state": (0, 11)}),
    dict(name="kw_update_short_rep", lean="update_short_rep", src="harness/kern_wrap_lzma_common.c", domain={"state": (0, 11)}),
    dict(name="kw_is_literal_state", lean="is_literal_state", src="harness/kern_wrap_lzma_common.c", domain={"state": (0, 11)}),
    dict(name="kw_get_dist_state", lean="get_dist_state", src="harness/kern_wrap_lzma_common.c"),
    dict(name="kw_literal_mask_calc", lean="literal_mask_calc", src="harness/kern_wrap_lzma_common.c", domain={"lc": (0, 8), "lp": (0, 4)}),
    dict(name="get_dist_slot", src="harness/kern_wrap_lzma_common.c"),
    # ---- second batch
    dict(name="lzma_lzma2_props_encode", src=L + "lzma/lzma2_encoder.c"),
    dict(name="lzma_stream_flags_compare", src=L + "common/stream_flags_common.c"),
    # Backward Size <-> stored field: `write32le(out + 4, backward_size / 4 - 1)` and `backward_size = (field + 1) * 4`
    dict(name="lzma_stream_footer_encode", lean="footer_backward_size_field", src=L + "common/stream_flags_encoder.c",
         fragment=dict(call_arg=["*", 1], reads="backward_size", nth=0)),
    dict(name="lzma_stream_footer_decode", lean="footer_backward_size_of_field", src=L + "common/stream_flags_decoder.c",
         fragment=dict(first=dict(assign="backward_size", nth=1), last=dict(assign="backward_size"))),
    dict(name="lzma_block_compressed_size", src=L + "common/block_util.c"),
    # lzma_block_header_size: the fixed part (sizes of the two optional VLI fields) and the final padding to a multiple of four
    dict(name="lzma_block_header_size", lean="block_header_size_fixed", src=L + "common/block_header_encoder.c",
         fragment=dict(first=dict(decl="size"), last=dict(if_reads="uncompressed_size"), results=["size"])),
    dict(name="lzma_block_header_size", lean="block_header_size_pad", src=L + "common/block_header_encoder.c",
         fragment=dict(first=dict(assign="header_size"), last=dict(assign="header_size"))),
    dict(name="lzma_index_padding_size", src=L + "common/index.c"),
    dict(name="lzma_index_hash_size", src=L + "common/index_hash.c"),
    dict(name="hash_append", lean="index_hash_append_sizes", src=L + "common/index_hash.c",
         fragment=dict(first=dict(assign="blocks_size"), last=dict(assign="count"))),
    dict(name="lzma_index_hash_append", lean="index_hash_append_limits", src=L + "common/index_hash.c",
         fragment=dict(first=dict(if_reads="blocks_size"), last=dict(if_reads="blocks_size"))),
    # lz_decoder.c: minimum dictionary, rounding up to a multiple of 16, allocation size
    dict(name="lzma_lz_decoder_init", lean="lz_decoder_dict_alloc", src=L + "lz/lz_decoder.c",
         fragment=dict(first=dict(if_reads="dict_size"), last=dict(decl="alloc_size"), results=["alloc_size"])),
    dict(name="mf_get_hash_bytes", src=L + "lz/lz_encoder.c"),
    dict(name="lz_encoder_prepare", src=L + "lz/lz_encoder.c", ignore_calls=["lzma_free"], points=200, outline_ifs=True,
         domain={"lz_options_dict_size": (4090, 1610612740), "lz_options_match_finder": (0, 21), "lz_options_nice_len": (0, 280),
                 "lz_options_match_len_max": (270, 275), "lz_options_before_size": (0, 4294967295), "lz_options_after_size": (0, 4294967295)}),
    dict(name="comp_blk_size", src=L + "common/stream_decoder_mt.c"),
    dict(name="round_up_to_mib", src="src/xz/util.c", tu="src/xz/util.c"),
    dict(name="hardware_memlimit_get", src="src/xz/hardware.c", tu="src/xz/hardware.c"),
    dict(name="hardware_memlimit_mtenc_is_default", src="src/xz/hardware.c", tu="src/xz/hardware.c"),
    dict(name="hardware_memlimit_mtenc_get", src="src/xz/hardware.c", tu="src/xz/hardware.c"),
    dict(name="hardware_memlimit_mtdec_get", src="src/xz/hardware.c", tu="src/xz/hardware.c"),
    # ---- BCJ filters: the loop body (one instruction word) of each fixed-width filter, in BitVec mode; `buffer_i_k` = buffer[i + k],
    # the loop driver (alignment of `size`, stride, return value) stays hand-modelled (Model/Bcj.lean `blockCode` / `thumbGo`)
    dict(name="arm_code", lean="arm_word", src=L + "simple/arm.c", bitvec=True, props=("C15",),
         fragment=dict(first=dict(if_array="buffer"), last=dict(if_array="buffer"))),
    dict(name="armthumb_code", lean="armthumb_word", src=L + "simple/armthumb.c", bitvec=True, props=("C15",),
         fragment=dict(first=dict(if_array="buffer"), last=dict(if_array="buffer"))),
    dict(name="powerpc_code", lean="powerpc_word", src=L + "simple/powerpc.c", bitvec=True, props=("C15",),
         fragment=dict(first=dict(if_array="buffer"), last=dict(if_array="buffer"))),
    dict(name="sparc_code", lean="sparc_word", src=L + "simple/sparc.c", bitvec=True, props=("C15",),
         fragment=dict(first=dict(if_array="buffer"), last=dict(if_array="buffer"))),
    dict(name="arm64_code", lean="arm64_word", src=L + "simple/arm64.c", bitvec=True, props=("C15",), ignore_calls=["write32le", "write32ne"],
         fragment=dict(first=dict(if_var="instr"), last=dict(if_var="instr"), continue_ends=True)),
]


# Hand models the kernels are bridged to, in evaluable form, for the DIAGNOSTIC search that runs whenever the translated
# arithmetic changes: (domain condition, list of Nat results) over the kernel's Lean arguments a0, a1, …  A disagreement at a
# grid point (values from the COMPILED C code) is reported with the broken bridge, as the concrete disagreeing argument.
MODEL_EVAL = {
    "lzma_vli_size": ("true", "[Vli.vliSize a0]"),
    "vli_ceil4": ("a0 + 3 < U64", "[Container.ceil4 a0]"),
    "index_size_unpadded": ("a1 + 14 < U64", "[Container.indexSizeUnpadded a0 a1]"),
    "index_size": ("a1 + 17 < U64", "[Container.indexSize a0 a1]"),
    "index_stream_size": ("a0 + a2 + 41 < U64", "[Container.indexStreamSize a0 a1 a2]"),
    "index_file_size": ("a0 + a4 + a1 + 27 < U64 ∧ a3 + 17 ≤ 9223372036854775808", "[ofOpt (Container.indexFileSize a0 a1 a2 a3 a4)]"),
    "lzma_index_memusage": ("true", "[Index.memusage a0 a1]"),
    "lzma_check_size": ("true", "[Container.checkSize a0]"),
    "lzma_block_unpadded_size": ("true", "[Container.blockUnpaddedSize a3 a2 a0 (optVli a1)]"),
    "lzma_block_total_size": ("true", "[Container.blockTotalSize a3 a2 a0 (optVli a1)]"),
    "lzma2_bound": ("true", "[Container.lzma2Bound a0]"),
    "lzma_block_buffer_bound64": ("true", "[Container.blockBufferBound64 a0]"),
    "lzma_block_buffer_bound": ("true", "[Container.blockBufferBound a0]"),
    "lzma_stream_buffer_bound": ("true", "[Container.streamBufferBound a0]"),
    "is_backward_size_valid": ("true", "[if Container.isBackwardSizeValid a0 then 1 else 0]"),
    "lzma_lz_decoder_memusage": ("a0 < 9223372036854775808", "[Memusage.lzDecoderMemusage Memusage.thisBuild a0]"),
    "lzma_lzma_decoder_memusage_nocheck": ("a0 < 4294967296", "[Memusage.lzmaDecoderMemusageNocheck Memusage.thisBuild { dict := a0 }]"),
    "lzma_lzma2_decoder_memusage": ("a0 < 4294967296", "[Memusage.lzma2DecoderMemusage Memusage.thisBuild { dict := a0 }]"),
    "lzma_outq_outbuf_memusage": ("a0 < 9223372036854775808", "[Memusage.outbufMemusage Memusage.thisBuild a0]"),
    "lzma_outq_memusage": ("true", "[ofOpt (Memusage.outqMemusage Memusage.thisBuild a0 a1)]"),
    "lzma_lzma2_props_encode": ("a0 < 4294967296", "[0, Container.lzma2DictEncode a0]"),
    "lzma_index_padding_size": ("a0 + 14 < U64", "[Container.indexPaddingSize a1 a0]"),
    "comp_blk_size": ("a0 + 67 < U64 ∧ a1 ≤ 15", "[Container.ceil4 a0 + Container.checkSize a1]"),
    "round_up_to_mib": ("true", "[(a0 + 1048575) / 1048576]"),
    "get_dist_slot": ("true", "[Container.getDistSlot a0]"),
    "update_literal": ("true", "[Lzma.updateLiteral a0]"),
    "update_match": ("true", "[Lzma.updateMatch a0]"),
    "update_long_rep": ("true", "[Lzma.updateLongRep a0]"),
    "update_short_rep": ("true", "[Lzma.updateShortRep a0]"),
    "get_dist_state": ("2 ≤ a0", "[Lzma.getDistState a0]"),
}
MODEL_IMPORTS = ["XzVerif.Model.Container", "XzVerif.Model.IndexSpec", "XzVerif.Model.Memusage", "XzVerif.Model.MemusageBuild", "XzVerif.Model.Lzma"]


def search_disagreements(info):
    """Evaluate the hand models (Lean `#eval`, no Gen file involved) on the grid points whose C values the probes just
    produced; returns [(kernel, args, C result, model result)]. Cached per content of Gen/Kernels.lean."""
    import hashlib, json
    h = hashlib.sha1((info["gen"] + repr(sorted(MODEL_EVAL.items()))).encode()).hexdigest()[:16]
    cpath = os.path.join(vlib.CACHE, "kern", "disagree-%s.json" % h)
    if os.path.exists(cpath):
        try:
            return json.load(open(cpath))
        except Exception:
            pass
    lines = ["import %s" % m for m in MODEL_IMPORTS] + ["open XzVerif", "def U64 : Nat := 18446744073709551616",
             "def optVli (v : Nat) : Option Nat := if v = 18446744073709551615 then none else some v",
             "def ofOpt : Option Nat → Nat | none => 18446744073709551615 | some v => v", ""]
    index = []
    for name, (dom, val) in MODEL_EVAL.items():
        if name not in info["grids"]:
            continue
        pts, vals = info["grids"][name]
        if not pts or not pts[0]:
            continue
        binds = " ".join("let a%d : Nat := a.getD %d 0;" % (j, j) for j in range(len(pts[0])))
        lines.append("#eval IO.println (String.intercalate \"\\n\" (([%s] : List (List Nat)).map fun a => (%s if (%s) then toString (%s) else \"none\")))"
                     % (", ".join("[" + ", ".join(str(x) for x in p) + "]" for p in pts), binds, dom, val))
        for p, v in zip(pts, vals):
            index.append((name, list(p), list(v)))
    d = os.path.join(vlib.CACHE, "kern")
    os.makedirs(d, exist_ok=True)
    path = os.path.join(d, "Disagree.lean")
    with open(path, "w") as f:
        f.write("\n".join(lines) + "\n")
    rc, out = vlib.lean_run_file(path, timeout=600)
    outs = [l for l in out.split("\n") if l.startswith(("[", "none"))]
    res = []
    if rc == 0 and len(outs) == len(index):
        for (name, p, v), o in zip(index, outs):
            if o.startswith("["):
                m = [int(x) for x in o.strip("[] ").replace(" ", "").split(",") if x]
                if m != v:
                    res.append([name, p, v, m])
    else:
        res.append(["(the diagnostic evaluation itself failed)", [], [], [out[-400:]]])
    try:
        json.dump(res, open(cpath, "w"))
    except OSError:
        pass
    return res


def src_path(spec):
    s = spec["src"]
    return os.path.join(vlib.ROOT, s) if s.startswith("harness/") else os.path.join(vlib.REPO, s)


def key_of(spec):
    return spec.get("lean") or spec["name"]


def unit_tag(spec):
    s = spec["src"]
    s = s[len(L):] if s.startswith(L) else s
    return os.path.splitext(s)[0].replace("/", "_")


DEFAULT_TU = "src/liblzma/common/common.c"


def flags_for(spec):
    return [f for f in vlib.lib_flags("asan", tu=spec.get("tu", DEFAULT_TU)) if f.startswith(("-D", "-I", "-std"))] + ["-I" + os.path.join(vlib.ROOT, "harness")]


def run_probe(name, text, log, tu=DEFAULT_TU):
    """compile (against the asan build, only when something changed) and run a generated probe; returns stdout or None"""
    d = os.path.join(vlib.CACHE, "kern")
    os.makedirs(d, exist_ok=True)
    path = os.path.join(d, name + ".c")
    vlib.write_if_changed(path, text)
    ok, out, exe = vlib.harness_build(name, [path], extra=["-DNDEBUG", "-ffunction-sections", "-fdata-sections", "-Wl,--gc-sections"], tu=tu, libs=("-Wl,--gc-sections",))
    if not ok:
        log.append("probe %s does not compile:\n%s" % (name, out[-3000:]))
        return None
    rc, out = vlib.sh([exe], timeout=300, env={"ASAN_OPTIONS": "detect_leaks=0", "UBSAN_OPTIONS": "print_stacktrace=1:halt_on_error=1"})
    if rc != 0:
        key = [l for l in out.split("\n") if "SUMMARY:" in l or "runtime error" in l or "ERROR:" in l]
        log.append("probe %s failed (rc=%d): %s" % (name, rc, "\n".join(key[:4]) if key else out[-1500:]))
        return None
    return out


def regenerate(kernels=None, write=True):
    """Returns (failures, info): failures = [(kernel name, reason)], info = dict with the translated kernels and timings."""
    kernels = KERNELS if kernels is None else kernels
    t0 = time.time()
    failures, log = [], []

    def get_ast(spec):
        try:
            return c2lean.clang_function_ast(src_path(spec), spec["name"], flags_for(spec))
        except c2lean.Unsupported as e:
            return e
        except Exception as e:          # clang missing, timeout, …
            return c2lean.Unsupported("%s: %s" % (type(e).__name__, e))
    asts = vlib.par_map(get_ast, kernels)
    t_ast = time.time() - t0

    def translate_all(consts_by_unit):
        reg, res = {}, {}
        for spec, ast in zip(kernels, asts):
            if isinstance(ast, Exception):
                res[key_of(spec)] = ast
                continue
            try:
                k = c2lean.FnTranslator(ast, spec, reg, consts_by_unit.get(spec["src"], {})).translate()
                if "fragment" not in spec:
                    reg[spec["name"]] = k
                res[key_of(spec)] = k
            except c2lean.Unsupported as e:
                res[key_of(spec)] = e
            except RecursionError:
                res[key_of(spec)] = c2lean.Unsupported("expression nesting too deep")
        return res

    # pass 1 (constants unknown): which sizeof / enumerator / table values each unit needs
    res = translate_all({})
    units = {}
    for spec in kernels:
        r = res[key_of(spec)]
        if isinstance(r, c2lean.Kernel) and r.requests:
            units.setdefault(spec["src"], set()).update(r.requests)
    consts_by_unit = {}

    def const_probe(item):
        src, reqs = item
        spec0 = [s for s in kernels if s["src"] == src][0]
        out = run_probe("kconst_" + unit_tag(spec0), c2lean.probe_source(src_path(spec0), [], reqs), log, spec0.get("tu", DEFAULT_TU))
        return src, (c2lean.parse_probe_output(out)[0] if out is not None else None)
    for src, consts in vlib.par_map(const_probe, sorted(units.items())):
        if consts is None or any(r not in consts for r in units[src]):
            consts_by_unit[src] = None
        else:
            consts_by_unit[src] = consts
    t_const = time.time() - t0 - t_ast
    # pass 2: the real translation
    bad_units = {src for src, c in consts_by_unit.items() if c is None}
    res = translate_all({src: c for src, c in consts_by_unit.items() if c is not None})
    for spec in kernels:
        r = res[key_of(spec)]
        if isinstance(r, c2lean.Kernel) and spec["src"] in bad_units and r.requests:
            res[key_of(spec)] = c2lean.Unsupported("the constants probe for %s failed: %s" % (spec["src"], (log or ["?"])[-1][-600:]))
    # a kernel whose callee failed must fail too (translate_all already guarantees it: the callee is not in the registry)
    # grid probes, one per unit
    by_unit = {}
    for spec in kernels:
        k = res[key_of(spec)]
        if isinstance(k, c2lean.Kernel) and not getattr(k, "no_probe", False):
            try:
                pts = c2lean.make_grid(k, spec)
                c2lean.probe_kernel_c(k, spec, pts, k.lean_name)       # fails early if the kernel cannot be probed
                by_unit.setdefault(spec["src"], []).append((k.lean_name, k, spec, pts))
            except c2lean.Unsupported as e:
                res[key_of(spec)] = e

    def grid_probe(item):
        src, items = item
        out = run_probe("kgrid_" + unit_tag(items[0][2]), c2lean.probe_source(src_path(items[0][2]), items, set()), log, items[0][2].get("tu", DEFAULT_TU))
        return src, (c2lean.parse_probe_output(out)[1] if out is not None else None)
    grids = {}
    for src, g in vlib.par_map(grid_probe, sorted(by_unit.items())):
        for tag, k, spec, pts in by_unit[src]:
            if g is None or len(g.get(tag, {})) != len(pts):
                res[key_of(spec)] = c2lean.Unsupported("the grid probe for %s failed: %s" % (src, (log or ["?"])[-1][-1500:]))
            else:
                grids[key_of(spec)] = (pts, [g[tag][i] for i in range(len(pts))])
    t_grid = time.time() - t0 - t_ast - t_const

    # ---- Lean output
    done = set()
    gen = ["/-", "  GENERATED by tools/kernels_stage.py (translator: tools/c2lean.py) from the C sources — do not edit.",
           "  Scalar kernels of liblzma translated from the typed clang AST: unsigned arithmetic of width w on `Nat` with",
           "  explicit `% 2^w`, signed on `Int`, `bool` as `Bool`; fields read through a pointer parameter `p` are the",
           "  parameters `p_field`; `sizeof`/enumerator values come from a probe compiled with the build's flags.",
           "  Bridged to the hand-written models in Props/Kernels.lean; evaluated against the compiled C code in Gen/KernelsGrid.lean.",
           "-/", "import XzVerif.Gen.KernelsTables", "", "set_option linter.unusedVariables false", "", "namespace XzVerif.Gen.Kernels", ""]
    tabs = ["/-", "  GENERATED by tools/kernels_stage.py — do not edit.",
            "  Global `const` tables read by the translated kernels of Gen/Kernels.lean, as linked into a probe built with the",
            "  flags of the build under test (kept in a module of their own so that a kernel change does not recompile them).",
            "-/", "namespace XzVerif.Gen.Kernels", ""]
    tables_done = set()
    for spec in kernels:
        k = res[key_of(spec)]
        if not isinstance(k, c2lean.Kernel):
            failures.append((key_of(spec), str(k)))
            gen += ["-- NOT TRANSLATED: `%s` (%s): %s" % (key_of(spec), spec["src"], str(k).split("\n")[0][:300]), ""]
            continue
        for r in sorted(k.requests):
            if r.startswith("table:") and r not in tables_done:
                tables_done.add(r)
                name, et, ln = r.split(":", 1)[1].rsplit(":", 2)
                tabs += [c2lean.table_def(c2lean.lean_ident(name), consts_by_unit[spec["src"]][r], "`const %s %s[%s]` as linked into the probe" % (et, name, ln)), ""]
        for d in k.defs:
            gen += [d, ""]
        done.add(key_of(spec))
    gen += ["end XzVerif.Gen.Kernels", ""]
    tabs += ["end XzVerif.Gen.Kernels", ""]
    grid = ["/-", "  GENERATED by tools/kernels_stage.py — do not edit.",
            "  Each line is the value the COMPILED C function returned for these arguments (probe built with the flags of the",
            "  build under test, -DNDEBUG), checked by kernel evaluation against the translated definition of Gen/Kernels.lean:",
            "  a translator bug shows up here as a failing `decide`.", "-/", "import XzVerif.Gen.Kernels", "",
            "namespace XzVerif.Gen.KernelsGrid", "open XzVerif.Gen.Kernels", ""]
    npts = 0
    for spec in kernels:
        k = res[key_of(spec)]
        if not isinstance(k, c2lean.Kernel) or key_of(spec) not in grids:
            continue
        pts, vals = grids[key_of(spec)]
        tys = ([k.ret] if k.ret is not None else []) + [o[1] for o in k.outputs]
        grid.append("/-! `%s`: %d points -/" % (k.cname, len(pts)))
        for p, v in zip(pts, vals):
            args = " ".join(c2lean.lean_val(a, prm.ct) for a, prm in zip(p, k.params))
            rv = [c2lean.lean_val(x, t) for x, t in zip(v, tys)]
            call = k.lean_name + (" " + args if args else "")
            if len(rv) > 6:
                # `Decidable (a = b)` is not synthesised for tuples this wide: compare component by component
                n = len(rv)
                proj = lambda j: ".2" * j + (".1" if j < n - 1 else "")
                grid.append("example : %s := by decide +kernel" % " ∧ ".join("(%s)%s = %s" % (call, proj(j), x) for j, x in enumerate(rv)))
            else:
                rhs = rv[0] if len(rv) == 1 else "(" + ", ".join(rv) + ")"
                grid.append("example : %s = %s := by decide +kernel" % (call, rhs))
            npts += 1
        grid.append("")
    grid += ["end XzVerif.Gen.KernelsGrid", ""]
    if write:
        vlib.write_if_changed(vlib.module_path(TABLES_MODULE), "\n".join(tabs))
        vlib.write_if_changed(vlib.module_path(GEN_MODULE), "\n".join(gen))
        vlib.write_if_changed(vlib.module_path(GRID_MODULE), "\n".join(grid))
    info = {"translated": sorted(done), "failed": [f[0] for f in failures], "grid_points": npts, "t_ast_s": round(t_ast, 1), "t_const_s": round(t_const, 1),
            "t_grid_s": round(t_grid, 1), "t_total_s": round(time.time() - t0, 1), "log": log, "gen": "\n".join(gen), "grid": "\n".join(grid), "res": res,
            "grids": grids}
    return failures, info


def run_stage(ctx):
    """Stage G for the kernels. Returns the Lean modules the caller must add to ctx.lean_stage([...])."""
    with vlib.Lock("gen-kernels"):
        try:
            failures, info = regenerate()
        except Exception as e:      # machinery problem (no compile_commands.json, …): also an obligation that cannot be checked
            import traceback
            ctx.obligation_broken("stage G: Gen/Kernels.lean cannot be regenerated (%s)" % type(e).__name__, traceback.format_exc())
            return list(PROP_MODULES_BY_PID.get(ctx.pid, PROP_MODULES))
    mine = {key_of(sp) for sp in KERNELS if ctx.pid in sp.get("props", DEFAULT_PROPS)}
    for name, why in failures:
        if name in mine:
            ctx.obligation_broken("stage G: kernel `%s` no longer translates into the supported subset" % name, why)
        else:
            ctx.log("kernels: `%s` (bridged for another property) does not translate: %s" % (name, why[:200]))
    ctx.cov.setdefault("kernels", {}).update({"translated": info["translated"], "failed": info["failed"], "grid_points": info["grid_points"],
                                             "stage_g_s": info["t_total_s"]})
    ctx.log("kernels: %d translated, %d failed, %d grid points, %.1fs" % (len(info["translated"]), len(failures), info["grid_points"], info["t_total_s"]))
    # diagnostic search: concrete arguments on which the compiled C kernel and its hand model disagree
    try:
        dis = search_disagreements(info)
    except Exception as e:
        dis = []
        ctx.log("kernels: diagnostic search failed (%s)" % e)
    by = {}
    for name, p, v, m in dis:
        by.setdefault(name, []).append((p, v, m))
    for name, l in by.items():
        p, v, m = l[0]
        if name not in mine and not name.startswith("("):
            continue
        ctx.obligation_broken("kernel `%s` disagrees with its hand model, e.g. at arguments %s: the code returns %s, the model %s (%d grid points differ)"
                              % (name, p, v, m, len(l)), repr(l[:20]))
    ctx.cov["kernels"]["model_disagreements"] = {k: len(v) for k, v in by.items()}
    return list(PROP_MODULES_BY_PID.get(ctx.pid, PROP_MODULES))


if __name__ == "__main__":
    okb, blog, _ = vlib.c_build("asan", targets=["liblzma"])
    if not okb:
        print(blog[-3000:])
        sys.exit(2)
    failures, info = regenerate(write="--dry" not in sys.argv)
    print("translated:", ", ".join(info["translated"]))
    for n, w in failures:
        print("FAILED %s: %s" % (n, w[:600]))
    for l in info["log"]:
        print(l[:3000])
    print("grid points %d; ast %.1fs const %.1fs grid %.1fs total %.1fs" % (info["grid_points"], info["t_ast_s"], info["t_const_s"], info["t_grid_s"], info["t_total_s"]))
    sys.exit(1 if failures else 0)
