#!/usr/bin/env python3
"""Confirm a seeded property-breaking change and run the check against it.
   tools/seedtest.py C11 1 [--src /tmp/seed-C11/out/1] [--tier quick|thorough|both]
Steps: scratch worktree of /repo HEAD + patch -> build + ctest (must pass) -> demo fails with / passes without the
change -> VERIF_REPO=<worktree> ./check Cnn -> record in /verif/seeded/<id>-<k>/meta.json -> clean up."""
import argparse, hashlib, json, os, shutil, subprocess, sys, time
ROOT = os.path.dirname(os.path.dirname(os.path.abspath(__file__)))

def sh(cmd, **kw):
    p = subprocess.run(cmd, shell=isinstance(cmd, str), stdout=subprocess.PIPE, stderr=subprocess.STDOUT, **kw)
    return p.returncode, p.stdout.decode("utf-8", "replace")

def build(src, bd):
    rc, out = sh("cmake -G Ninja -S %s -B %s -DCMAKE_BUILD_TYPE=RelWithDebInfo -DCMAKE_C_FLAGS=-Wno-error >/dev/null 2>&1 && cmake --build %s 2>&1 | tail -3" % (src, bd, bd))
    return rc == 0 and os.path.exists(os.path.join(bd, "xz")), out

def main():
    ap = argparse.ArgumentParser()
    ap.add_argument("pid"); ap.add_argument("k")
    ap.add_argument("--src", default=None)
    ap.add_argument("--tier", default="quick")
    ap.add_argument("--skip-confirm", action="store_true")
    ap.add_argument("--also", default="", help="comma-separated other property checks to run against the same change")
    a = ap.parse_args()
    pid = a.pid.upper()
    src = a.src or "/tmp/seed-%s/out/%s" % (pid, a.k)
    dest = os.path.join(ROOT, "seeded", "%s-%s" % (pid, a.k))
    os.makedirs(dest, exist_ok=True)
    for f in (os.listdir(src) if os.path.isdir(src) else []):
        if f == "meta.json" and os.path.exists(os.path.join(dest, f)):
            continue  # keep the recorded confirmation
        if f == "patch.diff" and os.path.exists(os.path.join(dest, "patch.orig.diff")):
            continue  # patch.diff was rebased by hand onto the hooked tree; the author's version is patch.orig.diff
        if os.path.isfile(os.path.join(src, f)) and os.path.getsize(os.path.join(src, f)) < 2_000_000:
            shutil.copy(os.path.join(src, f), dest)
    patch = os.path.join(dest, "patch.diff")
    wt = "/tmp/st-%s-%s" % (pid, a.k)
    sh("git -C /repo worktree remove --force %s" % wt); shutil.rmtree(wt, ignore_errors=True)
    head = subprocess.check_output("git -C /repo rev-parse --short HEAD", shell=True).decode().strip()
    rc, out = sh("git -C /repo worktree add --detach %s HEAD" % wt)
    meta = {}
    try:
        meta = json.load(open(os.path.join(dest, "meta.json")))
    except Exception:
        pass
    res = {"repo_head": head, "commands": [], "when": time.strftime("%Y-%m-%d %H:%M:%S")}
    try:
        rc, out = sh("git -C %s apply %s" % (wt, patch))
        if rc != 0:
            # hook commits made after the change was written shift/alter nearby context lines: retry with fuzz
            rc, out2 = sh("patch -p1 -F3 --no-backup-if-mismatch -d %s < %s" % (wt, patch))
            out += out2
            res["applied_with_fuzz"] = rc == 0
        res["patch_applies"] = rc == 0
        if rc != 0:
            res["apply_log"] = out[-1500:]
            raise SystemExit
        if not a.skip_confirm:
            ok, out = build(wt, wt + "/_b")
            res["builds"] = ok
            rc, out = sh("ctest --test-dir %s/_b -j8 --timeout 900 2>&1 | tail -4" % wt)
            res["tests_pass_with_change"] = "100% tests passed" in out
            res["commands"].append("cmake+ninja+ctest in scratch worktree: " + out.strip().split("\n")[0])
            clean = "/tmp/st-clean-" + head
            if not os.path.exists(clean + "/_b/xz"):
                sh("git -C /repo worktree remove --force %s" % clean); shutil.rmtree(clean, ignore_errors=True)
                sh("git -C /repo worktree add --detach %s HEAD" % clean)
                build(clean, clean + "/_b")
            rd = os.path.join(dest, "run_demo.sh")
            rc1, o1 = sh("sh %s %s/_b" % (rd, wt), cwd=dest, timeout=1800)
            rc0, o0 = sh("sh %s %s/_b" % (rd, clean), cwd=dest, timeout=1800)
            res["demo_fails_with_change"] = rc1 != 0
            res["demo_passes_without_change"] = rc0 == 0
            res["demo_tail_with_change"] = o1[-600:]
            if rc0 != 0:
                res["demo_tail_without_change"] = o0[-600:]
            shutil.rmtree(wt + "/_b", ignore_errors=True)
        tiers = ["quick", "thorough"] if a.tier == "both" else [a.tier]
        res["check"] = {}
        for t in tiers:
            t0 = time.time()
            env = dict(os.environ, VERIF_REPO=wt)
            rc, out = sh([os.path.join(ROOT, "check"), pid, "--tier", t], env=env, cwd=ROOT, timeout=7200)
            viol = [l for l in out.split("\n") if l.startswith("VIOLATION")]
            res["check"][t] = {"exit": rc, "violation_lines": viol[:6], "n_violation_lines": len(viol),
                               "no_failing_input_found_only": bool(viol) and all("no-failing-input-found" in v for v in viol),
                               "wall_s": round(time.time() - t0, 1),
                               "log_tail": out[-1500:] if rc != 1 else ""}
            if rc == 1 and viol:
                break
        res["caught"] = any(v["exit"] == 1 and v["n_violation_lines"] > 0 for v in res["check"].values())
        if a.also:
            res["cross_checks"] = {}
            for other in a.also.split(","):
                t0 = time.time()
                env = dict(os.environ, VERIF_REPO=wt)
                rc, out = sh([os.path.join(ROOT, "check"), other, "--tier", "quick"], env=env, cwd=ROOT, timeout=7200)
                viol = [l for l in out.split("\n") if l.startswith("VIOLATION")]
                res["cross_checks"][other] = {"exit": rc, "n_violation_lines": len(viol), "violation_lines": viol[:3], "wall_s": round(time.time() - t0, 1)}
    except SystemExit:
        pass
    finally:
        alt = os.path.join(ROOT, ".cache", "alt-" + hashlib.sha1(os.path.abspath(wt).encode()).hexdigest()[:10])
        shutil.rmtree(alt, ignore_errors=True)
        sh("git -C /repo worktree remove --force %s" % wt); shutil.rmtree(wt, ignore_errors=True)
    if a.skip_confirm and "coordinator_confirmation" in meta:
        # re-run of the check after it was strengthened: keep the original confirmation, append the new result
        meta["coordinator_confirmation"].setdefault("rechecks", []).append(
            {"when": res["when"], "repo_head": res["repo_head"], "check": res.get("check"), "caught": res.get("caught"),
             "cross_checks": res.get("cross_checks")})
        meta["coordinator_confirmation"]["caught_after_strengthening"] = res.get("caught")
    else:
        meta["coordinator_confirmation"] = res
    meta.setdefault("property", pid)
    json.dump(meta, open(os.path.join(dest, "meta.json"), "w"), indent=1)
    print(json.dumps({k: v for k, v in res.items() if k != "commands"}, indent=1)[:3000])
    # regenerate Gen from /repo (a VERIF_REPO run rewrites lean/XzVerif/Gen/Cnn.lean)
    return 0

if __name__ == "__main__":
    sys.exit(main())
