"""C07 helpers: .xz container surgery (pure Python, used to build corrupted / truncated / concatenated inputs)
and the corpus generator for the threaded-decoder checks."""
import os, struct, zlib, hashlib, random, subprocess

# ---------------------------------------------------------------------------------------------
# minimal .xz container parsing (single Stream), enough to locate Blocks, Index and Footer
# ---------------------------------------------------------------------------------------------

def vli_decode(b, pos):
    v, shift = 0, 0
    while True:
        c = b[pos]
        pos += 1
        v |= (c & 0x7F) << shift
        if not (c & 0x80):
            return v, pos
        shift += 7


def vli_encode(v):
    out = bytearray()
    while v >= 0x80:
        out.append((v & 0x7F) | 0x80)
        v >>= 7
    out.append(v)
    return bytes(out)


CHECK_SIZES = [0, 4, 4, 4, 8, 8, 8, 16, 16, 16, 32, 32, 32, 64, 64, 64]


def parse_stream(d):
    """d = one complete Stream without padding. Returns dict(check, blocks=[dict(off, hsize, unpadded, usize, total)], index_off, index_size, footer_off)."""
    assert d[:6] == b"\xfd7zXZ\x00" and d[-2:] == b"YZ", "not a single complete .xz Stream"
    check = d[7] & 0x0F
    footer_off = len(d) - 12
    backward = (struct.unpack("<I", d[footer_off + 4:footer_off + 8])[0] + 1) * 4
    index_off = footer_off - backward
    assert d[index_off] == 0
    n, p = vli_decode(d, index_off + 1)
    recs = []
    for _ in range(n):
        up, p = vli_decode(d, p)
        us, p = vli_decode(d, p)
        recs.append((up, us))
    blocks, off = [], 12
    for up, us in recs:
        hsize = (d[off] + 1) * 4
        total = (up + 3) & ~3
        blocks.append(dict(off=off, hsize=hsize, unpadded=up, usize=us, total=total))
        off += total
    assert off == index_off, (off, index_off)
    return dict(check=check, check_size=CHECK_SIZES[check], blocks=blocks, index_off=index_off, index_size=backward, footer_off=footer_off)


def fix_block_header_crc(d, off):
    hsize = (d[off] + 1) * 4
    crc = zlib.crc32(bytes(d[off:off + hsize - 4])) & 0xFFFFFFFF
    d[off + hsize - 4:off + hsize] = struct.pack("<I", crc)


def rebuild_index(recs):
    """Index field bytes for the given (unpadded, uncompressed) records."""
    body = b"\x00" + vli_encode(len(recs)) + b"".join(vli_encode(a) + vli_encode(b) for a, b in recs)
    body += b"\x00" * ((-len(body)) % 4)
    return body + struct.pack("<I", zlib.crc32(body) & 0xFFFFFFFF)


def rebuild_footer(index_size, flags2):
    body = struct.pack("<I", index_size // 4 - 1) + bytes(flags2)
    return struct.pack("<I", zlib.crc32(body) & 0xFFFFFFFF) + body + b"YZ"



# ---------------------------------------------------------------------------------------------
# building Streams from Block parts (Block Headers re-encoded by hand: empty Blocks, extra filters)
# ---------------------------------------------------------------------------------------------

def parse_block_header(d, off):
    """Returns dict(hsize, csize|None, usize|None, filters=[(id, props bytes)])."""
    hsize = (d[off] + 1) * 4
    flags = d[off + 1]
    p = off + 2
    cs = us = None
    if flags & 0x40:
        cs, p = vli_decode(d, p)
    if flags & 0x80:
        us, p = vli_decode(d, p)
    filters = []
    for _ in range((flags & 3) + 1):
        fid, p = vli_decode(d, p)
        n, p = vli_decode(d, p)
        filters.append((fid, bytes(d[p:p + n])))
        p += n
    return dict(hsize=hsize, csize=cs, usize=us, filters=filters)


def build_block_header(csize, usize, filters):
    body = bytearray([(len(filters) - 1) | (0x40 if csize is not None else 0) | (0x80 if usize is not None else 0)])
    if csize is not None:
        body += vli_encode(csize)
    if usize is not None:
        body += vli_encode(usize)
    for fid, props in filters:
        body += vli_encode(fid) + vli_encode(len(props)) + props
    total = 1 + len(body) + 4
    total += (-total) % 4
    h = bytearray([total // 4 - 1]) + body
    h += bytes(total - 4 - len(h))
    return bytes(h) + struct.pack("<I", zlib.crc32(bytes(h)) & 0xFFFFFFFF)


def block_parts(d, st, k):
    """(header, compressed data, check, usize) of Block k of the parsed Stream."""
    b = st["blocks"][k]
    cs = st["check_size"]
    # layout: Block Header | Compressed Data | Block Padding | Check; Unpadded Size = header + data + check
    end = b["off"] + b["total"]
    return (bytes(d[b["off"]:b["off"] + b["hsize"]]), bytes(d[b["off"] + b["hsize"]:b["off"] + b["unpadded"] - cs]),
            bytes(d[end - cs:end]), b["usize"])


def empty_check(check_id):
    n = CHECK_SIZES[check_id]
    return hashlib.sha256(b"").digest() if check_id == 10 else bytes(n)      # CRC32 / CRC64 of no data are zero


def assemble_stream(header12, footer_flags, parts):
    """parts: [(block header, compressed data, check field, uncompressed size)] -> a complete Stream."""
    out = bytearray(header12)
    recs = []
    for h, data, chk, us in parts:
        blk = h + data
        out += blk + bytes((-len(blk)) % 4) + chk
        recs.append((len(blk) + len(chk), us))
    idx = rebuild_index(recs)
    return bytes(out) + idx + rebuild_footer(len(idx), footer_flags)

# ---------------------------------------------------------------------------------------------
# payload data
# ---------------------------------------------------------------------------------------------

def payload(rng, n, kind):
    """kind: 0 text-like (compressible), 1 random (incompressible), 2 mixed, 3 x86-like (E8/E9 calls), 4 zeros"""
    if n == 0:
        return b""
    if kind == 4:
        return bytes(n)
    if kind == 1:
        return rng.randbytes(n)
    out = bytearray()
    words = [b"alpha", b"beta", b"gamma", b"delta", b"the", b"quick", b"brown", b"fox", b"\x00\x00\x00", b"0123456789"]
    while len(out) < n:
        r = rng.random()
        if kind == 3 and r < 0.25:
            out += bytes([rng.choice((0xE8, 0xE9))]) + struct.pack("<i", rng.randrange(-70000, 70000))
        elif kind in (2, 3) and r < 0.45:
            out += rng.randbytes(rng.randrange(1, 400))
        else:
            out += rng.choice(words) + b" "
    return bytes(out[:n])


# ---------------------------------------------------------------------------------------------
# corpus
# ---------------------------------------------------------------------------------------------

class Corpus:
    """Builds the input files of one check run into `outdir`. Every entry:
    dict(path, name, kind, bcj(bool), nblocks, sized(bool), valid(bool), concatenated(bool), note)"""

    def __init__(self, xz, outdir, rng, log=lambda m: None):
        self.xz, self.outdir, self.rng, self.log = xz, outdir, rng, log
        self.entries = []
        os.makedirs(outdir, exist_ok=True)

    def _xz(self, data, args):
        p = subprocess.run([self.xz, "-c"] + args, input=data, stdout=subprocess.PIPE, stderr=subprocess.PIPE, timeout=120,
                           env=dict(os.environ, ASAN_OPTIONS="detect_leaks=0"))
        if p.returncode != 0:
            raise RuntimeError("xz %s failed: %s" % (args, p.stderr.decode("utf-8", "replace")[-400:]))
        return p.stdout

    def mem_figures(self, path, st):
        """[(mem_next_block, outbuf memory)] per Block: raw decoder memory usage of the filter chain (xz --robot --list -vv),
        plus the input buffer (Compressed Size rounded up to 4, plus the Check) and the output buffer (lzma_outbuf header +
        Uncompressed Size). Only used to aim the memlimit_threading sweep; the exact values do not matter."""
        try:
            p = subprocess.run([self.xz, "--robot", "--list", "-vv", path], stdout=subprocess.PIPE, stderr=subprocess.PIPE,
                               timeout=60, env=dict(os.environ, ASAN_OPTIONS="detect_leaks=0"))
            if p.returncode != 0:
                return None
            out = []
            for line in p.stdout.decode("utf-8", "replace").splitlines():
                f = line.split("\t")
                if f[0] == "block" and len(f) >= 15:
                    usize, csize, memusage = int(f[7]), int(f[13]), int(f[14])
                    outbuf = usize + 64
                    out.append((memusage + ((csize + 3) & ~3) + st["check_size"] + outbuf, outbuf))
            return out or None
        except Exception:
            return None

    def add(self, name, data, **kw):
        path = os.path.join(self.outdir, name + ".xz")
        with open(path, "wb") as f:
            f.write(data)
        e = dict(path=path, name=name, size=len(data), sha1=hashlib.sha1(data).hexdigest()[:12])
        e.update(kw)
        self.entries.append(e)
        return e

    def build(self, quick, repo):
        rng = self.rng
        bases = []   # (name, bytes, meta)
        specs = [
            # name, size, payload kind, xz args, sized, bcj
            ("t4-crc64", rng.randrange(60000, 140000), 0, ["-T4", "--block-size=%d" % rng.randrange(12000, 40000), "-0"], True, False),
            ("t3-sha256-mixed", rng.randrange(50000, 120000), 2, ["-T3", "--block-size=%d" % rng.randrange(15000, 30000), "-0", "-Csha256"], True, False),
            ("t2-crc32-big", rng.randrange(150000, 260000), 2, ["-T2", "--block-size=%d" % rng.randrange(50000, 90000), "--lzma2=preset=0,dict=64KiB", "-Ccrc32"], True, False),
            ("t2-none-small", rng.randrange(3000, 20000), 0, ["-T2", "--block-size=%d" % rng.randrange(800, 4000), "--lzma2=preset=0,dict=4KiB", "-Cnone"], True, False),
            ("t1-nosize", rng.randrange(40000, 100000), 0, ["-T1", "--block-size=%d" % rng.randrange(10000, 30000), "-0"], False, False),
            ("t4-delta", rng.randrange(40000, 90000), 2, ["-T4", "--block-size=%d" % rng.randrange(10000, 25000), "--delta=dist=%d" % rng.randrange(1, 9), "--lzma2=preset=0,dict=16KiB"], True, False),
            ("t4-x86", rng.randrange(40000, 90000), 3, ["-T4", "--block-size=%d" % rng.randrange(10000, 25000), "--x86", "--lzma2=preset=0,dict=64KiB"], True, True),
            ("t3-random-incompressible", rng.randrange(50000, 110000), 1, ["-T3", "--block-size=%d" % rng.randrange(20000, 40000), "-0"], True, False),
            ("t4-zeros", rng.randrange(100000, 400000), 4, ["-T4", "--block-size=%d" % rng.randrange(30000, 90000), "-0"], True, False),
            ("t4-one-block", rng.randrange(5000, 30000), 0, ["-T4", "--block-size=1MiB", "-0"], True, False),
            ("t4-empty", 0, 0, ["-T4", "-0"], True, False),
        ]
        bl = "1:%d,2:%d,1:%d,3:%d,0" % (rng.randrange(3000, 20000), rng.randrange(5000, 30000), rng.randrange(1, 9000), rng.randrange(2000, 20000))
        specs.append(("t3-blocklist-filters", rng.randrange(60000, 120000), 2,
                      ["-T3", "--filters1=lzma2:dict=4KiB", "--filters2=delta:dist=3 lzma2:dict=1MiB", "--filters3=lzma2:dict=64KiB,lc=0,lp=2", "--block-list=" + bl], True, False))
        specs.append(("t1-blocklist-nosize", rng.randrange(60000, 120000), 2,
                      ["-T1", "--filters1=lzma2:dict=4KiB", "--filters2=delta:dist=3 lzma2:dict=1MiB", "--filters3=lzma2:dict=64KiB", "--block-list=" + bl], False, False))
        if not quick:
            specs += [
                ("t8-many-blocks", rng.randrange(100000, 200000), 2, ["-T8", "--block-size=%d" % rng.randrange(4000, 9000), "--lzma2=preset=0,dict=4KiB"], True, False),
                ("t4-arm64", rng.randrange(40000, 90000), 2, ["-T4", "--block-size=%d" % rng.randrange(10000, 25000), "--arm64", "--lzma2=preset=0,dict=64KiB"], True, True),
                ("t2-big-blocks", rng.randrange(500000, 900000), 2, ["-T2", "--block-size=%d" % rng.randrange(150000, 300000), "-0"], True, False),
            ]
        # alternating small / large Blocks: a worker that finished a small Block is recycled for a later small Block while the
        # large Block in between is still being decoded
        alt = []
        for _ in range(3):
            alt += [rng.randrange(1500, 5000), rng.randrange(60000, 110000)]
        alt += [rng.randrange(1500, 5000)]
        specs.append(("t2-alt-blocks", sum(alt) + rng.randrange(2000, 6000), 2,
                      ["-T2", "--lzma2=preset=0,dict=64KiB", "--block-list=" + ",".join(str(a) for a in alt) + ",0"], True, False))
        for name, size, kind, args, sized, bcj in specs:
            raw = payload(rng, size, kind)
            x = self._xz(raw, args)
            st = parse_stream(x)
            bases.append((name, x, dict(sized=sized, bcj=bcj, nblocks=len(st["blocks"]), usize=size)))
            e = self.add(name, x, kind="valid", valid=True, concatenated=False, **bases[-1][2])
            if sized and len(st["blocks"]) >= 3:
                # (mem_next_block, outbuf memory) per Block as SEQ_BLOCK_INIT computes them, for the fine memlimit_threading sweep
                mf = self.mem_figures(e["path"], st)
                if mf:
                    e["memfig"] = mf

        def b(n):
            for nm, x, m in bases:
                if nm == n:
                    return bytearray(x), m
            raise KeyError(n)

        # ---- corruptions (per base with >= 2 blocks)
        for nm, x, m in bases:
            if m["nblocks"] < 2:
                continue
            st = parse_stream(x)
            mid = st["blocks"][min(len(st["blocks"]) - 1, max(1, len(st["blocks"]) // 2))]
            first, last = st["blocks"][0], st["blocks"][-1]
            meta = dict(sized=m["sized"], bcj=m["bcj"], nblocks=m["nblocks"], usize=m["usize"], valid=False, concatenated=False)
            # flip a byte inside the compressed data of the middle block
            d = bytearray(x)
            pos = mid["off"] + mid["hsize"] + rng.randrange(1, max(2, mid["unpadded"] - mid["hsize"] - st["check_size"]))
            d[pos] ^= 1 << rng.randrange(8)
            self.add(nm + "+corrupt-mid-data", d, kind="corrupt-data", **meta)
            # flip a byte in the first block's data (error in the oldest buffer while later ones run)
            d = bytearray(x)
            d[first["off"] + first["hsize"] + rng.randrange(1, max(2, first["unpadded"] - first["hsize"] - st["check_size"]))] ^= 0x10
            self.add(nm + "+corrupt-first-data", d, kind="corrupt-data", **meta)
            # flip a byte in the last block
            d = bytearray(x)
            d[last["off"] + last["hsize"] + rng.randrange(0, max(1, last["unpadded"] - last["hsize"] - st["check_size"]))] ^= 0x04
            self.add(nm + "+corrupt-last-data", d, kind="corrupt-data", **meta)
            if st["check_size"]:
                d = bytearray(x)
                d[mid["off"] + mid["unpadded"] - 1] ^= 0x80
                self.add(nm + "+corrupt-mid-check", d, kind="corrupt-check", **meta)
            # Block Header of the middle block: CRC32 broken (error found by the main thread)
            d = bytearray(x)
            d[mid["off"] + mid["hsize"] - 1] ^= 0xFF
            self.add(nm + "+bad-mid-header-crc", d, kind="bad-header", **meta)
            # Block Header with an unsupported filter id (valid CRC): LZMA_OPTIONS_ERROR from the main thread
            d = bytearray(x)
            flags = d[mid["off"] + 1]
            p = mid["off"] + 2
            if flags & 0x40:
                _, p = vli_decode(d, p)
            if flags & 0x80:
                _, p = vli_decode(d, p)
            if d[p] < 0x80:
                d[p] = 0x7F   # filter id 0x7F does not exist
                fix_block_header_crc(d, mid["off"])
                self.add(nm + "+unsupported-filter-mid", d, kind="bad-header", **meta)
            if m["sized"]:
                # Uncompressed Size in the header of the middle block off by one (valid CRC): the Block decoder must reject
                for delta, tag in ((1, "usize-plus1"), (-1, "usize-minus1")):
                    d = bytearray(x)
                    p = mid["off"] + 2
                    cs, p2 = vli_decode(d, p)
                    us, p3 = vli_decode(d, p2)
                    enc = vli_encode(us + delta)
                    if us + delta >= 0 and len(enc) == p3 - p2:
                        d[p2:p3] = enc
                        fix_block_header_crc(d, mid["off"])
                        self.add(nm + "+" + tag, d, kind="bad-sizes", **meta)
                # Compressed Size smaller by 4 (valid CRC, keeps alignment)
                d = bytearray(x)
                p = mid["off"] + 2
                cs, p2 = vli_decode(d, p)
                enc = vli_encode(cs - 4) if cs > 4 else b""
                if len(enc) == p2 - p:
                    d[p:p2] = enc
                    fix_block_header_crc(d, mid["off"])
                    self.add(nm + "+csize-minus4", d, kind="bad-sizes", **meta)
            # ---- truncations
            cuts = [("trunc-mid-block", mid["off"] + mid["hsize"] + (mid["unpadded"] - mid["hsize"]) // 2),
                    ("trunc-mid-header", mid["off"] + 3),
                    ("trunc-at-block-boundary", mid["off"]),
                    ("trunc-last-block-1", last["off"] + last["total"] - 1),
                    ("trunc-mid-index", st["index_off"] + 2),
                    ("trunc-mid-footer", st["footer_off"] + 5)]
            if nm == "t2-alt-blocks":
                # input ends inside a small Block that follows a large one (and inside the large one right after a small one)
                for j in range(2, len(st["blocks"])):
                    bj = st["blocks"][j]
                    body = bj["unpadded"] - bj["hsize"] - st["check_size"]
                    cuts.append(("trunc-in-block-%d-mid" % j, bj["off"] + bj["hsize"] + max(1, body // 2)))
                    cuts.append(("trunc-in-block-%d-early" % j, bj["off"] + bj["hsize"] + min(max(1, body - 1), 24)))
                    cuts.append(("trunc-in-block-%d-late" % j, bj["off"] + bj["hsize"] + max(1, body - 3)))
            for tag, cut in cuts:
                self.add(nm + "+" + tag, x[:cut], kind="truncated", **meta)
            # ---- bad Index / Footer
            recs = [(bk["unpadded"], bk["usize"]) for bk in st["blocks"]]
            flags2 = x[st["footer_off"] + 8:st["footer_off"] + 10]
            r2 = list(recs)
            k = rng.randrange(len(r2))
            r2[k] = (r2[k][0], r2[k][1] + 1)
            idx = rebuild_index(r2)
            if len(idx) == st["index_size"]:
                self.add(nm + "+bad-index-record", x[:st["index_off"]] + idx + x[st["footer_off"]:], kind="bad-index", **meta)
            d = bytearray(x)
            d[st["footer_off"] - 1] ^= 1
            self.add(nm + "+bad-index-crc", d, kind="bad-index", **meta)
            idx = rebuild_index(recs[:-1])
            self.add(nm + "+index-missing-record", x[:st["index_off"]] + idx + rebuild_footer(len(idx), flags2), kind="bad-index", **meta)
            d = bytearray(x)
            d[st["footer_off"] + 9] ^= 0x01   # Stream Flags differ between header and footer (CRC not fixed -> DATA_ERROR)
            self.add(nm + "+bad-footer", d, kind="bad-footer", **meta)

        # ---- concatenated Streams and padding
        def cat(name, parts, **kw):
            self.add(name, b"".join(parts), concatenated=True, **kw)
        a, ma = b("t4-crc64")
        n, mn = b("t1-nosize")
        s, ms = b("t2-none-small")
        xb, mx = b("t4-x86")
        common = dict(sized=True, bcj=False, nblocks=ma["nblocks"] + mn["nblocks"], usize=ma["usize"] + mn["usize"])
        cat("cat-sized+nosize", [bytes(a), bytes(n)], kind="concat", valid=True, **common)
        cat("cat-nosize+pad8+sized", [bytes(n), bytes(8), bytes(a)], kind="concat", valid=True, **common)
        cat("cat-sized+pad4+small+pad4", [bytes(a), bytes(4), bytes(s), bytes(4)], kind="concat", valid=True, **common)
        cat("cat-sized+pad3+small", [bytes(a), bytes(3), bytes(s)], kind="concat-badpad", valid=False, **common)
        cat("cat-sized+garbage", [bytes(a), b"garbage!"], kind="concat-garbage", valid=False, **common)
        cat("cat-sized+trailing-pad5", [bytes(a), bytes(5)], kind="concat-badpad", valid=False, **common)
        st = parse_stream(bytes(s))
        cat("cat-sized+corruptsmall+sized", [bytes(a), bytes(s[:st["blocks"][0]["off"] + st["blocks"][0]["hsize"] + 2]) + bytes([s[st["blocks"][0]["off"] + st["blocks"][0]["hsize"] + 2] ^ 0x40]) + bytes(s[st["blocks"][0]["off"] + st["blocks"][0]["hsize"] + 3:]), bytes(a)],
            kind="concat-corrupt", valid=False, **common)
        cat("cat-x86+sized", [bytes(xb), bytes(a)], kind="concat", valid=True, sized=True, bcj=True, nblocks=mx["nblocks"] + ma["nblocks"], usize=mx["usize"] + ma["usize"])

        # ---- a valid Stream (or two) followed, possibly after Stream Padding, by >= 12 bytes that are not a Stream Header:
        #      with LZMA_CONCATENATED this is LZMA_DATA_ERROR whatever LZMA_TELL_* flag fired on the first Stream
        sh, msh = b("t3-sha256-mixed")
        junk12, junk20 = b"\xfd7zXZ\x01" + b"JUNK!!", b"this is not a Stream"
        for tag, first, m1 in (("crc64", a, ma), ("none", s, ms), ("sha256", sh, msh)):
            gm = dict(sized=True, bcj=False, nblocks=m1["nblocks"], usize=m1["usize"], valid=False, kind="concat-garbage")
            cat("cat-%s+junk12" % tag, [bytes(first), junk12], **gm)
            cat("cat-%s+junk20" % tag, [bytes(first), junk20], **gm)
            cat("cat-%s+pad8+junk12" % tag, [bytes(first), bytes(8), junk12], **gm)
            cat("cat-%s+%s+junk20" % (tag, tag), [bytes(first), bytes(first), junk20], **dict(gm, nblocks=2 * m1["nblocks"], usize=2 * m1["usize"]))
        cat("cat-crc64+pad4+none+pad4+junk12", [bytes(a), bytes(4), bytes(s), bytes(4), junk12], sized=True, bcj=False,
            nblocks=ma["nblocks"] + ms["nblocks"], usize=ma["usize"] + ms["usize"], valid=False, kind="concat-garbage")
        # the same with a Check ID this liblzma does not support (ID 2, four bytes like CRC32): LZMA_TELL_UNSUPPORTED_CHECK fires
        c32, mc = b("t2-crc32-big")
        u = bytearray(c32)
        stc = parse_stream(bytes(c32))
        u[7] = (u[7] & 0xF0) | 2
        u[8:12] = struct.pack("<I", zlib.crc32(bytes(u[6:8])) & 0xFFFFFFFF)
        u[stc["footer_off"]:] = rebuild_footer(stc["index_size"], bytes(u[6:8]))
        um = dict(sized=True, bcj=False, nblocks=mc["nblocks"], usize=mc["usize"])
        cat("unsupcheck", [bytes(u)], valid=True, kind="concat", **um)
        cat("cat-unsupcheck+junk12", [bytes(u), junk12], valid=False, kind="concat-garbage", **um)
        cat("cat-unsupcheck+unsupcheck+junk20", [bytes(u), bytes(u), junk20], valid=False, kind="concat-garbage",
            sized=True, bcj=False, nblocks=2 * mc["nblocks"], usize=2 * mc["usize"])

        # ---- Blocks that produce no output: empty Blocks (the Block encoder API can write them, xz never does) and Blocks
        #      rejected at their first byte, as last / interior / only Block; meant to be decoded into an output buffer of
        #      EXACTLY the total size (entry flag `exact`)
        d32 = bytes(c32)
        hdr12, fl2 = d32[:12], d32[6:8]
        p0, p1 = block_parts(d32, stc, 0), block_parts(d32, stc, 1)
        filt = parse_block_header(d32, stc["blocks"][0]["off"])["filters"]
        empty = (build_block_header(1, 0, filt), b"\x00", empty_check(stc["check"]), 0)
        bad0 = (p1[0], bytes([0x03]) + p1[1][1:], p1[2], p1[3])          # 0x03 is not an LZMA2 control byte
        for name, parts, ok in (("e-big+empty", [p0, empty], True), ("e-empty", [empty], True), ("e-big+bad0", [p0, bad0], False),
                                ("e-empty+big", [empty, p0], True), ("e-big+empty+big", [p0, empty, p1], True),
                                ("e-big+empty+empty", [p0, empty, empty], True), ("e-big+big+empty", [p0, p1, empty], True),
                                ("e-bad0", [bad0], False), ("e-big+big+bad0", [p0, p1, bad0], False)):
            us = sum(q[3] for q in parts if q is not bad0)
            self.add(name, assemble_stream(hdr12, fl2, parts), kind="no-output-block", valid=ok, concatenated=False, sized=True,
                     bcj=False, nblocks=len(parts), usize=us, exact=True)

        # ---- a Block (with both size fields, so threaded) whose filter chain passes Block Header decoding and the memory usage
        #      check but is refused when the Block decoder is initialised: ARM BCJ with a start offset that is not a multiple of 4.
        #      As the first Block and as the third (a worker that has never decoded anything gets it).
        da = bytes(a)
        sta = parse_stream(da)
        if len(sta["blocks"]) >= 3:
            pa = [block_parts(da, sta, k) for k in range(3)]

            def misaligned(q):
                hd = parse_block_header(q[0], 0)
                return (build_block_header(hd["csize"], hd["usize"], [(0x07, struct.pack("<I", 2))] + hd["filters"]), q[1], q[2], q[3])
            am = dict(kind="bad-filter-init", valid=False, concatenated=False, sized=True, bcj=False)
            self.add("arm-misaligned-first", assemble_stream(da[:12], da[6:8], [misaligned(pa[0]), pa[1], pa[2]]), nblocks=3, usize=0, **am)
            self.add("arm-misaligned-third", assemble_stream(da[:12], da[6:8], [pa[0], pa[1], misaligned(pa[2])]), nblocks=3,
                     usize=pa[0][3] + pa[1][3], **am)
            self.add("arm-misaligned-second", assemble_stream(da[:12], da[6:8], [pa[0], misaligned(pa[1]), pa[2]]), nblocks=3,
                     usize=pa[0][3], **am)

        # ---- one Stream that mixes Blocks with and without size fields (threaded <-> direct mode inside a Stream)
        def splice(name, first, second, **kw):
            sa, sb = parse_stream(bytes(first)), parse_stream(bytes(second))
            if sa["check"] != sb["check"]:
                return
            body = bytes(first[12:sa["index_off"]]) + bytes(second[12:sb["index_off"]])
            recs = [(bk["unpadded"], bk["usize"]) for bk in sa["blocks"]] + [(bk["unpadded"], bk["usize"]) for bk in sb["blocks"]]
            idx = rebuild_index(recs)
            flags2 = bytes(first[sa["footer_off"] + 8:sa["footer_off"] + 10])
            self.add(name, bytes(first[:12]) + body + idx + rebuild_footer(len(idx), flags2), concatenated=False, **kw)
        mixmeta = dict(sized=True, bcj=False, nblocks=ma["nblocks"] + mn["nblocks"], usize=ma["usize"] + mn["usize"])
        splice("mix-sized-then-nosize", a, n, kind="mixed", valid=True, **mixmeta)
        splice("mix-nosize-then-sized", n, a, kind="mixed", valid=True, **mixmeta)
        splice("mix-sized-nosize-sized", bytearray(open(self.entries[-2]["path"], "rb").read()), a, kind="mixed", valid=True,
               sized=True, bcj=False, nblocks=2 * ma["nblocks"] + mn["nblocks"], usize=2 * ma["usize"] + mn["usize"])
        for e in list(self.entries):
            if e["kind"] == "mixed":
                x = open(e["path"], "rb").read()
                st2 = parse_stream(x)
                k = len(st2["blocks"]) - 1
                bk = st2["blocks"][k]
                d = bytearray(x)
                d[bk["off"] + bk["hsize"] + max(1, (bk["unpadded"] - bk["hsize"]) // 2)] ^= 0x20
                self.add(e["name"] + "+corrupt-last-data", d, kind="mixed-corrupt", valid=False, concatenated=False,
                         sized=True, bcj=False, nblocks=e["nblocks"], usize=e["usize"])
                self.add(e["name"] + "+trunc-mid-last-block", x[:bk["off"] + bk["hsize"] + (bk["unpadded"] - bk["hsize"]) // 2],
                         kind="mixed-truncated", valid=False, concatenated=False, sized=True, bcj=False, nblocks=e["nblocks"], usize=e["usize"])

        # ---- the repository's own test files
        tdir = os.path.join(repo, "tests", "files")
        names = sorted(f for f in os.listdir(tdir) if f.endswith(".xz"))
        if quick:
            names = [f for f in names if any(t in f for t in ("good-1-block_header", "good-2-", "bad-2-", "bad-1-check", "unsupported-check", "unsupported-filter_flags-1", "good-0cat", "good-0catpad", "bad-0catpad", "good-1-x86", "bad-3-index", "good-1-empty-bcj"))]
        for f in names:
            x = open(os.path.join(tdir, f), "rb").read()
            if len(x) > 300000:
                continue
            self.add("repo-" + f[:-3], x, kind="repo-" + f.split("-")[0], valid=f.startswith("good"), concatenated="cat" in f,
                     sized=False, bcj=any(t in f for t in ("x86", "arm", "sparc", "bcj", "riscv", "powerpc", "ia64")), nblocks=-1)
        return self.entries
